(* DataCycle.v -- property C15 "space released by removing, truncating or
   overwriting streams is reused by later allocations; repeating a cycle of
   operations that returns the file to the same logical state leaves the file
   size unchanged from the second repetition on" for cycles that move STREAM
   DATA (NetZero.v has the namespace cycles on files without data).

   Everything is stated over DataPersist2's invariant [CohData'] (cache = disk,
   strict validation, StoreAlloc's SWf, clean free stack, Aux) and uses its run
   equations.  [iter_cycle c j] runs a cycle j times and stops at the first
   failure; the file size is (nsect + 1) * sector length.

   0   resize_empty_big_ids, resize_big_to_zero_ver: the two run equations with
       the chain and the (unchanged) version made explicit
   1   large stream, cycle "resize id n; resize id 0" on an empty stream
       (grow_trunc).  BigCycleReady = empty stream + the free stack ends with
       the k = ceil (n / sector length) sectors the chain will be built from.
         big_cycle_once   one repetition takes exactly these k sectors from the
                          free stack and gives them back: nsect unchanged;
                          the free stack is base ++ nw instead of base ++ rev nw
         big_cycle_iter   every number of repetitions (induction)
         big_cycle_from_mid / big_cycle_stable
                          the FIRST repetition is arbitrary (pure append, pure
                          reuse or MIXED: only its middle state is constrained,
                          by the invariant and "the chain has exactly k
                          sectors"); repetitions 2, 3, ... succeed, nsect stays
                          where repetition 1 left it, the free stack alternates
                          between free m ++ ids and free m ++ rev ids (same
                          set, the released chain in alternating order: the
                          chain is built by popping the END of the stack and
                          released front to back), every other stream keeps
                          its content, every state reopens to itself
         big_cycle_stable_reuse
                          k <= length (free s): no hypothesis on intermediate
                          states; no repetition at all grows the file
   1c  ExampleBig: 5000 bytes (first repetition appends: 15 -> 25 sectors),
       9000 bytes (18 sectors, last one partly used), a MIXED first repetition
       (1 reused + 9 appended), pure reuse with an untouched stack bottom
   3   small streams.  free_mini_sector_count / free_mini_chain_go_count: the
       mini free list gains every released mini sector and loses at most as
       many entries as the MiniFAT is trimmed by; resize_small_to_zero_room:
       after the truncation the mini level has room for the released k mini
       sectors WITHOUT touching the FAT (the container and MiniFAT chains keep
       their sectors).  SmallCycleReady, small_cycle_grow, small_cycle_once,
       small_cycle_iter, small_cycle_from_mid, small_cycle_stable: as in 1, with
       nsect, free stack AND the whole FAT unchanged by repetitions 2, 3, ...
       ExampleSmall: 100 bytes (mini free list), 4000 bytes (the first
       repetition extends the container: 15 -> 23 sectors)
   4   through a handle: HClean, hcycle = [OHSetLen i n; OHSetLen i 0],
       hcycle_iter (j handle cycles run exactly the j store cycles),
       big_hcycle_stable, small_hcycle_stable
   5   the stream stays ("overwriting"): trunc_grow, BigFull,
       overwrite_cycle_once / _iter; through the API: ocycle = [OCreateStream i p
       (create on an existing path truncates it); OHSetLen i n; OHDrop i],
       overwrite_api_stable (path lookup is stable under resize:
       lookup_chain_links, id_of_path_resize)
   2   create / grow / remove.  First CONDITIONAL on the creation step:
       grow_remove_big (the last two steps), CycleRun (each repetition carries
       what DataPersist2 does not prove about api_create_stream as premises),
       create_grow_remove_stable; the premises are checkable on a concrete run
       (created_check, checked_rep, ExampleCycleRun.three_repetitions); the
       API-level cycle by evaluation (ExampleCreateRemove).
   2b-e  then WITHOUT premises about the creation, for a stream created in the
       ROOT storage while the directory table has an unallocated slot (always
       the case from the second repetition on: the removal frees one):
         insert_entry_coh, swfx_payload_new, create_new_stream_cohtree
                          api_create_stream keeps CohTree, allocates nothing,
                          the new stream is empty, all streams keep their bytes
         create_root_level_resolves, create_root_stream_resolves
                          the path resolves to the slot the creation filled
         cgr = create; resize (h_id h) n; remove.  CgrReady, cgr_once,
         cgr_stable       every sequence of repetitions that RUNS TO THE END
                          (iter_cycle = Ok: success of create / remove is a
                          premise, as AllOk in NetZero) keeps nsect, returns
                          the k sectors to the free stack (alternating order),
                          keeps every other stream; cgr_from_mid: the first
                          repetition is arbitrary
         crcycle_run, crcycle_stable   the same as the API calls
                          [OCreateNewStream; OHSetLen; OHDrop; ORemoveStream]
         remove_small_stream_room, CgrSmallReady, cgr_small_once,
         cgr_small_stable, cgr_small_from_mid, crcycle_small_stable
                          the same for a small stream (nsect, free stack and
                          FAT unchanged)
       ExampleCgr, ExampleCgrSmall
   1d  a large stream that keeps its content: grow_cut = "resize id n1; resize id
       n0" (resize_big_reuse_ver, resize_big_release_ver, BigKept,
       grow_cut_once / _iter), ExampleGrowCut
   Stdlib only; no axioms; every proof is complete. *)
From Coq Require Import List NArith ZArith Lia Bool ZifyN ZifyBool Permutation.
From Cfb.model Require Import Base Names Time DirEnt State Alloc Dir Mini Store Handle Open Cfb.
From Cfb.gen Require Import Consts.
From Cfb.proofs Require Import DirProofs ChainProofs.
From Cfb.proofs Require CodecProofs WalkProofs ReuseProofs CoherenceProofs DirCoherence
                        ReopenProofs MutRefine PersistProofs StoreProofs StoreMiniProofs
                        MiniChainProofs HandleFrame TimeProofs QueryRefine StoreAlloc DataPersist
                        TreeProofs WalkSafe DataPersist2.
Import ListNotations.
Open Scope N_scope.

Ltac Zify.zify_post_hook ::= Z.div_mod_to_equations.

Import ReopenProofs PersistProofs.
Import ReuseProofs StoreProofs MiniChainProofs StoreMiniProofs HandleFrame.
Import DataPersist DataPersist2.

Module SA := StoreAlloc.

Notation path := WalkProofs.path.

(* ================================================================== *)
(* 0. the two run equations of DataPersist2 with the chain made        *)
(*    explicit                                                         *)
(* ================================================================== *)

Theorem resize_empty_big_ids : forall s id new_len base nw,
  CohData' s -> SA.empty_stream s id ->
  MINI_STREAM_CUTOFF <= new_len -> new_len <= MAX_REGULAR_SECTOR * slen s -> LenFits s new_len ->
  free s = base ++ rev nw ->
  lenN nw = (slen s + new_len - 1) / slen s ->
  exists s',
    resize id new_len s = (s', Ok tt) /\ CohData' s' /\
    (forall strict, open_model strict (concat_img (img s')) = Ok (reopened s')) /\
    big_content s' id (repeatN 0 new_len) /\
    stream_ids s' id nw /\
    free s' = base /\ nsect s' = nsect s /\ ver s' = ver s /\
    SA.others_kept s s' id /\ (TreePart s -> TreePart s').
Proof.
  intros s id new_len base nw HCD Hemp Hcut Hmax Hlen Hfree Hcount.
  destruct (resize_empty_big_cohdata' s id new_len base nw HCD Hemp Hcut Hmax Hlen Hfree Hcount)
    as (s' & R & HCD' & Hop & _ & HB & Fr & Ns & Ho & HT).
  exists s'. split; [exact R|]. split; [exact HCD'|]. split; [exact Hop|]. split; [exact HB|].
  cut (stream_ids s' id nw /\ ver s' = ver s).
  { intros [A B]. split; [exact A|]. split; [exact Fr|]. split; [exact Ns|]. split; [exact B|].
    split; [exact Ho|exact HT]. }
  pose proof (slen_pos s) as Hsp.
  pose proof HCD as [HC (r & rids & mfids & dids & HSD) HF _].
  pose proof Hemp as (e & Hn & Ht & Hst & Hl0).
  assert (Hpos : 0 < new_len) by (rewrite CUTOFF_val in Hcut; lia).
  destruct (ceil_props (slen s) new_len Hsp Hpos) as [Hc1 Hc2]. rewrite <- Hcount in Hc1, Hc2.
  pose proof (cohdata'_cohX s r rids mfids dids id HCD HSD) as HX.
  assert (Hnwne : nw <> []) by (intros ->; cbn [lenN] in Hc1; lia).
  destruct (grow_ready_from s s r rids mfids dids id [] [] base nw 0 (ready_nil _ _ _ _ _ _ HX) Hfree)
    as (s1 & Hgrow & BR1 & Fr1 & N1 & _ & Hhu).
  cbn [app] in *.
  destruct (big_finish_X s s1 r rids mfids dids id e nw nw new_len HX Hn Ht BR1 (Hhu eq_refl Hnwne) Hcut Hc1 Hlen)
    as (s'' & Eu & _ & _ & _ & _ & _ & Hf' & Hv' & _ & Hd' & _).
  assert (R2 : resize id new_len s = (s'', Ok tt)).
  { unfold resize. sred.
    rewrite (stream_entry_ok s id e Hn Ht). sred. rewrite Hst, Hl0.
    assert (E0 : (MAX_REGULAR_SECTOR * slen s <? new_len) = false) by (apply N.ltb_ge; exact Hmax).
    rewrite E0. sred. rewrite (mask_check_false s new_len Hlen). sred.
    rewrite N.eqb_refl. cbn [N.eqb negb].
    assert (E5 : (new_len <? MINI_STREAM_CUTOFF) = false) by lia. rewrite E5.
    rewrite (chain_new_exec s END_OF_CHAIN IZero [] (SA.chain_of_path _ _ _ (WalkProofs.path_nil _))).
    rewrite (StoreProofs.chain_set_len_grow s (mkChain IZero [] 0) new_len).
    - cbn [c_ids]. change (lenN (@nil N)) with 0. rewrite N.sub_0_r, <- Hcount.
      replace (N.to_nat (lenN nw)) with (length nw) by (rewrite (WalkProofs.lenN_length nw); lia).
      rewrite Hgrow. rewrite SA.chain_start_hd. exact Eu.
    - apply two64_room. exact Hmax.
    - exact Hpos.
    - cbn [c_ids]. change (lenN (@nil N)) with 0. rewrite <- Hcount. lia. }
  assert (s'' = s') by congruence. subst s''.
  split; [|exact Hv'].
  destruct BR1 as (_ & _ & _ & P1 & _).
  exists (set_start_len e (hd END_OF_CHAIN nw) new_len).
  split; [rewrite Hd'; apply nthN_updN_same; eapply nthN_Some_lt; exact Hn|].
  split; [exact Ht|].
  cbn [set_start_len d_start]. rewrite Hf'. apply SA.chain_of_path. exact P1.
Qed.

Theorem resize_big_to_zero_ver : forall s id V ids,
  CohData' s -> big_content s id V -> stream_ids s id ids ->
  exists s',
    resize id 0 s = (s', Ok tt) /\ CohData' s' /\
    (forall strict, open_model strict (concat_img (img s')) = Ok (reopened s')) /\
    SA.empty_stream s' id /\
    free s' = free s ++ ids /\ nsect s' = nsect s /\ ver s' = ver s /\
    SA.others_kept s s' id /\ (TreePart s -> TreePart s').
Proof.
  intros s id V ids HCD HB Hsi.
  destruct (resize_big_to_zero_cohdata' s id V ids HCD HB Hsi)
    as (s' & R & HCD' & Hop & _ & Hem & Fr & Ns & Ho & HT).
  exists s'. split; [exact R|]. split; [exact HCD'|]. split; [exact Hop|]. split; [exact Hem|].
  split; [exact Fr|]. split; [exact Ns|]. split; [|split; [exact Ho|exact HT]].
  pose proof HCD as [HC (r & rids & mfids & dids & HSD) HF Hax].
  destruct (big_entry_of_content s id V ids HB Hsi) as (e & He & Hbe & Hc).
  pose proof Hbe as [Ht Hbig].
  destruct (big_owned s r rids mfids dids id e ids (proj1 HSD) He Hbe Hc) as [_ Hcov].
  pose proof (ids_nonempty s ids _ Hbig Hcov) as Hne.
  destruct (chain_ids_head _ _ _ Hc Hne) as (Hst & tl0 & Eids).
  destruct (free_whole_cohX s r rids mfids dids id e ids HCD HSD He Hbe Hc)
    as (s1 & Efree & HX1 & HQ & Ho1 & Fr1 & N1).
  destruct (SA.Q_fields s s1 HQ) as (_ & _ & _ & Hd & _ & Hv & _).
  pose proof HX1 as (_ & _ & SW1 & _).
  destruct (finish_empty s1 r rids mfids dids id e SW1 ltac:(rewrite Hd; exact He) Ht) as (s'' & Eu & _).
  destruct (empty_finish_X s1 s'' r rids mfids dids id e HX1 ltac:(rewrite Hd; exact He) Ht Eu)
    as (_ & _ & _ & Hv' & _).
  assert (R2 : resize id 0 s = (s'', Ok tt)).
  { unfold resize. sred.
    rewrite (stream_entry_ok s id e He Ht). sred.
    assert (E0 : (MAX_REGULAR_SECTOR * slen s <? 0) = false) by lia. rewrite E0. sred.
    assert (E1 : (stream_len_mask (ver s) <? 0) = false) by lia. rewrite E1. sred.
    assert (E2 : (d_start e =? END_OF_CHAIN) = false) by lia. rewrite E2.
    assert (E3 : (d_len e <? MINI_STREAM_CUTOFF) = false) by lia. rewrite E3.
    rewrite N.eqb_refl. rewrite Efree. sred. exact Eu. }
  assert (s'' = s') by congruence. subst s''. congruence.
Qed.

(* ================================================================== *)
(* 1. the cycle "grow an empty stream to n bytes, truncate it to 0"    *)
(*    on a large stream, at store level                                *)
(* ================================================================== *)

(* one cycle; a failing first half is not followed by the second *)
Definition grow_trunc (id n : N) : M unit := bind (resize id n) (fun _ => resize id 0).

(* j repetitions of a cycle, stopping at the first failure *)
Fixpoint iter_cycle (c : M unit) (j : nat) : M unit :=
  match j with
  | O => ret tt
  | S j' => bind c (fun _ => iter_cycle c j')
  end.

Lemma bind_ok : forall A B (m : M A) (f : A -> M B) s s1 a,
  m s = (s1, Ok a) -> bind m f s = f a s1.
Proof. intros A B m f s s1 a H. unfold bind. rewrite H. reflexivity. Qed.

Lemma iter_cycle_S : forall c j s s1,
  c s = (s1, Ok tt) -> iter_cycle c (S j) s = iter_cycle c j s1.
Proof. intros c j s s1 H. cbn [iter_cycle]. rewrite (bind_ok _ _ _ _ _ _ _ H). reflexivity. Qed.

Lemma iter_cycle_snoc : forall c j s s1 s2,
  iter_cycle c j s = (s1, Ok tt) -> c s1 = (s2, Ok tt) -> iter_cycle c (S j) s = (s2, Ok tt).
Proof.
  intros c j. induction j as [|j IH]; intros s s1 s2 H1 H2.
  - cbn [iter_cycle] in H1. unfold ret in H1. injection H1 as <-.
    rewrite (iter_cycle_S c 0 s s2 H2). reflexivity.
  - cbn [iter_cycle] in H1. unfold bind in H1. destruct (c s) as [sa [[]|k|m|]] eqn:E; try discriminate H1.
    rewrite (iter_cycle_S c (S j) s sa E). exact (IH sa s1 s2 H1 H2).
Qed.

Definition ceil_sectors (s : cstate) (n : N) : N := (slen s + n - 1) / slen s.

(* the state before a repetition: stream [id] is empty, and the free stack
   ends with the sectors [nw] (the next allocation pops the LAST element of the
   stack, so the chain that will be built is exactly [nw], in this order) *)
Record BigCycleReady (s : cstate) (id n : N) (base nw : list N) : Prop := mkBCR {
  bcr_coh : CohData' s;
  bcr_empty : SA.empty_stream s id;
  bcr_free : free s = base ++ rev nw;
  bcr_count : lenN nw = ceil_sectors s n;
  bcr_cut : MINI_STREAM_CUTOFF <= n;
  bcr_max : n <= MAX_REGULAR_SECTOR * slen s;
  bcr_fits : LenFits s n
}.

Lemma slen_of_ver : forall s s', ver s' = ver s -> slen s' = slen s.
Proof. intros s s' H. unfold slen. rewrite H. reflexivity. Qed.

(* one repetition: it succeeds, the stream is built from exactly the sectors
   [nw] and gives them back; the file does not grow; the free stack now ends
   with the same sectors in the opposite order *)
Theorem big_cycle_once : forall s id n base nw,
  BigCycleReady s id n base nw ->
  exists sm s',
    resize id n s = (sm, Ok tt) /\ resize id 0 sm = (s', Ok tt) /\
    grow_trunc id n s = (s', Ok tt) /\
    (* in the middle of the cycle *)
    CohData' sm /\ big_content sm id (repeatN 0 n) /\ stream_ids sm id nw /\
    free sm = base /\ nsect sm = nsect s /\
    (forall strict, open_model strict (concat_img (img sm)) = Ok (reopened sm)) /\
    (* at its end *)
    BigCycleReady s' id n base (rev nw) /\ free s' = base ++ nw /\
    nsect s' = nsect s /\ ver s' = ver s /\
    (forall strict, open_model strict (concat_img (img s')) = Ok (reopened s')) /\
    SA.others_kept s s' id /\ (TreePart s -> TreePart s').
Proof.
  intros s id n base nw [HCD Hemp Hfree Hcount Hcut Hmax Hfit].
  destruct (resize_empty_big_ids s id n base nw HCD Hemp Hcut Hmax Hfit Hfree Hcount)
    as (sm & R1 & HCDm & Hopm & HBm & Hidm & Frm & Nm & Vm & Hom & HTm).
  destruct (resize_big_to_zero_ver sm id _ nw HCDm HBm Hidm)
    as (s' & R2 & HCD' & Hop' & Hem' & Fr' & N' & V' & Ho' & HT').
  assert (Hv : ver s' = ver s) by congruence.
  pose proof (slen_of_ver s s' Hv) as Hsl.
  exists sm, s'. split; [exact R1|]. split; [exact R2|].
  split; [unfold grow_trunc; rewrite (bind_ok _ _ _ _ _ _ _ R1); exact R2|].
  split; [exact HCDm|]. split; [exact HBm|]. split; [exact Hidm|]. split; [exact Frm|].
  split; [exact Nm|]. split; [exact Hopm|].
  split.
  { constructor.
    - exact HCD'.
    - exact Hem'.
    - rewrite rev_involutive, Fr', Frm. reflexivity.
    - rewrite WalkProofs.lenN_rev. unfold ceil_sectors in *. rewrite Hsl. exact Hcount.
    - exact Hcut.
    - rewrite Hsl. exact Hmax.
    - unfold LenFits in *. rewrite Hv. exact Hfit. }
  split; [rewrite Fr', Frm; reflexivity|]. split; [congruence|]. split; [exact Hv|].
  split; [exact Hop'|]. split; [exact (SA.others_kept_trans _ _ _ _ Hom Ho')|].
  intro HT. exact (HT' (HTm HT)).
Qed.

(* the order of the released sectors after j repetitions *)
Definition flip (j : nat) (nw : list N) : list N := if Nat.even j then nw else rev nw.

Lemma flip_S : forall j nw, flip (S j) nw = rev (flip j nw).
Proof.
  intros j nw. unfold flip. rewrite Nat.even_succ, <- Nat.negb_even.
  destruct (Nat.even j); cbn [negb]; [reflexivity|rewrite rev_involutive; reflexivity].
Qed.

Lemma flip_perm : forall j nw, Permutation (flip j nw) nw.
Proof.
  intros j nw. unfold flip. destruct (Nat.even j); [reflexivity|].
  apply Permutation_sym, Permutation_rev.
Qed.

(* every number of repetitions: all succeed, none grows the file *)
Theorem big_cycle_iter : forall j s id n base nw,
  BigCycleReady s id n base nw ->
  exists sj,
    iter_cycle (grow_trunc id n) j s = (sj, Ok tt) /\
    BigCycleReady sj id n base (flip j nw) /\
    nsect sj = nsect s /\ ver sj = ver s /\
    (forall strict, open_model strict (concat_img (img sj)) = Ok (reopened sj)) /\
    SA.others_kept s sj id /\ (TreePart s -> TreePart sj).
Proof.
  induction j as [|j IH]; intros s id n base nw HR.
  - exists s. split; [reflexivity|]. split; [exact HR|]. split; [reflexivity|]. split; [reflexivity|].
    split; [exact (cohdata'_reopens s (bcr_coh _ _ _ _ _ HR))|].
    split; [apply SA.others_kept_refl|]. intro H; exact H.
  - destruct (IH s id n base nw HR) as (sj & Ej & HRj & Nj & Vj & _ & Hoj & HTj).
    destruct (big_cycle_once sj id n base (flip j nw) HRj)
      as (sm & s' & _ & _ & Ec & _ & _ & _ & _ & _ & _ & HR' & _ & N' & V' & Hop' & Ho' & HT').
    exists s'. split; [exact (iter_cycle_snoc _ _ _ _ _ Ej Ec)|].
    split; [rewrite flip_S; exact HR'|]. split; [congruence|]. split; [congruence|].
    split; [exact Hop'|]. split; [exact (SA.others_kept_trans _ _ _ _ Hoj Ho')|].
    intro HT. exact (HT' (HTj HT)).
Qed.

(* ------------------------------------------------------------------ *)
(* 1a. from the middle of the first cycle, however it was reached      *)
(* ------------------------------------------------------------------ *)

(* [m] is the state in the middle of the FIRST repetition: the stream holds
   its n bytes in the chain [ids] of exactly ceil (n / sector length) sectors.
   How [m] was reached does not matter: the first growth may have popped free
   sectors, appended sectors to the file (the file grows), or both.  The
   truncation pushes [ids] on the free stack, and from then on every repetition
   takes exactly these sectors and gives them back. *)
Theorem big_cycle_from_mid : forall m id n V ids,
  CohData' m -> big_content m id V -> stream_ids m id ids ->
  lenN ids = ceil_sectors m n ->
  MINI_STREAM_CUTOFF <= n -> n <= MAX_REGULAR_SECTOR * slen m -> LenFits m n ->
  exists s1,
    resize id 0 m = (s1, Ok tt) /\
    BigCycleReady s1 id n (free m) (rev ids) /\
    free s1 = free m ++ ids /\ nsect s1 = nsect m /\ SA.others_kept m s1 id /\
    forall j, exists sj,
      iter_cycle (grow_trunc id n) j s1 = (sj, Ok tt) /\
      nsect sj = nsect s1 /\
      free sj = free m ++ flip j ids /\
      CohData' sj /\ SA.empty_stream sj id /\
      (forall strict, open_model strict (concat_img (img sj)) = Ok (reopened sj)) /\
      SA.others_kept s1 sj id /\ (TreePart m -> TreePart sj).
Proof.
  intros m id n V ids HCD HB Hsi Hcount Hcut Hmax Hfit.
  destruct (resize_big_to_zero_ver m id V ids HCD HB Hsi)
    as (s1 & R & HCD1 & Hop1 & Hem1 & Fr1 & N1 & V1 & Ho1 & HT1).
  pose proof (slen_of_ver m s1 V1) as Hsl.
  assert (HR : BigCycleReady s1 id n (free m) (rev ids)).
  { constructor.
    - exact HCD1.
    - exact Hem1.
    - rewrite rev_involutive. exact Fr1.
    - rewrite WalkProofs.lenN_rev. unfold ceil_sectors in *. rewrite Hsl. exact Hcount.
    - exact Hcut.
    - rewrite Hsl. exact Hmax.
    - unfold LenFits in *. rewrite V1. exact Hfit. }
  exists s1. split; [exact R|]. split; [exact HR|]. split; [exact Fr1|]. split; [exact N1|].
  split; [exact Ho1|].
  intro j. destruct (big_cycle_iter j s1 id n (free m) (rev ids) HR)
    as (sj & Ej & HRj & Nj & Vj & Hopj & Hoj & HTj).
  exists sj. split; [exact Ej|]. split; [exact Nj|].
  split.
  { rewrite (bcr_free _ _ _ _ _ HRj). f_equal. unfold flip. destruct (Nat.even j).
    - apply rev_involutive.
    - rewrite rev_involutive. reflexivity. }
  split; [exact (bcr_coh _ _ _ _ _ HRj)|]. split; [exact (bcr_empty _ _ _ _ _ HRj)|].
  split; [exact Hopj|]. split; [exact Hoj|]. intro HT. exact (HTj (HT1 HT)).
Qed.

(* ------------------------------------------------------------------ *)
(* 1b. the statement over whole repetitions                            *)
(* ------------------------------------------------------------------ *)

(* First repetition arbitrary (it may grow the file): only its middle state is
   constrained.  Repetitions 2, 3, ... all succeed and leave the sector count,
   hence the file size (nsect + 1) * slen, where repetition 1 left it; the free
   stack after repetition 1 + j is [free m ++ ids] for even j and
   [free m ++ rev ids] for odd j: the same SET of sectors, the released chain in
   alternating order (the chain is rebuilt by popping from the end, and released
   front to back). *)
Theorem big_cycle_stable : forall s m id n V ids,
  resize id n s = (m, Ok tt) ->
  CohData' m -> big_content m id V -> stream_ids m id ids ->
  lenN ids = ceil_sectors m n ->
  MINI_STREAM_CUTOFF <= n -> n <= MAX_REGULAR_SECTOR * slen m -> LenFits m n ->
  exists s1,
    iter_cycle (grow_trunc id n) 1 s = (s1, Ok tt) /\
    nsect s1 = nsect m /\ free s1 = free m ++ ids /\ SA.others_kept m s1 id /\
    forall j, exists sj,
      iter_cycle (grow_trunc id n) (S j) s = (sj, Ok tt) /\
      nsect sj = nsect s1 /\
      free sj = free m ++ flip j ids /\ Permutation (free sj) (free s1) /\
      CohData' sj /\ SA.empty_stream sj id /\
      (forall strict, open_model strict (concat_img (img sj)) = Ok (reopened sj)) /\
      SA.others_kept s1 sj id.
Proof.
  intros s m id n V ids R0 HCD HB Hsi Hcount Hcut Hmax Hfit.
  destruct (big_cycle_from_mid m id n V ids HCD HB Hsi Hcount Hcut Hmax Hfit)
    as (s1 & R1 & HR & Fr1 & N1 & Ho1 & Hall).
  assert (Ec : grow_trunc id n s = (s1, Ok tt)).
  { unfold grow_trunc. rewrite (bind_ok _ _ _ _ _ _ _ R0). exact R1. }
  exists s1. split.
  { rewrite (iter_cycle_S _ 0 s s1 Ec). reflexivity. }
  split; [exact N1|]. split; [exact Fr1|]. split; [exact Ho1|].
  intro j. destruct (Hall j) as (sj & Ej & Nj & Frj & HCDj & Hemj & Hopj & Hoj & _).
  exists sj. split; [rewrite (iter_cycle_S _ j s s1 Ec); exact Ej|]. split; [exact Nj|].
  split; [exact Frj|]. split.
  { rewrite Frj, Fr1. apply Permutation_app_head. apply flip_perm. }
  split; [exact HCDj|]. split; [exact Hemj|]. split; [exact Hopj|exact Hoj].
Qed.

(* Pure reuse: the free stack of the start state already holds the k sectors.
   Then nothing is assumed about intermediate states, and no repetition at all
   (the first included) grows the file. *)
Theorem big_cycle_stable_reuse : forall s id n,
  CohData' s -> SA.empty_stream s id ->
  MINI_STREAM_CUTOFF <= n -> n <= MAX_REGULAR_SECTOR * slen s -> LenFits s n ->
  ceil_sectors s n <= lenN (free s) ->
  exists base nw,
    free s = base ++ rev nw /\ lenN nw = ceil_sectors s n /\
    forall j, exists sj,
      iter_cycle (grow_trunc id n) j s = (sj, Ok tt) /\
      nsect sj = nsect s /\
      free sj = base ++ rev (flip j nw) /\ Permutation (free sj) (free s) /\
      CohData' sj /\ SA.empty_stream sj id /\
      (forall strict, open_model strict (concat_img (img sj)) = Ok (reopened sj)) /\
      SA.others_kept s sj id /\ (TreePart s -> TreePart sj).
Proof.
  intros s id n HCD Hemp Hcut Hmax Hfit Hroom.
  destruct (split_stack (free s) (N.to_nat (ceil_sectors s n))) as (base & nw & Hfree & Hlen).
  { rewrite N2Nat.id. exact Hroom. }
  assert (Hcount : lenN nw = ceil_sectors s n) by (rewrite (WalkProofs.lenN_length nw); lia).
  exists base, nw. split; [exact Hfree|]. split; [exact Hcount|].
  assert (HR : BigCycleReady s id n base nw) by (constructor; assumption).
  intro j. destruct (big_cycle_iter j s id n base nw HR) as (sj & Ej & HRj & Nj & Vj & Hopj & Hoj & HTj).
  exists sj. split; [exact Ej|]. split; [exact Nj|]. split; [exact (bcr_free _ _ _ _ _ HRj)|].
  split.
  { rewrite (bcr_free _ _ _ _ _ HRj), Hfree. apply Permutation_app_head.
    etransitivity; [apply Permutation_sym, Permutation_rev|].
    etransitivity; [apply flip_perm|apply Permutation_rev]. }
  split; [exact (bcr_coh _ _ _ _ _ HRj)|]. split; [exact (bcr_empty _ _ _ _ _ HRj)|].
  split; [exact Hopj|]. split; [exact Hoj|exact HTj].
Qed.

(* ------------------------------------------------------------------ *)
(* 1c. a checker for the middle state, and non-vacuity                 *)
(* ------------------------------------------------------------------ *)

Lemma big_content_of_entry : forall s id e ids,
  nthN (dirs s) id = Some e -> d_type e = TStream -> MINI_STREAM_CUTOFF <= d_len e ->
  chain_ids_of (fat s) (d_start e) = Ok ids ->
  SA.good_chain_b s ids = true -> d_len e <= slen s * lenN ids ->
  big_content s id (takeN (d_len e) (chain_content s ids)) /\ stream_ids s id ids.
Proof.
  intros s id e ids He Ht Hcut Hc Hg Hle. split.
  - exists e, ids. split; [exact He|]. split; [exact Ht|]. split; [exact Hcut|]. split; [exact Hc|].
    split; [apply SA.good_chain_b_sound; exact Hg|]. split; [exact Hle|reflexivity].
  - exists e. split; [exact He|]. split; [exact Ht|exact Hc].
Qed.

(* the three sizes after repetitions 1, 2, 3 *)
Definition sizes3 (c : M unit) (s : cstate) : list (N * bool) :=
  map (fun j => let r := iter_cycle c j s in
                (nsect (fst r), match snd r with Ok _ => true | _ => false end))
      [1%nat; 2%nat; 3%nat].

Module ExampleBig.
  Import HandleFrame.Example DataPersist.Example.
  Import DataPersist2.Example1 DataPersist2.Example3 DataPersist2.Example5.

  Ltac arith := vm_compute; first [reflexivity | discriminate | (intro; discriminate)].

  (* fH: "/b" 5000 bytes (slot 2, sectors 4..13), "/c" 70 bytes (slot 3, small),
     "/d" empty (slot 4); version 3 (512-byte sectors), 15 sectors, no free
     sector.  The cycles run on "/d". *)
  Example fH_facts : nsect (cs fH) = 15 /\ free (cs fH) = [] /\ slen (cs fH) = 512.
  Proof. repeat split; vm_compute; reflexivity. Qed.

  Ltac mid_facts m ids :=
    let e := eval vm_compute in (nthN (dirs m) 4) in
    match e with
    | Some ?e0 =>
      destruct (big_content_of_entry m 4 e0 ids) as [HB Hsi];
      [ vm_compute; reflexivity | reflexivity | arith | vm_compute; reflexivity
      | vm_compute; reflexivity | arith | ]
    end.

  (* ---- 5000 bytes: ten sectors; the first repetition appends them ---- *)
  Definition m5000 : cstate := Eval vm_compute in fst (resize 4 5000 (cs fH)).
  Definition ids5000 : list N := [15; 16; 17; 18; 19; 20; 21; 22; 23; 24].

  Example cycle_5000 :
    exists s1,
      iter_cycle (grow_trunc 4 5000) 1 (cs fH) = (s1, Ok tt) /\
      nsect s1 = 25 /\ free s1 = ids5000 /\
      forall j, exists sj,
        iter_cycle (grow_trunc 4 5000) (S j) (cs fH) = (sj, Ok tt) /\
        nsect sj = nsect s1 /\
        free sj = flip j ids5000 /\
        CohData' sj /\ SA.empty_stream sj 4 /\
        (forall strict, open_model strict (concat_img (img sj)) = Ok (reopened sj)) /\
        SA.others_kept s1 sj 4.
  Proof.
    assert (R0 : resize 4 5000 (cs fH) = (m5000, Ok tt)) by (vm_compute; reflexivity).
    assert (HCD : CohData' m5000) by (apply cohdata'_b_sound; vm_compute; reflexivity).
    mid_facts m5000 ids5000.
    destruct (big_cycle_stable (cs fH) m5000 4 5000 _ _ R0 HCD HB Hsi)
      as (s1 & E1 & N1 & F1 & _ & Hall); [arith|arith|arith|unfold LenFits; arith|].
    exists s1. split; [exact E1|]. split; [rewrite N1; arith|]. split; [rewrite F1; arith|].
    intro j. destruct (Hall j) as (sj & Ej & Nj & Fj & _ & Cj & Emj & Oj & Kj).
    exists sj. split; [exact Ej|]. split; [exact Nj|]. split; [rewrite Fj; arith|].
    split; [exact Cj|]. split; [exact Emj|]. split; [exact Oj|exact Kj].
  Qed.

  (* by evaluation: 15 sectors before; 25 after repetitions 1, 2 and 3 *)
  Example cycle_5000_evaluated :
    sizes3 (grow_trunc 4 5000) (cs fH) = [(25, true); (25, true); (25, true)].
  Proof. vm_compute. reflexivity. Qed.
  (* ---- 9000 bytes: 18 sectors, the last one partly used ---- *)
  Definition m9000 : cstate := Eval vm_compute in fst (resize 4 9000 (cs fH)).
  Definition ids9000 : list N := StoreProofs.seqN 15 18.

  Example cycle_9000 :
    exists s1,
      iter_cycle (grow_trunc 4 9000) 1 (cs fH) = (s1, Ok tt) /\
      nsect s1 = 33 /\ free s1 = ids9000 /\
      forall j, exists sj,
        iter_cycle (grow_trunc 4 9000) (S j) (cs fH) = (sj, Ok tt) /\
        nsect sj = nsect s1 /\
        free sj = flip j ids9000 /\
        CohData' sj /\ SA.empty_stream sj 4 /\
        (forall strict, open_model strict (concat_img (img sj)) = Ok (reopened sj)) /\
        SA.others_kept s1 sj 4.
  Proof.
    assert (R0 : resize 4 9000 (cs fH) = (m9000, Ok tt)) by (vm_compute; reflexivity).
    assert (HCD : CohData' m9000) by (apply cohdata'_b_sound; vm_compute; reflexivity).
    mid_facts m9000 ids9000.
    destruct (big_cycle_stable (cs fH) m9000 4 9000 _ _ R0 HCD HB Hsi)
      as (s1 & E1 & N1 & F1 & _ & Hall); [arith|arith|arith|unfold LenFits; arith|].
    exists s1. split; [exact E1|]. split; [rewrite N1; arith|]. split; [rewrite F1; arith|].
    intro j. destruct (Hall j) as (sj & Ej & Nj & Fj & _ & Cj & Emj & Oj & Kj).
    exists sj. split; [exact Ej|]. split; [exact Nj|]. split; [rewrite Fj; arith|].
    split; [exact Cj|]. split; [exact Emj|]. split; [exact Oj|exact Kj].
  Qed.

  Example cycle_9000_evaluated :
    sizes3 (grow_trunc 4 9000) (cs fH) = [(33, true); (33, true); (33, true)].
  Proof. vm_compute. reflexivity. Qed.

  (* ---- a MIXED first repetition: "/b" is first cut to 4200 bytes, so that
          sector 13 is free; the first growth of "/d" to 5000 bytes pops sector
          13 and appends nine sectors; the later repetitions reuse all ten ---- *)
  Definition sX : cstate := Eval vm_compute in fst (resize 2 4200 (cs fH)).
  Definition mX : cstate := Eval vm_compute in fst (resize 4 5000 sX).
  Definition idsX : list N := [13; 15; 16; 17; 18; 19; 20; 21; 22; 23].

  Example sX_facts : nsect sX = 15 /\ free sX = [13].
  Proof. split; vm_compute; reflexivity. Qed.

  Example cycle_mixed :
    exists s1,
      iter_cycle (grow_trunc 4 5000) 1 sX = (s1, Ok tt) /\
      nsect s1 = 24 /\ free s1 = idsX /\
      forall j, exists sj,
        iter_cycle (grow_trunc 4 5000) (S j) sX = (sj, Ok tt) /\
        nsect sj = nsect s1 /\
        free sj = flip j idsX /\
        CohData' sj /\ SA.empty_stream sj 4 /\
        (forall strict, open_model strict (concat_img (img sj)) = Ok (reopened sj)) /\
        SA.others_kept s1 sj 4.
  Proof.
    assert (R0 : resize 4 5000 sX = (mX, Ok tt)) by (vm_compute; reflexivity).
    assert (HCD : CohData' mX) by (apply cohdata'_b_sound; vm_compute; reflexivity).
    mid_facts mX idsX.
    destruct (big_cycle_stable sX mX 4 5000 _ _ R0 HCD HB Hsi)
      as (s1 & E1 & N1 & F1 & _ & Hall); [arith|arith|arith|unfold LenFits; arith|].
    exists s1. split; [exact E1|]. split; [rewrite N1; arith|]. split; [rewrite F1; arith|].
    intro j. destruct (Hall j) as (sj & Ej & Nj & Fj & _ & Cj & Emj & Oj & Kj).
    exists sj. split; [exact Ej|]. split; [exact Nj|]. split; [rewrite Fj; arith|].
    split; [exact Cj|]. split; [exact Emj|]. split; [exact Oj|exact Kj].
  Qed.

  Example cycle_mixed_evaluated :
    sizes3 (grow_trunc 4 5000) sX = [(24, true); (24, true); (24, true)].
  Proof. vm_compute. reflexivity. Qed.

  (* ---- pure reuse: after one 5000-byte cycle ten sectors are free; a cycle of
          4096 bytes (eight sectors) never grows the file, the first repetition
          included; the two sectors at the bottom of the stack are not touched ---- *)
  Definition sR : cstate := Eval vm_compute in fst (iter_cycle (grow_trunc 4 5000) 1 (cs fH)).

  Example cycle_reuse :
    forall j, exists sj,
      iter_cycle (grow_trunc 4 4096) j sR = (sj, Ok tt) /\
      nsect sj = 25 /\
      free sj = [15; 16] ++ rev (flip j [24; 23; 22; 21; 20; 19; 18; 17]) /\
      CohData' sj /\ SA.empty_stream sj 4 /\
      (forall strict, open_model strict (concat_img (img sj)) = Ok (reopened sj)) /\
      SA.others_kept sR sj 4.
  Proof.
    assert (HCD : CohData' sR) by (apply cohdata'_b_sound; vm_compute; reflexivity).
    assert (Hem : SA.empty_stream sR 4).
    { eexists. unfold SA.empty_at. repeat split; vm_compute; reflexivity. }
    assert (HR : BigCycleReady sR 4 4096 [15; 16] [24; 23; 22; 21; 20; 19; 18; 17]).
    { constructor; [exact HCD|exact Hem|arith|arith|arith|arith|unfold LenFits; arith]. }
    intro j. destruct (big_cycle_iter j sR 4 4096 _ _ HR) as (sj & Ej & HRj & Nj & _ & Oj & Kj & _).
    exists sj. split; [exact Ej|]. split; [rewrite Nj; arith|].
    split; [exact (bcr_free _ _ _ _ _ HRj)|]. split; [exact (bcr_coh _ _ _ _ _ HRj)|].
    split; [exact (bcr_empty _ _ _ _ _ HRj)|]. split; [exact Oj|exact Kj].
  Qed.

  Example cycle_reuse_evaluated :
    sizes3 (grow_trunc 4 4096) sR = [(25, true); (25, true); (25, true)].
  Proof. vm_compute. reflexivity. Qed.
End ExampleBig.

(* ================================================================== *)
(* 3. small streams: the mini free list after a release                *)
(* ================================================================== *)

(* ---- counting: filtering a duplicate-free list of numbers below a + b by
        "< a" removes at most b of them ---- *)
Lemma filter_split_length : forall A (f : A -> bool) l,
  length l = (length (filter f l) + length (filter (fun x => negb (f x)) l))%nat.
Proof.
  intros A f l. induction l as [|x t IH]; [reflexivity|].
  cbn [filter]. destruct (f x); cbn [negb length]; lia.
Qed.

Lemma filter_below_count : forall (l : list N) a b,
  NoDup l -> (forall x, In x l -> x < a + N.of_nat b) ->
  (length l <= length (filter (fun i => (i <? a)%N) l) + b)%nat.
Proof.
  intros l a b Hnd Hlt.
  rewrite (filter_split_length _ (fun i => i <? a) l).
  assert (H : (length (filter (fun x => negb (x <? a)%N) l) <= length (seqN a b))%nat).
  { apply NoDup_incl_length; [apply NoDup_filter; exact Hnd|].
    intros x Hx. apply filter_In in Hx. destruct Hx as [Hx Hf].
    apply negb_true_iff, N.ltb_ge in Hf. apply seqN_In. specialize (Hlt x Hx). lia. }
  pose proof (lenN_seqN b a) as Hl. rewrite WalkProofs.lenN_length in Hl. lia.
Qed.

(* ---- free_mini_sector: the free list gains the released mini sector and
        loses at most as many entries as the MiniFAT loses cells ---- *)
Lemma free_mini_sector_count : forall s r rids mfids dids ms v s',
  SA.MWf_at s r rids mfids dids -> nthN (minifat s) ms = Some v -> v <> FREE_SECTOR ->
  free_mini_sector ms s = (s', Ok tt) ->
  lenN (mfree s) + 1 + lenN (minifat s') <= lenN (mfree s') + lenN (minifat s).
Proof.
  intros s r rids mfids dids ms v s' W Hcell Hv Hrun.
  pose proof (nthN_Some_lt _ _ _ _ Hcell) as Hlt.
  assert (Hms_free : ~ In ms (mfree s)).
  { intro Hin. rewrite (SA.mw_ffree _ _ _ _ _ W ms Hin) in Hcell. injection Hcell as <-. exact (Hv eq_refl). }
  destruct (SA.set_minifat_fr s ms FREE_SECTOR mfids) as (s1 & E1 & Hsh1 & Hmf1 & Hmfr1 & Hd1 & Hfr1).
  { lia. } { apply W. } { apply W. } { pose proof (SA.mw_mcap _ _ _ _ _ W). lia. }
  assert (Hmf1' : minifat s1 = updN (minifat s) ms FREE_SECTOR).
  { rewrite Hmf1. unfold fat_set. destruct (ms =? lenN (minifat s)) eqn:Ei; [lia|reflexivity]. }
  set (s2 := w_mfree s1 (mfree s1 ++ [ms])).
  destruct (SA.strip_free_spec (minifat s2) 0) as (t & Est & HFt & Hk).
  destruct (strip_free (minifat s2) 0) as [mf' k] eqn:Estrip. cbn [fst snd] in *.
  rewrite N.add_0_l in Hk.
  change (minifat s2) with (minifat s1) in Est, Estrip. rewrite Hmf1' in Est.
  assert (Hlen_all : lenN (minifat s) = lenN mf' + lenN t).
  { rewrite <- (lenN_updN _ (minifat s) ms FREE_SECTOR), Est, lenN_app. reflexivity. }
  set (newlen := d_len r - k * MINI_SECTOR_LEN).
  set (s3 := w_mfree (w_minifat s2 mf') (filter (fun i => i <? lenN mf') (mfree s2))).
  assert (Hr3 : nthN (dirs s3) ROOT_STREAM_ID = Some r) by (cbn [s3 s2 dirs w_mfree w_minifat]; rewrite Hd1; apply W).
  assert (Hsh3 : same_shape s s3).
  { destruct Hsh1 as (A1 & A2 & A3 & A4 & A5 & A6 & A7 & A8 & A9).
    unfold same_shape. cbn [s3 s2 nsect ver img fat free difat dir_start minifat_start w_mfree w_minifat].
    repeat split; assumption. }
  pose proof (same_shape_slen _ _ Hsh3) as Hsl3.
  assert (Hfin : exists s'',
    (if negb (newlen =? d_len r)
     then with_dir_entry_mut ROOT_STREAM_ID (fun e => set_start_len e (d_start e) newlen)
     else ret tt) s3 = (s'', Ok tt) /\
    minifat s'' = mf' /\ mfree s'' = mfree s3).
  { destruct (newlen =? d_len r) eqn:En; cbn [negb].
    - exists s3. split; [reflexivity|]. split; reflexivity.
    - destruct (SA.with_mut_spec s3 ROOT_STREAM_ID r (fun e => set_start_len e (d_start e) newlen) dids Hr3)
        as (s4 & E4 & Hs4 & _).
      { cbn [set_start_len d_name]. eapply SA.mw_names; [exact W | apply W]. }
      { destruct Hsh3 as (_ & _ & _ & _ & A5 & _ & _ & A8 & _). rewrite A5, A8. apply W. }
      { eapply good_chain_shape; [apply W | exact Hsh3]. }
      { rewrite Hsl3. pose proof (SA.mw_dcap _ _ _ _ _ W) as Hdc.
        pose proof (nthN_Some_lt _ _ _ _ (SA.mw_root _ _ _ _ _ W)) as Hrlt. rewrite SA.ROOT_val in *.
        unfold DIR_ENTRY_LEN in *. lia. }
      exists s4. split; [exact E4|].
      split; rewrite Hs4; reflexivity. }
  destruct Hfin as (s'' & Efin & Hmf' & Hmfr').
  assert (Hrun2 : free_mini_sector ms s = (s'', Ok tt)).
  { unfold free_mini_sector. rewrite bind_get, Hcell.
    destruct (v =? FREE_SECTOR) eqn:Ev; [apply N.eqb_eq in Ev; contradiction|].
    rewrite (bind_exec _ _ _ _ _ E1). rewrite bind_modify. fold s2.
    unfold root_entry.
    rewrite (bind_exec _ _ _ _ _ (dir_entry_exec s2 _ r ltac:(cbn [s2 dirs w_mfree]; rewrite Hd1; apply W))).
    assert (Emod : d_len r mod MINI_SECTOR_LEN = 0).
    { rewrite (SA.mw_rlen _ _ _ _ _ W). unfold MINI_SECTOR_LEN. lia. }
    rewrite Emod. cbn [N.eqb negb]. rewrite bind_ret, bind_get.
    change (minifat s2) with (minifat s1). rewrite Estrip. cbv zeta.
    rewrite bind_put. fold newlen. exact Efin. }
  assert (s'' = s') by congruence. subst s''.
  rewrite Hmf', Hmfr'. cbn [s3 mfree w_mfree s2]. rewrite Hmfr1, Hlen_all.
  assert (Hnd : NoDup (mfree s ++ [ms])).
  { apply NoDup_app_intro; [apply W | constructor; [intros []|constructor] |].
    intros x Hx [<-|[]]. contradiction. }
  assert (Hb : forall x, In x (mfree s ++ [ms]) -> x < lenN mf' + N.of_nat (length t)).
  { rewrite <- WalkProofs.lenN_length, <- Hlen_all. intros x Hx. apply in_app_or in Hx.
    destruct Hx as [Hx|[<-|[]]]; [|exact Hlt].
    eapply nthN_Some_lt. exact (SA.mw_ffree _ _ _ _ _ W x Hx). }
  pose proof (filter_below_count (mfree s ++ [ms]) (lenN mf') (length t) Hnd Hb) as Hc.
  rewrite app_length in Hc. cbn [length] in Hc.
  rewrite !WalkProofs.lenN_length. rewrite !WalkProofs.lenN_length in Hc. lia.
Qed.

(* ---- the same over a whole mini chain ---- *)
Lemma free_mini_chain_go_count : forall l fuel c s r rids mfids dids s',
  SA.MWf_at s r rids mfids dids -> path (minifat s) c l -> (length l < fuel)%nat ->
  free_mini_chain_go fuel c s = (s', Ok tt) ->
  lenN (mfree s) + lenN l + lenN (minifat s') <= lenN (mfree s') + lenN (minifat s).
Proof.
  induction l as [|cur rest IH]; intros fuel c s r rids mfids dids s' W Hp Hfuel Hrun.
  - inversion Hp; subst. destruct fuel as [|fuel]; [cbn in Hfuel; lia|].
    cbn [free_mini_chain_go] in Hrun. rewrite N.eqb_refl in Hrun. unfold ret in Hrun.
    injection Hrun as <-. cbn [lenN]. lia.
  - inversion Hp as [|c0 nx l0 Hc Hn Hp']; subst.
    destruct fuel as [|fuel]; [cbn in Hfuel; lia|]. cbn [free_mini_chain_go] in Hrun.
    destruct (cur =? END_OF_CHAIN) eqn:Ea; [apply N.eqb_eq in Ea; contradiction|].
    assert (Hnext : next_mini cur s = (s, Ok nx)).
    { unfold next_mini, next_mini_of. rewrite bind_get, Hn. reflexivity. }
    rewrite (bind_exec _ _ _ _ _ Hnext) in Hrun.
    pose proof Hn as Hn0. apply WalkProofs.next_of_Ok in Hn0. destruct Hn0 as [Hcell Hr].
    assert (Hnf : nx <> FREE_SECTOR) by (rewrite FREE_val, EOC_val, MAXREG_val in *; lia).
    destruct (SA.free_mini_sector_step s r rids mfids dids cur nx W Hcell Hnf)
      as (s1 & r1 & E1 & W1 & Sh1 & Ld1 & Dj1 & Fr1 & Le1 & K1).
    pose proof (free_mini_sector_count s r rids mfids dids cur nx s1 W Hcell Hnf E1) as C1.
    pose proof (ReuseProofs.path_nodup _ _ _ Hp) as Hnd. inversion Hnd as [|? ? Hni Hnd']; subst.
    assert (Hp1 : path (minifat s1) nx rest).
    { apply (SA.path_keep _ _ _ _ Hp' Le1). intros y w Hy Hcy Hw. apply K1; [|exact Hcy | exact Hw].
      intro E. subst y. contradiction. }
    rewrite (bind_exec _ _ _ _ _ E1) in Hrun.
    pose proof (IH fuel nx s1 r1 rids mfids dids s' W1 Hp1 ltac:(cbn [length] in Hfuel; lia) Hrun) as C2.
    cbn [lenN]. lia.
Qed.

(* ---- the chains of the mini level: the container (root chain) and the
        MiniFAT chain ---- *)
Definition mini_chains (s : cstate) (rids mfids : list N) : Prop :=
  root_ids s rids /\ chain_ids_of (fat s) (minifat_start s) = Ok mfids.

Lemma mini_chains_of_wf : forall s r rids mfids dids,
  SA.MWf_at s r rids mfids dids -> mini_chains s rids mfids.
Proof. intros s r rids mfids dids W. split; [eapply SA.root_ids_of_wf; exact W|apply W]. Qed.

Lemma mini_chains_witness : forall s r rids mfids dids rids' mfids',
  SA.MWf_at s r rids mfids dids -> mini_chains s rids' mfids' -> rids' = rids /\ mfids' = mfids.
Proof.
  intros s r rids mfids dids rids' mfids' W [(r' & Hr' & Hc') Hm'].
  pose proof (SA.mw_root _ _ _ _ _ W) as Hr. pose proof (SA.mw_rch _ _ _ _ _ W) as Hc.
  pose proof (SA.mw_mch _ _ _ _ _ W) as Hm. split; congruence.
Qed.

(* the root entry of a coherent state can record its own length *)
Lemma root_len_fits : forall s r rids mfids dids,
  Coherent s -> SA.MWf_at s r rids mfids dids -> 64 * lenN (minifat s) <= stream_len_mask (ver s).
Proof.
  intros s r rids mfids dids HC W.
  pose proof (CodecProofs.wf_len (ver s) r (ch_dir_wf s HC r (nthN_In _ _ _ _ (SA.mw_root _ _ _ _ _ W)))) as H.
  rewrite (SA.mw_rlen _ _ _ _ _ W) in H. exact H.
Qed.

(* the truncation of a small stream to zero: nothing moves at the FAT level,
   and the mini level keeps room for the k mini sectors it released *)
Theorem resize_small_to_zero_room : forall s id V k rids mfids,
  CohData' s -> small_content s id V -> mini_sectors s id k -> mini_chains s rids mfids ->
  exists s',
    resize id 0 s = (s', Ok tt) /\ CohData' s' /\
    (forall strict, open_model strict (concat_img (img s')) = Ok (reopened s')) /\
    SA.empty_stream s' id /\
    free s' = free s /\ nsect s' = nsect s /\ fat s' = fat s /\ ver s' = ver s /\
    lenN (minifat s') <= lenN (minifat s) /\
    lenN (mfree s) + k + lenN (minifat s') <= lenN (mfree s') + lenN (minifat s) /\
    mini_chains s' rids mfids /\ SA.mroom s' rids mfids k /\
    SA.others_kept s s' id /\ (TreePart s -> TreePart s').
Proof.
  intros s id V k rids0 mfids0 HCD Hsc Hk Hmc.
  destruct (resize_small_to_zero_cohdata' s id V HCD Hsc)
    as (s0 & R0 & HCD0 & Hop0 & _ & Hem0 & Fr0 & N0 & Lm0 & Ho0 & HT0).
  pose proof HCD as [HC (r & rids & mfids & dids & HSD) HF Hax]. pose proof HSD as [SW0 Hmdj].
  pose proof (SA.sw_m _ _ _ _ _ _ SW0) as W.
  destruct (mini_chains_witness _ _ _ _ _ _ _ W Hmc) as [-> ->].
  destruct (SA.small_content_at _ _ _ _ _ _ _ W Hsc) as (e & mids & Hsm).
  pose proof (mini_sectors_small_at _ _ _ _ _ _ _ Hsm Hk) as Ek. subst k.
  destruct (small_at_start _ _ _ _ _ _ Hsm) as (Hne & Hst & Hkpos).
  pose proof (SA.small_at_entry _ _ _ _ _ _ Hsm) as Hse.
  pose proof Hsm as (Hnth & Ht & Hcut & Hpos & Hch & Hgm & Hle & HV).
  destruct (free_small_ready s r rids mfids dids id e mids HCD HSD Hnth Hse Hch)
    as (s1 & r1 & Efree & HX1 & Hn1 & Ho1 & HRL & FM1).
  pose proof FM1 as (G1 & G2 & _ & _ & G5 & G6 & _).
  pose proof HX1 as (_ & _ & SW1 & _).
  pose proof (SA.sw_m _ _ _ _ _ _ SW1) as W1.
  (* the count *)
  pose proof (WalkProofs.chain_ids_path _ _ _ Hch) as Hpath.
  assert (Hcount : lenN (mfree s) + lenN mids + lenN (minifat s1) <= lenN (mfree s1) + lenN (minifat s)).
  { pose proof Efree as Erun. unfold free_mini_chain in Erun. rewrite bind_get in Erun.
    exact (free_mini_chain_go_count mids _ (d_start e) s r rids mfids dids s1 W Hpath
             (path_length_fuel _ _ _ Hpath) Erun). }
  (* the entry is written back *)
  destruct (finish_empty s1 r1 rids mfids dids id e SW1 Hn1 Ht) as (s' & Eu & SW' & _ & _).
  destruct (empty_finish_X s1 s' r1 rids mfids dids id e HX1 Hn1 Ht Eu)
    as (HCD' & Ho2 & Hem & Hv' & Hm' & Hf' & Fr' & N' & _).
  assert (Hmfr' : mfree s' = mfree s1).
  { destruct (update_entry_spec s1 id e dids END_OF_CHAIN 0) as (s'' & Hu & Hs'' & _).
    { exact Hn1. } { eapply SA.mw_names; eassumption. } { apply W1. } { apply W1. }
    { pose proof (SA.mw_dcap _ _ _ _ _ W1). pose proof (nthN_Some_lt _ _ _ _ Hn1).
      unfold DIR_ENTRY_LEN in *. lia. }
    assert (s'' = s') by congruence. subst s''. rewrite Hs''. reflexivity. }
  assert (R : resize id 0 s = (s', Ok tt)).
  { unfold resize. sred.
    rewrite (stream_entry_ok s id e Hnth Ht). sred.
    assert (E0 : (MAX_REGULAR_SECTOR * slen s <? 0) = false) by lia. rewrite E0. sred.
    assert (E1 : (stream_len_mask (ver s) <? 0) = false) by lia. rewrite E1. sred.
    assert (E2 : (d_start e =? END_OF_CHAIN) = false) by lia. rewrite E2.
    assert (E3 : (d_len e <? MINI_STREAM_CUTOFF) = true) by lia. rewrite E3.
    rewrite N.eqb_refl. rewrite Efree. sred. exact Eu. }
  assert (s0 = s') by congruence. subst s0.
  pose proof (SA.sw_m _ _ _ _ _ _ SW') as W'.
  assert (Hv : ver s' = ver s) by congruence.
  pose proof (slen_of_ver s s' Hv) as Hsl.
  exists s'. split; [exact R|]. split; [exact HCD'|]. split; [exact Hop0|]. split; [exact Hem|].
  split; [exact Fr0|]. split; [exact N0|]. split; [congruence|]. split; [exact Hv|].
  split; [exact Lm0|]. split; [rewrite Hm', Hmfr'; exact Hcount|].
  split; [exact (mini_chains_of_wf _ _ _ _ _ W')|].
  split.
  { unfold SA.mroom. rewrite Hm', Hmfr', Hsl, Hv.
    destruct (N.le_gt_cases (lenN mids) (lenN (mfree s1))) as [Hle1|Hgt1]; [left; exact Hle1|right].
    pose proof (SA.mw_mcap _ _ _ _ _ W). pose proof (SA.mw_rcap _ _ _ _ _ W).
    pose proof (SA.mw_bound _ _ _ _ _ W). pose proof (root_len_fits s r rids mfids dids HC W).
    assert (lenN (minifat s1) + (lenN mids - lenN (mfree s1)) <= lenN (minifat s)) by lia.
    repeat split; nia. }
  split; [exact Ho0|exact HT0].
Qed.

(* ================================================================== *)
(* 3b. the cycle on a small stream                                     *)
(* ================================================================== *)

(* the state before a repetition on a small stream: stream [id] is empty; the
   mini level has room for the msectors n mini sectors WITHOUT touching the FAT
   (mini free list first, then the capacity the container chain [rids] and the
   MiniFAT chain [mfids] retain); the capacity of the container stays at least
   64 * msectors n bytes below what the root entry can record (4 GiB in a
   version 3 file) *)
Record SmallCycleReady (s : cstate) (id n : N) (rids mfids : list N) : Prop := mkSCR {
  scr_coh : CohData' s;
  scr_empty : SA.empty_stream s id;
  scr_pos : 0 < n;
  scr_cut : n < MINI_STREAM_CUTOFF;
  scr_chains : mini_chains s rids mfids;
  scr_room : SA.mroom s rids mfids (SA.msectors n);
  scr_cap : slen s * lenN rids + 64 * SA.msectors n <= stream_len_mask (ver s)
}.

(* the first half: the stream grows inside the capacity *)
Theorem small_cycle_grow : forall s id n rids mfids,
  SmallCycleReady s id n rids mfids ->
  exists sm,
    resize id n s = (sm, Ok tt) /\ CohData' sm /\
    (forall strict, open_model strict (concat_img (img sm)) = Ok (reopened sm)) /\
    small_content sm id (repeatN 0 n) /\ mini_sectors sm id (SA.msectors n) /\
    same_shape s sm /\ mini_chains sm rids mfids /\
    SA.others_kept s sm id /\ (TreePart s -> TreePart sm).
Proof.
  intros s id n rids0 mfids0 [HCD Hemp Hpos Hcut Hmc Hroom Hcap].
  pose proof HCD as [HC (r & rids & mfids & dids & SW & Hmdj) HF Hax].
  pose proof (SA.sw_m _ _ _ _ _ _ SW) as W.
  destruct (mini_chains_witness _ _ _ _ _ _ _ W Hmc) as [-> ->].
  assert (Hmr : SA.mini_room s (SA.msectors n)) by (exists r, rids, mfids, dids; split; assumption).
  assert (Hrf : RootFits s (SA.msectors n)).
  { unfold RootFits. pose proof (SA.mw_rcap _ _ _ _ _ W). lia. }
  destruct (resize_empty_small_cohdata' s id n HCD Hemp Hpos Hcut Hmr Hrf)
    as (sm & R & HCDm & Hopm & _ & Hscm & Hkm & Hom & HTm).
  destruct Hemp as (e & He).
  rewrite <- SA.msectors_ceil in Hroom.
  destruct (SA.resize_empty_small_full s id e r rids mfids dids n W He Hpos Hcut Hroom)
    as (sm' & news & r' & Hrun & _ & _ & W' & _ & M).
  assert (sm' = sm) by congruence. subst sm'.
  exists sm. split; [exact R|]. split; [exact HCDm|]. split; [exact Hopm|]. split; [exact Hscm|].
  split; [exact Hkm|]. split; [exact (proj1 M)|]. split; [exact (mini_chains_of_wf _ _ _ _ _ W')|].
  split; [exact Hom|exact HTm].
Qed.

(* one repetition: nothing moves at the FAT level, the file keeps its size, and
   the state is ready for the next repetition *)
Theorem small_cycle_once : forall s id n rids mfids,
  SmallCycleReady s id n rids mfids ->
  exists sm s',
    resize id n s = (sm, Ok tt) /\ resize id 0 sm = (s', Ok tt) /\
    grow_trunc id n s = (s', Ok tt) /\
    CohData' sm /\ small_content sm id (repeatN 0 n) /\ nsect sm = nsect s /\
    (forall strict, open_model strict (concat_img (img sm)) = Ok (reopened sm)) /\
    SmallCycleReady s' id n rids mfids /\
    nsect s' = nsect s /\ free s' = free s /\ fat s' = fat s /\ ver s' = ver s /\
    lenN (minifat s') <= lenN (minifat sm) /\
    (forall strict, open_model strict (concat_img (img s')) = Ok (reopened s')) /\
    SA.others_kept s s' id /\ (TreePart s -> TreePart s').
Proof.
  intros s id n rids mfids HR.
  destruct (small_cycle_grow s id n rids mfids HR)
    as (sm & R1 & HCDm & Hopm & Hscm & Hkm & Shm & Hmcm & Hom & HTm).
  destruct HR as [HCD Hemp Hpos Hcut Hmc Hroom Hcap].
  destruct Shm as (A1 & A2 & _ & _ & A5 & A6 & _).
  destruct (resize_small_to_zero_room sm id _ _ rids mfids HCDm Hscm Hkm Hmcm)
    as (s' & R2 & HCD' & Hop' & Hem' & Fr' & N' & Ft' & V' & Lm' & _ & Hmc' & Hroom' & Ho' & HT').
  assert (Hv : ver s' = ver s) by congruence.
  pose proof (slen_of_ver s s' Hv) as Hsl.
  exists sm, s'. split; [exact R1|]. split; [exact R2|].
  split; [unfold grow_trunc; rewrite (bind_ok _ _ _ _ _ _ _ R1); exact R2|].
  split; [exact HCDm|]. split; [exact Hscm|]. split; [exact A1|]. split; [exact Hopm|].
  split.
  { constructor; try assumption. rewrite Hsl, Hv. exact Hcap. }
  split; [congruence|]. split; [congruence|]. split; [congruence|]. split; [exact Hv|].
  split; [exact Lm'|]. split; [exact Hop'|].
  split; [exact (SA.others_kept_trans _ _ _ _ Hom Ho')|]. intro HT. exact (HT' (HTm HT)).
Qed.

Theorem small_cycle_iter : forall j s id n rids mfids,
  SmallCycleReady s id n rids mfids ->
  exists sj,
    iter_cycle (grow_trunc id n) j s = (sj, Ok tt) /\
    SmallCycleReady sj id n rids mfids /\
    nsect sj = nsect s /\ free sj = free s /\ fat sj = fat s /\ ver sj = ver s /\
    (forall strict, open_model strict (concat_img (img sj)) = Ok (reopened sj)) /\
    SA.others_kept s sj id /\ (TreePart s -> TreePart sj).
Proof.
  induction j as [|j IH]; intros s id n rids mfids HR.
  - exists s. split; [reflexivity|]. split; [exact HR|]. repeat (split; [reflexivity|]).
    split; [exact (cohdata'_reopens s (scr_coh _ _ _ _ _ HR))|].
    split; [apply SA.others_kept_refl|]. intro H; exact H.
  - destruct (IH s id n rids mfids HR) as (sj & Ej & HRj & Nj & Frj & Ftj & Vj & _ & Hoj & HTj).
    destruct (small_cycle_once sj id n rids mfids HRj)
      as (sm & s' & _ & _ & Ec & _ & _ & _ & _ & HR' & N' & Fr' & Ft' & V' & _ & Hop' & Ho' & HT').
    exists s'. split; [exact (iter_cycle_snoc _ _ _ _ _ Ej Ec)|].
    split; [exact HR'|]. split; [congruence|]. split; [congruence|]. split; [congruence|].
    split; [congruence|]. split; [exact Hop'|].
    split; [exact (SA.others_kept_trans _ _ _ _ Hoj Ho')|]. intro HT. exact (HT' (HTj HT)).
Qed.

(* ---- from the middle of the first repetition, however it was reached (the
        first growth may have extended the container chain or the MiniFAT
        chain, i.e. grown the file) ---- *)
Theorem small_cycle_from_mid : forall m id n V rids mfids,
  CohData' m -> small_content m id V -> mini_sectors m id (SA.msectors n) ->
  0 < n -> n < MINI_STREAM_CUTOFF ->
  mini_chains m rids mfids ->
  slen m * lenN rids + 64 * SA.msectors n <= stream_len_mask (ver m) ->
  exists s1,
    resize id 0 m = (s1, Ok tt) /\
    SmallCycleReady s1 id n rids mfids /\
    nsect s1 = nsect m /\ free s1 = free m /\ fat s1 = fat m /\ SA.others_kept m s1 id /\
    forall j, exists sj,
      iter_cycle (grow_trunc id n) j s1 = (sj, Ok tt) /\
      nsect sj = nsect s1 /\ free sj = free s1 /\ fat sj = fat s1 /\
      mini_chains sj rids mfids /\
      CohData' sj /\ SA.empty_stream sj id /\
      (forall strict, open_model strict (concat_img (img sj)) = Ok (reopened sj)) /\
      SA.others_kept s1 sj id /\ (TreePart m -> TreePart sj).
Proof.
  intros m id n V rids mfids HCD Hsc Hk Hpos Hcut Hmc Hcap.
  destruct (resize_small_to_zero_room m id V _ rids mfids HCD Hsc Hk Hmc)
    as (s1 & R & HCD1 & Hop1 & Hem1 & Fr1 & N1 & Ft1 & V1 & _ & _ & Hmc1 & Hroom1 & Ho1 & HT1).
  pose proof (slen_of_ver m s1 V1) as Hsl.
  assert (HR : SmallCycleReady s1 id n rids mfids).
  { constructor; try assumption. rewrite Hsl, V1. exact Hcap. }
  exists s1. split; [exact R|]. split; [exact HR|]. split; [exact N1|]. split; [exact Fr1|].
  split; [exact Ft1|]. split; [exact Ho1|].
  intro j. destruct (small_cycle_iter j s1 id n rids mfids HR)
    as (sj & Ej & HRj & Nj & Frj & Ftj & Vj & Hopj & Hoj & HTj).
  exists sj. split; [exact Ej|]. split; [exact Nj|]. split; [exact Frj|]. split; [exact Ftj|].
  split; [exact (scr_chains _ _ _ _ _ HRj)|].
  split; [exact (scr_coh _ _ _ _ _ HRj)|]. split; [exact (scr_empty _ _ _ _ _ HRj)|].
  split; [exact Hopj|]. split; [exact Hoj|]. intro HT. exact (HTj (HT1 HT)).
Qed.

(* ---- over whole repetitions: repetition 1 is arbitrary (only its middle
        state is constrained); repetitions 2, 3, ... succeed, allocate nothing
        at the FAT level and leave the sector count where repetition 1 left it ---- *)
Theorem small_cycle_stable : forall s m id n V rids mfids,
  resize id n s = (m, Ok tt) ->
  CohData' m -> small_content m id V -> mini_sectors m id (SA.msectors n) ->
  0 < n -> n < MINI_STREAM_CUTOFF ->
  mini_chains m rids mfids ->
  slen m * lenN rids + 64 * SA.msectors n <= stream_len_mask (ver m) ->
  exists s1,
    iter_cycle (grow_trunc id n) 1 s = (s1, Ok tt) /\
    nsect s1 = nsect m /\ free s1 = free m /\ SA.others_kept m s1 id /\
    forall j, exists sj,
      iter_cycle (grow_trunc id n) (S j) s = (sj, Ok tt) /\
      nsect sj = nsect s1 /\ free sj = free s1 /\ fat sj = fat s1 /\
      mini_chains sj rids mfids /\
      CohData' sj /\ SA.empty_stream sj id /\
      (forall strict, open_model strict (concat_img (img sj)) = Ok (reopened sj)) /\
      SA.others_kept s1 sj id.
Proof.
  intros s m id n V rids mfids R0 HCD Hsc Hk Hpos Hcut Hmc Hcap.
  destruct (small_cycle_from_mid m id n V rids mfids HCD Hsc Hk Hpos Hcut Hmc Hcap)
    as (s1 & R1 & HR & N1 & Fr1 & _ & Ho1 & Hall).
  assert (Ec : grow_trunc id n s = (s1, Ok tt)).
  { unfold grow_trunc. rewrite (bind_ok _ _ _ _ _ _ _ R0). exact R1. }
  exists s1. split; [rewrite (iter_cycle_S _ 0 s s1 Ec); reflexivity|].
  split; [exact N1|]. split; [exact Fr1|]. split; [exact Ho1|].
  intro j. destruct (Hall j) as (sj & Ej & Nj & Frj & Ftj & Mcj & HCDj & Hemj & Hopj & Hoj & _).
  exists sj. split; [rewrite (iter_cycle_S _ j s s1 Ec); exact Ej|].
  repeat (split; [assumption|]). exact Hoj.
Qed.

(* ---- in a state that satisfies the invariant, the entry of a small stream
        determines its content and its number of mini sectors ---- *)
Lemma small_facts_of_entry : forall s id e mids,
  CohData' s -> nthN (dirs s) id = Some e -> SA.small_entry e ->
  chain_ids_of (minifat s) (d_start e) = Ok mids ->
  (exists V, small_content s id V) /\ mini_sectors s id (lenN mids).
Proof.
  intros s id e mids HCD He Hse Hch.
  pose proof HCD as [HC (r & rids & mfids & dids & SW & _) _ _].
  pose proof (SA.sw_m _ _ _ _ _ _ SW) as W.
  destruct (SA.sw_small _ _ _ _ _ _ SW id e (SA.noX_not _) He Hse) as (m & Hm & Hcov).
  assert (m = mids) by congruence. subst m.
  destruct Hse as (Ht & Hpos & Hcut).
  split.
  - exists (takeN (d_len e) (mchain_content s rids mids)), e, rids, mids.
    unfold small_at. split; [exact He|]. split; [exact Ht|]. split; [exact Hcut|]. split; [exact Hpos|].
    split; [exact Hch|].
    split; [exact (SA.good_mchain_of_path s r rids mfids dids _ _ W (WalkProofs.chain_ids_path _ _ _ Hch))|].
    split; [exact Hcov|reflexivity].
  - exists e, mids. split; [exact He|]. split; [exact Hch|reflexivity].
Qed.

Module ExampleSmall.
  Import HandleFrame.Example DataPersist.Example.
  Import DataPersist2.Example1 DataPersist2.Example3 DataPersist2.Example5.

  Ltac arith := vm_compute; first [reflexivity | discriminate | (intro; discriminate)].

  (* fH: MiniFAT [FREE; FREE; 3; END] ("/c" owns mini sectors 2, 3), mini free
     list [0; 1]; the container is sector 3, the MiniFAT chain sector 2 *)
  Example fH_mini : mini_chains (cs fH) [3] [2] /\ mfree (cs fH) = [0; 1] /\ lenN (minifat (cs fH)) = 4.
  Proof.
    split; [split|split]; try (vm_compute; reflexivity).
    eexists. split; vm_compute; reflexivity.
  Qed.

  (* ---- 100 bytes: two mini sectors, taken from the mini free list: no
          repetition (the first included) changes anything at the FAT level ---- *)
  Example cycle_100 :
    forall j, exists sj,
      iter_cycle (grow_trunc 4 100) j (cs fH) = (sj, Ok tt) /\
      nsect sj = 15 /\ free sj = [] /\ fat sj = fat (cs fH) /\
      CohData' sj /\ SA.empty_stream sj 4 /\
      (forall strict, open_model strict (concat_img (img sj)) = Ok (reopened sj)) /\
      SA.others_kept (cs fH) sj 4.
  Proof.
    assert (HR : SmallCycleReady (cs fH) 4 100 [3] [2]).
    { constructor; [exact fH_cd'|exact d_empty|arith|arith|exact (proj1 fH_mini)|left; arith|arith]. }
    intro j. destruct (small_cycle_iter j (cs fH) 4 100 _ _ HR)
      as (sj & Ej & HRj & Nj & Frj & Ftj & _ & Hopj & Hoj & _).
    exists sj. split; [exact Ej|]. split; [rewrite Nj; arith|]. split; [rewrite Frj; arith|].
    split; [exact Ftj|]. split; [exact (scr_coh _ _ _ _ _ HRj)|]. split; [exact (scr_empty _ _ _ _ _ HRj)|].
    split; [exact Hopj|exact Hoj].
  Qed.

  Example cycle_100_evaluated :
    sizes3 (grow_trunc 4 100) (cs fH) = [(15, true); (15, true); (15, true)].
  Proof. vm_compute. reflexivity. Qed.

  (* ---- 4000 bytes: 63 mini sectors; the first repetition extends the
          container from one sector to nine (the file grows from 15 to 23
          sectors; the single MiniFAT sector has room for 128 entries); the
          container keeps its sectors when the stream is cut, and repetitions
          2, 3, ... run inside that capacity ---- *)
  Definition m4000 : cstate := Eval vm_compute in fst (resize 4 4000 (cs fH)).
  Definition rids4000 : list N := [3; 15; 16; 17; 18; 19; 20; 21; 22].

  Example m4000_facts : nsect m4000 = 23 /\ lenN (minifat m4000) = 65 /\ mini_chains m4000 rids4000 [2].
  Proof.
    split; [vm_compute; reflexivity|]. split; [vm_compute; reflexivity|].
    split; [eexists; split; vm_compute; reflexivity|vm_compute; reflexivity].
  Qed.

  Example cycle_4000 :
    exists s1,
      iter_cycle (grow_trunc 4 4000) 1 (cs fH) = (s1, Ok tt) /\ nsect s1 = 23 /\
      forall j, exists sj,
        iter_cycle (grow_trunc 4 4000) (S j) (cs fH) = (sj, Ok tt) /\
        nsect sj = nsect s1 /\ free sj = free s1 /\ fat sj = fat s1 /\
        mini_chains sj rids4000 [2] /\
        CohData' sj /\ SA.empty_stream sj 4 /\
        (forall strict, open_model strict (concat_img (img sj)) = Ok (reopened sj)) /\
        SA.others_kept s1 sj 4.
  Proof.
    assert (R0 : resize 4 4000 (cs fH) = (m4000, Ok tt)) by (vm_compute; reflexivity).
    assert (HCD : CohData' m4000) by (apply cohdata'_b_sound; vm_compute; reflexivity).
    destruct (nthN (dirs m4000) 4) as [e|] eqn:Ee; [|vm_compute in Ee; discriminate Ee].
    assert (Hse : SA.small_entry e).
    { vm_compute in Ee. injection Ee as <-. repeat split; arith. }
    destruct (chain_ids_of (minifat m4000) (d_start e)) as [mids| | |] eqn:Ech;
      try (vm_compute in Ee; injection Ee as <-; vm_compute in Ech; discriminate Ech).
    destruct (small_facts_of_entry m4000 4 e mids HCD Ee Hse Ech) as [[V Hsc] Hk].
    assert (Hlen : lenN mids = SA.msectors 4000).
    { vm_compute in Ee. injection Ee as <-. vm_compute in Ech. injection Ech as <-. vm_compute. reflexivity. }
    rewrite Hlen in Hk.
    destruct (small_cycle_stable (cs fH) m4000 4 4000 V rids4000 [2] R0 HCD Hsc Hk)
      as (s1 & E1 & N1 & _ & _ & Hall); [arith|arith|exact (proj2 (proj2 m4000_facts))|arith|].
    exists s1. split; [exact E1|]. split; [rewrite N1; arith|]. exact Hall.
  Qed.

  Example cycle_4000_evaluated :
    sizes3 (grow_trunc 4 4000) (cs fH) = [(23, true); (23, true); (23, true)].
  Proof. vm_compute. reflexivity. Qed.
  (* the MiniFAT length, the mini free list and the root length (the size of the
     mini stream) after 0, 1, 2, 3 repetitions, by evaluation: the MiniFAT is
     trimmed back to 4 entries and the root length to 256 bytes each time (the
     container keeps its nine sectors); only the order of the mini free list
     alternates *)
  Example cycle_4000_mini_evaluated :
    map (fun j => let s := fst (iter_cycle (grow_trunc 4 4000) j (cs fH)) in
                  (lenN (minifat s), mfree s, option_map d_len (nthN (dirs s) 0)))
        [0%nat; 1%nat; 2%nat; 3%nat]
    = [(4, [0; 1], Some 256); (4, [1; 0], Some 256); (4, [0; 1], Some 256); (4, [1; 0], Some 256)].
  Proof. vm_compute. reflexivity. Qed.
End ExampleSmall.

(* ================================================================== *)
(* 4. the same cycles through an open handle (Stream::set_len)         *)
(* ================================================================== *)

Notation run_ops := ReadonlyTotal.run_ops.

(* slot [i] holds a handle of stream [id] with nothing buffered, which sees the
   stream as empty *)
Definition HClean (f : fstate) (i id : N) : Prop :=
  exists h, nthN (hs f) i = Some (Some h) /\ h_id h = id /\ h_dirty h = false /\ h_total h = 0.

Lemma step_setlen_clean : forall f now i h n s',
  nthN (hs f) i = Some (Some h) -> h_dirty h = false -> n <> h_total h ->
  resize (h_id h) n (cs f) = (s', Ok tt) ->
  step f now (OHSetLen i n) =
    (mkF s' (updN (hs f) i (Some (mkHandle (h_id h) n (buf_clear (h_buf h)) (N.min (h_position h) n) false)))
         (maxbuf f), Ok VUnit).
Proof.
  intros f now i h n s' Hh Hd Hn R. cbn [step]. unfold with_handle. rewrite Hh.
  unfold h_set_len', h_set_len.
  destruct (n =? h_total h) eqn:E; [apply N.eqb_eq in E; contradiction|].
  unfold flush_changes. rewrite Hd. rewrite R. rewrite Hd. reflexivity.
Qed.

(* the handle-level cycle: set_len(n); set_len(0) *)
Definition hcycle (i n t : N) : list (N * op) := [(t, OHSetLen i n); (t, OHSetLen i 0)].

Fixpoint rep_ops (j : nat) (l : list (N * op)) : list (N * op) :=
  match j with O => [] | S j' => l ++ rep_ops j' l end.

Lemma run_ops_app : forall l1 l2 f,
  run_ops f (l1 ++ l2) =
    (fst (run_ops (fst (run_ops f l1)) l2), snd (run_ops f l1) ++ snd (run_ops (fst (run_ops f l1)) l2)).
Proof.
  induction l1 as [|[now o] t IH]; intros l2 f.
  - cbn [app ReadonlyTotal.run_ops fst snd]. destruct (run_ops f l2); reflexivity.
  - cbn [app ReadonlyTotal.run_ops]. destruct (step f now o) as [f1 r].
    rewrite (IH l2 f1). destruct (run_ops f1 t) as [f2 rs]. cbn [fst snd]. reflexivity.
Qed.

Lemma hcycle_run : forall f i id n t sm s',
  HClean f i id -> n <> 0 ->
  resize id n (cs f) = (sm, Ok tt) -> resize id 0 sm = (s', Ok tt) ->
  exists f',
    run_ops f (hcycle i n t) = (f', [Ok VUnit; Ok VUnit]) /\
    cs f' = s' /\ HClean f' i id /\ maxbuf f' = maxbuf f /\
    (forall k, k <> i -> nthN (hs f') k = nthN (hs f) k).
Proof.
  intros f i id n t sm s' (h & Hh & Hid & Hd & Ht) Hn R1 R2. subst id.
  pose proof (step_setlen_clean f t i h n sm Hh Hd ltac:(rewrite Ht; exact Hn) R1) as E1.
  set (h1 := mkHandle (h_id h) n (buf_clear (h_buf h)) (N.min (h_position h) n) false) in *.
  set (f1 := mkF sm (updN (hs f) i (Some h1)) (maxbuf f)) in *.
  assert (Hlt : i < lenN (hs f)) by (eapply nthN_Some_lt; exact Hh).
  assert (Hh1 : nthN (hs f1) i = Some (Some h1)) by (cbn [f1 hs]; apply nthN_updN_same; exact Hlt).
  pose proof (step_setlen_clean f1 t i h1 0 s' Hh1 eq_refl ltac:(cbn [h1 h_total]; lia) R2) as E2.
  eexists. split.
  { unfold hcycle. cbn [ReadonlyTotal.run_ops]. rewrite E1, E2. reflexivity. }
  cbn [cs hs maxbuf f1]. split; [reflexivity|]. split.
  { eexists. split; [apply nthN_updN_same; rewrite lenN_updN; exact Hlt|].
    cbn [h_id h_dirty h_total h1]. repeat split. }
  split; [reflexivity|]. intros k Hk. rewrite !nthN_updN_other by congruence. reflexivity.
Qed.

(* j handle-level cycles run exactly the j store-level cycles *)
Theorem hcycle_iter : forall j f i id n t sj,
  HClean f i id -> n <> 0 ->
  iter_cycle (grow_trunc id n) j (cs f) = (sj, Ok tt) ->
  exists fj,
    run_ops f (rep_ops j (hcycle i n t)) = (fj, repeat (Ok VUnit) (2 * j)) /\
    cs fj = sj /\ HClean fj i id /\ maxbuf fj = maxbuf f /\
    (forall k, k <> i -> nthN (hs fj) k = nthN (hs f) k).
Proof.
  induction j as [|j IH]; intros f i id n t sj HCl Hn Hit.
  - cbn [iter_cycle] in Hit. unfold ret in Hit. injection Hit as <-.
    exists f. cbn [rep_ops ReadonlyTotal.run_ops Nat.mul repeat]. repeat split; try reflexivity. exact HCl.
  - cbn [iter_cycle] in Hit. apply bind_ok_inv in Hit. destruct Hit as ([] & s1 & Hc & Hit).
    unfold grow_trunc in Hc. apply bind_ok_inv in Hc. destruct Hc as ([] & sm & R1 & R2).
    destruct (hcycle_run f i id n t sm s1 HCl Hn R1 R2) as (f1 & E1 & C1 & HCl1 & M1 & O1).
    rewrite <- C1 in Hit.
    destruct (IH f1 i id n t sj HCl1 Hn Hit) as (fj & Ej & Cj & HClj & Mj & Oj).
    exists fj. split.
    { cbn [rep_ops]. rewrite run_ops_app, E1. cbn [fst snd]. rewrite Ej. cbn [fst snd].
      replace (2 * S j)%nat with (S (S (2 * j))) by lia. reflexivity. }
    split; [exact Cj|]. split; [exact HClj|]. split; [congruence|].
    intros k Hk. rewrite (Oj k Hk). exact (O1 k Hk).
Qed.

(* item 1 through a handle: every set_len succeeds; the sector count after j
   cycles is the one before *)
Theorem big_hcycle_stable : forall f i id n t base nw,
  HClean f i id -> BigCycleReady (cs f) id n base nw ->
  forall j, exists fj,
    run_ops f (rep_ops j (hcycle i n t)) = (fj, repeat (Ok VUnit) (2 * j)) /\
    nsect (cs fj) = nsect (cs f) /\ free (cs fj) = base ++ rev (flip j nw) /\
    CohData' (cs fj) /\ SA.empty_stream (cs fj) id /\ HClean fj i id /\
    (forall strict, open_model strict (concat_img (img (cs fj))) = Ok (reopened (cs fj))) /\
    SA.others_kept (cs f) (cs fj) id.
Proof.
  intros f i id n t base nw HCl HR j.
  destruct (big_cycle_iter j (cs f) id n base nw HR) as (sj & Ej & HRj & Nj & _ & Hopj & Hoj & _).
  assert (Hn : n <> 0).
  { pose proof (bcr_cut _ _ _ _ _ HR) as H. rewrite CUTOFF_val in H. lia. }
  destruct (hcycle_iter j f i id n t sj HCl Hn Ej) as (fj & Er & Cj & HClj & _).
  exists fj. split; [exact Er|]. rewrite Cj. split; [exact Nj|].
  split; [exact (bcr_free _ _ _ _ _ HRj)|]. split; [exact (bcr_coh _ _ _ _ _ HRj)|].
  split; [exact (bcr_empty _ _ _ _ _ HRj)|]. split; [exact HClj|]. split; [exact Hopj|exact Hoj].
Qed.

(* item 3 through a handle *)
Theorem small_hcycle_stable : forall f i id n t rids mfids,
  HClean f i id -> SmallCycleReady (cs f) id n rids mfids ->
  forall j, exists fj,
    run_ops f (rep_ops j (hcycle i n t)) = (fj, repeat (Ok VUnit) (2 * j)) /\
    nsect (cs fj) = nsect (cs f) /\ free (cs fj) = free (cs f) /\ fat (cs fj) = fat (cs f) /\
    CohData' (cs fj) /\ SA.empty_stream (cs fj) id /\ HClean fj i id /\
    (forall strict, open_model strict (concat_img (img (cs fj))) = Ok (reopened (cs fj))) /\
    SA.others_kept (cs f) (cs fj) id.
Proof.
  intros f i id n t rids mfids HCl HR j.
  destruct (small_cycle_iter j (cs f) id n rids mfids HR) as (sj & Ej & HRj & Nj & Frj & Ftj & _ & Hopj & Hoj & _).
  assert (Hn : n <> 0) by (pose proof (scr_pos _ _ _ _ _ HR); lia).
  destruct (hcycle_iter j f i id n t sj HCl Hn Ej) as (fj & Er & Cj & HClj & _).
  exists fj. split; [exact Er|]. rewrite Cj. split; [exact Nj|]. split; [exact Frj|]. split; [exact Ftj|].
  split; [exact (scr_coh _ _ _ _ _ HRj)|].
  split; [exact (scr_empty _ _ _ _ _ HRj)|]. split; [exact HClj|]. split; [exact Hopj|exact Hoj].
Qed.

(* ================================================================== *)
(* 5. the stream stays: "truncate to 0, write n bytes again"           *)
(*    (what create_stream on an existing path + set_len does)          *)
(* ================================================================== *)

Definition trunc_grow (id n : N) : M unit := bind (resize id 0) (fun _ => resize id n).

(* the state before a repetition: the stream holds n bytes in the chain [ids]
   of exactly ceil (n / sector length) sectors *)
Record BigFull (s : cstate) (id n : N) (ids : list N) : Prop := mkBF {
  bf_coh : CohData' s;
  bf_content : exists V, big_content s id V;
  bf_ids : stream_ids s id ids;
  bf_count : lenN ids = ceil_sectors s n;
  bf_cut : MINI_STREAM_CUTOFF <= n;
  bf_max : n <= MAX_REGULAR_SECTOR * slen s;
  bf_fits : LenFits s n
}.

(* one repetition: the released chain is taken back at once, in the opposite
   order; the free stack and the sector count are exactly as before *)
Theorem overwrite_cycle_once : forall s id n ids,
  BigFull s id n ids ->
  exists s0 s',
    resize id 0 s = (s0, Ok tt) /\ resize id n s0 = (s', Ok tt) /\
    trunc_grow id n s = (s', Ok tt) /\
    free s0 = free s ++ ids /\ SA.empty_stream s0 id /\ CohData' s0 /\
    BigFull s' id n (rev ids) /\ big_content s' id (repeatN 0 n) /\
    free s' = free s /\ nsect s' = nsect s /\ ver s' = ver s /\
    (forall strict, open_model strict (concat_img (img s')) = Ok (reopened s')) /\
    SA.others_kept s s' id /\ (TreePart s -> TreePart s').
Proof.
  intros s id n ids [HCD (V & HB) Hsi Hcount Hcut Hmax Hfit].
  destruct (resize_big_to_zero_ver s id V ids HCD HB Hsi)
    as (s0 & R0 & HCD0 & _ & Hem0 & Fr0 & N0 & V0 & Ho0 & HT0).
  pose proof (slen_of_ver s s0 V0) as Hsl0.
  destruct (resize_empty_big_ids s0 id n (free s) (rev ids) HCD0 Hem0 Hcut
              ltac:(rewrite Hsl0; exact Hmax) ltac:(unfold LenFits in *; rewrite V0; exact Hfit)
              ltac:(rewrite rev_involutive; exact Fr0)
              ltac:(rewrite WalkProofs.lenN_rev, Hsl0; exact Hcount))
    as (s' & R1 & HCD' & Hop' & HB' & Hsi' & Fr' & N' & V' & Ho' & HT').
  assert (Hv : ver s' = ver s) by congruence.
  pose proof (slen_of_ver s s' Hv) as Hsl.
  exists s0, s'. split; [exact R0|]. split; [exact R1|].
  split; [unfold trunc_grow; rewrite (bind_ok _ _ _ _ _ _ _ R0); exact R1|].
  split; [exact Fr0|]. split; [exact Hem0|]. split; [exact HCD0|].
  split.
  { constructor; [exact HCD'|eexists; exact HB'|exact Hsi'| | | |].
    - rewrite WalkProofs.lenN_rev. unfold ceil_sectors in *. rewrite Hsl. exact Hcount.
    - exact Hcut.
    - rewrite Hsl. exact Hmax.
    - unfold LenFits in *. rewrite Hv. exact Hfit. }
  split; [exact HB'|]. split; [exact Fr'|]. split; [congruence|]. split; [exact Hv|].
  split; [exact Hop'|]. split; [exact (SA.others_kept_trans _ _ _ _ Ho0 Ho')|].
  intro HT. exact (HT' (HT0 HT)).
Qed.

Theorem overwrite_cycle_iter : forall j s id n ids,
  BigFull s id n ids ->
  exists sj,
    iter_cycle (trunc_grow id n) j s = (sj, Ok tt) /\
    BigFull sj id n (flip j ids) /\
    free sj = free s /\ nsect sj = nsect s /\ ver sj = ver s /\
    (forall strict, open_model strict (concat_img (img sj)) = Ok (reopened sj)) /\
    SA.others_kept s sj id /\ (TreePart s -> TreePart sj).
Proof.
  induction j as [|j IH]; intros s id n ids HF.
  - exists s. split; [reflexivity|]. split; [exact HF|]. repeat (split; [reflexivity|]).
    split; [exact (cohdata'_reopens s (bf_coh _ _ _ _ HF))|].
    split; [apply SA.others_kept_refl|]. intro H; exact H.
  - destruct (IH s id n ids HF) as (sj & Ej & HFj & Frj & Nj & Vj & _ & Hoj & HTj).
    destruct (overwrite_cycle_once sj id n (flip j ids) HFj)
      as (s0 & s' & _ & _ & Ec & _ & _ & _ & HF' & _ & Fr' & N' & V' & Hop' & Ho' & HT').
    exists s'. split; [exact (iter_cycle_snoc _ _ _ _ _ Ej Ec)|].
    split; [rewrite flip_S; exact HF'|]. split; [congruence|]. split; [congruence|]. split; [congruence|].
    split; [exact Hop'|]. split; [exact (SA.others_kept_trans _ _ _ _ Hoj Ho')|].
    intro HT. exact (HT' (HTj HT)).
Qed.

(* ---- the same through the API: create_stream on the existing path (it
        truncates the stream to 0), set_len n through the new handle, close ---- *)
Lemma api_create_overwrite : forall p mb now s id e s0,
  MutRefine.id_of_path s p = Some id -> nthN (dirs s) id = Some e -> d_type e = TStream ->
  d_len e <> 0 -> resize id 0 s = (s0, Ok tt) ->
  exists h, api_create_stream p true mb now s = (s0, Ok h) /\
            h_id h = id /\ h_total h = 0 /\ h_dirty h = false.
Proof.
  intros p mb now s id e s0 Hid He Ht Hl R.
  unfold MutRefine.id_of_path in Hid.
  destruct (name_chain_from_path p) as [names| | |] eqn:En; try discriminate Hid.
  destruct (lookup_chain (dirs s) names ROOT_STREAM_ID) as [r| | |] eqn:El; try discriminate Hid.
  subst r.
  eexists. split.
  - unfold api_create_stream, names_of, lookup. rewrite En. sred. rewrite El. sred.
    rewrite (dir_entry_exec s id e He). rewrite Ht. cbn [objtype_eqb negb].
    unfold handle_new', handle_new.
    rewrite (stream_len_of_exec s id e He).
    unfold h_set_len', h_set_len. cbn [h_total h_id h_dirty h_buf].
    destruct (0 =? d_len e) eqn:E0; [apply N.eqb_eq in E0; congruence|].
    unfold flush_changes. cbn [h_dirty h_id]. rewrite R. reflexivity.
  - cbn [h_id h_total h_dirty]. repeat split.
Qed.

Definition ocycle (i : N) (p : list N) (n t : N) : list (N * op) :=
  [(t, OCreateStream i p); (t, OHSetLen i n); (t, OHDrop i)].

Lemma ocycle_run : forall f i p id e n t s0 s',
  i < lenN (hs f) ->
  MutRefine.id_of_path (cs f) p = Some id -> nthN (dirs (cs f)) id = Some e -> d_type e = TStream ->
  d_len e <> 0 -> n <> 0 ->
  resize id 0 (cs f) = (s0, Ok tt) -> resize id n s0 = (s', Ok tt) ->
  exists f',
    run_ops f (ocycle i p n t) = (f', [Ok VUnit; Ok VUnit; Ok VUnit]) /\
    cs f' = s' /\ maxbuf f' = maxbuf f /\ lenN (hs f') = lenN (hs f) /\
    nthN (hs f') i = Some None /\
    (forall k, k <> i -> nthN (hs f') k = nthN (hs f) k).
Proof.
  intros f i p id e n t s0 s' Hi Hid He Ht Hl Hn R0 R1.
  destruct (api_create_overwrite p (maxbuf f) t (cs f) id e s0 Hid He Ht Hl R0) as (h & Ec & Hh1 & Hh2 & Hh3).
  set (f1 := mkF s0 (updN (hs f) i (Some h)) (maxbuf f)).
  assert (E1 : step f t (OCreateStream i p) = (f1, Ok VUnit)).
  { cbn [step]. unfold with_new_handle. cbn [cs hs maxbuf]. rewrite Ec. reflexivity. }
  assert (Hs1 : nthN (hs f1) i = Some (Some h)) by (cbn [f1 hs]; apply nthN_updN_same; exact Hi).
  pose proof (step_setlen_clean f1 t i h n s' Hs1 Hh3 ltac:(rewrite Hh2; exact Hn)
                ltac:(rewrite Hh1; exact R1)) as E2.
  set (h2 := mkHandle (h_id h) n (buf_clear (h_buf h)) (N.min (h_position h) n) false) in *.
  set (f2 := mkF s' (updN (hs f1) i (Some h2)) (maxbuf f1)) in *.
  assert (Hs2 : nthN (hs f2) i = Some (Some h2)).
  { cbn [f2 hs]. apply nthN_updN_same. cbn [f1 hs]. rewrite lenN_updN. exact Hi. }
  assert (E3 : step f2 t (OHDrop i) = (mkF s' (updN (hs f2) i None) (maxbuf f2), Ok VUnit)).
  { cbn [step]. unfold drop_handle, drop_result. rewrite Hs2.
    unfold flush_changes', flush_changes. cbn [h2 h_dirty cs snd]. reflexivity. }
  eexists. split.
  { unfold ocycle. cbn [ReadonlyTotal.run_ops]. rewrite E1, E2, E3. reflexivity. }
  cbn [cs hs maxbuf f2 f1]. split; [reflexivity|]. split; [reflexivity|].
  split; [rewrite !lenN_updN; reflexivity|].
  split; [apply nthN_updN_same; rewrite !lenN_updN; exact Hi|].
  intros k Hk. rewrite !nthN_updN_other by congruence. reflexivity.
Qed.

(* ---- path lookup reads names and links only, which resize never changes ---- *)
Definition same_links (ds ds' : list dirent) : Prop :=
  length ds' = length ds /\
  forall j e, nthN ds j = Some e ->
    exists e', nthN ds' j = Some e' /\ d_name e' = d_name e /\
               d_left e' = d_left e /\ d_right e' = d_right e /\ d_child e' = d_child e.

Lemma same_links_entry : forall ds ds' j, same_links ds ds' ->
  match dir_entry_of ds j, dir_entry_of ds' j with
  | Ok e, Ok e' => d_name e' = d_name e /\ d_left e' = d_left e /\ d_right e' = d_right e /\ d_child e' = d_child e
  | Panic a, Panic b => a = b
  | _, _ => False
  end.
Proof.
  intros ds ds' j [Hl H]. unfold dir_entry_of. destruct (nthN ds j) as [e|] eqn:E.
  - destruct (H j e E) as (e' & -> & P). exact P.
  - apply nthN_None_ge in E. rewrite WalkProofs.lenN_length, <- Hl, <- WalkProofs.lenN_length in E.
    destruct (nthN ds' j) as [e'|] eqn:E'; [apply nthN_Some_lt in E'; lia|reflexivity].
Qed.

Lemma find_in_siblings_links : forall ds ds' nm, same_links ds ds' ->
  forall fuel id, find_in_siblings fuel ds' nm id = find_in_siblings fuel ds nm id.
Proof.
  intros ds ds' nm HL. induction fuel as [|fuel IH]; intro id; [reflexivity|].
  cbn [find_in_siblings]. destruct (id =? NO_STREAM); [reflexivity|].
  pose proof (same_links_entry ds ds' id HL) as H.
  destruct (dir_entry_of ds id) as [e|k|a|], (dir_entry_of ds' id) as [e'|k'|a'|]; try contradiction.
  - destruct H as (Hn & Hlf & Hr & _). cbn [rbind]. rewrite Hn, Hlf, Hr.
    destruct (cmp_names nm (d_name e)); [reflexivity|apply IH|apply IH].
  - subst a'. reflexivity.
Qed.

Lemma lookup_chain_links : forall ds ds', same_links ds ds' ->
  forall names id, lookup_chain ds' names id = lookup_chain ds names id.
Proof.
  intros ds ds' HL. induction names as [|nm rest IH]; intro id; [reflexivity|].
  cbn [lookup_chain]. pose proof (same_links_entry ds ds' id HL) as H.
  destruct (dir_entry_of ds id) as [e|k|a|], (dir_entry_of ds' id) as [e'|k'|a'|]; try contradiction.
  - destruct H as (_ & _ & _ & Hc). cbn [rbind]. rewrite Hc. rewrite (proj1 HL).
    rewrite (find_in_siblings_links ds ds' nm HL).
    destruct (find_in_siblings (S (length ds)) ds nm (d_child e)) as [[cid|]| | |]; cbn [rbind]; try reflexivity.
    apply IH.
  - subst a'. reflexivity.
Qed.

Lemma DF_same_links : forall P ds ds', DF P ds ds' -> same_links ds ds'.
Proof.
  intros P ds ds' [Hl H]. split.
  - rewrite !WalkProofs.lenN_length in Hl. lia.
  - intros j e He. destruct (H j e He) as (e' & He' & R). exists e'. split; [exact He'|].
    destruct (P j).
    + destruct (same_meta_ent_fields _ _ R) as (A & _ & _ & B & C & D & _). auto.
    + subst e'. auto.
Qed.

Lemma id_of_path_resize : forall s s' id n r p,
  resize id n s = (s', r) -> MutRefine.id_of_path s' p = MutRefine.id_of_path s p.
Proof.
  intros s s' id n r p R. unfold MutRefine.id_of_path.
  destruct (name_chain_from_path p) as [names| | |]; try reflexivity.
  pose proof (framesR_resize id n s) as D. rewrite R in D. cbn [fst] in D.
  rewrite (lookup_chain_links _ _ (DF_same_links _ _ _ D)). reflexivity.
Qed.

Theorem overwrite_api_stable : forall j f i p id n t ids,
  i < lenN (hs f) -> MutRefine.id_of_path (cs f) p = Some id -> BigFull (cs f) id n ids ->
  exists fj,
    run_ops f (rep_ops j (ocycle i p n t)) = (fj, repeat (Ok VUnit) (3 * j)) /\
    nsect (cs fj) = nsect (cs f) /\ free (cs fj) = free (cs f) /\
    BigFull (cs fj) id n (flip j ids) /\
    MutRefine.id_of_path (cs fj) p = Some id /\ lenN (hs fj) = lenN (hs f) /\
    (forall strict, open_model strict (concat_img (img (cs fj))) = Ok (reopened (cs fj))) /\
    SA.others_kept (cs f) (cs fj) id.
Proof.
  induction j as [|j IH]; intros f i p id n t ids Hi Hid HF.
  - exists f. cbn [rep_ops ReadonlyTotal.run_ops Nat.mul repeat]. split; [reflexivity|].
    repeat (split; [reflexivity|]). split; [exact HF|]. split; [exact Hid|]. split; [reflexivity|].
    split; [exact (cohdata'_reopens _ (bf_coh _ _ _ _ HF))|apply SA.others_kept_refl].
  - destruct (overwrite_cycle_once (cs f) id n ids HF)
      as (s0 & s' & R0 & R1 & _ & _ & _ & _ & HF' & _ & Fr' & N' & _ & _ & Ho' & _).
    pose proof HF as [_ (V & HB) Hsi _ Hcut _ _].
    destruct (big_entry_of_content _ _ _ _ HB Hsi) as (e & He & (Ht & Hbig) & _).
    assert (Hl : d_len e <> 0) by (rewrite CUTOFF_val in Hbig; lia).
    assert (Hn : n <> 0) by (rewrite CUTOFF_val in Hcut; lia).
    destruct (ocycle_run f i p id e n t s0 s' Hi Hid He Ht Hl Hn R0 R1)
      as (f1 & E1 & C1 & M1 & L1 & _ & _).
    assert (Hid1 : MutRefine.id_of_path (cs f1) p = Some id).
    { rewrite C1, (id_of_path_resize _ _ _ _ _ p R1), (id_of_path_resize _ _ _ _ _ p R0). exact Hid. }
    rewrite <- C1 in HF', Fr', N', Ho'.
    destruct (IH f1 i p id n t (rev ids) ltac:(rewrite L1; exact Hi) Hid1 HF')
      as (fj & Ej & Nj & Frj & HFj & Hidj & Lj & Hopj & Hoj).
    exists fj. split.
    { cbn [rep_ops]. rewrite run_ops_app, E1. cbn [fst snd]. rewrite Ej. cbn [fst snd].
      replace (3 * S j)%nat with (S (S (S (3 * j)))) by lia. reflexivity. }
    split; [congruence|]. split; [congruence|].
    split.
    { rewrite flip_S. unfold flip in *. destruct (Nat.even j); [exact HFj|].
      rewrite rev_involutive in HFj. rewrite rev_involutive. exact HFj. }
    split; [exact Hidj|]. split; [congruence|]. split; [exact Hopj|].
    exact (SA.others_kept_trans _ _ _ _ Ho' Hoj).
Qed.

Module ExampleHandles.
  Import HandleFrame.Example DataPersist.Example.
  Import DataPersist2.Example1 DataPersist2.Example3 DataPersist2.Example5.
  Import ExampleBig.

  Ltac arith := vm_compute; first [reflexivity | discriminate | (intro; discriminate)].

  (* slot 3 of fH is the handle "/d" was created with: clean, length 0 *)
  Example fH_handle : HClean fH 3 4.
  Proof. eexists. split; [vm_compute; reflexivity|]. repeat split. Qed.

  (* ---- set_len 100 / set_len 0 through that handle, any number of times ---- *)
  Example hcycle_100 :
    forall j, exists fj,
      run_ops fH (rep_ops j (hcycle 3 100 0)) = (fj, repeat (Ok VUnit) (2 * j)) /\
      nsect (cs fj) = 15 /\ free (cs fj) = [] /\ CohData' (cs fj) /\ SA.empty_stream (cs fj) 4.
  Proof.
    assert (HR : SmallCycleReady (cs fH) 4 100 [3] [2]).
    { constructor; [exact fH_cd'|exact d_empty|arith|arith|exact (proj1 ExampleSmall.fH_mini)|left; arith|arith]. }
    intro j. destruct (small_hcycle_stable fH 3 4 100 0 _ _ fH_handle HR j)
      as (fj & Er & Nj & Frj & _ & Cj & Emj & _).
    exists fj. split; [exact Er|]. split; [rewrite Nj; arith|]. split; [rewrite Frj; arith|].
    split; [exact Cj|exact Emj].
  Qed.

  (* ---- set_len 5000 / set_len 0 through the handle, starting after one
          5000-byte cycle (ten sectors on the free stack) ---- *)
  Definition fR : fstate := mkF sR (hs fH) (maxbuf fH).

  Example hcycle_5000 :
    forall j, exists fj,
      run_ops fR (rep_ops j (hcycle 3 5000 0)) = (fj, repeat (Ok VUnit) (2 * j)) /\
      nsect (cs fj) = 25 /\ free (cs fj) = rev (flip j (rev ids5000)) /\
      CohData' (cs fj) /\ SA.empty_stream (cs fj) 4.
  Proof.
    assert (HCD : CohData' sR) by (apply cohdata'_b_sound; vm_compute; reflexivity).
    assert (Hem : SA.empty_stream sR 4).
    { eexists. unfold SA.empty_at. repeat split; vm_compute; reflexivity. }
    assert (HR : BigCycleReady (cs fR) 4 5000 [] (rev ids5000)).
    { constructor; [exact HCD|exact Hem|arith|arith|arith|arith|unfold LenFits; arith]. }
    assert (HCl : HClean fR 3 4) by (destruct fH_handle as (h & A & B); exists h; split; [exact A|exact B]).
    intro j. destruct (big_hcycle_stable fR 3 4 5000 0 _ _ HCl HR j)
      as (fj & Er & Nj & Frj & Cj & Emj & _).
    exists fj. split; [exact Er|]. split; [rewrite Nj; arith|]. split; [exact Frj|].
    split; [exact Cj|exact Emj].
  Qed.

  Example hcycle_5000_evaluated :
    map (fun j => nsect (cs (fst (run_ops fH (rep_ops j (hcycle 3 5000 0)))))) [0%nat; 1%nat; 2%nat; 3%nat]
    = [15; 25; 25; 25].
  Proof. vm_compute. reflexivity. Qed.

  (* ---- "/d" holds 5000 bytes; create_stream("/d") truncates it, set_len 5000
          through the new handle (slot 2), close: any number of times ---- *)
  Definition fM : fstate := mkF m5000 (hs fH) (maxbuf fH).

  Example ocycle_5000 :
    forall j, exists fj,
      run_ops fM (rep_ops j (ocycle 2 [47; 100] 5000 0)) = (fj, repeat (Ok VUnit) (3 * j)) /\
      nsect (cs fj) = 25 /\ free (cs fj) = [] /\
      BigFull (cs fj) 4 5000 (flip j ids5000).
  Proof.
    assert (HCD : CohData' m5000) by (apply cohdata'_b_sound; vm_compute; reflexivity).
    mid_facts m5000 ids5000.
    assert (HF : BigFull (cs fM) 4 5000 ids5000).
    { constructor; [exact HCD|eexists; exact HB|exact Hsi|arith|arith|arith|unfold LenFits; arith]. }
    intro j. destruct (overwrite_api_stable j fM 2 [47; 100] 4 5000 0 ids5000 ltac:(arith) ltac:(arith) HF)
      as (fj & Er & Nj & Frj & HFj & _).
    exists fj. split; [exact Er|]. split; [rewrite Nj; arith|]. split; [rewrite Frj; arith|exact HFj].
  Qed.

  Example ocycle_5000_evaluated :
    map (fun j => let f := fst (run_ops fM (rep_ops j (ocycle 2 [47; 100] 5000 0))) in
                  (nsect (cs f), free (cs f)))
        [0%nat; 1%nat; 2%nat; 3%nat]
    = [(25, []); (25, []); (25, []); (25, [])].
  Proof. vm_compute. reflexivity. Qed.
End ExampleHandles.

(* ================================================================== *)
(* 2. create / grow / remove (conditional on the creation step)        *)
(* ================================================================== *)

(* the second and third steps of the cycle "create a stream, give it n bytes,
   remove it": the chain is built from the top of the free stack and goes back
   there; the directory slot is unallocated again *)
Theorem grow_remove_big : forall c1 p id n base nw c3,
  CohTree c1 -> MutRefine.id_of_path c1 p = Some id -> BigCycleReady c1 id n base nw ->
  api_remove_stream p (fst (resize id n c1)) = (c3, Ok tt) ->
  snd (resize id n c1) = Ok tt /\
  CohTree c3 /\ nthN (dirs c3) id = Some dirent_unallocated /\
  free c3 = base ++ nw /\ nsect c3 = nsect c1 /\
  (forall strict, open_model strict (concat_img (img c3)) = Ok (reopened c3)) /\
  SA.others_kept c1 c3 id.
Proof.
  intros c1 p id n base nw c3 [HCD1 HTP1] Hid [_ Hemp Hfree Hcount Hcut Hmax Hfit] Hrm.
  destruct (resize_empty_big_ids c1 id n base nw HCD1 Hemp Hcut Hmax Hfit Hfree Hcount)
    as (c2 & R1 & HCD2 & _ & HB2 & Hsi2 & Fr2 & N2 & _ & Ho2 & HT2).
  rewrite R1 in Hrm. cbn [fst] in Hrm. rewrite R1. cbn [snd]. split; [reflexivity|].
  destruct (big_entry_of_content _ _ _ _ HB2 Hsi2) as (e & He & (Ht & Hbig) & Hc).
  assert (Hid2 : MutRefine.id_of_path c2 p = Some id) by (rewrite (id_of_path_resize _ _ _ _ _ p R1); exact Hid).
  destruct (remove_big_stream_cohtree p c2 c3 id e (conj HCD2 (HT2 HTP1)) Hrm Hid2 He Hbig)
    as (HCT3 & Hop3 & Hun & Ho3 & (ids & Hc' & Fr3) & N3).
  assert (ids = nw) by congruence. subst ids.
  split; [exact HCT3|]. split; [exact Hun|]. split; [rewrite Fr3, Fr2; reflexivity|].
  split; [congruence|]. split; [exact Hop3|]. exact (SA.others_kept_trans _ _ _ _ Ho2 Ho3).
Qed.

(* the removal of a large stream keeps the version *)
Lemma remove_big_stream_ver : forall p s s' id e,
  CohTree s -> api_remove_stream p s = (s', Ok tt) ->
  MutRefine.id_of_path s p = Some id -> nthN (dirs s) id = Some e ->
  MINI_STREAM_CUTOFF <= d_len e -> ver s' = ver s /\ lenN (dirs s') = lenN (dirs s).
Proof.
  intros p s s' id e [HCD HTP] H Hidp He Hbig.
  pose proof HCD as [HC (r & rids & mfids & dids & HSD) HF Hax].
  unfold api_remove_stream, remove_stream_names in H.
  destruct (MutRefine.names_lookup_inv _ _ _ _ _ _ H) as (names & r0 & En & Hlk & HK).
  destruct r0 as [id0|]; [|discriminate HK].
  assert (id0 = id).
  { unfold MutRefine.id_of_path in Hidp. rewrite En, Hlk in Hidp. congruence. }
  subst id0.
  binv HK e1 s0 H1 H2. apply dir_entry_inv in H1. destruct H1 as [-> He1].
  assert (e1 = e) by congruence. subst e1.
  destruct (objtype_eqb (d_type e) TStream) eqn:T1; cbn [negb] in H2; [|discriminate H2].
  destruct (d_child e =? NO_STREAM) eqn:Ch; cbn [negb] in H2; [|discriminate H2].
  apply objtype_eqb_true in T1.
  destruct (d_len e <? MINI_STREAM_CUTOFF) eqn:Ecut; [lia|].
  binv H2 u1 s1 H1 H2.
  assert (Hbe : SA.big_entry e) by (split; assumption).
  destruct (SA.sw_bigchain _ _ _ _ _ _ (proj1 HSD) id e (SA.noX_not _) He Hbe) as (ids & Hc & _).
  destruct (free_whole_ready s r rids mfids dids id e ids HCD HSD He Hbe Hc)
    as (s1' & Efree & HC1 & _ & _ & HQ1 & _).
  destruct u1. rewrite H1 in Efree. injection Efree as <-.
  destruct (SA.Q_fields s s1 HQ1) as (_ & _ & _ & Hd1 & _ & Hv1 & _).
  destruct (lastN names) as [nm|] eqn:Hlast; [|discriminate H2].
  destruct (MutRefine.lookup_inv _ _ _ _ _ _ H2) as (pr & Hlkp & H3). clear H2.
  destruct pr as [pid|]; [|discriminate H3].
  destruct (coherent_DH s1 HC1) as (dd & HD).
  destruct (dstep_remove_dir_entry dd pid nm s1 s' tt HD H3) as [_ F].
  destruct F as (F1 & _ & _ & _ & _ & _ & _ & _ & _ & _ & _ & _ & _ & _ & F15).
  split; [congruence|]. rewrite F15, Hd1. reflexivity.
Qed.

(* j repetitions of create / set length n / remove.  What DataPersist2 does not
   prove about the creation step is recorded here as a premise of each
   repetition: the state after the creation satisfies the invariant, the new
   stream is empty, the path resolves to it, and the creation allocated no
   sector (true whenever the directory has a free slot, in particular from the
   second repetition on, because the removal frees one). *)
Inductive CycleRun (p : list N) (n mb now : N) : nat -> cstate -> cstate -> Prop :=
| CR_nil : forall s, CycleRun p n mb now 0 s s
| CR_cons : forall j s c1 h c3 s',
    api_create_stream p false mb now s = (c1, Ok h) ->
    CohTree c1 -> SA.empty_stream c1 (h_id h) -> MutRefine.id_of_path c1 p = Some (h_id h) ->
    free c1 = free s -> nsect c1 = nsect s -> ver c1 = ver s ->
    api_remove_stream p (fst (resize (h_id h) n c1)) = (c3, Ok tt) ->
    CycleRun p n mb now j c3 s' ->
    CycleRun p n mb now (S j) s s'.

Theorem create_grow_remove_stable : forall p n mb now j s s' base nw,
  CycleRun p n mb now j s s' ->
  free s = base ++ rev nw -> lenN nw = ceil_sectors s n ->
  MINI_STREAM_CUTOFF <= n -> n <= MAX_REGULAR_SECTOR * slen s -> LenFits s n ->
  nsect s' = nsect s /\ free s' = base ++ rev (flip j nw) /\ ver s' = ver s /\
  (j <> O -> CohTree s').
Proof.
  intros p n mb now j s s' base nw H. revert base nw.
  induction H as [s|j s c1 h c3 s' Hc HCT1 Hem1 Hid1 Fr1 N1 V1 Hrm Hrest IH];
    intros base nw Hfree Hcount Hcut Hmax Hfit.
  - split; [reflexivity|]. split; [exact Hfree|]. split; [reflexivity|]. intro E; contradiction.
  - pose proof (slen_of_ver s c1 V1) as Hsl1.
    assert (HR : BigCycleReady c1 (h_id h) n base nw).
    { constructor; [exact (proj1 HCT1)|exact Hem1|congruence| | | |].
      - unfold ceil_sectors in *. rewrite Hsl1. exact Hcount.
      - exact Hcut.
      - rewrite Hsl1. exact Hmax.
      - unfold LenFits in *. rewrite V1. exact Hfit. }
    destruct (grow_remove_big c1 p (h_id h) n base nw c3 HCT1 Hid1 HR Hrm)
      as (Rok & HCT3 & _ & Fr3 & N3 & _ & _).
    assert (V3 : ver c3 = ver c1).
    { destruct (resize_empty_big_ids c1 (h_id h) n base nw (bcr_coh _ _ _ _ _ HR) (bcr_empty _ _ _ _ _ HR)
                  (bcr_cut _ _ _ _ _ HR) (bcr_max _ _ _ _ _ HR) (bcr_fits _ _ _ _ _ HR)
                  (bcr_free _ _ _ _ _ HR) (bcr_count _ _ _ _ _ HR))
        as (c2 & R2 & HCD2 & _ & HB2 & Hsi2 & _ & _ & V2 & _ & HT2).
      rewrite R2 in Hrm. cbn [fst] in Hrm.
      destruct (big_entry_of_content _ _ _ _ HB2 Hsi2) as (e & He & (Ht & Hbig) & _).
      assert (Hid2 : MutRefine.id_of_path c2 p = Some (h_id h))
        by (rewrite (id_of_path_resize _ _ _ _ _ p R2); exact Hid1).
      rewrite <- V2.
      exact (proj1 (remove_big_stream_ver p c2 c3 (h_id h) e (conj HCD2 (HT2 (proj2 HCT1))) Hrm Hid2 He Hbig)). }
    destruct (IH base (rev nw)) as (Nj & Frj & Vj & _).
    + rewrite rev_involutive. exact Fr3.
    + rewrite WalkProofs.lenN_rev. unfold ceil_sectors in *.
      rewrite (slen_of_ver c1 c3 V3), Hsl1. exact Hcount.
    + exact Hcut.
    + rewrite (slen_of_ver c1 c3 V3), Hsl1. exact Hmax.
    + unfold LenFits in *. rewrite V3, V1. exact Hfit.
    + split; [congruence|]. split.
      { rewrite Frj. f_equal. f_equal. rewrite flip_S. unfold flip.
        destruct (Nat.even j); [reflexivity|rewrite rev_involutive; reflexivity]. }
      split; [congruence|]. intros _. destruct j as [|j'].
      * inversion Hrest; subst. exact HCT3.
      * destruct (IH base (rev nw)) as (_ & _ & _ & X); try assumption.
        -- rewrite rev_involutive. exact Fr3.
        -- rewrite WalkProofs.lenN_rev. unfold ceil_sectors in *.
           rewrite (slen_of_ver c1 c3 V3), Hsl1. exact Hcount.
        -- rewrite (slen_of_ver c1 c3 V3), Hsl1. exact Hmax.
        -- unfold LenFits in *. rewrite V3, V1. exact Hfit.
        -- apply X. discriminate.
Qed.

(* ---- the premises of a repetition can be checked on a concrete run ---- *)

(* any resize: the tree part follows from the invariant of the new state *)
Lemma resize_treepart : forall s s' id n e,
  TreePart s -> resize id n s = (s', Ok tt) -> CohData' s' -> ver s' = ver s ->
  nthN (dirs s) id = Some e -> d_type e = TStream -> TreePart s'.
Proof.
  intros s s' id n e HTP R HCD' Hv He Ht.
  apply (TreePart_DF s s' id HTP (cd_coh s' HCD') Hv).
  - pose proof (framesR_resize id n s) as D. rewrite R in D. exact D.
  - intros e0 He0 _. assert (e0 = e) by congruence. subst e0. exact Ht.
Qed.

(* the creation of a new stream keeps "the table represents a tree" *)
Lemma create_keeps_treeinv : forall p mb now s s' h,
  TreeInv (dirs s) -> lenN (dirs s) < NO_STREAM ->
  api_create_stream p false mb now s = (s', Ok h) -> TreeInv (dirs s').
Proof.
  intros p mb now s s' h (t & HT & HU) Hdl H. pose proof H as H0.
  unfold api_create_stream in H.
  destruct (MutRefine.names_lookup_inv _ _ _ _ _ _ H) as (names & r & En & Hlk & HK).
  destruct r as [id0|].
  { binv HK e0 s1 H1 H2. destruct (negb (objtype_eqb (d_type e0) TStream)); discriminate H2. }
  destruct (MutRefine.create_stream_refines ctrue ctrue p false mb now s s' t h HT HU Hdl)
    as (t' & _ & HT' & HU' & _).
  { intros names' En'. assert (names' = names) by congruence. subst names'.
    pose proof (MutRefine.lookup_get _ _ _ _ _ HT Hlk) as Hg.
    destruct (Tree.get t names); [contradiction|reflexivity]. }
  { intros i bs _ c. exact c. }
  { exact I. }
  { exact H0. }
  exists t'. split; assumption.
Qed.

Lemma created_check : forall p mb now s c1 h,
  CohTree s -> lenN (dirs s) < NO_STREAM ->
  api_create_stream p false mb now s = (c1, Ok h) ->
  cohdata'_b c1 = true -> forallb (ent_ok_b (ver c1)) (dirs c1) = true -> rootok_b c1 = true ->
  CohTree c1.
Proof.
  intros p mb now s c1 h [_ [_ _ HTI]] Hdl Hc B1 B2 B3.
  split; [apply cohdata'_b_sound; exact B1|].
  apply treepart_check; [exact B2|exact B3|exact (create_keeps_treeinv p mb now s c1 h HTI Hdl Hc)].
Qed.

Module ExampleCreateRemove.
  Import HandleFrame.Example DataPersist.Example.
  Import DataPersist2.Example1 DataPersist2.Example3 DataPersist2.Example5.
  Import ExampleBig.

  Ltac arith := vm_compute; first [reflexivity | discriminate | (intro; discriminate)].

  Definition p_e : list N := [47; 101].                      (* "/e" *)

  (* through the API: create "/e" (slot 2), set_len 5000, close, remove; the
     file is fH (15 sectors, no free sector): 25 sectors after repetitions 1, 2, 3 *)
  Definition crcycle (n : N) : list (N * op) :=
    [(0, OCreateNewStream 2 p_e); (0, OHSetLen 2 n); (0, OHDrop 2); (0, ORemoveStream p_e)].

  Example create_remove_5000_evaluated :
    map (fun j => let r := run_ops fH (rep_ops j (crcycle 5000)) in
                  (nsect (cs (fst r)), forallb (fun x => match x with Ok _ => true | _ => false end) (snd r)))
        [0%nat; 1%nat; 2%nat; 3%nat]
    = [(15, true); (25, true); (25, true); (25, true)].
  Proof. vm_compute. reflexivity. Qed.

  Example create_remove_9000_evaluated :
    map (fun j => nsect (cs (fst (run_ops fH (rep_ops j (crcycle 9000)))))) [0%nat; 1%nat; 2%nat; 3%nat]
    = [15; 33; 33; 33].
  Proof. vm_compute. reflexivity. Qed.

  (* small streams: 100 bytes fit the mini free list, 4000 bytes make the
     container grow once *)
  Example create_remove_small_evaluated :
    map (fun j => (nsect (cs (fst (run_ops fH (rep_ops j (crcycle 100))))),
                   nsect (cs (fst (run_ops fH (rep_ops j (crcycle 4000)))))))
        [0%nat; 1%nat; 2%nat; 3%nat]
    = [(15, 15); (15, 23); (15, 23); (15, 23)].
  Proof. vm_compute. reflexivity. Qed.
End ExampleCreateRemove.

(* one repetition whose premises are checked by evaluation *)
Lemma checked_rep : forall p n mb now s c1 h c3 base nw,
  CohTree s -> lenN (dirs s) < NO_STREAM ->
  api_create_stream p false mb now s = (c1, Ok h) ->
  cohdata'_b c1 = true -> forallb (ent_ok_b (ver c1)) (dirs c1) = true -> rootok_b c1 = true ->
  SA.empty_stream c1 (h_id h) -> MutRefine.id_of_path c1 p = Some (h_id h) ->
  free c1 = free s -> nsect c1 = nsect s -> ver c1 = ver s ->
  BigCycleReady c1 (h_id h) n base nw ->
  api_remove_stream p (fst (resize (h_id h) n c1)) = (c3, Ok tt) ->
  CohTree c3 /\ free c3 = base ++ nw /\ nsect c3 = nsect s /\
  (forall j s', CycleRun p n mb now j c3 s' -> CycleRun p n mb now (S j) s s').
Proof.
  intros p n mb now s c1 h c3 base nw HCT Hdl Hc B1 B2 B3 Hem Hid Fr1 N1 V1 HR Hrm.
  pose proof (created_check p mb now s c1 h HCT Hdl Hc B1 B2 B3) as HCT1.
  destruct (grow_remove_big c1 p (h_id h) n base nw c3 HCT1 Hid HR Hrm) as (_ & HCT3 & _ & Fr3 & N3 & _).
  split; [exact HCT3|]. split; [exact Fr3|]. split; [congruence|].
  intros j s' Hrest. exact (CR_cons p n mb now j s c1 h c3 s' Hc HCT1 Hem Hid Fr1 N1 V1 Hrm Hrest).
Qed.

Module ExampleCycleRun.
  Import HandleFrame.Example DataPersist.Example.
  Import DataPersist2.Example1 DataPersist2.Example3 DataPersist2.Example5.
  Import ExampleBig ExampleCreateRemove.

  Ltac arith := vm_compute; first [reflexivity | discriminate | (intro; discriminate)].

  (* sR = fH after one 5000-byte cycle on "/d": 25 sectors, ten of them free *)
  Example sR_ct : CohTree sR.
  Proof.
    assert (Hm : CohTree m5000).
    { assert (HCD : CohData' m5000) by (apply cohdata'_b_sound; vm_compute; reflexivity).
      split; [exact HCD|].
      eapply (resize_treepart (cs fH) m5000 4 5000); [exact (proj2 DataPersist2.Example6.fH_ct)| | exact HCD| | |];
        vm_compute; reflexivity. }
    assert (HCD : CohData' sR) by (apply cohdata'_b_sound; vm_compute; reflexivity).
    split; [exact HCD|].
    eapply (resize_treepart m5000 sR 4 0); [exact (proj2 Hm)| | exact HCD| | |]; vm_compute; reflexivity.
  Qed.

  Definition mb : N := 4096.
  Definition create (s : cstate) := api_create_stream p_e false mb 0 s.
  Definition after_create (s : cstate) : cstate := fst (create s).
  Definition after_remove (c1 : cstate) : cstate := fst (api_remove_stream p_e (fst (resize 1 5000 c1))).

  Definition c1a := Eval vm_compute in after_create sR.
  Definition c3a := Eval vm_compute in after_remove c1a.
  Definition c1b := Eval vm_compute in after_create c3a.
  Definition c3b := Eval vm_compute in after_remove c1b.
  Definition c1c := Eval vm_compute in after_create c3b.
  Definition c3c := Eval vm_compute in after_remove c1c.

  Definition idsA : list N := [24; 23; 22; 21; 20; 19; 18; 17; 16; 15].

  (* three repetitions of create "/e" / 5000 bytes / remove on sR: the premises
     of the conditional theorem hold (checked by evaluation), so the theorem
     applies: the sector count stays 25 *)
  (* the checkable premises of one repetition, for a concrete pair of states *)
  Ltac rep_step s c1 c3 nwl HCTin HCTout K :=
    let h := fresh "h" in let E := fresh "E" in let I := fresh "I" in
    assert (exists h0, create s = (c1, Ok h0) /\ h_id h0 = 1) as (h & E & I)
      by (eexists; split; vm_compute; reflexivity);
    assert (Hem : SA.empty_stream c1 1)
      by (eexists; unfold SA.empty_at; repeat split; vm_compute; reflexivity);
    assert (HR : BigCycleReady c1 1 5000 [] nwl)
      by (constructor; [apply cohdata'_b_sound; vm_compute; reflexivity|exact Hem
                       |vm_compute; reflexivity|vm_compute; reflexivity|arith|arith|unfold LenFits; arith]);
    assert (B1 : cohdata'_b c1 = true) by (vm_compute; reflexivity);
    assert (B2 : forallb (ent_ok_b (ver c1)) (dirs c1) = true) by (vm_compute; reflexivity);
    assert (B3 : rootok_b c1 = true) by (vm_compute; reflexivity);
    assert (P1 : MutRefine.id_of_path c1 p_e = Some 1) by (vm_compute; reflexivity);
    assert (P2 : free c1 = free s) by (vm_compute; reflexivity);
    assert (P3 : nsect c1 = nsect s) by (vm_compute; reflexivity);
    assert (P4 : ver c1 = ver s) by (vm_compute; reflexivity);
    assert (P5 : api_remove_stream p_e (fst (resize 1 5000 c1)) = (c3, Ok tt)) by (vm_compute; reflexivity);
    assert (P0 : lenN (dirs s) < NO_STREAM) by (vm_compute; reflexivity);
    rewrite <- I in Hem, HR, P1, P5;
    destruct (checked_rep p_e 5000 mb 0 s c1 h c3 [] nwl HCTin P0 E B1 B2 B3 Hem P1 P2 P3 P4 HR P5)
      as (HCTout & _ & _ & K);
    clear Hem HR B1 B2 B3 P1 P2 P3 P4 P5 P0.

  Example three_repetitions :
    CycleRun p_e 5000 mb 0 3 sR c3c /\ nsect c3c = nsect sR /\ free c3c = idsA /\ CohTree c3c.
  Proof.
    pose proof sR_ct as HCT0.
    rep_step sR c1a c3a idsA HCT0 HCTa Ka.
    rep_step c3a c1b c3b (rev idsA) HCTa HCTb Kb.
    rep_step c3b c1c c3c idsA HCTb HCTc Kc.
    split; [exact (Ka _ _ (Kb _ _ (Kc _ _ (CR_nil _ _ _ _ c3c))))|].
    split; [vm_compute; reflexivity|]. split; [vm_compute; reflexivity|exact HCTc].
  Qed.
End ExampleCycleRun.

(* ================================================================== *)
(* 1d. a large stream that keeps its first n0 bytes: grow to n1, cut   *)
(*     back to n0                                                      *)
(* ================================================================== *)

Lemma update_entry_ver : forall s s' id st ln,
  Coherent s -> update_entry id st ln s = (s', Ok tt) -> ver s' = ver s.
Proof.
  intros s s' id st ln HC H. destruct (coherent_DH s HC) as (dids & HD).
  unfold update_entry in H.
  destruct (dstep_with_dir_entry_mut dids id _ s s' tt HD H) as [_ (F1 & _)]. exact F1.
Qed.

Lemma big_ready_ver : forall s s2 r rids mfids dids id ids1 news,
  BigReady s s2 r rids mfids dids id ids1 news -> ver s2 = ver s /\ Coherent s2.
Proof.
  intros s s2 r rids mfids dids id ids1 news (HC2 & _ & _ & _ & _ & HQ & _).
  destruct (SA.Q_fields s s2 HQ) as (_ & _ & _ & _ & _ & Hv & _). split; assumption.
Qed.

Lemma resize_big_reuse_ver : forall s id V ids new_len base nw s',
  CohData' s -> big_content s id V -> stream_ids s id ids ->
  slen s * lenN ids < new_len -> free s = base ++ rev nw ->
  lenN ids + lenN nw = (slen s + new_len - 1) / slen s ->
  new_len <= MAX_REGULAR_SECTOR * slen s -> LenFits s new_len ->
  resize id new_len s = (s', Ok tt) -> ver s' = ver s.
Proof.
  intros s id V ids new_len base nw s' HCD HB Hsi Hgt Hfree Hcount Hmax Hlen R0.
  pose proof (slen_pos s) as Hsp.
  pose proof HCD as [HC (r & rids & mfids & dids & HSD) HF _].
  destruct (big_entry_of_content s id V ids HB Hsi) as (e & He & Hbe & Hc).
  destruct (big_owned s r rids mfids dids id e ids (proj1 HSD) He Hbe Hc) as [_ Hcov].
  pose proof Hbe as [Ht Hbig].
  pose proof (ids_nonempty s ids _ Hbig Hcov) as Hne.
  pose proof (path_hd_start _ _ _ (WalkProofs.chain_ids_path _ _ _ Hc)) as Hhd.
  assert (Hnl0 : 0 < new_len) by lia.
  destruct (ceil_props (slen s) new_len Hsp Hnl0) as [Hc1 Hc2]. rewrite <- Hcount in Hc1, Hc2.
  destruct (grow_reuse_ready s r rids mfids dids id e ids base nw HCD HSD He Hbe Hc Hfree)
    as (s1 & Hgrow & BR1 & Fr1 & N1).
  destruct (zero_fill_ready s s1 r rids mfids dids id (ids ++ nw) nw (d_len e)
              (N.min new_len (slen s * lenN ids)) BR1)
    as (s2 & Hz & BR2 & F2 & N2 & _).
  { rewrite lenN_app. nia. }
  destruct (big_finish_cohdata' s s2 r rids mfids dids id e (ids ++ nw) nw new_len HCD HSD He Hbe BR2)
    as (s'' & Eu & _).
  { rewrite (SA.hd_app_ne ids nw END_OF_CHAIN Hne). symmetry. exact Hhd. }
  { intro Hin. destruct HF as [_ HFx].
    assert (Hinf : In (d_start e) (free s)).
    { rewrite Hfree. apply in_or_app. right. apply in_rev in Hin. exact Hin. }
    destruct (HFx _ Hinf) as (_ & Hxf & _).
    apply (free_not_in_chain s _ ids (d_start e) Hc Hxf). rewrite Hhd.
    destruct ids; [contradiction|left; reflexivity]. }
  { lia. }
  { rewrite lenN_app. exact Hc1. }
  { exact Hlen. }
  assert (R : resize id new_len s = (s'', Ok tt)).
  { eapply (resize_big_run s s1 s2 id e ids (ids ++ nw));
      [exact He|exact Hbe|exact Hc|exact Hcov| |exact Hz| |exact Eu| |exact Hmax|exact Hlen].
    - rewrite chain_set_len_grow; [|apply two64_room; exact Hmax|exact Hnl0|cbn [c_ids]; nia].
      cbn [c_ids]. rewrite <- Hcount.
      replace (N.to_nat (lenN ids + lenN nw - lenN ids)) with (length nw)
        by (rewrite (WalkProofs.lenN_length nw); lia).
      exact Hgrow.
    - rewrite SA.chain_start_hd, (SA.hd_app_ne ids nw END_OF_CHAIN Hne). symmetry. exact Hhd.
    - lia. }
  assert (s'' = s') by congruence. subst s''.
  destruct (big_ready_ver _ _ _ _ _ _ _ _ _ BR2) as [V2 HC2].
  rewrite (update_entry_ver s2 s' _ _ _ HC2 Eu). exact V2.
Qed.

Lemma resize_big_release_ver : forall s id V ids new_len s',
  CohData' s -> big_content s id V -> stream_ids s id ids ->
  MINI_STREAM_CUTOFF <= new_len -> new_len <= lenN V ->
  (slen s + new_len - 1) / slen s < lenN ids ->
  resize id new_len s = (s', Ok tt) -> ver s' = ver s.
Proof.
  intros s id V ids new_len s' HCD HB Hsi Hcut Hle Hlt R0.
  pose proof (slen_pos s) as Hsp.
  pose proof HCD as [HC (r & rids & mfids & dids & HSD) HF _].
  destruct (big_entry_of_content s id V ids HB Hsi) as (e & He & Hbe & Hc).
  destruct (big_owned s r rids mfids dids id e ids (proj1 HSD) He Hbe Hc) as [_ Hcov].
  pose proof Hbe as [Ht Hbig].
  pose proof (big_content_len _ _ _ _ HB He) as HlV.
  pose proof (path_hd_start _ _ _ (WalkProofs.chain_ids_path _ _ _ Hc)) as Hhd.
  assert (Hnl0 : 0 < new_len) by (rewrite CUTOFF_val in Hcut; lia).
  destruct (ceil_props (slen s) new_len Hsp Hnl0) as [Hc1 Hc2].
  set (n' := (slen s + new_len - 1) / slen s) in *.
  assert (Hmask : LenFits s new_len).
  { pose proof (old_len_fits s id e HC He). unfold LenFits in *. lia. }
  assert (Hmax : new_len <= MAX_REGULAR_SECTOR * slen s).
  { destruct HB as (e1 & ids1 & He1 & _ & _ & Hc1' & Hg & _).
    assert (ids1 = ids) by congruence. subst ids1.
    pose proof (good_chain_count _ _ Hg). pose proof (ch_nsect s HC). nia. }
  destruct (release_ready s r rids mfids dids id e ids new_len HCD HSD He Hbe Hc Hnl0 Hmax Hlt)
    as (s1 & Hset & BR1 & Fr1 & N1 & _).
  fold n' in BR1, Fr1.
  assert (Hne : ids <> []) by (eapply ids_nonempty; eassumption).
  assert (Hn1 : 1 <= n').
  { unfold n'. assert (0 < (slen s + new_len - 1) / slen s) by (apply N.div_str_pos; lia). lia. }
  assert (Hhdk : hd END_OF_CHAIN (takeN n' ids) = d_start e).
  { rewrite Hhd. destruct ids as [|a t]; [contradiction|].
    rewrite takeN_cons by lia. reflexivity. }
  destruct (big_finish_cohdata' s s1 r rids mfids dids id e (takeN n' ids) [] new_len HCD HSD He Hbe BR1 Hhdk)
    as (s'' & Eu & _).
  { intros []. }
  { exact Hcut. }
  { rewrite lenN_takeN. replace (N.min n' (lenN ids)) with n' by lia. exact Hc1. }
  { exact Hmask. }
  assert (R : resize id new_len s = (s'', Ok tt)).
  { eapply (resize_big_run s s1 s1 id e ids ids);
      [exact He|exact Hbe|exact Hc|exact Hcov|exact Hset| | |exact Eu|exact Hcut|exact Hmax|exact Hmask].
    - unfold zero_fill_chain.
      destruct (d_len e <? N.min new_len (slen s * lenN ids)) eqn:E; [lia|]. reflexivity.
    - rewrite SA.chain_start_hd. symmetry. exact Hhd. }
  assert (s'' = s') by congruence. subst s''.
  destruct (big_ready_ver _ _ _ _ _ _ _ _ _ BR1) as [V1 HC1].
  rewrite (update_entry_ver s1 s' _ _ _ HC1 Eu). exact V1.
Qed.

(* the cycle on a stream that keeps its content V (n0 bytes, chain ids0):
   "grow to n1 bytes, cut back to n0" *)
Definition grow_cut (id n1 n0 : N) : M unit := bind (resize id n1) (fun _ => resize id n0).

Record BigKept (s : cstate) (id n0 n1 : N) (V : list byte) (ids0 base nw : list N) : Prop := mkBK {
  bk_coh : CohData' s;
  bk_content : big_content s id V;
  bk_len : lenN V = n0;
  bk_ids : stream_ids s id ids0;
  bk_count0 : lenN ids0 = ceil_sectors s n0;
  bk_cut : MINI_STREAM_CUTOFF <= n0;
  bk_more : slen s * lenN ids0 < n1;
  bk_free : free s = base ++ rev nw;
  bk_count1 : lenN ids0 + lenN nw = ceil_sectors s n1;
  bk_max : n1 <= MAX_REGULAR_SECTOR * slen s;
  bk_fits : LenFits s n1
}.

Theorem grow_cut_once : forall s id n0 n1 V ids0 base nw,
  BigKept s id n0 n1 V ids0 base nw ->
  exists sm s',
    resize id n1 s = (sm, Ok tt) /\ resize id n0 sm = (s', Ok tt) /\
    grow_cut id n1 n0 s = (s', Ok tt) /\
    stream_ids sm id (ids0 ++ nw) /\ free sm = base /\ nsect sm = nsect s /\ CohData' sm /\
    BigKept s' id n0 n1 V ids0 base (rev nw) /\ free s' = base ++ nw /\
    nsect s' = nsect s /\ ver s' = ver s /\
    (forall strict, open_model strict (concat_img (img s')) = Ok (reopened s')) /\
    SA.others_kept s s' id /\ (TreePart s -> TreePart s').
Proof.
  intros s id n0 n1 V ids0 base nw [HCD HB HlV Hsi Hc0 Hcut Hmore Hfree Hc1 Hmax Hfit].
  pose proof (slen_pos s) as Hsp.
  unfold ceil_sectors in *.
  destruct (resize_big_reuse_cohdata' s id V ids0 n1 base nw HCD HB Hsi Hmore Hfree Hc1 Hmax Hfit)
    as (sm & R1 & HCDm & _ & _ & HBm & Hsim & Frm & Nm & Hom & HTm).
  pose proof (resize_big_reuse_ver s id V ids0 n1 base nw sm HCD HB Hsi Hmore Hfree Hc1 Hmax Hfit R1) as Vm.
  pose proof (slen_of_ver s sm Vm) as Hslm.
  assert (Hn01 : n0 <= n1).
  { assert (n0 <= slen s * ((slen s + n0 - 1) / slen s)) by (apply ceil_props; [exact Hsp|rewrite CUTOFF_val in Hcut; lia]).
    rewrite <- Hc0 in H. lia. }
  set (Vm' := V ++ repeatN 0 (n1 - lenN V)) in *.
  assert (HlVm : lenN Vm' = n1) by (unfold Vm'; rewrite lenN_app, lenN_repeatN; lia).
  assert (Hlt : (slen sm + n0 - 1) / slen sm < lenN (ids0 ++ nw)).
  { rewrite Hslm, lenN_app, <- Hc0.
    assert (lenN nw <> 0).
    { intro E. rewrite E, N.add_0_r in Hc1.
      assert (n1 <= slen s * ((slen s + n1 - 1) / slen s)) by (apply ceil_props; lia).
      rewrite <- Hc1 in H. lia. }
    lia. }
  destruct (resize_big_release_cohdata' sm id Vm' (ids0 ++ nw) n0 HCDm HBm Hsim Hcut ltac:(lia) Hlt)
    as (s' & R2 & HCD' & Hop' & _ & HB' & Hsi' & Fr' & N' & Ho' & HT').
  pose proof (resize_big_release_ver sm id Vm' (ids0 ++ nw) n0 s' HCDm HBm Hsim Hcut ltac:(lia) Hlt R2) as V'.
  assert (Hv : ver s' = ver s) by congruence.
  pose proof (slen_of_ver s s' Hv) as Hsl.
  rewrite Hslm, <- Hc0 in Hsi', Fr'.
  rewrite CodecProofs.takeN_app_exact in Hsi'. rewrite CodecProofs.dropN_app_exact in Fr'.
  assert (EV : takeN n0 Vm' = V).
  { unfold Vm'. rewrite <- HlV. apply CodecProofs.takeN_app_exact. }
  rewrite EV in HB'.
  exists sm, s'. split; [exact R1|]. split; [exact R2|].
  split; [unfold grow_cut; rewrite (bind_ok _ _ _ _ _ _ _ R1); exact R2|].
  split; [exact Hsim|]. split; [exact Frm|]. split; [exact Nm|]. split; [exact HCDm|].
  split.
  { constructor; unfold ceil_sectors; try assumption.
    - rewrite Hsl. exact Hc0.
    - rewrite Hsl. exact Hmore.
    - rewrite rev_involutive, Fr', Frm. reflexivity.
    - rewrite WalkProofs.lenN_rev, Hsl. exact Hc1.
    - rewrite Hsl. exact Hmax.
    - unfold LenFits in *. rewrite Hv. exact Hfit. }
  split; [rewrite Fr', Frm; reflexivity|]. split; [congruence|]. split; [exact Hv|].
  split; [exact Hop'|]. split; [exact (SA.others_kept_trans _ _ _ _ Hom Ho')|].
  intro HT. exact (HT' (HTm HT)).
Qed.

Theorem grow_cut_iter : forall j s id n0 n1 V ids0 base nw,
  BigKept s id n0 n1 V ids0 base nw ->
  exists sj,
    iter_cycle (grow_cut id n1 n0) j s = (sj, Ok tt) /\
    BigKept sj id n0 n1 V ids0 base (flip j nw) /\
    nsect sj = nsect s /\ ver sj = ver s /\
    (forall strict, open_model strict (concat_img (img sj)) = Ok (reopened sj)) /\
    SA.others_kept s sj id /\ (TreePart s -> TreePart sj).
Proof.
  induction j as [|j IH]; intros s id n0 n1 V ids0 base nw HK.
  - exists s. split; [reflexivity|]. split; [exact HK|]. split; [reflexivity|]. split; [reflexivity|].
    split; [exact (cohdata'_reopens s (bk_coh _ _ _ _ _ _ _ _ HK))|].
    split; [apply SA.others_kept_refl|]. intro H; exact H.
  - destruct (IH s id n0 n1 V ids0 base nw HK) as (sj & Ej & HKj & Nj & Vj & _ & Hoj & HTj).
    destruct (grow_cut_once sj id n0 n1 V ids0 base (flip j nw) HKj)
      as (sm & s' & _ & _ & Ec & _ & _ & _ & _ & HK' & _ & N' & V' & Hop' & Ho' & HT').
    exists s'. split; [exact (iter_cycle_snoc _ _ _ _ _ Ej Ec)|].
    split; [rewrite flip_S; exact HK'|]. split; [congruence|]. split; [congruence|].
    split; [exact Hop'|]. split; [exact (SA.others_kept_trans _ _ _ _ Hoj Ho')|].
    intro HT. exact (HT' (HTj HT)).
Qed.

Module ExampleGrowCut.
  Import HandleFrame.Example DataPersist.Example DataPersist2.Example1.

  Ltac arith := vm_compute; first [reflexivity | discriminate | (intro; discriminate)].

  (* fG: "/b" holds 4200 bytes in sectors 4..12, sector 13 is free.  The cycle
     "set_len 5000, set_len 4200" takes sector 13 and gives it back, any number
     of times; the content of "/b" is the same after every repetition *)
  Example grow_cut_fG :
    forall j, exists sj,
      iter_cycle (grow_cut 2 5000 4200) j (cs fG) = (sj, Ok tt) /\
      nsect sj = nsect (cs fG) /\ free sj = [13] /\ big_content sj 2 Vg /\ CohData' sj.
  Proof.
    destruct (big_check (cs fG) Vg idsg (proj2 fG_cd)) as [HB Hsi]; [vm_compute; reflexivity|].
    assert (HK : BigKept (cs fG) 2 4200 5000 Vg idsg [] [13]).
    { constructor; [exact fG_cd'|exact HB|arith|exact Hsi|arith|arith|arith|arith|arith|arith|unfold LenFits; arith]. }
    intro j. destruct (grow_cut_iter j (cs fG) 2 4200 5000 Vg idsg [] [13] HK) as (sj & Ej & HKj & Nj & _).
    exists sj. split; [exact Ej|]. split; [exact Nj|].
    split.
    { rewrite (bk_free _ _ _ _ _ _ _ _ HKj). unfold flip. destruct (Nat.even j); reflexivity. }
    split; [exact (bk_content _ _ _ _ _ _ _ _ HKj)|exact (bk_coh _ _ _ _ _ _ _ _ HKj)].
  Qed.

  Example grow_cut_fG_evaluated :
    sizes3 (grow_cut 2 5000 4200) (cs fG) = [(14, true); (14, true); (14, true)].
  Proof. vm_compute. reflexivity. Qed.
End ExampleGrowCut.

(* ================================================================== *)
(* 2b. the creation of a stream in a file that holds data, when the    *)
(*     directory has an unallocated slot                               *)
(* ================================================================== *)

(* insert_dir_entry into a free slot: a directory-only step (the analogue of
   DataPersist2.remove_entry_coh) *)
Lemma insert_entry_coh : forall s s' pid pe nm now nid u,
  Coherent s ->
  (forall dids mids, DirCoherence.dir_ids s dids -> DirCoherence.minifat_ids s mids -> avoids dids mids) ->
  TreePart s -> first_unalloc (dirs s) 0 <> None ->
  nthN (dirs s) pid = Some pe -> d_type pe <> TStream -> d_type pe <> TUnalloc ->
  Forall CodecProofs.scalar nm -> validate_name nm = Ok u -> now <= u64_max ->
  lenN (dirs s) <= MAX_REGULAR_STREAM_ID ->
  insert_dir_entry pid nm TStream now s = (s', Ok nid) ->
  TreeInv (dirs s') ->
  Coherent s' /\ TreePart s' /\ nid <> ROOT_STREAM_ID /\
  (exists e0, nthN (dirs s) nid = Some e0 /\ d_type e0 = TUnalloc) /\
  (exists en, nthN (dirs s') nid = Some en /\ same_payload (dirent_new nm TStream 0) en) /\
  (forall i e, i <> nid -> nthN (dirs s) i = Some e ->
     exists e', nthN (dirs s') i = Some e' /\ same_payload e e') /\
  exists dids, DirCoherence.dir_ids s dids /\ dframe dids s s'.
Proof.
  intros s s' pid pe nm now nid u HC Hdm [Hents Hroot Htree] Hslot Hpe Hpet Hpeu Hsc Hval Hnow Hdl H Htree'.
  destruct (coherent_DH s HC) as (dids & HD).
  pose proof HD as (Hdids & _).
  pose proof H as H0. rewrite insert_dir_entry_split in H. binv H id0 s1 Ha Hr.
  assert (s1 = s).
  { unfold allocate_dir_entry in Ha. rewrite bind_get in Ha.
    destruct (first_unalloc (dirs s) 0); [|congruence]. apply ret_inv in Ha. destruct Ha as [Ha _]. exact Ha. }
  subst s1.
  destruct (dstep_insert_rest dids pid nm TStream now id0 s s' nid HD Hr) as [HD' F].
  pose proof F as (F1 & _ & _ & _ & _ & _ & _ & F8 & _).
  destruct (insert_proj _ _ _ _ _ _ _ H0) as (ds0 & p & prev & ord & Hal & Hid0 & Hrest).
  cbv zeta in Hrest. destruct Hrest as (Hp1 & Hd & Hds).
  cbn [objtype_eqb] in Hp1, Hd, Hds.
  set (new := dirent_new nm TStream 0) in *.
  assert (Eds0 : ds0 = dirs s).
  { unfold alloc_tbl in Hal. destruct (first_unalloc (dirs s) 0); [|congruence]. congruence. }
  subst ds0.
  destruct (RootT_of_OK s Hroot) as (L & HRT & HL).
  destruct (tree_root_type _ Htree) as (re & Hre & Hret).
  destruct (alloc_fresh _ _ _ Hal) as [(e0 & He0 & Te0)|E].
  2:{ exfalso. destruct (nthN (dirs s) nid) eqn:E2; [|congruence]. apply nthN_Some_lt in E2. lia. }
  assert (Hidr : nid <> ROOT_STREAM_ID).
  { intros ->. assert (e0 = re) by congruence. subst e0. congruence. }
  assert (Hidlt : nid < lenN (dirs s)) by (eapply nthN_Some_lt; exact He0).
  assert (Gid : link_good nid).
  { split; [right|exact Hidr]. unfold MAX_REGULAR_STREAM_ID, NO_STREAM in *. lia. }
  assert (Hnew : ent_ok (ver s) new).
  { split; [|split].
    - unfold new. change 0 with (if objtype_eqb TStream TStorage then now else 0).
      eapply CodecProofs.dirent_wf_inserted; try eassumption. discriminate.
    - intros _. reflexivity.
    - unfold new, dirent_new. repeat split; cbn; discriminate. }
  assert (Hpn : pid <> nid).
  { intros ->. assert (e0 = pe) by congruence. subst e0. contradiction. }
  assert (Hp_pe : p = pe).
  { rewrite nthN_updN_other in Hp1 by congruence. congruence. }
  subst p.
  assert (HT' : TOK (ver s) L (dirs s')).
  { rewrite Hds. apply (insert_tbl_ok _ _ (dirs s) (dirs s) nid new pid pe nm); try assumption.
    split; assumption. }
  assert (Hents' : Forall (ent_ok (ver s')) (dirs s')) by (rewrite F1; apply HT').
  assert (Hroot' : RootOK s') by (eapply RootOK_of_T; [exact Hroot|exact HL|apply HT'|exact F8]).
  assert (Hod : ord = Eq -> prev = pid).
  { intros ->. apply DirCoherence.insert_descend_eq in Hd. destruct Hd as [Hd _]. exact Hd. }
  split; [|split; [constructor; assumption|]].
  - apply Coherent_split. apply Coherent_split in HC. destruct HC as [C [D1 D2 D3 D4]]. split.
    + eapply (core_dframe dids); [exact C|exact F| |].
      * eapply chain_avoids_difat; [exact C|exact Hdids].
      * intros mids Hm. exact (Hdm dids mids Hdids Hm).
    + destruct Hroot' as (root & Hrt & R1 & R2 & R3 & R4). constructor.
      * eapply DirCoherence.insert_dir_entry_coherent; [exact D1|left; exact Hslot|exact H0].
      * intros e He'. rewrite Forall_forall in Hents'. apply (Hents' e He').
      * apply tree_validates; [exact Htree'|eapply ents_AllBlack; exact Hents'|]. exists root. auto.
      * intros root' Hr'. change ROOT_STREAM_ID with 0 in Hrt.
        assert (root' = root) by congruence. subst root'. exact R4.
  - split; [exact Hidr|]. split; [exists e0; split; assumption|].
    split.
    { assert (Hn1 : nthN (updN (dirs s) nid new) nid = Some new) by (apply nthN_updN_same; exact Hidlt).
      destruct (tbl_link_stable _ pid prev ord nid pe nid new Hp1 Hod Hn1) as (en & Hen & P & _).
      exists en. rewrite Hds. split; assumption. }
    split; [|exists dids; split; assumption].
    intros i e Hi He.
    assert (Hn1 : nthN (updN (dirs s) nid new) i = Some e) by (rewrite nthN_updN_other by congruence; exact He).
    destruct (tbl_link_stable _ pid prev ord nid pe i e Hp1 Hod Hn1) as (e' & He' & P & _).
    exists e'. rewrite Hds. split; assumption.
Qed.

(* SWf after a directory-only step that fills slot [id] with an EMPTY stream
   entry (DataPersist2.swfx_payload is the same for a slot that is cleared) *)
Lemma swfx_payload_new : forall s s' r rids mfids dids id dd en,
  SA.SWfX_at s r rids mfids dids (SA.Xid id) ->
  dframe dd s s' ->
  nthN (dirs s') id = Some en -> d_len en = 0 -> lenN (utf16 (d_name en)) <= MAX_NAME_LEN ->
  id <> ROOT_STREAM_ID ->
  (forall i e, i <> id -> nthN (dirs s) i = Some e ->
     exists e', nthN (dirs s') i = Some e' /\ same_payload e e') ->
  exists r', nthN (dirs s') ROOT_STREAM_ID = Some r' /\ same_payload r r' /\
             SA.SWfX_at s' r' rids mfids dids SA.noX.
Proof.
  intros s s' r rids mfids dids id dd en SW F Hid Hlen0 Hnm Hidr Hfwd.
  pose proof (SA.sw_m _ _ _ _ _ _ SW) as W.
  pose proof (dframe_same_shape _ _ _ F) as Hsh.
  pose proof (same_shape_slen _ _ Hsh) as Hsl.
  pose proof F as (F1 & F2 & F3 & F4 & F5 & F6 & F7 & F8 & F9 & F10 & F11 & F12 & F13 & F14 & F15).
  assert (Hback : forall i e', i <> id -> nthN (dirs s') i = Some e' ->
            exists e, nthN (dirs s) i = Some e /\ same_payload e e').
  { intros i e' Hi He'. pose proof (nthN_Some_lt _ _ _ _ He') as Hlt. rewrite F15 in Hlt.
    destruct (WalkProofs.nthN_lt_Some (dirs s) i Hlt) as [e He].
    destruct (Hfwd i e Hi He) as (e'' & He'' & P). assert (e'' = e') by congruence. subst e''.
    exists e. auto. }
  destruct (Hfwd ROOT_STREAM_ID r ltac:(congruence) (SA.mw_root _ _ _ _ _ W)) as (r' & Hr' & Pr).
  pose proof Pr as (Rn & Rt & Rs & Rl & _).
  assert (Hstream : forall i e', nthN (dirs s') i = Some e' -> 0 < d_len e' ->
            i <> id /\ exists e, nthN (dirs s) i = Some e /\ same_payload e e').
  { intros i e' He' Hl'. assert (Hi : i <> id).
    { intros ->. rewrite Hid in He'. injection He' as <-. lia. }
    split; [exact Hi|exact (Hback i e' Hi He')]. }
  assert (Hcutpos : forall n, MINI_STREAM_CUTOFF <= n -> 0 < n) by (intros n Hn; rewrite CUTOFF_val in Hn; lia).
  assert (W' : SA.MWf_at s' r' rids mfids dids).
  { apply (SA.MWf_transfer s s' r r' rids mfids dids W Hsh F15).
    - intros j e He. destruct (N.eq_dec j id) as [->|Hj].
      + rewrite Hid in He. injection He as <-. exact Hnm.
      + destruct (Hback j e Hj He) as (e0 & He0 & (Pn & _)). rewrite Pn. eapply SA.mw_names; eassumption.
    - exact Hr'.
    - rewrite Rt. apply W.
    - exact Rs.
    - rewrite Rl, F8. apply W.
    - rewrite F8. apply W.
    - rewrite F8. apply W.
    - rewrite F8. apply W.
    - rewrite F10. apply W.
    - rewrite F8, F10. apply W. }
  exists r'. split; [exact Hr'|]. split; [exact Pr|].
  assert (HnX : forall j, j <> id -> ~ SA.Xid id j) by (intros j Hj E; exact (Hj E)).
  constructor.
  - exact W'.
  - eapply AllocWf_shape; [apply SW|exact Hsh].
  - rewrite F2. apply SW.
  - rewrite F6. apply SW.
  - intros x Hx. rewrite F6, F4. exact (SA.sw_sys _ _ _ _ _ _ SW x Hx).
  - intros x Hx. rewrite F6 in Hx. rewrite F4. exact (SA.sw_fdifat _ _ _ _ _ _ SW x Hx).
  - intros j ej _ Hej (Tj & Pj & Cj).
    destruct (Hstream j ej Hej Pj) as (Hj & e0 & He0 & (_ & Pt & Ps & Pl & _)).
    rewrite F8, Ps, Pl.
    apply (SA.sw_small _ _ _ _ _ _ SW j e0 (HnX j Hj) He0).
    unfold SA.small_entry. rewrite <- Pt, <- Pl. auto.
  - intros j1 j2 e1 e2 m1 m2 _ _ Hne He1 (T1 & P1 & C1) Hc1 He2 (T2 & P2 & C2) Hc2.
    destruct (Hstream j1 e1 He1 P1) as (Hj1 & a & Ha & (_ & At & As & Al & _)).
    destruct (Hstream j2 e2 He2 P2) as (Hj2 & b & Hb & (_ & Bt & Bs & Bl & _)).
    rewrite F8, As in Hc1. rewrite F8, Bs in Hc2.
    apply (SA.sw_disj _ _ _ _ _ _ SW j1 j2 a b m1 m2 (HnX j1 Hj1) (HnX j2 Hj2) Hne Ha); try assumption;
      unfold SA.small_entry; rewrite <- ?At, <- ?Al, <- ?Bt, <- ?Bl; auto.
  - intros j ej _ Hej (Tj & Cj).
    destruct (Hstream j ej Hej (Hcutpos _ Cj)) as (Hj & e0 & He0 & (_ & Pt & Ps & Pl & _)).
    rewrite F5, Hsl, F2, Ps, Pl.
    apply (SA.sw_bigchain _ _ _ _ _ _ SW j e0 (HnX j Hj) He0).
    unfold SA.big_entry. rewrite <- Pt, <- Pl. auto.
  - intros j ej l _ Hej (Tj & Cj) Hcl.
    destruct (Hstream j ej Hej (Hcutpos _ Cj)) as (Hj & e0 & He0 & (_ & Pt & Ps & Pl & _)).
    rewrite F5, Ps in Hcl. rewrite F6, F4.
    apply (SA.sw_big _ _ _ _ _ _ SW j e0 l (HnX j Hj) He0); [|exact Hcl].
    unfold SA.big_entry. rewrite <- Pt, <- Pl. auto.
  - intros j1 j2 e1 e2 l1 l2 _ _ Hne He1 (T1 & C1) Hc1 He2 (T2 & C2) Hc2.
    destruct (Hstream j1 e1 He1 (Hcutpos _ C1)) as (Hj1 & a & Ha & (_ & At & As & Al & _)).
    destruct (Hstream j2 e2 He2 (Hcutpos _ C2)) as (Hj2 & b & Hb & (_ & Bt & Bs & Bl & _)).
    rewrite F5, As in Hc1. rewrite F5, Bs in Hc2.
    apply (SA.sw_bigdisj _ _ _ _ _ _ SW j1 j2 a b l1 l2 (HnX j1 Hj1) (HnX j2 Hj2) Hne Ha); try assumption;
      unfold SA.big_entry; rewrite <- ?At, <- ?Al, <- ?Bt, <- ?Bl; auto.
Qed.

Lemma validate_name_len' : forall nm u, validate_name nm = Ok u -> lenN (utf16 nm) <= MAX_NAME_LEN.
Proof.
  intros nm u. unfold validate_name. destruct (N.ltb_spec MAX_NAME_LEN (lenN (utf16 nm))); [discriminate|].
  intros _. assumption.
Qed.

(* every stream that exists before keeps its content *)
Definition all_kept (s s' : cstate) : Prop :=
  (forall id' V', small_content s id' V' -> small_content s' id' V') /\
  (forall id' V', big_content s id' V' -> big_content s' id' V') /\
  (forall id', SA.empty_stream s id' -> SA.empty_stream s' id').

(* create_new_stream in a file that holds data, when the directory table has an
   unallocated slot: the invariant is kept, nothing is allocated, the new
   stream is empty, every existing stream keeps its content *)
Theorem create_new_stream_cohtree : forall p mb now s s' h,
  CohTree s -> first_unalloc (dirs s) 0 <> None ->
  lenN (dirs s) <= MAX_REGULAR_STREAM_ID ->
  Forall CodecProofs.scalar p -> now <= u64_max ->
  api_create_stream p false mb now s = (s', Ok h) ->
  CohTree s' /\
  (forall strict, open_model strict (concat_img (img s')) = Ok (reopened s')) /\
  SA.empty_stream s' (h_id h) /\
  (exists e0, nthN (dirs s) (h_id h) = Some e0 /\ d_type e0 = TUnalloc) /\
  free s' = free s /\ nsect s' = nsect s /\ ver s' = ver s /\ fat s' = fat s /\
  minifat s' = minifat s /\ mfree s' = mfree s /\ lenN (dirs s') = lenN (dirs s) /\
  (forall rids0 mfids0, mini_chains s rids0 mfids0 -> mini_chains s' rids0 mfids0) /\
  all_kept s s'.
Proof.
  intros p mb now s s' h [HCD HTP] Hslot Hdl Hsc Hnow H.
  pose proof HCD as [HC (r & rids & mfids & dids & HSD) HF Hax].
  pose proof HTP as [_ _ HTI].
  assert (Hdl' : lenN (dirs s) < NO_STREAM) by (unfold MAX_REGULAR_STREAM_ID, NO_STREAM in *; lia).
  pose proof (create_keeps_treeinv p mb now s s' h HTI Hdl' H) as HTI'.
  unfold api_create_stream in H.
  destruct (MutRefine.names_lookup_inv _ _ _ _ _ _ H) as (names & r0 & En & Hlk & HK).
  destruct r0 as [id0|].
  { binv HK e0 s1 H1 H2. destruct (negb (objtype_eqb (d_type e0) TStream)); discriminate H2. }
  destruct (lastN names) as [nm|] eqn:Hlast; [|discriminate HK].
  binv HK u1 s1 H1 H2. apply lift_inv in H1. destruct H1 as [-> Hv].
  destruct (MutRefine.lookup_inv _ _ _ _ _ _ H2) as (pr & Hlkp & H3). clear H2.
  destruct pr as [pid|]; [|discriminate H3].
  binv H3 pe s1 H1 H2. apply dir_entry_inv in H1. destruct H1 as [-> Hpe].
  destruct (objtype_eqb (d_type pe) TStream) eqn:Ty; [discriminate H2|].
  binv H2 nid s1 H1 H2.
  pose proof (handle_new_state _ _ _ _ _ H2) as Es. subst s1.
  assert (Hh : h_id h = nid).
  { unfold handle_new', handle_new in H2. destruct (stream_len_of nid s') as [sx [len|k|n0|]]; try discriminate H2.
    injection H2 as _ <-. reflexivity. }
  destruct (insert_entry_coh s s' pid pe nm now nid u1 HC) as
    (HC' & HTP' & Hidr & Hold & (en & Hen & Pen) & Hst & dd & Hdd & F); try assumption.
  { intros d m Hd Hm. rewrite (swfx_dir_ids _ _ _ _ _ _ _ (proj1 HSD) Hd), (swfx_mini_ids _ _ _ _ _ _ _ (proj1 HSD) Hm).
    apply avoids_sym. exact (proj2 HSD). }
  { apply objtype_eqb_false. exact Ty. }
  { eapply lookup_typed; [exact HTI|exact Hlkp|exact Hpe]. }
  { eapply lastN_Forall; [eapply names_of_path_all; eassumption|exact Hlast]. }
  assert (dd = dids) by exact (swfx_dir_ids _ _ _ _ _ _ _ (proj1 HSD) Hdd). subst dd.
  pose proof Pen as (Pn & Pt & Ps & Pl & _). cbn [dirent_new d_name d_type d_start d_len objtype_eqb] in Pn, Pt, Ps, Pl.
  pose proof (SWf_X s r rids mfids dids nid (proj1 HSD)) as SWX.
  destruct (swfx_payload_new s s' r rids mfids dids nid dids en SWX F Hen Pl
              ltac:(rewrite Pn; exact (validate_name_len' nm u1 Hv)) Hidr Hst) as (r' & Hr' & Pr & SW').
  pose proof (others_payload s s' r r' rids mfids dids nid SWX SW' F Hst) as Ho.
  pose proof F as (F1 & F2 & F3 & F4 & F5 & F6 & F7 & F8 & F9 & F10 & _ & _ & _ & _ & F15).
  destruct Hold as (e0 & He0 & Te0).
  assert (Hback : forall j ej, nthN (dirs s') j = Some ej -> 0 < d_len ej ->
            exists e1, nthN (dirs s) j = Some e1 /\ same_payload e1 ej).
  { intros j ej Hej Hlj. assert (Hj : j <> nid).
    { intros ->. assert (ej = en) by congruence. subst ej. lia. }
    pose proof (nthN_Some_lt _ _ _ _ Hej) as Hlt.
    rewrite F15 in Hlt. destruct (WalkProofs.nthN_lt_Some (dirs s) j Hlt) as [e1 He1].
    destruct (Hst j e1 Hj He1) as (e1' & He1' & P). assert (e1' = ej) by congruence. subst e1'.
    exists e1. auto. }
  assert (HCD' : CohData' s').
  { constructor.
    - exact HC'.
    - exists r', rids, mfids, dids. split; [exact SW'|exact (proj2 HSD)].
    - apply (FreeClean_transfer s); assumption.
    - destruct Hax as [A1 A2 A3 A4]. constructor.
      + rewrite F5. exact A1.
      + intros j ej Hej [Tj Cj].
        destruct (Hback j ej Hej ltac:(rewrite CUTOFF_val in Cj; lia)) as (e1 & He1 & (_ & Pt1 & Ps1 & Pl1 & _)).
        rewrite F5, Ps1. apply (A2 j e1 He1). unfold SA.big_entry. rewrite <- Pt1, <- Pl1. auto.
      + rewrite F8. exact A3.
      + intros j ej Hej (Tj & Pj & Cj).
        destruct (Hback j ej Hej Pj) as (e1 & He1 & (_ & Pt1 & Ps1 & Pl1 & _)).
        rewrite F8, Ps1. apply (A4 j e1 He1). unfold SA.small_entry. rewrite <- Pt1, <- Pl1. auto. }
  assert (Hnone : forall V, ~ small_content s nid V /\ ~ big_content s nid V /\ ~ SA.empty_stream s nid).
  { intro V. split; [|split].
    - intros (e1 & i1 & m1 & (Hn1 & Ht1 & _)). assert (e1 = e0) by congruence. subst e1. congruence.
    - intros (e1 & i1 & Hn1 & Ht1 & _). assert (e1 = e0) by congruence. subst e1. congruence.
    - intros (e1 & Hn1 & Ht1 & _). assert (e1 = e0) by congruence. subst e1. congruence. }
  rewrite Hh.
  split; [split; assumption|]. split; [exact (cohdata'_reopens s' HCD')|].
  split.
  { exists en. unfold SA.empty_at. repeat split; assumption. }
  split; [exists e0; split; assumption|].
  repeat (split; [assumption|]).
  split.
  { intros rids0 mfids0 Hmc.
    destruct (mini_chains_witness _ _ _ _ _ _ _ (SA.sw_m _ _ _ _ _ _ (proj1 HSD)) Hmc) as [-> ->].
    exact (mini_chains_of_wf _ _ _ _ _ (SA.sw_m _ _ _ _ _ _ SW')). }
  destruct Ho as (O1 & O2 & O3). split; [|split].
  - intros id' V' Hc. apply O1; [|exact Hc]. intros ->. exact (proj1 (Hnone V') Hc).
  - intros id' V' Hc. apply O2; [|exact Hc]. intros ->. exact (proj1 (proj2 (Hnone V')) Hc).
  - intros id' Hc. apply O3; [|exact Hc]. intros ->. exact (proj2 (proj2 (Hnone [])) Hc).
Qed.

(* ================================================================== *)
(* 2c. the path of a stream created in the root storage resolves to    *)
(*     the slot the creation filled                                    *)
(* ================================================================== *)

Lemma bst_find_insert_new : forall ds ds' nm id t,
  bst_find ds nm t = None ->
  (forall j, In j (ids t) -> nm_of ds' j = nm_of ds j) -> nm_of ds' id = nm ->
  bst_find ds' nm (bst_insert ds nm id t) = Some id.
Proof.
  intros ds ds' nm id. induction t as [|l IHl i r IHr]; intros HF Hnm Hid.
  - cbn [bst_insert bst_find]. rewrite Hid, NamesProofs.cmp_names_refl. reflexivity.
  - cbn [bst_insert bst_find] in *.
    assert (Hi : nm_of ds' i = nm_of ds i) by (apply Hnm; cbn [ids]; apply in_or_app; right; left; reflexivity).
    destruct (cmp_names nm (nm_of ds i)) eqn:C; [discriminate HF| |]; cbn [bst_find]; rewrite Hi, C.
    + apply IHl; [exact HF| |exact Hid]. intros j Hj. apply Hnm. cbn [ids]. apply in_or_app. left. exact Hj.
    + apply IHr; [exact HF| |exact Hid]. intros j Hj. apply Hnm. cbn [ids]. apply in_or_app. right. right. exact Hj.
Qed.

Lemma create_root_level_resolves : forall s s' nm now nid t e0,
  QueryRefine.TreeRep (dirs s) ctrue t -> QueryRefine.Unshared (dirs s) t ->
  Tree.get t [nm] = None ->
  insert_dir_entry ROOT_STREAM_ID nm TStream now s = (s', Ok nid) ->
  nthN (dirs s) nid = Some e0 -> d_type e0 = TUnalloc -> nid <> NO_STREAM ->
  lookup_chain (dirs s') [nm] ROOT_STREAM_ID = Ok (Some nid).
Proof.
  intros s s' nm now nid t e0 HT HU Hget Hins He0 Te0 Hne.
  destruct (MutRefine.tree_NRU _ _ _ HT HU) as (U & HN & ND).
  destruct t as [st bs|m ks].
  { apply MutRefine.NRU_leaf in HN. destruct HN as (_ & e & _ & _ & Hr & _). discriminate Hr. }
  pose proof HN as HN0.
  apply MutRefine.NRU_dir in HN.
  destruct HN as (Hid & p & Hp & Hn & Ht & Hm & Hl & t0 & Us & HR & HB & NDt & HK & ->).
  assert (Fk : Tree.find_kid nm ks = None).
  { cbn [Tree.get] in Hget. destruct (Tree.find_kid nm ks) as [[k cn]|]; [discriminate Hget|reflexivity]. }
  assert (HF : bst_find (dirs s) nm t0 = None).
  { pose proof (QueryRefine.find_bridge (dirs s) ctrue nm t0 ks HB (MutRefine.F3_KidsRep _ _ _ _ _ HK)) as Br.
    rewrite Fk in Br. destruct (bst_find (dirs s) nm t0); [contradiction|reflexivity]. }
  assert (Hfresh : ~ In nid (ROOT_STREAM_ID :: concat Us)).
  { intro Hc. destruct (MutRefine.NRU_typed _ _ _ _ _ _ _ HN0 nid Hc) as (e' & He' & Te').
    assert (e' = e0) by congruence. subst e'. contradiction. }
  assert (Hidt : ~ In nid (ids t0)).
  { intro Hc. apply Hfresh. right. eapply MutRefine.F3_heads; eassumption. }
  assert (Hidp : nid <> ROOT_STREAM_ID) by (intros ->; apply Hfresh; left; reflexivity).
  destruct (insert_rep _ _ _ _ _ _ _ p t0 Hins Hp HR HB NDt HF Hidt Hidp Hne)
    as (p' & Hp' & Pp & HR' & HB' & ND' & _ & Hnew & Hst & _).
  cbn [objtype_eqb] in Hnew.
  set (t' := bst_insert (dirs s) nm nid t0) in *.
  cbn [lookup_chain]. unfold dir_entry_of. rewrite Hp'. cbn [rbind].
  rewrite (find_in_siblings_spec (dirs s') nm t' (d_child p') (S (length (dirs s'))) HR').
  - unfold t'. rewrite (bst_find_insert_new (dirs s) (dirs s') nm nid t0 HF).
    + reflexivity.
    + intros j Hj. unfold nm_of. destruct (rep_ids _ _ _ HR j Hj) as [_ Hlt].
      destruct (WalkProofs.nthN_lt_Some (dirs s) j Hlt) as [e He].
      destruct (Hst j e ltac:(intros ->; contradiction) He) as (e' & He' & (Pn & _) & _).
      rewrite He, He'. exact Pn.
    + unfold nm_of. rewrite Hnew. reflexivity.
  - assert (Hb : Forall (fun j => j < lenN (dirs s')) (ids t')).
    { apply Forall_forall. intros j Hj. exact (proj2 (rep_ids _ _ _ HR' j Hj)). }
    pose proof (WalkProofs.bounded_nodup_length _ _ ND' Hb) as Hlen.
    rewrite WalkProofs.lenN_length, Nat2N.id in Hlen. lia.
Qed.

Theorem create_root_stream_resolves : forall p mb now s s' h nm,
  CohTree s -> first_unalloc (dirs s) 0 <> None ->
  lenN (dirs s) <= MAX_REGULAR_STREAM_ID ->
  Forall CodecProofs.scalar p -> now <= u64_max ->
  name_chain_from_path p = Ok [nm] ->
  api_create_stream p false mb now s = (s', Ok h) ->
  MutRefine.id_of_path s' p = Some (h_id h).
Proof.
  intros p mb now s s' h nm HCT Hslot Hdl Hsc Hnow Enm H.
  destruct (create_new_stream_cohtree p mb now s s' h HCT Hslot Hdl Hsc Hnow H)
    as (_ & _ & _ & (e0 & He0 & Te0) & _).
  destruct HCT as [_ [_ _ (t & HT & HU)]].
  unfold api_create_stream in H.
  destruct (MutRefine.names_lookup_inv _ _ _ _ _ _ H) as (names & r0 & En & Hlk & HK).
  assert (names = [nm]) by congruence. subst names.
  destruct r0 as [id0|].
  { binv HK e1 s1 H1 H2. destruct (negb (objtype_eqb (d_type e1) TStream)); discriminate H2. }
  assert (Hget : Tree.get t [nm] = None).
  { pose proof (MutRefine.lookup_get _ _ _ _ _ HT Hlk) as Hg.
    destruct (Tree.get t [nm]); [contradiction|reflexivity]. }
  destruct (lastN [nm]) as [nm'|] eqn:Hlast; [|discriminate HK].
  assert (nm' = nm) by (vm_compute in Hlast; congruence). subst nm'.
  binv HK u1 s1 H1 H2. apply lift_inv in H1. destruct H1 as [-> Hv].
  destruct (MutRefine.lookup_inv _ _ _ _ _ _ H2) as (pr & Hlkp & H3). clear H2.
  change (pop_last [nm]) with (@nil name) in Hlkp. cbn [lookup_chain] in Hlkp. injection Hlkp as <-.
  binv H3 pe s1 H1 H2. apply dir_entry_inv in H1. destruct H1 as [-> Hpe].
  destruct (objtype_eqb (d_type pe) TStream) eqn:Ty; [discriminate H2|].
  binv H2 nid s1 H1 H2.
  pose proof (handle_new_state _ _ _ _ _ H2) as Es. subst s1.
  assert (Hh : h_id h = nid).
  { unfold handle_new', handle_new in H2. destruct (stream_len_of nid s') as [sx [len|k|n0|]]; try discriminate H2.
    injection H2 as _ <-. reflexivity. }
  rewrite Hh in *.
  assert (Hne : nid <> NO_STREAM).
  { pose proof (nthN_Some_lt _ _ _ _ He0). unfold MAX_REGULAR_STREAM_ID, NO_STREAM in *. lia. }
  unfold MutRefine.id_of_path. rewrite Enm.
  rewrite (create_root_level_resolves s s' nm now nid t e0 HT HU Hget H1 He0 Te0 Hne). reflexivity.
Qed.

(* ================================================================== *)
(* 2d. create / set length n / remove, for a stream in the root        *)
(*     storage: no premise about the creation is left                  *)
(* ================================================================== *)

Definition cgr (p : list N) (n mb now : N) : M unit :=
  bind (api_create_stream p false mb now) (fun h =>
  bind (resize (h_id h) n) (fun _ => api_remove_stream p)).

Lemma first_unalloc_some : forall ds i j e, nthN ds j = Some e -> d_type e = TUnalloc ->
  first_unalloc ds i <> None.
Proof.
  induction ds as [|a t IH]; intros i j e H Ht; [discriminate H|].
  cbn [first_unalloc]. destruct (objtype_eqb (d_type a) TUnalloc) eqn:E; [discriminate|].
  cbn [nthN] in H. destruct (j =? 0).
  - injection H as ->. rewrite Ht in E. discriminate E.
  - exact (IH (i + 1) (N.pred j) e H Ht).
Qed.

(* the state between two repetitions *)
Record CgrReady (s : cstate) (n : N) (base nw : list N) : Prop := mkCG {
  cg_ct : CohTree s;
  cg_slot : first_unalloc (dirs s) 0 <> None;
  cg_dirs : lenN (dirs s) <= MAX_REGULAR_STREAM_ID;
  cg_free : free s = base ++ rev nw;
  cg_count : lenN nw = ceil_sectors s n;
  cg_cut : MINI_STREAM_CUTOFF <= n;
  cg_max : n <= MAX_REGULAR_SECTOR * slen s;
  cg_fits : LenFits s n
}.

(* one repetition that ran to the end: the directory slot, the k sectors and
   the file size are as before; every stream of the file keeps its content *)
Theorem cgr_once : forall p nm n mb now s s' base nw,
  Forall CodecProofs.scalar p -> now <= u64_max -> name_chain_from_path p = Ok [nm] ->
  CgrReady s n base nw ->
  cgr p n mb now s = (s', Ok tt) ->
  CgrReady s' n base (rev nw) /\ free s' = base ++ nw /\
  nsect s' = nsect s /\ ver s' = ver s /\ lenN (dirs s') = lenN (dirs s) /\
  (forall strict, open_model strict (concat_img (img s')) = Ok (reopened s')) /\
  all_kept s s'.
Proof.
  intros p nm n mb now s s' base nw Hsc Hnow Enm [HCT Hslot Hdl Hfree Hcount Hcut Hmax Hfit] H.
  unfold cgr in H. binv H h c1 Hc H. binv H u2 c2 R1 Hrm. destruct u2.
  destruct (create_new_stream_cohtree p mb now s c1 h HCT Hslot Hdl Hsc Hnow Hc)
    as (HCT1 & _ & Hem1 & (e0 & He0 & Te0) & Fr1 & N1 & V1 & _ & _ & _ & L1 & _ & (K1 & K2 & K3)).
  pose proof (create_root_stream_resolves p mb now s c1 h nm HCT Hslot Hdl Hsc Hnow Enm Hc) as Hid1.
  pose proof (slen_of_ver s c1 V1) as Hsl1.
  assert (HR : BigCycleReady c1 (h_id h) n base nw).
  { constructor; [exact (proj1 HCT1)|exact Hem1|congruence| | | |].
    - unfold ceil_sectors in *. rewrite Hsl1. exact Hcount.
    - exact Hcut.
    - rewrite Hsl1. exact Hmax.
    - unfold LenFits in *. rewrite V1. exact Hfit. }
  assert (Hrm' : api_remove_stream p (fst (resize (h_id h) n c1)) = (s', Ok tt)) by (rewrite R1; exact Hrm).
  destruct (grow_remove_big c1 p (h_id h) n base nw s' HCT1 Hid1 HR Hrm')
    as (_ & HCT3 & Hun & Fr3 & N3 & Hop3 & (O1 & O2 & O3)).
  (* the version and the table length *)
  destruct (resize_empty_big_ids c1 (h_id h) n base nw (proj1 HCT1) Hem1 Hcut
              (bcr_max _ _ _ _ _ HR) (bcr_fits _ _ _ _ _ HR) (bcr_free _ _ _ _ _ HR) (bcr_count _ _ _ _ _ HR))
    as (c2' & R2 & HCD2 & _ & HB2 & Hsi2 & _ & _ & V2 & _ & HT2).
  assert (c2' = c2) by congruence. subst c2'.
  destruct (big_entry_of_content _ _ _ _ HB2 Hsi2) as (e & He & (Ht & Hbig) & _).
  assert (Hid2 : MutRefine.id_of_path c2 p = Some (h_id h))
    by (rewrite (id_of_path_resize _ _ _ _ _ p R2); exact Hid1).
  destruct (remove_big_stream_ver p c2 s' (h_id h) e (conj HCD2 (HT2 (proj2 HCT1))) Hrm Hid2 He Hbig) as [V3 L3].
  assert (L2 : lenN (dirs c2) = lenN (dirs c1)).
  { pose proof (framesR_resize (h_id h) n c1) as D. rewrite R2 in D. exact (proj1 D). }
  assert (Hv : ver s' = ver s) by congruence.
  pose proof (slen_of_ver s s' Hv) as Hsl.
  assert (Hl : lenN (dirs s') = lenN (dirs s)) by congruence.
  split.
  { constructor.
    - exact HCT3.
    - exact (first_unalloc_some _ 0 _ _ Hun eq_refl).
    - rewrite Hl. exact Hdl.
    - rewrite rev_involutive. exact Fr3.
    - rewrite WalkProofs.lenN_rev. unfold ceil_sectors in *. rewrite Hsl. exact Hcount.
    - exact Hcut.
    - rewrite Hsl. exact Hmax.
    - unfold LenFits in *. rewrite Hv. exact Hfit. }
  split; [exact Fr3|]. split; [congruence|]. split; [exact Hv|]. split; [exact Hl|].
  split; [exact Hop3|].
  assert (Hne : forall id', (exists V, small_content s id' V) \/ (exists V, big_content s id' V) \/
                            SA.empty_stream s id' -> id' <> h_id h).
  { intros id' Hx ->. destruct Hx as [(V & e1 & i1 & m1 & (Hn1 & Ht1 & _))|[(V & e1 & i1 & Hn1 & Ht1 & _)|(e1 & Hn1 & Ht1 & _)]];
      assert (e1 = e0) by congruence; subst e1; congruence. }
  split; [|split].
  - intros id' V' Hx. apply O1; [apply Hne; left; eauto|]. apply K1. exact Hx.
  - intros id' V' Hx. apply O2; [apply Hne; right; left; eauto|]. apply K2. exact Hx.
  - intros id' Hx. apply O3; [apply Hne; right; right; exact Hx|]. apply K3. exact Hx.
Qed.

(* j repetitions that ran to the end (iter_cycle stops at the first failure) *)
Theorem cgr_stable : forall p nm n mb now,
  Forall CodecProofs.scalar p -> now <= u64_max -> name_chain_from_path p = Ok [nm] ->
  forall j s sj base nw,
  CgrReady s n base nw ->
  iter_cycle (cgr p n mb now) j s = (sj, Ok tt) ->
  CgrReady sj n base (flip j nw) /\
  nsect sj = nsect s /\ free sj = base ++ rev (flip j nw) /\ ver sj = ver s /\
  (forall strict, open_model strict (concat_img (img sj)) = Ok (reopened sj)) /\
  all_kept s sj.
Proof.
  intros p nm n mb now Hsc Hnow Enm. induction j as [|j IH]; intros s sj base nw HR Hit.
  - cbn [iter_cycle] in Hit. unfold ret in Hit. injection Hit as <-.
    split; [exact HR|]. split; [reflexivity|]. split; [exact (cg_free _ _ _ _ HR)|]. split; [reflexivity|].
    split; [exact (cohdata'_reopens s (proj1 (cg_ct _ _ _ _ HR)))|].
    split; [|split]; intros; assumption.
  - cbn [iter_cycle] in Hit. binv Hit u s1 Hc Hit. destruct u.
    destruct (cgr_once p nm n mb now s s1 base nw Hsc Hnow Enm HR Hc)
      as (HR1 & Fr1 & N1 & V1 & _ & _ & (K1 & K2 & K3)).
    destruct (IH s1 sj base (rev nw) HR1 Hit) as (HRj & Nj & Frj & Vj & Hopj & (J1 & J2 & J3)).
    assert (Ef : flip j (rev nw) = flip (S j) nw).
    { rewrite flip_S. unfold flip. destruct (Nat.even j); [reflexivity|rewrite rev_involutive; reflexivity]. }
    rewrite Ef in HRj, Frj.
    split; [exact HRj|]. split; [congruence|]. split; [exact Frj|]. split; [congruence|].
    split; [exact Hopj|]. split; [|split]; intros; auto.
Qed.

(* the first repetition is arbitrary: [m] is its state just before the removal
   (the stream at the root-level path p holds its n bytes in exactly k sectors);
   after the removal every further repetition finds the slot and the sectors *)
Theorem cgr_from_mid : forall p n m s1 id e ids,
  CohTree m -> MutRefine.id_of_path m p = Some id -> nthN (dirs m) id = Some e ->
  MINI_STREAM_CUTOFF <= d_len e -> chain_ids_of (fat m) (d_start e) = Ok ids ->
  lenN ids = ceil_sectors m n ->
  lenN (dirs m) <= MAX_REGULAR_STREAM_ID ->
  MINI_STREAM_CUTOFF <= n -> n <= MAX_REGULAR_SECTOR * slen m -> LenFits m n ->
  api_remove_stream p m = (s1, Ok tt) ->
  CgrReady s1 n (free m) (rev ids) /\ nsect s1 = nsect m /\ free s1 = free m ++ ids.
Proof.
  intros p n m s1 id e ids HCT Hid He Hbig Hc Hcount Hdl Hcut Hmax Hfit Hrm.
  destruct (remove_big_stream_cohtree p m s1 id e HCT Hrm Hid He Hbig)
    as (HCT1 & _ & Hun & _ & (ids' & Hc' & Fr1) & N1).
  assert (ids' = ids) by congruence. subst ids'.
  destruct (remove_big_stream_ver p m s1 id e HCT Hrm Hid He Hbig) as [V1 L1].
  pose proof (slen_of_ver m s1 V1) as Hsl.
  split; [|split; [exact N1|exact Fr1]].
  constructor.
  - exact HCT1.
  - exact (first_unalloc_some _ 0 _ _ Hun eq_refl).
  - rewrite L1. exact Hdl.
  - rewrite rev_involutive. exact Fr1.
  - rewrite WalkProofs.lenN_rev. unfold ceil_sectors in *. rewrite Hsl. exact Hcount.
  - exact Hcut.
  - rewrite Hsl. exact Hmax.
  - unfold LenFits in *. rewrite V1. exact Hfit.
Qed.

(* ---- the same cycle as API calls: create_new_stream, set_len through the
        new handle, close, remove_stream ---- *)
Definition crcycle (i : N) (p : list N) (n t : N) : list (N * op) :=
  [(t, OCreateNewStream i p); (t, OHSetLen i n); (t, OHDrop i); (t, ORemoveStream p)].

Lemma created_handle_clean : forall p mb now s s' h,
  CohTree s -> first_unalloc (dirs s) 0 <> None -> lenN (dirs s) <= MAX_REGULAR_STREAM_ID ->
  Forall CodecProofs.scalar p -> now <= u64_max ->
  api_create_stream p false mb now s = (s', Ok h) -> h_total h = 0 /\ h_dirty h = false.
Proof.
  intros p mb now s s' h HCT Hslot Hdl Hsc Hnow H.
  destruct (create_new_stream_cohtree p mb now s s' h HCT Hslot Hdl Hsc Hnow H)
    as (_ & _ & (en & Hen & _ & _ & Hl0) & _).
  unfold api_create_stream in H.
  destruct (MutRefine.names_lookup_inv _ _ _ _ _ _ H) as (names & r0 & En & Hlk & HK).
  destruct r0 as [id0|].
  { binv HK e1 s1 H1 H2. destruct (negb (objtype_eqb (d_type e1) TStream)); discriminate H2. }
  destruct (lastN names) as [nm|] eqn:Hlast; [|discriminate HK].
  binv HK u1 s1 H1 H2. apply lift_inv in H1. destruct H1 as [-> Hv].
  destruct (MutRefine.lookup_inv _ _ _ _ _ _ H2) as (pr & Hlkp & H3). clear H2.
  destruct pr as [pid|]; [|discriminate H3].
  binv H3 pe s1 H1 H2. apply dir_entry_inv in H1. destruct H1 as [-> Hpe].
  destruct (objtype_eqb (d_type pe) TStream) eqn:Ty; [discriminate H2|].
  binv H2 nid s1 H1 H2.
  pose proof (handle_new_state _ _ _ _ _ H2) as Es. subst s1.
  unfold handle_new', handle_new in H2.
  destruct (stream_len_of nid s') as [sx [len|k|n0|]] eqn:El; try discriminate H2.
  injection H2 as _ <-. cbn [h_id h_total h_dirty] in *.
  rewrite (stream_len_of_exec s' nid en Hen) in El. injection El as _ <-. split; [exact Hl0|reflexivity].
Qed.

Lemma crcycle_run : forall f i p n t s',
  CohTree (cs f) -> first_unalloc (dirs (cs f)) 0 <> None ->
  lenN (dirs (cs f)) <= MAX_REGULAR_STREAM_ID -> Forall CodecProofs.scalar p -> t <= u64_max ->
  i < lenN (hs f) -> n <> 0 ->
  cgr p n (maxbuf f) t (cs f) = (s', Ok tt) ->
  exists f',
    run_ops f (crcycle i p n t) = (f', [Ok VUnit; Ok VUnit; Ok VUnit; Ok VUnit]) /\
    cs f' = s' /\ maxbuf f' = maxbuf f /\ lenN (hs f') = lenN (hs f).
Proof.
  intros f i p n t s' HCT Hslot Hdl Hsc Hnow Hi Hn H.
  unfold cgr in H. binv H h c1 Hc H. binv H u2 c2 R1 Hrm. destruct u2.
  destruct (created_handle_clean p (maxbuf f) t (cs f) c1 h HCT Hslot Hdl Hsc Hnow Hc) as [Ht0 Hd0].
  set (f1 := mkF c1 (updN (hs f) i (Some h)) (maxbuf f)).
  assert (E1 : step f t (OCreateNewStream i p) = (f1, Ok VUnit)).
  { cbn [step]. unfold with_new_handle. rewrite Hc. reflexivity. }
  assert (Hs1 : nthN (hs f1) i = Some (Some h)) by (cbn [f1 hs]; apply nthN_updN_same; exact Hi).
  pose proof (step_setlen_clean f1 t i h n c2 Hs1 Hd0 ltac:(rewrite Ht0; exact Hn) R1) as E2.
  set (h2 := mkHandle (h_id h) n (buf_clear (h_buf h)) (N.min (h_position h) n) false) in *.
  set (f2 := mkF c2 (updN (hs f1) i (Some h2)) (maxbuf f1)) in *.
  assert (Hs2 : nthN (hs f2) i = Some (Some h2)).
  { cbn [f2 hs]. apply nthN_updN_same. cbn [f1 hs]. rewrite lenN_updN. exact Hi. }
  set (f3 := mkF c2 (updN (hs f2) i None) (maxbuf f2)).
  assert (E3 : step f2 t (OHDrop i) = (f3, Ok VUnit)).
  { cbn [step]. unfold drop_handle, drop_result. rewrite Hs2.
    unfold flush_changes', flush_changes. cbn [h2 h_dirty cs snd]. reflexivity. }
  assert (E4 : step f3 t (ORemoveStream p) = (mkF s' (hs f3) (maxbuf f3), Ok VUnit)).
  { cbn [step]. unfold with_cs. cbn [f3 cs]. rewrite Hrm. reflexivity. }
  eexists. split.
  { unfold crcycle. cbn [ReadonlyTotal.run_ops]. rewrite E1, E2, E3, E4. reflexivity. }
  cbn [cs hs maxbuf f3 f2 f1]. split; [reflexivity|]. split; [reflexivity|].
  rewrite !lenN_updN. reflexivity.
Qed.

(* j repetitions of the API cycle whose store-level run went through *)
Theorem crcycle_stable : forall p nm n t,
  Forall CodecProofs.scalar p -> t <= u64_max -> name_chain_from_path p = Ok [nm] ->
  forall j f i sj base nw,
  i < lenN (hs f) -> CgrReady (cs f) n base nw ->
  iter_cycle (cgr p n (maxbuf f) t) j (cs f) = (sj, Ok tt) ->
  exists fj,
    run_ops f (rep_ops j (crcycle i p n t)) = (fj, repeat (Ok VUnit) (4 * j)) /\
    cs fj = sj /\ nsect (cs fj) = nsect (cs f) /\ free (cs fj) = base ++ rev (flip j nw) /\
    CgrReady (cs fj) n base (flip j nw) /\ all_kept (cs f) (cs fj).
Proof.
  intros p nm n t Hsc Hnow Enm. induction j as [|j IH]; intros f i sj base nw Hi HR Hit.
  - cbn [iter_cycle] in Hit. unfold ret in Hit. injection Hit as <-.
    exists f. cbn [rep_ops ReadonlyTotal.run_ops Nat.mul repeat]. split; [reflexivity|]. split; [reflexivity|].
    split; [reflexivity|]. split; [exact (cg_free _ _ _ _ HR)|]. split; [exact HR|].
    split; [|split]; intros; assumption.
  - cbn [iter_cycle] in Hit. binv Hit u s1 Hc Hit. destruct u.
    assert (Hn : n <> 0) by (pose proof (cg_cut _ _ _ _ HR) as X; rewrite CUTOFF_val in X; lia).
    destruct (crcycle_run f i p n t s1 (cg_ct _ _ _ _ HR) (cg_slot _ _ _ _ HR) (cg_dirs _ _ _ _ HR)
                Hsc Hnow Hi Hn Hc) as (f1 & E1 & C1 & M1 & L1).
    destruct (cgr_once p nm n (maxbuf f) t (cs f) s1 base nw Hsc Hnow Enm HR Hc)
      as (HR1 & _ & N1 & _ & _ & _ & (K1 & K2 & K3)).
    rewrite <- C1 in HR1, Hit, N1, K1, K2, K3. rewrite <- M1 in Hit.
    destruct (IH f1 i sj base (rev nw) ltac:(rewrite L1; exact Hi) HR1 Hit)
      as (fj & Ej & Cj & Nj & Frj & HRj & (J1 & J2 & J3)).
    assert (Ef : flip j (rev nw) = flip (S j) nw).
    { rewrite flip_S. unfold flip. destruct (Nat.even j); [reflexivity|rewrite rev_involutive; reflexivity]. }
    rewrite Ef in HRj, Frj.
    exists fj. split.
    { cbn [rep_ops]. rewrite run_ops_app, E1. cbn [fst snd]. rewrite Ej. cbn [fst snd].
      replace (4 * S j)%nat with (S (S (S (S (4 * j))))) by lia. reflexivity. }
    split; [exact Cj|]. split; [congruence|]. split; [exact Frj|]. split; [exact HRj|].
    split; [|split]; intros; auto.
Qed.

Module ExampleCgr.
  Import HandleFrame.Example DataPersist.Example.
  Import DataPersist2.Example1 DataPersist2.Example3 DataPersist2.Example5.
  Import ExampleBig ExampleCreateRemove ExampleCycleRun.

  Ltac arith := vm_compute; first [reflexivity | discriminate | (intro; discriminate)].

  Example p_e_scalar : Forall CodecProofs.scalar p_e.
  Proof. repeat constructor; left; vm_compute; reflexivity. Qed.

  Example p_e_names : name_chain_from_path p_e = Ok [[101]].
  Proof. vm_compute. reflexivity. Qed.

  (* sR: 25 sectors, ten of them on the free stack, directory slot 1 unallocated *)
  Example sR_ready : CgrReady sR 5000 [] idsA.
  Proof.
    constructor; [exact sR_ct|arith|arith|arith|arith|arith|arith|unfold LenFits; arith].
  Qed.

  (* any number of repetitions of create "/e" / 5000 bytes / remove that run to
     the end leave the file at 25 sectors; three of them do run to the end *)
  Example cgr_sR :
    forall j sj, iter_cycle (cgr p_e 5000 4096 0) j sR = (sj, Ok tt) ->
      nsect sj = 25 /\ free sj = rev (flip j idsA) /\ CohTree sj.
  Proof.
    intros j sj Hit.
    destruct (cgr_stable p_e [101] 5000 4096 0 p_e_scalar ltac:(arith) p_e_names j sR sj [] idsA sR_ready Hit)
      as (HRj & Nj & Frj & _).
    split; [rewrite Nj; arith|]. split; [exact Frj|exact (cg_ct _ _ _ _ HRj)].
  Qed.

  Example cgr_sR_runs :
    map (fun j => let r := iter_cycle (cgr p_e 5000 4096 0) j sR in
                  (nsect (fst r), match snd r with Ok _ => true | _ => false end))
        [1%nat; 2%nat; 3%nat]
    = [(25, true); (25, true); (25, true)].
  Proof. vm_compute. reflexivity. Qed.

  (* the same as API calls on the file fR = (sR, the handles of fH) *)
  Example crcycle_fR :
    forall j sj, iter_cycle (cgr p_e 5000 (maxbuf ExampleHandles.fR) 0) j sR = (sj, Ok tt) ->
    exists fj,
      run_ops ExampleHandles.fR (rep_ops j (DataCycle.crcycle 2 p_e 5000 0)) = (fj, repeat (Ok VUnit) (4 * j)) /\
      nsect (cs fj) = 25.
  Proof.
    intros j sj Hit.
    destruct (crcycle_stable p_e [101] 5000 0 p_e_scalar ltac:(arith) p_e_names j ExampleHandles.fR 2 sj [] idsA
                ltac:(arith) sR_ready Hit) as (fj & Er & _ & Nj & _).
    exists fj. split; [exact Er|]. rewrite Nj. arith.
  Qed.
End ExampleCgr.

(* ================================================================== *)
(* 2e. the same for a small stream                                     *)
(* ================================================================== *)

(* the removal of a small stream leaves room for the mini sectors it released,
   like the truncation (resize_small_to_zero_room) *)
Theorem remove_small_stream_room : forall p s s' id e mids rids mfids,
  CohTree s -> api_remove_stream p s = (s', Ok tt) ->
  MutRefine.id_of_path s p = Some id -> nthN (dirs s) id = Some e ->
  0 < d_len e -> d_len e < MINI_STREAM_CUTOFF ->
  chain_ids_of (minifat s) (d_start e) = Ok mids -> mini_chains s rids mfids ->
  CohTree s' /\ nthN (dirs s') id = Some dirent_unallocated /\
  (forall strict, open_model strict (concat_img (img s')) = Ok (reopened s')) /\
  free s' = free s /\ nsect s' = nsect s /\ fat s' = fat s /\ ver s' = ver s /\
  lenN (dirs s') = lenN (dirs s) /\
  mini_chains s' rids mfids /\ SA.mroom s' rids mfids (lenN mids) /\
  SA.others_kept s s' id.
Proof.
  intros p s s' id e mids0 rids0 mfids0 HCT H Hidp He Hpos Hcut Hch0 Hmc.
  destruct (remove_small_stream_cohtree p s s' id e HCT H Hidp He Hpos Hcut)
    as (HCT' & Hop' & Hun & Ho & Fr' & N' & _).
  destruct HCT as [HCD HTP].
  pose proof HCD as [HC (r & rids & mfids & dids & HSD) HF Hax].
  pose proof HSD as [SW Hmdj].
  pose proof (SA.sw_m _ _ _ _ _ _ SW) as W.
  destruct (mini_chains_witness _ _ _ _ _ _ _ W Hmc) as [-> ->].
  pose proof HTP as [_ _ (t & HT & HU)].
  destruct (MutRefine.remove_stream_refines ctrue ctrue p 0 s s' t HT HU (fun _ _ _ c => c) H)
    as (t' & _ & HT' & HU').
  unfold api_remove_stream, remove_stream_names in H.
  destruct (MutRefine.names_lookup_inv _ _ _ _ _ _ H) as (names & r0 & En & Hlk & HK).
  destruct r0 as [id0|]; [|discriminate HK].
  assert (id0 = id).
  { unfold MutRefine.id_of_path in Hidp. rewrite En, Hlk in Hidp. congruence. }
  subst id0.
  binv HK e1 s0 H1 H2. apply dir_entry_inv in H1. destruct H1 as [-> He1].
  assert (e1 = e) by congruence. subst e1.
  destruct (objtype_eqb (d_type e) TStream) eqn:T1; cbn [negb] in H2; [|discriminate H2].
  destruct (d_child e =? NO_STREAM) eqn:Ch; cbn [negb] in H2; [|discriminate H2].
  apply objtype_eqb_true in T1.
  destruct (d_len e <? MINI_STREAM_CUTOFF) eqn:Ecut; [|lia].
  binv H2 u1 s1 H1 H2. destruct u1.
  assert (Hse : SA.small_entry e) by (split; [exact T1|split; assumption]).
  destruct (free_small_ready s r rids mfids dids id e mids0 HCD HSD He Hse Hch0)
    as (s1' & r1 & Efree & HX1 & Hn1 & Ho1 & HRL & FM1).
  rewrite H1 in Efree. injection Efree as <-.
  pose proof FM1 as (G1 & G2 & _ & _ & G5 & G6 & _).
  pose proof HX1 as (HC1 & _ & SW1 & _).
  pose proof (WalkProofs.chain_ids_path _ _ _ Hch0) as Hpath.
  assert (Hcount : lenN (mfree s) + lenN mids0 + lenN (minifat s1) <= lenN (mfree s1) + lenN (minifat s)).
  { pose proof H1 as Erun. unfold free_mini_chain in Erun. rewrite bind_get in Erun.
    exact (free_mini_chain_go_count mids0 _ (d_start e) s r rids mfids dids s1 W Hpath
             (path_length_fuel _ _ _ Hpath) Erun). }
  destruct (lastN names) as [nm|] eqn:Hlast; [|discriminate H2].
  destruct (MutRefine.lookup_inv _ _ _ _ _ _ H2) as (pr & Hlkp & H3). clear H2.
  destruct pr as [pid|]; [|discriminate H3].
  destruct (coherent_DH s1 HC1) as (dd & HD).
  destruct (dstep_remove_dir_entry dd pid nm s1 s' tt HD H3) as [_ F].
  pose proof F as (F1 & F2 & F3 & F4 & F5 & F6 & F7 & F8 & F9 & F10 & _ & _ & _ & _ & F15).
  assert (Hv : ver s' = ver s) by congruence.
  pose proof (slen_of_ver s s' Hv) as Hsl.
  assert (Hl : lenN (dirs s') = lenN (dirs s)).
  { rewrite F15. exact (proj1 HRL). }
  destruct HCT' as [HCD' HTP'].
  pose proof HCD' as [_ (r' & rids' & mfids' & dids' & SW' & _) _ _].
  pose proof (SA.sw_m _ _ _ _ _ _ SW') as W'.
  pose proof (SA.sw_m _ _ _ _ _ _ SW1) as W1.
  (* the chains of the mini level are those of s: same FAT, same starts *)
  assert (Hmc' : mini_chains s' rids mfids).
  { assert (Hm1 : mini_chains s1 rids mfids) by exact (mini_chains_of_wf _ _ _ _ _ W1).
    destruct Hm1 as [(ra & Hra & Hca) Hma]. split.
    - pose proof (SA.mw_root _ _ _ _ _ W') as Hr'.
      destruct (remove_ids_stable_raw _ _ _ _ _ H3) as (x2 & ex & Hx2 & _ & _ & Hxr & _ & _ & Hst).
      destruct (N.eq_dec x2 ROOT_STREAM_ID) as [->|Hxne]; [contradiction|].
      destruct (Hst ROOT_STREAM_ID ra ltac:(congruence) Hra) as (ra' & Hra' & (_ & _ & Ps & _) & _).
      exists ra'. split; [exact Hra'|]. rewrite F5, Ps. exact Hca.
    - rewrite F5, F9. exact Hma. }
  split; [split; assumption|]. split; [exact Hun|]. split; [exact Hop'|]. split; [exact Fr'|].
  split; [exact N'|]. split; [congruence|]. split; [exact Hv|]. split; [exact Hl|].
  split; [exact Hmc'|]. split; [|exact Ho].
  unfold SA.mroom. rewrite F8, F10, Hsl, Hv.
  destruct (N.le_gt_cases (lenN mids0) (lenN (mfree s1))) as [Hle1|Hgt1]; [left; exact Hle1|right].
  pose proof (SA.mw_mcap _ _ _ _ _ W). pose proof (SA.mw_rcap _ _ _ _ _ W).
  pose proof (SA.mw_bound _ _ _ _ _ W). pose proof (root_len_fits s r rids mfids dids HC W).
  assert (lenN (minifat s1) + (lenN mids0 - lenN (mfree s1)) <= lenN (minifat s)) by lia.
  repeat split; nia.
Qed.

Record CgrSmallReady (s : cstate) (n : N) (rids mfids : list N) : Prop := mkCGS {
  cgs_ct : CohTree s;
  cgs_slot : first_unalloc (dirs s) 0 <> None;
  cgs_dirs : lenN (dirs s) <= MAX_REGULAR_STREAM_ID;
  cgs_pos : 0 < n;
  cgs_cut : n < MINI_STREAM_CUTOFF;
  cgs_chains : mini_chains s rids mfids;
  cgs_room : SA.mroom s rids mfids (SA.msectors n);
  cgs_cap : slen s * lenN rids + 64 * SA.msectors n <= stream_len_mask (ver s)
}.

Lemma mroom_same : forall s s' rids mfids k,
  minifat s' = minifat s -> mfree s' = mfree s -> ver s' = ver s ->
  SA.mroom s rids mfids k -> SA.mroom s' rids mfids k.
Proof.
  intros s s' rids mfids k E1 E2 E3 H. unfold SA.mroom in *.
  rewrite E1, E2, (slen_of_ver s s' E3), E3. exact H.
Qed.

Theorem cgr_small_once : forall p nm n mb now s s' rids mfids,
  Forall CodecProofs.scalar p -> now <= u64_max -> name_chain_from_path p = Ok [nm] ->
  CgrSmallReady s n rids mfids ->
  cgr p n mb now s = (s', Ok tt) ->
  CgrSmallReady s' n rids mfids /\
  nsect s' = nsect s /\ free s' = free s /\ fat s' = fat s /\ ver s' = ver s /\
  (forall strict, open_model strict (concat_img (img s')) = Ok (reopened s')) /\
  all_kept s s'.
Proof.
  intros p nm n mb now s s' rids mfids Hsc Hnow Enm [HCT Hslot Hdl Hpos Hcut Hmc Hroom Hcap] H.
  unfold cgr in H. binv H h c1 Hc H. binv H u2 c2 R1 Hrm. destruct u2.
  destruct (create_new_stream_cohtree p mb now s c1 h HCT Hslot Hdl Hsc Hnow Hc)
    as (HCT1 & _ & Hem1 & (e0 & He0 & Te0) & Fr1 & N1 & V1 & Ft1 & Mf1 & Mfr1 & L1 & Hmc1 & (K1 & K2 & K3)).
  pose proof (create_root_stream_resolves p mb now s c1 h nm HCT Hslot Hdl Hsc Hnow Enm Hc) as Hid1.
  pose proof (slen_of_ver s c1 V1) as Hsl1.
  assert (HR : SmallCycleReady c1 (h_id h) n rids mfids).
  { constructor; [exact (proj1 HCT1)|exact Hem1|exact Hpos|exact Hcut|exact (Hmc1 _ _ Hmc)| |].
    - exact (mroom_same s c1 rids mfids _ Mf1 Mfr1 V1 Hroom).
    - rewrite Hsl1, V1. exact Hcap. }
  destruct (small_cycle_grow c1 (h_id h) n rids mfids HR)
    as (c2' & R2 & HCD2 & _ & Hsc2 & Hk2 & Sh2 & Hmc2 & (O1 & O2 & O3) & HT2).
  assert (c2' = c2) by congruence. subst c2'.
  destruct Sh2 as (A1 & A2 & _ & _ & A5 & A6 & _).
  assert (Hid2 : MutRefine.id_of_path c2 p = Some (h_id h))
    by (rewrite (id_of_path_resize _ _ _ _ _ p R2); exact Hid1).
  destruct Hsc2 as (e2 & i2 & m2 & Hsm2).
  pose proof Hsm2 as (He2 & Ht2 & Hcut2 & Hpos2 & Hch2 & _).
  pose proof (mini_sectors_small_at _ _ _ _ _ _ _ Hsm2 Hk2) as Hlen2.
  destruct (remove_small_stream_room p c2 s' (h_id h) e2 m2 rids mfids (conj HCD2 (HT2 (proj2 HCT1)))
              Hrm Hid2 He2 Hpos2 Hcut2 Hch2 Hmc2)
    as (HCT3 & Hun & Hop3 & Fr3 & N3 & Ft3 & V3 & L3 & Hmc3 & Hroom3 & (P1 & P2 & P3)).
  assert (L2 : lenN (dirs c2) = lenN (dirs c1)).
  { pose proof (framesR_resize (h_id h) n c1) as D. rewrite R2 in D. exact (proj1 D). }
  assert (Hv : ver s' = ver s) by congruence.
  pose proof (slen_of_ver s s' Hv) as Hsl.
  split.
  { constructor; try assumption.
    - exact (first_unalloc_some _ 0 _ _ Hun eq_refl).
    - replace (lenN (dirs s')) with (lenN (dirs s)) by congruence. exact Hdl.
    - rewrite <- Hlen2. exact Hroom3.
    - rewrite Hsl, Hv. exact Hcap. }
  split; [congruence|]. split; [congruence|]. split; [congruence|]. split; [exact Hv|].
  split; [exact Hop3|].
  assert (Hne : forall id', (exists V, small_content s id' V) \/ (exists V, big_content s id' V) \/
                            SA.empty_stream s id' -> id' <> h_id h).
  { intros id' Hx ->. destruct Hx as [(V & e1 & i1 & m1 & (Hn1 & Ht1 & _))|[(V & e1 & i1 & Hn1 & Ht1 & _)|(e1 & Hn1 & Ht1 & _)]];
      assert (e1 = e0) by congruence; subst e1; congruence. }
  split; [|split].
  - intros id' V' Hx. apply P1; [apply Hne; left; eauto|]. apply O1; [apply Hne; left; eauto|]. apply K1. exact Hx.
  - intros id' V' Hx. apply P2; [apply Hne; right; left; eauto|]. apply O2; [apply Hne; right; left; eauto|].
    apply K2. exact Hx.
  - intros id' Hx. apply P3; [apply Hne; right; right; exact Hx|]. apply O3; [apply Hne; right; right; exact Hx|].
    apply K3. exact Hx.
Qed.

Theorem cgr_small_stable : forall p nm n mb now,
  Forall CodecProofs.scalar p -> now <= u64_max -> name_chain_from_path p = Ok [nm] ->
  forall j s sj rids mfids,
  CgrSmallReady s n rids mfids ->
  iter_cycle (cgr p n mb now) j s = (sj, Ok tt) ->
  CgrSmallReady sj n rids mfids /\
  nsect sj = nsect s /\ free sj = free s /\ fat sj = fat s /\ ver sj = ver s /\
  (forall strict, open_model strict (concat_img (img sj)) = Ok (reopened sj)) /\
  all_kept s sj.
Proof.
  intros p nm n mb now Hsc Hnow Enm. induction j as [|j IH]; intros s sj rids mfids HR Hit.
  - cbn [iter_cycle] in Hit. unfold ret in Hit. injection Hit as <-.
    split; [exact HR|]. repeat (split; [reflexivity|]).
    split; [exact (cohdata'_reopens s (proj1 (cgs_ct _ _ _ _ HR)))|].
    split; [|split]; intros; assumption.
  - cbn [iter_cycle] in Hit. binv Hit u s1 Hc Hit. destruct u.
    destruct (cgr_small_once p nm n mb now s s1 rids mfids Hsc Hnow Enm HR Hc)
      as (HR1 & N1 & Fr1 & Ft1 & V1 & _ & (K1 & K2 & K3)).
    destruct (IH s1 sj rids mfids HR1 Hit) as (HRj & Nj & Frj & Ftj & Vj & Hopj & (J1 & J2 & J3)).
    split; [exact HRj|]. split; [congruence|]. split; [congruence|]. split; [congruence|]. split; [congruence|].
    split; [exact Hopj|]. split; [|split]; intros; auto.
Qed.

Theorem cgr_small_from_mid : forall p n m s1 id e mids rids mfids,
  CohTree m -> MutRefine.id_of_path m p = Some id -> nthN (dirs m) id = Some e ->
  0 < d_len e -> d_len e < MINI_STREAM_CUTOFF ->
  chain_ids_of (minifat m) (d_start e) = Ok mids -> lenN mids = SA.msectors n ->
  mini_chains m rids mfids ->
  lenN (dirs m) <= MAX_REGULAR_STREAM_ID -> 0 < n -> n < MINI_STREAM_CUTOFF ->
  slen m * lenN rids + 64 * SA.msectors n <= stream_len_mask (ver m) ->
  api_remove_stream p m = (s1, Ok tt) ->
  CgrSmallReady s1 n rids mfids /\ nsect s1 = nsect m /\ free s1 = free m /\ fat s1 = fat m.
Proof.
  intros p n m s1 id e mids rids mfids HCT Hid He Hpos Hcut Hch Hlen Hmc Hdl Hn0 Hn1 Hcap Hrm.
  destruct (remove_small_stream_room p m s1 id e mids rids mfids HCT Hrm Hid He Hpos Hcut Hch Hmc)
    as (HCT1 & Hun & _ & Fr1 & N1 & Ft1 & V1 & L1 & Hmc1 & Hroom1 & _).
  split; [|split; [exact N1|split; [exact Fr1|exact Ft1]]].
  constructor; try assumption.
  - exact (first_unalloc_some _ 0 _ _ Hun eq_refl).
  - rewrite L1. exact Hdl.
  - rewrite <- Hlen. exact Hroom1.
  - rewrite (slen_of_ver m s1 V1), V1. exact Hcap.
Qed.

Module ExampleCgrSmall.
  Import HandleFrame.Example DataPersist.Example.
  Import DataPersist2.Example1 DataPersist2.Example3 DataPersist2.Example5.
  Import ExampleBig ExampleCreateRemove ExampleCycleRun ExampleCgr.

  Ltac arith := vm_compute; first [reflexivity | discriminate | (intro; discriminate)].

  (* ---- 100 bytes: the two mini sectors come from the mini free list of fH ---- *)
  Example fH_ready_100 : CgrSmallReady (cs fH) 100 [3] [2].
  Proof.
    constructor; [exact DataPersist2.Example6.fH_ct|arith|arith|arith|arith
                 |exact (proj1 ExampleSmall.fH_mini)|left; arith|arith].
  Qed.

  Example cgr_small_100 :
    forall j sj, iter_cycle (cgr p_e 100 4096 0) j (cs fH) = (sj, Ok tt) ->
      nsect sj = 15 /\ free sj = [] /\ fat sj = fat (cs fH) /\ CohTree sj.
  Proof.
    intros j sj Hit.
    destruct (cgr_small_stable p_e [101] 100 4096 0 p_e_scalar ltac:(arith) p_e_names j (cs fH) sj _ _
                fH_ready_100 Hit) as (HRj & Nj & Frj & Ftj & _).
    split; [rewrite Nj; arith|]. split; [rewrite Frj; arith|]. split; [exact Ftj|exact (cgs_ct _ _ _ _ HRj)].
  Qed.

  Example cgr_small_100_runs :
    map (fun j => let r := iter_cycle (cgr p_e 100 4096 0) j (cs fH) in
                  (nsect (fst r), match snd r with Ok _ => true | _ => false end))
        [1%nat; 2%nat; 3%nat]
    = [(15, true); (15, true); (15, true)].
  Proof. vm_compute. reflexivity. Qed.

  (* ---- 4000 bytes: the first repetition extends the container (15 -> 23
          sectors); [m4] is its state before the removal; after the removal
          every repetition runs inside the capacity ---- *)
  Definition c1s : cstate := Eval vm_compute in fst (api_create_stream p_e false 4096 0 (cs fH)).
  Definition m4 : cstate := Eval vm_compute in fst (resize 1 4000 c1s).
  Definition s4 : cstate := Eval vm_compute in fst (api_remove_stream p_e m4).

  Example m4_ct : CohTree m4.
  Proof.
    assert (H1 : exists h, api_create_stream p_e false 4096 0 (cs fH) = (c1s, Ok h))
      by (eexists; vm_compute; reflexivity).
    destruct H1 as (h & E1).
    assert (HC1 : CohTree c1s).
    { apply (created_check p_e 4096 0 (cs fH) c1s h DataPersist2.Example6.fH_ct ltac:(arith) E1);
        vm_compute; reflexivity. }
    assert (HCD : CohData' m4) by (apply cohdata'_b_sound; vm_compute; reflexivity).
    split; [exact HCD|].
    eapply (resize_treepart c1s m4 1 4000); [exact (proj2 HC1)| |exact HCD| | |]; vm_compute; reflexivity.
  Qed.

  Example s4_ready : CgrSmallReady s4 4000 ExampleSmall.rids4000 [2] /\ nsect s4 = 23.
  Proof.
    assert (Hrm : api_remove_stream p_e m4 = (s4, Ok tt)) by (vm_compute; reflexivity).
    assert (Hex : exists e mids, nthN (dirs m4) 1 = Some e /\ 0 < d_len e /\ d_len e < MINI_STREAM_CUTOFF /\
                    chain_ids_of (minifat m4) (d_start e) = Ok mids /\ lenN mids = SA.msectors 4000).
    { eexists _, _. split; [vm_compute; reflexivity|]. split; [vm_compute; reflexivity|].
      split; [vm_compute; reflexivity|]. split; vm_compute; reflexivity. }
    destruct Hex as (e & mids & Ee & Hp & Hc & Ech & Hl).
    assert (Hid : MutRefine.id_of_path m4 p_e = Some 1) by (vm_compute; reflexivity).
    assert (Hmc : mini_chains m4 ExampleSmall.rids4000 [2]).
    { split; [eexists; split; vm_compute; reflexivity|vm_compute; reflexivity]. }
    assert (Hdl : lenN (dirs m4) <= MAX_REGULAR_STREAM_ID) by arith.
    assert (Hcap : slen m4 * lenN ExampleSmall.rids4000 + 64 * SA.msectors 4000 <= stream_len_mask (ver m4)) by arith.
    destruct (cgr_small_from_mid p_e 4000 m4 s4 1 e mids ExampleSmall.rids4000 [2] m4_ct Hid Ee Hp Hc Ech Hl Hmc
                Hdl ltac:(arith) ltac:(arith) Hcap Hrm) as (HR & N1 & _).
    split; [exact HR|]. rewrite N1. vm_compute. reflexivity.
  Qed.

  Example cgr_small_4000 :
    forall j sj, iter_cycle (cgr p_e 4000 4096 0) j s4 = (sj, Ok tt) -> nsect sj = 23 /\ CohTree sj.
  Proof.
    intros j sj Hit.
    destruct (cgr_small_stable p_e [101] 4000 4096 0 p_e_scalar ltac:(arith) p_e_names j s4 sj _ _
                (proj1 s4_ready) Hit) as (HRj & Nj & _).
    split; [rewrite Nj; exact (proj2 s4_ready)|exact (cgs_ct _ _ _ _ HRj)].
  Qed.

  Example cgr_small_4000_runs :
    map (fun j => let r := iter_cycle (cgr p_e 4000 4096 0) j (cs fH) in
                  (nsect (fst r), match snd r with Ok _ => true | _ => false end))
        [1%nat; 2%nat; 3%nat]
    = [(23, true); (23, true); (23, true)].
  Proof. vm_compute. reflexivity. Qed.
End ExampleCgrSmall.

(* the API cycle on a small stream *)
Theorem crcycle_small_stable : forall p nm n t,
  Forall CodecProofs.scalar p -> t <= u64_max -> name_chain_from_path p = Ok [nm] ->
  forall j f i sj rids mfids,
  i < lenN (hs f) -> CgrSmallReady (cs f) n rids mfids ->
  iter_cycle (cgr p n (maxbuf f) t) j (cs f) = (sj, Ok tt) ->
  exists fj,
    run_ops f (rep_ops j (crcycle i p n t)) = (fj, repeat (Ok VUnit) (4 * j)) /\
    cs fj = sj /\ nsect (cs fj) = nsect (cs f) /\ free (cs fj) = free (cs f) /\ fat (cs fj) = fat (cs f) /\
    CgrSmallReady (cs fj) n rids mfids /\ all_kept (cs f) (cs fj).
Proof.
  intros p nm n t Hsc Hnow Enm. induction j as [|j IH]; intros f i sj rids mfids Hi HR Hit.
  - cbn [iter_cycle] in Hit. unfold ret in Hit. injection Hit as <-.
    exists f. cbn [rep_ops ReadonlyTotal.run_ops Nat.mul repeat]. split; [reflexivity|].
    repeat (split; [reflexivity|]). split; [exact HR|].
    split; [|split]; intros; assumption.
  - cbn [iter_cycle] in Hit. binv Hit u s1 Hc Hit. destruct u.
    assert (Hn : n <> 0) by (pose proof (cgs_pos _ _ _ _ HR); lia).
    destruct (crcycle_run f i p n t s1 (cgs_ct _ _ _ _ HR) (cgs_slot _ _ _ _ HR) (cgs_dirs _ _ _ _ HR)
                Hsc Hnow Hi Hn Hc) as (f1 & E1 & C1 & M1 & L1).
    destruct (cgr_small_once p nm n (maxbuf f) t (cs f) s1 rids mfids Hsc Hnow Enm HR Hc)
      as (HR1 & N1 & Fr1 & Ft1 & _ & _ & (K1 & K2 & K3)).
    rewrite <- C1 in HR1, Hit, N1, Fr1, Ft1, K1, K2, K3. rewrite <- M1 in Hit.
    destruct (IH f1 i sj rids mfids ltac:(rewrite L1; exact Hi) HR1 Hit)
      as (fj & Ej & Cj & Nj & Frj & Ftj & HRj & (J1 & J2 & J3)).
    exists fj. split.
    { cbn [rep_ops]. rewrite run_ops_app, E1. cbn [fst snd]. rewrite Ej. cbn [fst snd].
      replace (4 * S j)%nat with (S (S (S (S (4 * j))))) by lia. reflexivity. }
    split; [exact Cj|]. split; [congruence|]. split; [congruence|]. split; [congruence|]. split; [exact HRj|].
    split; [|split]; intros; auto.
Qed.

(* ================================================================== *)
(* the main statements                                                 *)
(* ================================================================== *)
Check big_cycle_once.
Check big_cycle_iter.
Check big_cycle_from_mid.
Check big_cycle_stable.
Check big_cycle_stable_reuse.
Check resize_small_to_zero_room.
Check small_cycle_once.
Check small_cycle_iter.
Check small_cycle_stable.
Check hcycle_iter.
Check big_hcycle_stable.
Check small_hcycle_stable.
Check overwrite_cycle_iter.
Check overwrite_api_stable.
Check grow_remove_big.
Check create_grow_remove_stable.
Check grow_cut_iter.
Check create_new_stream_cohtree.
Check create_root_stream_resolves.
Check cgr_once.
Check cgr_stable.
Check cgr_from_mid.
Check crcycle_stable.
Check remove_small_stream_room.
Check cgr_small_once.
Check cgr_small_stable.
Check cgr_small_from_mid.
Check crcycle_small_stable.

Print Assumptions big_cycle_stable.
Print Assumptions big_cycle_stable_reuse.
Print Assumptions big_cycle_from_mid.
Print Assumptions small_cycle_stable.
Print Assumptions small_cycle_from_mid.
Print Assumptions big_hcycle_stable.
Print Assumptions small_hcycle_stable.
Print Assumptions overwrite_api_stable.
Print Assumptions create_grow_remove_stable.
Print Assumptions grow_cut_iter.
Print Assumptions ExampleBig.cycle_mixed.
Print Assumptions ExampleSmall.cycle_4000.
Print Assumptions ExampleHandles.ocycle_5000.
Print Assumptions ExampleCycleRun.three_repetitions.
Print Assumptions ExampleGrowCut.grow_cut_fG.
Print Assumptions create_new_stream_cohtree.
Print Assumptions create_root_stream_resolves.
Print Assumptions cgr_stable.
Print Assumptions cgr_from_mid.
Print Assumptions crcycle_stable.
Print Assumptions cgr_small_stable.
Print Assumptions cgr_small_from_mid.
Print Assumptions crcycle_small_stable.
Print Assumptions ExampleCgr.cgr_sR.
Print Assumptions ExampleCgr.crcycle_fR.
Print Assumptions ExampleCgrSmall.cgr_small_100.
Print Assumptions ExampleCgrSmall.cgr_small_4000.

