(* ChainProofs.v — a FAT chain behaves as a byte array as long as no
   allocation is needed: sector_write / sector_read_exact, chain_read_exact,
   chain_write_all (no extension), write-then-read, frame for disjoint chains,
   chain_seek, and the chain_ids_of walk relation.
   Stdlib only; no axioms, no admits.  The N-indexed list helpers at the top
   are the ones of IOProofs.v, copied so that this file depends on model/ only. *)
From Coq Require Import List NArith Lia Bool ZifyN ZifyBool.
From Cfb.model Require Import Base Names DirEnt State Alloc.
From Cfb.gen Require Import Consts.
Import ListNotations.
Open Scope N_scope.

(* ------------------------------------------------------------------ *)
(* N-indexed list helpers                                              *)
(* ------------------------------------------------------------------ *)

Lemma lenN_app : forall A (a b : list A), lenN (a ++ b) = lenN a + lenN b.
Proof.
  intros A a b. induction a as [|x a IH]; cbn [lenN app].
  - reflexivity.
  - rewrite IH. lia.
Qed.

Lemma takeN_0 : forall A (l : list A), takeN 0 l = [].
Proof. intros A [|x l]; reflexivity. Qed.

Lemma dropN_0 : forall A (l : list A), dropN 0 l = l.
Proof. intros A [|x l]; reflexivity. Qed.

Lemma takeN_cons : forall A n x (l : list A),
  0 < n -> takeN n (x :: l) = x :: takeN (N.pred n) l.
Proof.
  intros A n x l Hn. cbn [takeN]. destruct (n =? 0) eqn:E; [lia | reflexivity].
Qed.

Lemma dropN_cons : forall A n x (l : list A),
  0 < n -> dropN n (x :: l) = dropN (N.pred n) l.
Proof.
  intros A n x l Hn. cbn [dropN]. destruct (n =? 0) eqn:E; [lia | reflexivity].
Qed.

Ltac case0 n :=
  let E := fresh "E" in
  destruct (N.eq_dec n 0) as [E|E];
  [ subst n; rewrite ?takeN_0, ?dropN_0
  | rewrite ?(takeN_cons _ n), ?(dropN_cons _ n) by lia ].

Lemma lenN_takeN : forall A (l : list A) n, lenN (takeN n l) = N.min n (lenN l).
Proof.
  intros A l. induction l as [|x l IH]; intro n.
  - cbn [takeN lenN]. lia.
  - case0 n; cbn [lenN]; [lia|]. rewrite IH. lia.
Qed.

Lemma lenN_dropN : forall A (l : list A) n, lenN (dropN n l) = lenN l - n.
Proof.
  intros A l. induction l as [|x l IH]; intro n.
  - cbn [dropN lenN]. lia.
  - case0 n; cbn [lenN]; [lia|]. rewrite IH. lia.
Qed.

Lemma takeN_dropN_id : forall A (l : list A) n, takeN n l ++ dropN n l = l.
Proof.
  intros A l. induction l as [|x l IH]; intro n.
  - reflexivity.
  - case0 n; [reflexivity|]. cbn [app]. rewrite IH. reflexivity.
Qed.

Lemma takeN_all : forall A (l : list A) n, lenN l <= n -> takeN n l = l.
Proof.
  intros A l. induction l as [|x l IH]; intros n H.
  - reflexivity.
  - cbn [lenN] in H. case0 n; [lia|]. rewrite IH by lia. reflexivity.
Qed.

Lemma dropN_all : forall A (l : list A) n, lenN l <= n -> dropN n l = [].
Proof.
  intros A l. induction l as [|x l IH]; intros n H.
  - reflexivity.
  - cbn [lenN] in H. case0 n; [lia|]. apply IH. lia.
Qed.

Lemma takeN_app_le : forall A (a b : list A) n,
  n <= lenN a -> takeN n (a ++ b) = takeN n a.
Proof.
  intros A a. induction a as [|x a IH]; intros b n H.
  - cbn [lenN] in H. assert (n = 0) by lia. subst. rewrite !takeN_0. reflexivity.
  - cbn [lenN] in H. cbn [app]. case0 n; [reflexivity|]. rewrite IH by lia. reflexivity.
Qed.

Lemma takeN_app_ge : forall A (a b : list A) n,
  lenN a <= n -> takeN n (a ++ b) = a ++ takeN (n - lenN a) b.
Proof.
  intros A a. induction a as [|x a IH]; intros b n H.
  - cbn [lenN app]. rewrite N.sub_0_r. reflexivity.
  - cbn [lenN] in *. cbn [app]. case0 n; [lia|]. rewrite IH by lia.
    replace (N.pred n - lenN a) with (n - N.succ (lenN a)) by lia. reflexivity.
Qed.

Lemma dropN_app_le : forall A (a b : list A) n,
  n <= lenN a -> dropN n (a ++ b) = dropN n a ++ b.
Proof.
  intros A a. induction a as [|x a IH]; intros b n H.
  - cbn [lenN] in H. assert (n = 0) by lia. subst. rewrite !dropN_0. reflexivity.
  - cbn [lenN] in H. cbn [app]. case0 n; [reflexivity|]. rewrite IH by lia. reflexivity.
Qed.

Lemma dropN_app_ge : forall A (a b : list A) n,
  lenN a <= n -> dropN n (a ++ b) = dropN (n - lenN a) b.
Proof.
  intros A a. induction a as [|x a IH]; intros b n H.
  - cbn [lenN app]. rewrite N.sub_0_r. reflexivity.
  - cbn [lenN] in *. cbn [app]. case0 n; [lia|]. rewrite IH by lia.
    replace (N.pred n - lenN a) with (n - N.succ (lenN a)) by lia. reflexivity.
Qed.

Lemma dropN_dropN : forall A (l : list A) a b, dropN a (dropN b l) = dropN (b + a) l.
Proof.
  intros A l. induction l as [|x l IH]; intros a b.
  - reflexivity.
  - case0 b.
    + rewrite N.add_0_l. reflexivity.
    + rewrite (dropN_cons _ (b + a)) by lia. rewrite IH. f_equal. lia.
Qed.

Lemma takeN_add : forall A (l : list A) a b,
  takeN (a + b) l = takeN a l ++ takeN b (dropN a l).
Proof.
  intros A l. induction l as [|x l IH]; intros a b.
  - reflexivity.
  - case0 a.
    + rewrite N.add_0_l. reflexivity.
    + rewrite (takeN_cons _ (a + b)) by lia. cbn [app].
      replace (N.pred (a + b)) with (N.pred a + b) by lia. rewrite IH. reflexivity.
Qed.

Lemma repeatN_succ : forall A (x : A) n, repeatN x (N.succ n) = x :: repeatN x n.
Proof. intros. unfold repeatN. rewrite N.iter_succ. reflexivity. Qed.

Lemma lenN_repeatN : forall A (x : A) n, lenN (repeatN x n) = n.
Proof.
  intros A x n. induction n as [|n IH] using N.peano_ind.
  - reflexivity.
  - rewrite repeatN_succ. cbn [lenN]. rewrite IH. reflexivity.
Qed.

(* [byte] is a transparent alias of N: lenN at type byte and at type N are
   convertible but distinct atoms for lia, so normalise first *)
Ltac blia := unfold byte in *; lia.

Lemma lenN_spliceN : forall l off bs,
  lenN (spliceN l off bs) = N.max (lenN l) (off + lenN bs).
Proof.
  intros. unfold spliceN.
  rewrite !lenN_app, lenN_repeatN, lenN_dropN, lenN_takeN. blia.
Qed.

Lemma spliceN_inside : forall l off bs,
  off <= lenN l ->
  spliceN l off bs = takeN off l ++ bs ++ dropN (off + lenN bs) l.
Proof.
  intros l off bs H. unfold spliceN. rewrite lenN_takeN.
  replace (off - N.min off (lenN l)) with 0 by blia. reflexivity.
Qed.

Lemma spliceN_beyond : forall l off bs,
  lenN l <= off ->
  spliceN l off bs = l ++ repeatN 0 (off - lenN l) ++ bs.
Proof.
  intros l off bs H. unfold spliceN.
  rewrite takeN_all by blia. rewrite dropN_all by blia. rewrite app_nil_r. reflexivity.
Qed.

Lemma spliceN_spliceN : forall d p a b,
  spliceN (spliceN d p a) (p + lenN a) b = spliceN d p (a ++ b).
Proof.
  intros d p a b.
  destruct (N.le_gt_cases p (lenN d)) as [Hp|Hp].
  - rewrite (spliceN_inside d p a) by blia.
    rewrite (spliceN_inside d p (a ++ b)) by blia.
    rewrite spliceN_inside
      by (rewrite !lenN_app, lenN_takeN, lenN_dropN; blia).
    assert (Hpre : lenN (takeN p d ++ a) = p + lenN a)
      by (rewrite lenN_app, lenN_takeN; blia).
    rewrite (app_assoc (takeN p d) a).
    rewrite takeN_app_le by blia. rewrite takeN_all by blia.
    rewrite dropN_app_ge by blia. rewrite Hpre.
    rewrite dropN_dropN. rewrite lenN_app.
    rewrite <- !app_assoc. do 3 f_equal. f_equal. blia.
  - rewrite (spliceN_beyond d p a) by blia.
    rewrite (spliceN_beyond d p (a ++ b)) by blia.
    rewrite spliceN_beyond
      by (rewrite !lenN_app, lenN_repeatN; blia).
    rewrite !lenN_app, lenN_repeatN.
    match goal with
    | |- context [repeatN 0 ?e ++ b] =>
        match e with
        | p - _ => fail 1
        | _ => replace e with 0 by blia
        end
    end.
    change (repeatN 0 0) with (@nil N). cbn [app].
    rewrite <- !app_assoc. reflexivity.
Qed.

(* a splice that falls entirely in the first / second part of an append *)
Lemma spliceN_app_le : forall a rest off b,
  off + lenN b <= lenN a ->
  spliceN (a ++ rest) off b = spliceN a off b ++ rest.
Proof.
  intros a rest off b H. unfold spliceN.
  rewrite takeN_app_le by blia. rewrite dropN_app_le by blia.
  rewrite <- !app_assoc. reflexivity.
Qed.

Lemma spliceN_app_ge : forall a rest off b,
  lenN a <= off ->
  spliceN (a ++ rest) off b = a ++ spliceN rest (off - lenN a) b.
Proof.
  intros a rest off b H. unfold spliceN.
  rewrite takeN_app_ge by blia. rewrite dropN_app_ge by blia.
  rewrite lenN_app. rewrite <- !app_assoc.
  replace (off - (lenN a + lenN (takeN (off - lenN a) rest)))
    with (off - lenN a - lenN (takeN (off - lenN a) rest)) by blia.
  replace (off + lenN b - lenN a) with (off - lenN a + lenN b) by blia.
  reflexivity.
Qed.

(* reading back what a splice wrote, and reading next to it *)
Lemma spliceN_read_same : forall l o bs,
  o <= lenN l ->
  takeN (lenN bs) (dropN o (spliceN l o bs)) = bs.
Proof.
  intros l o bs H. rewrite spliceN_inside by exact H.
  rewrite dropN_app_ge by (rewrite lenN_takeN; blia).
  rewrite lenN_takeN. replace (o - N.min o (lenN l)) with 0 by blia.
  rewrite dropN_0. rewrite takeN_app_le by blia. apply takeN_all. blia.
Qed.

Lemma spliceN_read_before : forall l o bs o2 n,
  o <= lenN l -> o2 + n <= o ->
  takeN n (dropN o2 (spliceN l o bs)) = takeN n (dropN o2 l).
Proof.
  intros l o bs o2 n H H2. rewrite spliceN_inside by exact H.
  rewrite dropN_app_le by (rewrite lenN_takeN; blia).
  rewrite takeN_app_le by (rewrite lenN_dropN, lenN_takeN; blia).
  rewrite <- (takeN_dropN_id _ l o) at 2.
  rewrite dropN_app_le by (rewrite lenN_takeN; blia).
  rewrite takeN_app_le by (rewrite lenN_dropN, lenN_takeN; blia).
  reflexivity.
Qed.

Lemma spliceN_read_after : forall l o bs o2 n,
  o + lenN bs <= lenN l -> o + lenN bs <= o2 ->
  takeN n (dropN o2 (spliceN l o bs)) = takeN n (dropN o2 l).
Proof.
  intros l o bs o2 n H H2. rewrite spliceN_inside by blia.
  rewrite app_assoc.
  rewrite dropN_app_ge by (rewrite lenN_app, lenN_takeN; blia).
  rewrite lenN_app, lenN_takeN. rewrite dropN_dropN.
  do 2 f_equal. blia.
Qed.

(* nthN / updN *)
Lemma nthN_cons_pos : forall A (x : A) l i, 0 < i -> nthN (x :: l) i = nthN l (N.pred i).
Proof. intros A x l i H. cbn [nthN]. destruct (i =? 0) eqn:E; [lia | reflexivity]. Qed.

Lemma nthN_cons_0 : forall A (x : A) l, nthN (x :: l) 0 = Some x.
Proof. reflexivity. Qed.

Lemma nthN_Some_lt : forall A (l : list A) i x, nthN l i = Some x -> i < lenN l.
Proof.
  intros A l. induction l as [|y l IH]; intros i x H.
  - discriminate.
  - cbn [lenN]. destruct (N.eq_dec i 0) as [E|E]; [lia|].
    rewrite nthN_cons_pos in H by lia. apply IH in H. lia.
Qed.

Lemma nthN_None_ge : forall A (l : list A) i, nthN l i = None -> lenN l <= i.
Proof.
  intros A l. induction l as [|y l IH]; intros i H.
  - cbn [lenN]. lia.
  - cbn [lenN]. destruct (N.eq_dec i 0) as [E|E]; [subst; discriminate|].
    rewrite nthN_cons_pos in H by lia. apply IH in H. lia.
Qed.

Lemma nthN_In : forall A (l : list A) i x, nthN l i = Some x -> In x l.
Proof.
  intros A l. induction l as [|y l IH]; intros i x H.
  - discriminate.
  - destruct (N.eq_dec i 0) as [E|E].
    + subst. cbn in H. injection H as ->. left. reflexivity.
    + rewrite nthN_cons_pos in H by lia. right. eapply IH. exact H.
Qed.

Lemma lenN_updN : forall A (l : list A) i v, lenN (updN l i v) = lenN l.
Proof.
  intros A l. induction l as [|y l IH]; intros i v.
  - reflexivity.
  - cbn [updN]. destruct (i =? 0); cbn [lenN]; [reflexivity|]. rewrite IH. reflexivity.
Qed.

Lemma nthN_updN_same : forall A (l : list A) i v, i < lenN l -> nthN (updN l i v) i = Some v.
Proof.
  intros A l. induction l as [|y l IH]; intros i v H.
  - cbn [lenN] in H. lia.
  - cbn [lenN] in H. cbn [updN]. destruct (i =? 0) eqn:E.
    + cbn [nthN]. rewrite E. reflexivity.
    + cbn [nthN]. rewrite E. apply IH. lia.
Qed.

Lemma nthN_updN_other : forall A (l : list A) i j v, i <> j -> nthN (updN l i v) j = nthN l j.
Proof.
  intros A l. induction l as [|y l IH]; intros i j v H.
  - reflexivity.
  - cbn [updN]. destruct (i =? 0) eqn:E.
    + cbn [nthN]. destruct (j =? 0) eqn:F; [lia | reflexivity].
    + cbn [nthN]. destruct (j =? 0) eqn:F; [reflexivity|]. apply IH. lia.
Qed.

(* ------------------------------------------------------------------ *)
(* division facts                                                      *)
(* ------------------------------------------------------------------ *)

Lemma divmod_split : forall sl off, 0 < sl ->
  off = sl * (off / sl) + off mod sl /\ off mod sl < sl.
Proof.
  intros sl off H. split.
  - apply N.div_mod. lia.
  - apply N.mod_lt. lia.
Qed.

Lemma div_next : forall sl off, 0 < sl ->
  (off + (sl - off mod sl)) / sl = off / sl + 1.
Proof.
  intros sl off H. destruct (divmod_split sl off H) as [E L].
  symmetry. apply (N.div_unique _ _ _ 0); [lia|]. nia.
Qed.

Lemma div_lt_len : forall sl off n, 0 < sl -> off < sl * n -> off / sl < n.
Proof. intros sl off n H L. apply N.div_lt_upper_bound; lia. Qed.

(* ------------------------------------------------------------------ *)
(* the state monad                                                     *)
(* ------------------------------------------------------------------ *)

Ltac mred :=
  cbv beta iota zeta delta [bind get put modify ret fail panic lift out_of_fuel
                            c_off c_ids c_init chain_len].

Lemma slen_pos : forall s, 0 < slen s.
Proof. intro s. unfold slen, sector_len. destruct (ver s); reflexivity. Qed.

(* the two length bounds checked by resize and write_data: anything below the
   mini-stream cutoff fits both *)
Lemma small_fits_mask : forall v n, n <= MINI_STREAM_CUTOFF -> n <= stream_len_mask v.
Proof.
  intros v n H. unfold MINI_STREAM_CUTOFF in H.
  destruct v; unfold stream_len_mask, V3_STREAM_LEN_MASK, V4_STREAM_LEN_MASK; lia.
Qed.

Lemma small_fits_sectors : forall s n, n <= MINI_STREAM_CUTOFF -> n <= MAX_REGULAR_SECTOR * slen s.
Proof.
  intros s n H. unfold MINI_STREAM_CUTOFF in H. unfold slen, sector_len, MAX_REGULAR_SECTOR.
  destruct (ver s); cbn [sector_shift]; lia.
Qed.

Lemma mask_check_false : forall s n,
  n <= stream_len_mask (ver s) -> (stream_len_mask (ver s) <? n) = false.
Proof. intros s n H. apply N.ltb_ge. exact H. Qed.

Lemma both_check_false : forall s n,
  n <= MAX_REGULAR_SECTOR * slen s -> n <= stream_len_mask (ver s) ->
  (N.min (MAX_REGULAR_SECTOR * slen s) (stream_len_mask (ver s)) <? n) = false.
Proof. intros s n H1 H2. apply N.ltb_ge. apply N.min_glb; assumption. Qed.

Lemma both_check_false_small : forall s n,
  n <= MINI_STREAM_CUTOFF ->
  (N.min (MAX_REGULAR_SECTOR * slen s) (stream_len_mask (ver s)) <? n) = false.
Proof.
  intros s n H. apply both_check_false; [apply small_fits_sectors | apply small_fits_mask]; exact H.
Qed.

Lemma seek_sector_ok : forall s sid off,
  off <= slen s -> sid < nsect s -> seek_sector sid off s = (s, Ok tt).
Proof.
  intros s sid off Ho Hs. unfold seek_sector. mred.
  destruct (slen s <? off) eqn:E1; [lia|].
  destruct (nsect s <=? sid) eqn:E2; [lia|]. reflexivity.
Qed.

(* ------------------------------------------------------------------ *)
(* sectors                                                             *)
(* ------------------------------------------------------------------ *)

Definition sector_bytes (s : cstate) (sid : N) : list byte :=
  match nthN (img s) (sid + 1) with Some b => b | None => [] end.

Definition chain_content (s : cstate) (ids : list N) : list byte :=
  concat (map (sector_bytes s) ids).

Definition good_chain (s : cstate) (ids : list N) : Prop :=
  NoDup ids /\
  Forall (fun sid => sid < nsect s /\ lenN (sector_bytes s sid) = slen s) ids /\
  lenN (img s) = nsect s + 1 /\
  0 < slen s.

(* "every component except the image is unchanged" *)
Definition same_meta (s s' : cstate) : Prop := s' = w_img s (img s').

Lemma same_meta_refl : forall s, same_meta s s.
Proof. intros [? ? ? ? ? ? ? ? ? ? ? ?]. reflexivity. Qed.

Lemma same_meta_trans : forall a b c, same_meta a b -> same_meta b c -> same_meta a c.
Proof.
  unfold same_meta. intros a b c H1 H2. rewrite H2. rewrite H1 at 1. reflexivity.
Qed.

Lemma same_meta_fields : forall s s', same_meta s s' ->
  ver s' = ver s /\ nsect s' = nsect s /\ difat_ids s' = difat_ids s /\
  difat s' = difat s /\ fat s' = fat s /\ free s' = free s /\ dirs s' = dirs s /\
  dir_start s' = dir_start s /\ minifat s' = minifat s /\
  minifat_start s' = minifat_start s /\ mfree s' = mfree s /\ slen s' = slen s.
Proof.
  unfold same_meta. intros s s' H. unfold slen. rewrite H. cbn. repeat split.
Qed.

Theorem sector_write_read : forall s sid off bs,
  sid < nsect s ->
  lenN (sector_bytes s sid) = slen s ->
  off + lenN bs <= slen s ->
  exists s',
    sector_write sid off bs s = (s', Ok tt) /\
    s' = w_img s (updN (img s) (sid + 1) (spliceN (sector_bytes s sid) off bs)) /\
    sector_bytes s' sid = spliceN (sector_bytes s sid) off bs /\
    spliceN (sector_bytes s sid) off bs
      = takeN off (sector_bytes s sid) ++ bs ++ dropN (off + lenN bs) (sector_bytes s sid) /\
    (forall sid', sid' <> sid -> sector_bytes s' sid' = sector_bytes s sid').
Proof.
  intros s sid off bs Hsid Hlen Hfit.
  pose proof (slen_pos s) as Hpos.
  unfold sector_bytes in Hlen.
  destruct (nthN (img s) (sid + 1)) as [sec|] eqn:Hn;
    [| cbn [lenN] in Hlen; lia].
  pose proof (nthN_Some_lt _ _ _ _ Hn) as Hlt.
  eexists. split; [|split; [reflexivity|]].
  - unfold sector_write. mred. rewrite seek_sector_ok by lia.
    destruct (lenN (img s) <=? sid + 1) eqn:E; [lia|].
    unfold img_write. rewrite Hn.
    unfold sector_bytes. rewrite Hn. reflexivity.
  - unfold sector_bytes at 1 2 3 4 5 6. cbn [img w_img]. rewrite Hn.
    rewrite nthN_updN_same by exact Hlt.
    split; [reflexivity|]. split.
    + apply spliceN_inside. blia.
    + intros sid' Hne. unfold sector_bytes. cbn [img w_img].
      rewrite nthN_updN_other by lia. reflexivity.
Qed.

Theorem sector_read_spec : forall s sid off n,
  sid < nsect s ->
  off + n <= lenN (sector_bytes s sid) ->
  off <= slen s ->
  sector_read_exact sid off n s = (s, Ok (takeN n (dropN off (sector_bytes s sid)))).
Proof.
  intros s sid off n Hsid Hfit Hoff.
  unfold sector_read_exact. mred. rewrite seek_sector_ok by lia.
  assert (E : img_read (img s) (sid + 1) off n = takeN n (dropN off (sector_bytes s sid))).
  { unfold img_read, sector_bytes. destruct (nthN (img s) (sid + 1)); reflexivity. }
  rewrite E.
  destruct (lenN (takeN n (dropN off (sector_bytes s sid))) <? n) eqn:L; [|reflexivity].
  rewrite lenN_takeN, lenN_dropN in L. blia.
Qed.

(* ------------------------------------------------------------------ *)
(* chains as byte arrays                                               *)
(* ------------------------------------------------------------------ *)

Lemma chain_content_cons : forall s x t,
  chain_content s (x :: t) = sector_bytes s x ++ chain_content s t.
Proof. reflexivity. Qed.

Lemma lenN_chain_content : forall s sl ids,
  Forall (fun sid => lenN (sector_bytes s sid) = sl) ids ->
  lenN (chain_content s ids) = sl * lenN ids.
Proof.
  intros s sl ids. induction ids as [|x t IH]; intro HF.
  - cbn. lia.
  - rewrite chain_content_cons, lenN_app. cbn [lenN].
    rewrite (Forall_inv HF). rewrite IH by exact (Forall_inv_tail HF). lia.
Qed.

Lemma good_chain_lens : forall s ids, good_chain s ids ->
  Forall (fun sid => lenN (sector_bytes s sid) = slen s) ids.
Proof.
  intros s ids (_ & HF & _). eapply Forall_impl; [|exact HF]. cbv beta. tauto.
Qed.

Lemma good_chain_len : forall s ids, good_chain s ids ->
  lenN (chain_content s ids) = slen s * lenN ids.
Proof. intros. apply lenN_chain_content. apply good_chain_lens. assumption. Qed.

(* position [sl * i + ow] of the content lies in the i-th sector at [ow] *)
Lemma content_locate : forall s sl ids i sid ow k,
  Forall (fun x => lenN (sector_bytes s x) = sl) ids ->
  nthN ids i = Some sid -> ow + k <= sl ->
  takeN k (dropN (sl * i + ow) (chain_content s ids))
  = takeN k (dropN ow (sector_bytes s sid)).
Proof.
  intros s sl ids. induction ids as [|x t IH]; intros i sid ow k HF Hn Hk.
  - discriminate.
  - pose proof (Forall_inv HF) as Hx. pose proof (Forall_inv_tail HF) as Ht.
    cbv beta in Hx. rewrite chain_content_cons.
    destruct (N.eq_dec i 0) as [E|E].
    + subst i. cbn [nthN N.eqb] in Hn. injection Hn as Hn. subst x.
      rewrite N.mul_0_r, N.add_0_l.
      rewrite dropN_app_le by blia.
      rewrite takeN_app_le by (rewrite lenN_dropN; blia). reflexivity.
    + rewrite nthN_cons_pos in Hn by lia.
      rewrite dropN_app_ge by (unfold byte in *; nia).
      replace (sl * i + ow - lenN (sector_bytes s x)) with (sl * N.pred i + ow)
        by (unfold byte in *; nia).
      apply IH; assumption.
Qed.

Lemma chain_read_go_spec : forall s i ids, good_chain s ids ->
  forall fuel off n acc,
  off + n <= slen s * lenN ids ->
  (1 <= fuel)%nat ->
  (0 < n -> off + n <= slen s * (off / slen s + N.of_nat fuel - 1)) ->
  chain_read_go fuel (mkChain i ids off) n acc s
  = (s, Ok (mkChain i ids (off + n),
            acc ++ takeN n (dropN off (chain_content s ids)))).
Proof.
  intros s i ids Hgood.
  pose proof (good_chain_lens _ _ Hgood) as HL.
  destruct Hgood as (Hnd & HF & Himg & Hpos).
  induction fuel as [|f IH]; intros off n acc Hfit Hf1 Hfuel; [lia|].
  cbn [chain_read_go].
  destruct (n =? 0) eqn:En.
  - assert (n = 0) by lia. subst n. mred.
    rewrite N.add_0_r, takeN_0, app_nil_r. reflexivity.
  - mred.
    destruct (divmod_split (slen s) off Hpos) as [Eoff Hr].
    destruct (slen s * lenN ids <? off) eqn:E1; [lia|].
    replace (N.min n (slen s * lenN ids - off)) with n by lia.
    rewrite En.
    assert (Hq : off / slen s < lenN ids) by (apply div_lt_len; lia).
    destruct (nthN ids (off / slen s)) as [sid|] eqn:Hn;
      [| apply nthN_None_ge in Hn; lia].
    pose proof (nthN_In _ _ _ _ Hn) as Hin.
    rewrite Forall_forall in HF. destruct (HF _ Hin) as [Hsid Hlen].
    remember (N.min n (slen s - off mod slen s)) as k eqn:Ek.
    rewrite sector_read_spec by lia.
    rewrite IH.
    + assert (Hloc : takeN k (dropN off (chain_content s ids))
                     = takeN k (dropN (off mod slen s) (sector_bytes s sid))).
      { rewrite Eoff at 1. apply content_locate; [exact HL | exact Hn | lia]. }
      rewrite <- Hloc. rewrite <- app_assoc.
      replace (off + k + (n - k)) with (off + n) by lia.
      do 4 f_equal.
      assert (Hsplit : forall l : list byte,
                takeN n l = takeN k l ++ takeN (n - k) (dropN k l)).
      { intro l. rewrite <- takeN_add. f_equal. lia. }
      rewrite (Hsplit (dropN off (chain_content s ids))), dropN_dropN. reflexivity.
    + lia.
    + assert (off + n > slen s * (off / slen s)) by lia.
      assert (0 < n) as Hn0 by lia. specialize (Hfuel Hn0). nia.
    + intro Hrem.
      assert (Hk : k = slen s - off mod slen s) by lia.
      rewrite Hk, div_next by exact Hpos.
      assert (0 < n) as Hn0 by lia. specialize (Hfuel Hn0).
      replace (off + (slen s - off mod slen s) + (n - (slen s - off mod slen s)))
        with (off + n) by lia.
      replace (off / slen s + 1 + N.of_nat f - 1) with (off / slen s + N.of_nat (S f) - 1) by lia.
      exact Hfuel.
Qed.

Lemma fuel_enough : forall sl off n, 0 < sl -> 0 < n ->
  off + n <= sl * (off / sl + N.of_nat (S (S (S (N.to_nat (n / sl))))) - 1).
Proof.
  intros sl off n Hpos Hn.
  destruct (divmod_split sl off Hpos) as [Eo Ho].
  destruct (divmod_split sl n Hpos) as [En Hn'].
  replace (N.of_nat (S (S (S (N.to_nat (n / sl)))))) with (n / sl + 3) by lia.
  nia.
Qed.

Theorem chain_read_spec : forall s c n,
  good_chain s (c_ids c) ->
  c_off c + n <= chain_len (slen s) c ->
  chain_read_exact c n s
  = (s, Ok (mkChain (c_init c) (c_ids c) (c_off c + n),
            takeN n (dropN (c_off c) (chain_content s (c_ids c))))).
Proof.
  intros s [i ids off] n Hgood Hfit. cbn [c_init c_ids c_off] in *.
  unfold chain_len in Hfit. cbn [c_ids] in Hfit.
  unfold chain_read_exact. mred.
  rewrite (chain_read_go_spec s i ids Hgood).
  - reflexivity.
  - exact Hfit.
  - apply le_n_S, Nat.le_0_l.
  - intro Hn. apply fuel_enough; [apply slen_pos | exact Hn].
Qed.

Lemma chain_read_go_eof : forall s i ids, good_chain s ids ->
  forall fuel off n acc,
  off <= slen s * lenN ids ->
  slen s * lenN ids < off + n ->
  lenN ids - off / slen s + 1 <= N.of_nat fuel ->
  chain_read_go fuel (mkChain i ids off) n acc s = (s, Err EUnexpectedEof).
Proof.
  intros s i ids Hgood.
  pose proof (good_chain_lens _ _ Hgood) as HL.
  destruct Hgood as (Hnd & HF & Himg & Hpos).
  induction fuel as [|f IH]; intros off n acc Hle Hgt Hfuel; [lia|].
  cbn [chain_read_go].
  destruct (n =? 0) eqn:En; [lia|]. mred.
  destruct (divmod_split (slen s) off Hpos) as [Eoff Hr].
  destruct (slen s * lenN ids <? off) eqn:E1; [lia|].
  replace (N.min n (slen s * lenN ids - off)) with (slen s * lenN ids - off) by lia.
  destruct (slen s * lenN ids - off =? 0) eqn:E2; [reflexivity|].
  assert (Hq : off / slen s < lenN ids) by (apply div_lt_len; lia).
  destruct (nthN ids (off / slen s)) as [sid|] eqn:Hn;
    [| apply nthN_None_ge in Hn; lia].
  pose proof (nthN_In _ _ _ _ Hn) as Hin.
  rewrite Forall_forall in HF. destruct (HF _ Hin) as [Hsid Hlen].
  assert (Hk : N.min (slen s * lenN ids - off) (slen s - off mod slen s)
               = slen s - off mod slen s) by nia.
  rewrite Hk.
  rewrite sector_read_spec by lia.
  apply IH.
  - nia.
  - lia.
  - rewrite div_next by exact Hpos. lia.
Qed.

Theorem chain_read_eof : forall s c n,
  good_chain s (c_ids c) ->
  c_off c <= chain_len (slen s) c ->
  chain_len (slen s) c < c_off c + n ->
  exists s', chain_read_exact c n s = (s', Err EUnexpectedEof) /\ s' = s.
Proof.
  intros s [i ids off] n Hgood Hle Hgt. cbn [c_init c_ids c_off] in *.
  unfold chain_len in *. cbn [c_ids] in *.
  exists s. split; [|reflexivity].
  unfold chain_read_exact. mred.
  apply (chain_read_go_eof s i ids Hgood); [exact Hle | exact Hgt |].
  pose proof (slen_pos s) as Hpos.
  destruct (divmod_split (slen s) off Hpos) as [Eo Ho].
  destruct (divmod_split (slen s) n Hpos) as [En Hn'].
  replace (N.of_nat (S (S (S (N.to_nat (n / slen s)))))) with (n / slen s + 3) by lia.
  nia.
Qed.

(* ------------------------------------------------------------------ *)
(* writing without extension                                           *)
(* ------------------------------------------------------------------ *)

Lemma spliceN_nil : forall l off, off <= lenN l -> spliceN l off [] = l.
Proof.
  intros l off H. rewrite spliceN_inside by exact H. cbn [app lenN].
  rewrite N.add_0_r. apply takeN_dropN_id.
Qed.

(* updating one sector of a duplicate-free chain splices its content *)
Lemma content_update : forall s s1 sl ids q sid ow b,
  NoDup ids ->
  Forall (fun x => lenN (sector_bytes s x) = sl) ids ->
  nthN ids q = Some sid ->
  ow + lenN b <= sl ->
  sector_bytes s1 sid = spliceN (sector_bytes s sid) ow b ->
  (forall x, x <> sid -> sector_bytes s1 x = sector_bytes s x) ->
  chain_content s1 ids = spliceN (chain_content s ids) (sl * q + ow) b.
Proof.
  intros s s1 sl ids. induction ids as [|x t IH];
    intros q sid ow b Hnd HF Hn Hfit Hsame Hoth.
  - discriminate.
  - pose proof (Forall_inv HF) as Hx. pose proof (Forall_inv_tail HF) as Ht.
    cbv beta in Hx. rewrite !chain_content_cons.
    pose proof (NoDup_cons_iff x t) as [Hnd' _]. destruct (Hnd' Hnd) as [Hnotin Hndt].
    destruct (N.eq_dec q 0) as [E|E].
    + subst q. cbn [nthN N.eqb] in Hn. injection Hn as Hn. subst x.
      rewrite N.mul_0_r, N.add_0_l.
      rewrite spliceN_app_le by blia. rewrite Hsame. f_equal.
      unfold chain_content. f_equal. apply map_ext_in. intros a Ha.
      apply Hoth. intro Heq. subst a. contradiction.
    + rewrite nthN_cons_pos in Hn by lia.
      pose proof (nthN_In _ _ _ _ Hn) as Hin.
      assert (Hne : x <> sid) by (intro Heq; subst x; contradiction).
      rewrite (Hoth x Hne).
      rewrite spliceN_app_ge by (unfold byte in *; nia). f_equal.
      replace (sl * q + ow - lenN (sector_bytes s x)) with (sl * N.pred q + ow)
        by (unfold byte in *; nia).
      apply (IH (N.pred q) sid ow b); assumption.
Qed.

(* good_chain only looks at the lengths of the chain's sectors *)
Lemma good_chain_transfer : forall s s1 ids,
  good_chain s ids ->
  same_meta s s1 ->
  lenN (img s1) = lenN (img s) ->
  (forall x, In x ids -> lenN (sector_bytes s1 x) = lenN (sector_bytes s x)) ->
  good_chain s1 ids.
Proof.
  intros s s1 ids (Hnd & HF & Himg & Hpos) Hmeta Hlen Hsec.
  destruct (same_meta_fields _ _ Hmeta) as (_ & Hns & _ & _ & _ & _ & _ & _ & _ & _ & _ & Hsl).
  split; [exact Hnd|]. split; [|split].
  - rewrite Forall_forall in *. intros x Hx. destruct (HF x Hx) as [H1 H2].
    rewrite Hns, Hsl, (Hsec x Hx). split; assumption.
  - rewrite Hlen, Hns. exact Himg.
  - rewrite Hsl. exact Hpos.
Qed.

Lemma chain_write_go_spec : forall i ids fuel s off bs,
  good_chain s ids ->
  off + lenN bs <= slen s * lenN ids ->
  (1 <= fuel)%nat ->
  (0 < lenN bs -> off + lenN bs <= slen s * (off / slen s + N.of_nat fuel - 1)) ->
  exists s',
    chain_write_go fuel (mkChain i ids off) bs s
      = (s', Ok (mkChain i ids (off + lenN bs))) /\
    same_meta s s' /\
    lenN (img s') = lenN (img s) /\
    chain_content s' ids = spliceN (chain_content s ids) off bs /\
    good_chain s' ids /\
    (forall x, ~ In x ids -> sector_bytes s' x = sector_bytes s x) /\
    (forall x, lenN (sector_bytes s' x) = lenN (sector_bytes s x)).
Proof.
  intros i ids. induction fuel as [|f IH]; intros s off bs Hgood Hfit Hf1 Hfuel; [lia|].
  pose proof (good_chain_lens _ _ Hgood) as HL.
  pose proof (good_chain_len _ _ Hgood) as HCL.
  cbn [chain_write_go].
  destruct bs as [|b0 bt] eqn:Ebs.
  - exists s. mred. cbn [lenN]. rewrite N.add_0_r.
    cbn [lenN] in Hfit.
    split; [reflexivity|]. split; [apply same_meta_refl|]. split; [reflexivity|].
    split; [symmetry; apply spliceN_nil; blia|]. split; [exact Hgood|].
    split; intros; reflexivity.
  - assert (Hbs : 0 < lenN (b0 :: bt)) by (cbn [lenN]; lia).
    rewrite <- Ebs in *. clear Ebs b0 bt. specialize (Hfuel Hbs).
    destruct Hgood as (Hnd & HF & Himg & Hpos).
    assert (Hgood : good_chain s ids) by (repeat split; assumption).
    mred.
    destruct (divmod_split (slen s) off Hpos) as [Eoff Hr].
    destruct (off =? slen s * lenN ids) eqn:E1; [lia|]. mred.
    assert (Hq : off / slen s < lenN ids) by (apply div_lt_len; lia).
    destruct (nthN ids (off / slen s)) as [sid|] eqn:Hn;
      [| apply nthN_None_ge in Hn; lia].
    pose proof (nthN_In _ _ _ _ Hn) as Hin.
    pose proof HF as HF'. rewrite Forall_forall in HF'.
    destruct (HF' _ Hin) as [Hsid Hlen].
    remember (N.min (lenN bs) (slen s - off mod slen s)) as k eqn:Ek.
    assert (Hlk : lenN (takeN k bs) = k) by (rewrite lenN_takeN; lia).
    destruct (sector_write_read s sid (off mod slen s) (takeN k bs) Hsid Hlen)
      as (s1 & Hw & Hs1 & Hb & _ & Hoth); [lia|].
    rewrite Hw.
    assert (Hmeta1 : same_meta s s1) by (unfold same_meta; rewrite Hs1; reflexivity).
    assert (Himg1 : lenN (img s1) = lenN (img s))
      by (rewrite Hs1; cbn [img w_img]; apply lenN_updN).
    assert (Hlen1 : forall x, lenN (sector_bytes s1 x) = lenN (sector_bytes s x)).
    { intro x. destruct (N.eq_dec x sid) as [->|Hne].
      - rewrite Hb, lenN_spliceN. blia.
      - rewrite (Hoth x Hne). reflexivity. }
    assert (Hgood1 : good_chain s1 ids).
    { apply (good_chain_transfer s s1 ids Hgood Hmeta1 Himg1). intros x _. apply Hlen1. }
    destruct (same_meta_fields _ _ Hmeta1) as (_ & _ & _ & _ & _ & _ & _ & _ & _ & _ & _ & Hsl).
    assert (Hc1 : chain_content s1 ids = spliceN (chain_content s ids) off (takeN k bs)).
    { rewrite Eoff at 1.
      apply (content_update s s1 (slen s) ids (off / slen s) sid); try assumption. lia. }
    destruct (IH s1 (off + k) (dropN k bs) Hgood1) as (s' & Hgo & Hmeta & Himg' & Hc & Hgood' & Hfr & Hlen').
    + rewrite Hsl, lenN_dropN. lia.
    + assert (off + lenN bs > slen s * (off / slen s)) by lia. nia.
    + rewrite Hsl, lenN_dropN. intro Hrem.
      assert (Hk : k = slen s - off mod slen s) by lia.
      rewrite Hk, div_next by exact Hpos.
      replace (off + (slen s - off mod slen s) + (lenN bs - (slen s - off mod slen s)))
        with (off + lenN bs) by lia.
      replace (off / slen s + 1 + N.of_nat f - 1)
        with (off / slen s + N.of_nat (S f) - 1) by lia.
      exact Hfuel.
    + exists s'. mred. rewrite Hgo. rewrite lenN_dropN.
      replace (off + k + (lenN bs - k)) with (off + lenN bs) by lia.
      split; [reflexivity|].
      split; [eapply same_meta_trans; eassumption|].
      split; [congruence|].
      split.
      { rewrite Hc, Hc1.
        replace (off + k) with (off + lenN (takeN k bs)) by (rewrite Hlk; reflexivity).
        rewrite spliceN_spliceN.
        rewrite takeN_dropN_id. reflexivity. }
      split; [exact Hgood'|].
      split.
      { intros x Hx. rewrite (Hfr x Hx). apply Hoth. intro Heq. subst x. contradiction. }
      { intro x. rewrite Hlen'. apply Hlen1. }
Qed.

Theorem chain_write_spec : forall s c bs,
  good_chain s (c_ids c) ->
  c_off c + lenN bs <= chain_len (slen s) c ->
  exists s',
    chain_write_all c bs s
      = (s', Ok (mkChain (c_init c) (c_ids c) (c_off c + lenN bs))) /\
    chain_content s' (c_ids c) = spliceN (chain_content s (c_ids c)) (c_off c) bs /\
    spliceN (chain_content s (c_ids c)) (c_off c) bs
      = takeN (c_off c) (chain_content s (c_ids c)) ++ bs ++
        dropN (c_off c + lenN bs) (chain_content s (c_ids c)) /\
    good_chain s' (c_ids c) /\
    (forall sid, ~ In sid (c_ids c) -> sector_bytes s' sid = sector_bytes s sid) /\
    (forall sid, lenN (sector_bytes s' sid) = lenN (sector_bytes s sid)) /\
    lenN (img s') = lenN (img s) /\
    s' = w_img s (img s').
Proof.
  intros s [i ids off] bs Hgood Hfit. cbn [c_init c_ids c_off] in *.
  unfold chain_len in Hfit. cbn [c_ids] in Hfit.
  unfold chain_write_all. mred.
  destruct (chain_write_go_spec i ids (S (S (S (N.to_nat (lenN bs / slen s))))) s off bs Hgood Hfit)
    as (s' & Hgo & Hmeta & Himg & Hc & Hgood' & Hfr & Hlen).
  - apply le_n_S, Nat.le_0_l.
  - intro Hn. apply fuel_enough; [apply slen_pos | exact Hn].
  - exists s'. split; [exact Hgo|]. split; [exact Hc|].
    split; [apply spliceN_inside; rewrite (good_chain_len _ _ Hgood); lia|].
    split; [exact Hgood'|]. split; [exact Hfr|]. split; [exact Hlen|].
    split; [exact Himg|]. exact Hmeta.
Qed.

(* the unchanged components, spelled out *)
Corollary chain_write_meta : forall s c bs s' r,
  good_chain s (c_ids c) ->
  c_off c + lenN bs <= chain_len (slen s) c ->
  chain_write_all c bs s = (s', r) ->
  ver s' = ver s /\ nsect s' = nsect s /\ difat_ids s' = difat_ids s /\
  difat s' = difat s /\ fat s' = fat s /\ free s' = free s /\ dirs s' = dirs s /\
  dir_start s' = dir_start s /\ minifat s' = minifat s /\
  minifat_start s' = minifat_start s /\ mfree s' = mfree s /\ slen s' = slen s.
Proof.
  intros s c bs s' r Hgood Hfit Hrun.
  destruct (chain_write_spec s c bs Hgood Hfit) as (s2 & Hw & _ & _ & _ & _ & _ & _ & Hmeta).
  rewrite Hw in Hrun. injection Hrun as <- _.
  apply same_meta_fields. exact Hmeta.
Qed.

Theorem chain_write_then_read : forall s c bs,
  good_chain s (c_ids c) ->
  c_off c + lenN bs <= chain_len (slen s) c ->
  exists s',
    chain_write_all c bs s
      = (s', Ok (mkChain (c_init c) (c_ids c) (c_off c + lenN bs))) /\
    (forall i,
      chain_read_exact (mkChain i (c_ids c) (c_off c)) (lenN bs) s'
      = (s', Ok (mkChain i (c_ids c) (c_off c + lenN bs), bs))) /\
    (forall i o n,
      o + n <= chain_len (slen s) c ->
      o + n <= c_off c \/ c_off c + lenN bs <= o ->
      exists r,
        chain_read_exact (mkChain i (c_ids c) o) n s
          = (s, Ok (mkChain i (c_ids c) (o + n), r)) /\
        chain_read_exact (mkChain i (c_ids c) o) n s'
          = (s', Ok (mkChain i (c_ids c) (o + n), r))).
Proof.
  intros s c bs Hgood Hfit.
  destruct (chain_write_spec s c bs Hgood Hfit)
    as (s' & Hw & Hc & _ & Hgood' & _ & _ & _ & Hmeta).
  destruct (same_meta_fields _ _ Hmeta) as (_ & _ & _ & _ & _ & _ & _ & _ & _ & _ & _ & Hsl).
  pose proof (good_chain_len _ _ Hgood) as HCL.
  unfold chain_len in *.
  exists s'. split; [exact Hw|]. split.
  - intro i. rewrite chain_read_spec; cbn [c_init c_ids c_off].
    + rewrite Hc. rewrite spliceN_read_same by (rewrite HCL; lia). reflexivity.
    + exact Hgood'.
    + unfold chain_len. cbn [c_ids]. rewrite Hsl. exact Hfit.
  - intros i o n Hon Hdisj.
    exists (takeN n (dropN o (chain_content s (c_ids c)))). split.
    + rewrite chain_read_spec; cbn [c_init c_ids c_off]; [reflexivity | exact Hgood |].
      unfold chain_len. cbn [c_ids]. exact Hon.
    + rewrite chain_read_spec; cbn [c_init c_ids c_off].
      * rewrite Hc. destruct Hdisj as [Hb|Ha].
        -- rewrite spliceN_read_before by (rewrite ?HCL; lia). reflexivity.
        -- rewrite spliceN_read_after by (rewrite ?HCL; lia). reflexivity.
      * exact Hgood'.
      * unfold chain_len. cbn [c_ids]. rewrite Hsl. exact Hon.
Qed.

Theorem chain_write_frame_other : forall s c bs ids2,
  good_chain s (c_ids c) ->
  good_chain s ids2 ->
  (forall x, In x (c_ids c) -> ~ In x ids2) ->
  c_off c + lenN bs <= chain_len (slen s) c ->
  exists s',
    chain_write_all c bs s
      = (s', Ok (mkChain (c_init c) (c_ids c) (c_off c + lenN bs))) /\
    chain_content s' ids2 = chain_content s ids2 /\
    good_chain s' ids2 /\
    good_chain s' (c_ids c).
Proof.
  intros s c bs ids2 Hgood Hgood2 Hdisj Hfit.
  destruct (chain_write_spec s c bs Hgood Hfit)
    as (s' & Hw & _ & _ & Hgood' & Hfr & Hlen & Himg & Hmeta).
  exists s'. split; [exact Hw|]. split; [|split; [|exact Hgood']].
  - unfold chain_content. f_equal. apply map_ext_in. intros x Hx.
    apply Hfr. intro Hin. exact (Hdisj x Hin Hx).
  - apply (good_chain_transfer s s' ids2 Hgood2 Hmeta Himg). intros x _. apply Hlen.
Qed.

Theorem chain_seek_spec : forall s c pos,
  (pos <= chain_len (slen s) c ->
     chain_seek c pos s = (s, Ok (mkChain (c_init c) (c_ids c) pos))) /\
  (chain_len (slen s) c < pos ->
     chain_seek c pos s = (s, Err EInvalidInput)).
Proof.
  intros s c pos. unfold chain_seek.
  cbv beta iota zeta delta [bind get ret fail].
  split; intro H.
  - destruct (chain_len (slen s) c <? pos) eqn:E; [lia | reflexivity].
  - destruct (chain_len (slen s) c <? pos) eqn:E; [reflexivity | lia].
Qed.

(* ------------------------------------------------------------------ *)
(* chain_ids_of is the FAT walk                                        *)
(* ------------------------------------------------------------------ *)

Fixpoint is_walk (fat : list N) (start : N) (ids : list N) : Prop :=
  match ids with
  | [] => start = END_OF_CHAIN
  | a :: t => a = start /\ a <> END_OF_CHAIN /\
              exists nx, nthN fat a = Some nx /\ is_walk fat nx t
  end.

Lemma next_of_Ok_nth : forall fat a nx, next_of fat a = Ok nx -> nthN fat a = Some nx.
Proof.
  intros fat a nx H. unfold next_of in H.
  destruct (nthN fat a) as [v|]; [|discriminate].
  destruct (negb (v =? END_OF_CHAIN) && ((MAX_REGULAR_SECTOR <? v) || (lenN fat <=? v)));
    [discriminate|]. injection H as ->. reflexivity.
Qed.

Lemma chain_ids_go_walk : forall f fat first cur acc ids,
  chain_ids_go f fat first cur acc = Ok ids ->
  exists t, ids = rev acc ++ t /\ is_walk fat cur t.
Proof.
  induction f as [|f IH]; intros fat first cur acc ids H; cbn [chain_ids_go] in H.
  - discriminate.
  - destruct (cur =? END_OF_CHAIN) eqn:E.
    + injection H as <-. exists []. rewrite app_nil_r. split; [reflexivity|].
      cbn [is_walk]. apply N.eqb_eq. exact E.
    + destruct (next_of fat cur) as [nx| | |] eqn:Hnx; cbn [rbind] in H; try discriminate.
      destruct (nx =? first); [discriminate|].
      apply IH in H. destruct H as (t & Hids & Hw).
      exists (cur :: t). split.
      * rewrite Hids. cbn [rev]. rewrite <- app_assoc. reflexivity.
      * cbn [is_walk]. split; [reflexivity|]. split; [apply N.eqb_neq; exact E|].
        exists nx. split; [apply next_of_Ok_nth; exact Hnx | exact Hw].
Qed.

Lemma is_walk_consec : forall fat ids start k a b,
  is_walk fat start ids ->
  nthN ids k = Some a -> nthN ids (k + 1) = Some b -> nthN fat a = Some b.
Proof.
  intros fat ids. induction ids as [|x t IH]; intros start k a b Hw Ha Hb.
  - discriminate.
  - cbn [is_walk] in Hw. destruct Hw as (_ & _ & nx & Hnx & Hwt).
    rewrite nthN_cons_pos in Hb by lia.
    replace (N.pred (k + 1)) with k in Hb by lia.
    destruct (N.eq_dec k 0) as [E|E].
    + subst k. cbn [nthN N.eqb] in Ha. injection Ha as ->.
      destruct t as [|y t']; [discriminate|].
      cbn [nthN N.eqb] in Hb. injection Hb as ->.
      cbn [is_walk] in Hwt. destruct Hwt as (-> & _). exact Hnx.
    + rewrite nthN_cons_pos in Ha by lia.
      apply (IH nx (N.pred k) a b Hwt Ha).
      replace (N.pred k + 1) with k by lia. exact Hb.
Qed.

Lemma lastN_cons_cons : forall A (x y : A) t, lastN (x :: y :: t) = lastN (y :: t).
Proof.
  intros A x y t. unfold lastN. cbn [rev].
  destruct (rev t ++ [y]) as [|h r] eqn:E.
  - destruct (rev t); discriminate.
  - reflexivity.
Qed.

Lemma is_walk_last : forall fat ids start a,
  is_walk fat start ids -> lastN ids = Some a -> nthN fat a = Some END_OF_CHAIN.
Proof.
  intros fat ids. induction ids as [|x t IH]; intros start a Hw Hl.
  - discriminate.
  - cbn [is_walk] in Hw. destruct Hw as (_ & _ & nx & Hnx & Hwt).
    destruct t as [|y t'].
    + cbn in Hl. injection Hl as <-. cbn [is_walk] in Hwt. rewrite <- Hwt. exact Hnx.
    + rewrite lastN_cons_cons in Hl. exact (IH nx a Hwt Hl).
Qed.

Lemma is_walk_no_eoc : forall fat ids start,
  is_walk fat start ids -> ~ In END_OF_CHAIN ids.
Proof.
  intros fat ids. induction ids as [|x t IH]; intros start Hw Hin.
  - exact Hin.
  - cbn [is_walk] in Hw. destruct Hw as (_ & Hne & nx & _ & Hwt).
    destruct Hin as [E|Hin]; [congruence|]. exact (IH nx Hwt Hin).
Qed.

Theorem chain_ids_of_walk : forall fat start ids,
  chain_ids_of fat start = Ok ids ->
  is_walk fat start ids /\
  (ids = [] <-> start = END_OF_CHAIN) /\
  (forall a, nthN ids 0 = Some a -> a = start) /\
  (forall k a b, nthN ids k = Some a -> nthN ids (k + 1) = Some b ->
                 nthN fat a = Some b) /\
  (forall a, lastN ids = Some a -> nthN fat a = Some END_OF_CHAIN) /\
  ~ In END_OF_CHAIN ids.
Proof.
  intros fat start ids H. unfold chain_ids_of in H.
  apply chain_ids_go_walk in H. destruct H as (t & Hids & Hw).
  cbn [rev app] in Hids. subst t.
  split; [exact Hw|]. split; [|split; [|split; [|split]]].
  - destruct ids as [|x t]; cbn [is_walk] in Hw.
    + split; intro; [exact Hw | reflexivity].
    + destruct Hw as (-> & Hne & _). split; [discriminate | intro; contradiction].
  - intros a Ha. destruct ids as [|x t]; [discriminate|].
    cbn [nthN N.eqb] in Ha. injection Ha as <-.
    cbn [is_walk] in Hw. destruct Hw as (-> & _). reflexivity.
  - intros k a b. apply (is_walk_consec fat ids start k a b Hw).
  - intros a. apply (is_walk_last fat ids start a Hw).
  - apply (is_walk_no_eoc fat ids start Hw).
Qed.

(* ------------------------------------------------------------------ *)
Check sector_write_read.
Check sector_read_spec.
Check chain_read_spec.
Check chain_read_eof.
Check chain_write_spec.
Check chain_write_meta.
Check chain_write_then_read.
Check chain_write_frame_other.
Check chain_seek_spec.
Check chain_ids_of_walk.
Print Assumptions sector_write_read.
Print Assumptions sector_read_spec.
Print Assumptions chain_read_spec.
Print Assumptions chain_read_eof.
Print Assumptions chain_write_spec.
Print Assumptions chain_write_then_read.
Print Assumptions chain_write_frame_other.
Print Assumptions chain_seek_spec.
Print Assumptions chain_ids_of_walk.
