(* DataWf2.v -- property C03 along the histories of DataPersist2.v: the
   independent checker accepts the image after every prefix of a history that
   moves stream data with allocation, release, truncation, removal, reopening.

   Parts
     1   Bridge.  [CohTree s -> DBase s]; what [CohData'] already gives of
         [DInv] (the root conditions, unique owners in the FAT and in the
         MiniFAT, existence of the chains) and what it does not: [Exact]
         (exact chain lengths, END_OF_CHAIN for empty streams, coverage of the
         non-FREE cells).  [cohdata'_exact_dinv : CohData' s -> Exact s -> DInv s].
         [CohTree s -> DInv s] is NOT provable: see [Counter] below.
     2   Counting.  The sectors [0, nsect) are partitioned into the free stack,
         the FAT sectors, the three capacity chains and the chains of the large
         streams ([cells]).  Under [CohData'] the parts are disjoint
         ([cells_nodup]); under [DInv] + [FreeAll] (every FREE cell is in the
         free stack: nothing is leaked) they cover ([cover_cells]).  The
         pigeonhole step [fat_count_step]: if the operation accounts for the
         sectors (free stack shrinks by what the stream gains), then in the new
         state every chain has exactly its length and every sector is covered.
     3   The large-stream operations ([finish_dinv]: the entry is written back
         after the chain work; the account comes from DataPersist2's run
         equations): same count, growth into the free stack, growth at the end
         of the file, release, truncation to zero, first growth / first write
         of an empty stream to a large length, writes that take free sectors.
     4   Histories: [W2] = CohTree + DInv + FreeAll + Tidy; the reopened state
         ([w2_reopened]); [resize_caseB_w2], [write_caseB_w2], [hop_run_w2],
         [step_w2], [history_w2], [wf_data_history2].
     5   Non-vacuity (Example7: append, release, reopen, reuse, buffered write
         and flush on the example file of HandleFrame.v) and the counterexample
         to [CohTree s -> DInv s] (Counter).
     6   Removal: [remove_stream_tidy_data] (Tidy after api_remove_stream
         whatever the stream holds), [fat_step_dinv2] (the pigeonhole step when
         the other entries keep only type / start / length),
         [remove_big_stream_w2], [remove_empty_stream_w2].
     7   Histories with removal of large and empty streams: [step_okC],
         [wf_data_history3]; Example8.
     8   The mini level, release side: [free_mini_chain_go_back],
         [small_release_dinv], [resize_small_to_zero_dinv].
     9   Histories with the truncation of small streams: [ResizeCaseC],
         [step_okD], [wf_data_history4] (the largest fragment); Example9.
    10   Removal of a small stream: [remove_small_stream_w2].
    11   The mini level, allocation side: [extend_tight], [mchain_grow_tight],
         [mchain_write_go_tight] (nothing but the new members is appended to
         the MiniFAT), [small_grow_dinv], [resize_small_alloc_dinv],
         [resize_empty_small_dinv], [write_small_alloc_dinv],
         [write_empty_small_dinv].
    12   Histories without migrations: [step_okE], [wf_data_history5];
         Example10 = DataPersist2's Example4.hist2 (with the removal of "/a").
    13   Migration small -> large: [small_to_big_dinv],
         [resize_small_to_big_dinv], [write_small_to_big_dinv].
    14   The largest fragment: [step_okF], [wf_data_history6] = [hist_ok2]
         without the migration large -> small (ResizeCase 9); Example11.
    15   Migration large -> small: [big_to_small_dinv], [resize_big_to_small_dinv].
    16   All of DataPersist2's histories: [resize_case_w2], [write_case_w2],
         [step_w2_full], [history_w2_full], [wf_data_history_full] over
         [hist_ok2] itself; Example12 = DataPersist2's Example6.hist3.
   Stdlib only; no axioms; every proof is complete. *)
From Coq Require Import List NArith ZArith Lia Bool ZifyN ZifyBool Permutation FinFun.
From Cfb.model Require Import Base Names Time DirEnt State Alloc Dir Mini Store Handle Open Cfb.
From Cfb.gen Require Import Consts.
From Cfb.spec Require Import WfImage.
From Cfb.proofs Require Import DirProofs ChainProofs.
From Cfb.proofs Require CodecProofs WalkProofs ReuseProofs CoherenceProofs DirCoherence
                        ReopenProofs MutRefine PersistProofs StoreProofs StoreMiniProofs
                        MiniChainProofs HandleFrame TimeProofs QueryRefine StoreAlloc DataPersist
                        TreeProofs WalkSafe WfPersist ReadonlyTotal.
From Cfb.proofs Require Import DataWf DataPersist2.
Import ListNotations.
Open Scope N_scope.

Ltac Zify.zify_post_hook ::= Z.div_mod_to_equations.

Import ReopenProofs PersistProofs WfPersist.

(* ================================================================== *)
(* 1. the bridge                                                       *)
(* ================================================================== *)

Lemma cohtree_dbase : forall s, CohTree s -> DBase s.
Proof. intros s [HCD [He Hr _]]. constructor; [apply HCD|exact He|exact Hr]. Qed.

(* what [DInv] says beyond [CohData'] *)
Record Exact (s : cstate) : Prop := mkExact {
  ex_empty : forall i e, nthN (dirs s) i = Some e -> d_type e = TStream ->
      d_len e = 0 -> d_start e = END_OF_CHAIN;
  ex_big : forall i e ids, nthN (dirs s) i = Some e -> d_type e = TStream ->
      MINI_STREAM_CUTOFF <= d_len e -> chain_ids_of (fat s) (d_start e) = Ok ids ->
      lenN ids = ceil_div (d_len e) (slen s);
  ex_small : forall i e ids, nthN (dirs s) i = Some e -> d_type e = TStream ->
      0 < d_len e -> d_len e < MINI_STREAM_CUTOFF ->
      chain_ids_of (minifat s) (d_start e) = Ok ids ->
      lenN ids = ceil_div (d_len e) MINI_SECTOR_LEN;
  ex_fcover : forall x v, nthN (fat s) x = Some v -> v <> FREE_SECTOR -> exists o, fowns s o x;
  ex_mcover : forall x v, nthN (minifat s) x = Some v -> v <> FREE_SECTOR -> exists i, mowns s i x
}.

Lemma dinv_exact : forall s, DInv s -> Exact s.
Proof.
  intros s HD. constructor.
  - exact (di_empty s HD).
  - intros i e ids He Ht Hb Hc. destruct (di_big s HD i e He Ht Hb) as (l & Hl & Hlen). congruence.
  - intros i e ids He Ht Hp Hb Hc. destruct (di_small s HD i e He Ht Hp Hb) as (l & Hl & Hlen). congruence.
  - exact (di_fat_cover s HD).
  - exact (di_mini_cover s HD).
Qed.

Section Bridge.
Variables (s : cstate) (r : dirent) (rids mfids dids : list N).
Hypothesis HC : Coherent s.
Hypothesis HSD : SD s r rids mfids dids.

Let SW : SA.SWfX_at s r rids mfids dids SA.noX := proj1 HSD.
Let W : SA.MWf_at s r rids mfids dids := SA.sw_m _ _ _ _ _ _ SW.

Lemma br_dir : forall x, fowns s ODir x <-> In x dids.
Proof.
  intro x. cbn [fowns]. split.
  - intros (l & Hl & Hx). rewrite (SA.mw_dch _ _ _ _ _ W) in Hl. congruence.
  - intro Hx. exists dids. split; [exact (SA.mw_dch _ _ _ _ _ W)|exact Hx].
Qed.

Lemma br_mfat : forall x, fowns s OMfat x <-> In x mfids.
Proof.
  intro x. cbn [fowns]. split.
  - intros (l & Hl & Hx). rewrite (SA.mw_mch _ _ _ _ _ W) in Hl. congruence.
  - intro Hx. exists mfids. split; [exact (SA.mw_mch _ _ _ _ _ W)|exact Hx].
Qed.

Lemma br_root : forall x, fowns s ORoot x <-> In x rids.
Proof.
  intro x. cbn [fowns]. split.
  - intros (r0 & l & Hr0 & Hl & Hx). rewrite (SA.mw_root _ _ _ _ _ W) in Hr0. injection Hr0 as <-.
    rewrite (SA.mw_rch _ _ _ _ _ W) in Hl. congruence.
  - intro Hx. exists r, rids. split; [exact (SA.mw_root _ _ _ _ _ W)|].
    split; [exact (SA.mw_rch _ _ _ _ _ W)|exact Hx].
Qed.

Lemma br_big : forall j x, fowns s (OBig j) x ->
  ~ In x rids /\ ~ In x mfids /\ ~ In x dids /\ ~ In x (free s) /\ ~ In x (difat s).
Proof.
  intros j x (e & l & He & Ht & Hb & Hl & Hx).
  exact (SA.sw_big _ _ _ _ _ _ SW j e l (SA.noX_not _) He (conj Ht Hb) Hl x Hx).
Qed.

Lemma br_sys : forall x, In x rids \/ In x mfids \/ In x dids -> ~ In x (free s) /\ ~ In x (difat s).
Proof. exact (SA.sw_sys _ _ _ _ _ _ SW). Qed.

Lemma br_md : forall x, In x mfids -> In x dids -> False.
Proof. intros x Hm Hd. exact (proj2 HSD x Hm Hd). Qed.

Lemma br_uniq : forall o o' x, fowns s o x -> fowns s o' x -> o = o'.
Proof.
  intros o o' x Ho Ho'.
  pose proof (br_sys x) as Hsys. pose proof (br_md x) as Hmd.
  pose proof (SA.mw_rm _ _ _ _ _ W x) as Hrm. pose proof (SA.mw_rd _ _ _ _ _ W x) as Hrd.
  destruct o as [| | | |i]; destruct o' as [| | | |j]; try reflexivity.
  21: { destruct (N.eq_dec i j) as [->|Hij]; [reflexivity|exfalso].
        destruct Ho as (e & l & He & Ht & Hb & Hl & Hx). destruct Ho' as (e2 & l2 & He2 & Ht2 & Hb2 & Hl2 & Hx2).
        exact (SA.sw_bigdisj _ _ _ _ _ _ SW i j e e2 l l2 (SA.noX_not _) (SA.noX_not _) Hij
                 He (conj Ht Hb) Hl He2 (conj Ht2 Hb2) Hl2 x Hx Hx2). }
  all: exfalso;
    repeat match goal with
    | H : fowns s ODir _ |- _ => apply br_dir in H
    | H : fowns s OMfat _ |- _ => apply br_mfat in H
    | H : fowns s ORoot _ |- _ => apply br_root in H
    | H : fowns s OFat _ |- _ => cbn [fowns] in H
    end;
    try (match goal with H : fowns s (OBig _) _ |- _ => pose proof (br_big _ _ H) end);
    tauto.
Qed.

Lemma br_muniq : forall i j x, mowns s i x -> mowns s j x -> i = j.
Proof.
  intros i j x (e & l & He & Ht & Hp & Hb & Hl & Hx) (e2 & l2 & He2 & Ht2 & Hp2 & Hb2 & Hl2 & Hx2).
  destruct (N.eq_dec i j) as [E|Hij]; [exact E|exfalso].
  exact (SA.sw_disj _ _ _ _ _ _ SW i j e e2 l l2 (SA.noX_not _) (SA.noX_not _) Hij
           He (conj Ht (conj Hp Hb)) Hl He2 (conj Ht2 (conj Hp2 Hb2)) Hl2 x Hx Hx2).
Qed.

Lemma br_rootpart : exists r0 rids0 mids0,
  nthN (dirs s) ROOT_STREAM_ID = Some r0 /\
  chain_ids_of (fat s) (d_start r0) = Ok rids0 /\
  chain_ids_of (fat s) (minifat_start s) = Ok mids0 /\
  d_len r0 mod MINI_SECTOR_LEN = 0 /\
  d_len r0 <= lenN rids0 * slen s /\
  d_len r0 / MINI_SECTOR_LEN <= lenN mids0 * (slen s / 4) /\
  d_len r0 / MINI_SECTOR_LEN <= MAX_REGULAR_SECTOR + 1.
Proof.
  exists r, rids, mfids.
  split; [exact (SA.mw_root _ _ _ _ _ W)|]. split; [exact (SA.mw_rch _ _ _ _ _ W)|].
  split; [exact (SA.mw_mch _ _ _ _ _ W)|].
  pose proof (SA.mw_rlen _ _ _ _ _ W) as Hrl. pose proof (SA.mw_rcap _ _ _ _ _ W) as Hrc.
  pose proof (SA.mw_mcap _ _ _ _ _ W) as Hmc. pose proof (SA.mw_bound _ _ _ _ _ W) as Hb.
  unfold MINI_SECTOR_LEN. rewrite Hrl.
  assert (E1 : 64 * lenN (minifat s) mod 64 = 0) by (rewrite N.mul_comm; apply N.mod_mul; lia).
  assert (E2 : 64 * lenN (minifat s) / 64 = lenN (minifat s)) by (rewrite N.mul_comm; apply N.div_mul; lia).
  rewrite E1, E2. split; [reflexivity|]. split; [lia|]. split; [|exact Hb].
  destruct (MiniChainProofs.slen_cases s) as [E|E]; rewrite E in *;
    [change (512 / 4) with 128|change (4096 / 4) with 1024]; lia.
Qed.
End Bridge.

Theorem cohdata'_exact_dinv : forall s, CohData' s -> Exact s -> DInv s.
Proof.
  intros s HCD HE. pose proof HCD as [HC (r & rids & mfids & dids & HSD) _ _].
  pose proof (proj1 HSD) as SW.
  constructor.
  - exact (br_rootpart s r rids mfids dids HSD).
  - exact (ex_empty s HE).
  - intros i e He Ht Hb.
    destruct (SA.sw_bigchain _ _ _ _ _ _ SW i e (SA.noX_not _) He (conj Ht Hb)) as (ids & Hc & _).
    exists ids. split; [exact Hc|exact (ex_big s HE i e ids He Ht Hb Hc)].
  - intros i e He Ht Hp Hb.
    destruct (SA.sw_small _ _ _ _ _ _ SW i e (SA.noX_not _) He (conj Ht (conj Hp Hb))) as (m & Hc & _).
    exists m. split; [exact Hc|exact (ex_small s HE i e m He Ht Hp Hb Hc)].
  - exact (br_uniq s r rids mfids dids HSD).
  - exact (ex_fcover s HE).
  - exact (br_muniq s r rids mfids dids HSD).
  - exact (ex_mcover s HE).
Qed.

(* ================================================================== *)
(* 2. counting                                                         *)
(* ================================================================== *)

(* ---- sums and indexed lists ---- *)
Fixpoint sumf {A} (f : A -> N) (l : list A) : N :=
  match l with [] => 0 | a :: t => f a + sumf f t end.

Lemma lenN_flat_map : forall A (f : A -> list N) l,
  lenN (flat_map f l) = sumf (fun a => lenN (f a)) l.
Proof.
  intros A f l. induction l as [|a t IH]; [reflexivity|].
  cbn [flat_map sumf]. rewrite CodecProofs.lenN_app, IH. reflexivity.
Qed.

Lemma sumf_add : forall A (f g : A -> N) l, sumf (fun a => f a + g a) l = sumf f l + sumf g l.
Proof. intros A f g l. induction l as [|a t IH]; [reflexivity|]. cbn [sumf]. rewrite IH. lia. Qed.

Lemma sumf_delta0 : forall A (l : list A) k id K, id < k ->
  sumf (fun ie : N * A => if fst ie =? id then K else 0) (index_from l k) = 0.
Proof.
  intros A l. induction l as [|a t IH]; intros k id K H; [reflexivity|].
  cbn [index_from sumf fst]. rewrite (IH (k + 1) id K) by lia.
  destruct (N.eqb_spec k id); lia.
Qed.

Lemma sumf_delta : forall A (l : list A) k id K, k <= id -> id < k + lenN l ->
  sumf (fun ie : N * A => if fst ie =? id then K else 0) (index_from l k) = K.
Proof.
  intros A l. induction l as [|a t IH]; intros k id K H1 H2; [cbn [lenN] in H2; lia|].
  cbn [index_from sumf fst]. cbn [lenN] in H2. destruct (N.eqb_spec k id) as [E|E].
  - rewrite sumf_delta0 by lia. lia.
  - rewrite (IH (k + 1) id K) by lia. lia.
Qed.

Lemma sumf_F2_le : forall A B (f : A -> N) (g : B -> N) l l',
  Forall2 (fun a b => f a <= g b) l l' -> sumf f l <= sumf g l'.
Proof. intros A B f g l l' H. induction H as [|a b t t' Hab _ IH]; cbn [sumf]; lia. Qed.

Lemma sumf_F2_eq : forall A B (f : A -> N) (g : B -> N) l l',
  Forall2 (fun a b => f a <= g b) l l' -> sumf g l' <= sumf f l ->
  Forall2 (fun a b => f a = g b) l l'.
Proof.
  intros A B f g l l' H. induction H as [|a b t t' Hab Ht IH]; intro Hs; [constructor|].
  cbn [sumf] in Hs. pose proof (sumf_F2_le _ _ f g t t' Ht) as Hle.
  constructor; [lia|]. apply IH. lia.
Qed.

Lemma F2_index_from : forall A B (R : N * A -> N * B -> Prop) (l : list A) (l' : list B) k,
  lenN l = lenN l' ->
  (forall j a b, nthN l j = Some a -> nthN l' j = Some b -> R (k + j, a) (k + j, b)) ->
  Forall2 R (index_from l k) (index_from l' k).
Proof.
  intros A B R l. induction l as [|a t IH]; intros l' k Hl H; destruct l' as [|b t'];
    cbn [lenN] in Hl; try lia; [constructor|].
  cbn [index_from]. constructor.
  - specialize (H 0 a b eq_refl eq_refl). rewrite N.add_0_r in H. exact H.
  - apply IH; [lia|]. intros j x y Hx Hy.
    replace (k + 1 + j) with (k + (j + 1)) by lia. apply H.
    + rewrite nthN_cons_pos by lia. replace (N.pred (j + 1)) with j by lia. exact Hx.
    + rewrite nthN_cons_pos by lia. replace (N.pred (j + 1)) with j by lia. exact Hy.
Qed.

Lemma F2_index_from_nth : forall A B (R : N * A -> N * B -> Prop) (l : list A) (l' : list B) k j a b,
  Forall2 R (index_from l k) (index_from l' k) ->
  nthN l j = Some a -> nthN l' j = Some b -> R (k + j, a) (k + j, b).
Proof.
  intros A B R l. induction l as [|x t IH]; intros l' k j a b H Ha Hb; [discriminate Ha|].
  destruct l' as [|y t']; [discriminate Hb|]. cbn [index_from] in H.
  inversion H as [|? ? ? ? Hxy Hrest]; subst.
  destruct (N.eq_dec j 0) as [->|Hj].
  - cbn in Ha, Hb. injection Ha as <-. injection Hb as <-. rewrite N.add_0_r. exact Hxy.
  - rewrite nthN_cons_pos in Ha, Hb by lia.
    replace (k + j) with (k + 1 + N.pred j) by lia. exact (IH t' (k + 1) (N.pred j) a b Hrest Ha Hb).
Qed.

Lemma index_from_fst : forall A (l : list A) k,
  NoDup (map fst (index_from l k)) /\ forall x, In x (map fst (index_from l k)) -> k <= x.
Proof.
  intros A l. induction l as [|a t IH]; intro k.
  - cbn. split; [constructor|intros x []].
  - cbn [index_from map fst]. destruct (IH (k + 1)) as [Hnd Hge]. split.
    + constructor; [|exact Hnd]. intro Hin. specialize (Hge k Hin). lia.
    + intros x [<-|Hin]; [lia|]. specialize (Hge x Hin). lia.
Qed.

Lemma NoDup_flat_map_idx : forall A (f : N * A -> list N) (l : list (N * A)),
  NoDup (map fst l) -> (forall ie, In ie l -> NoDup (f ie)) ->
  (forall ie je x, In ie l -> In je l -> fst ie <> fst je -> In x (f ie) -> In x (f je) -> False) ->
  NoDup (flat_map f l).
Proof.
  intros A f l. induction l as [|a t IH]; intros Hnd Hf Hd; [constructor|].
  cbn [flat_map]. cbn [map] in Hnd. apply NoDup_cons_iff in Hnd. destruct Hnd as [Hna Hnd].
  apply SA.NoDup_app_intro.
  - apply Hf. left. reflexivity.
  - apply IH; [exact Hnd|intros ie Hie; apply Hf; right; exact Hie|].
    intros ie je x Hie Hje. apply Hd; right; assumption.
  - intros x Hx Hin. apply in_flat_map in Hin. destruct Hin as (je & Hje & Hxj).
    apply (Hd a je x (or_introl eq_refl) (or_intror Hje)); [|exact Hx|exact Hxj].
    intro E. apply Hna. rewrite E. apply in_map. exact Hje.
Qed.

(* ---- the pigeonhole principle on [0, n) ---- *)
Definition below (n : N) : list N := map N.of_nat (seq 0 (N.to_nat n)).

Lemma In_below : forall n x, In x (below n) <-> x < n.
Proof.
  intros n x. unfold below. rewrite in_map_iff. split.
  - intros (k & <- & Hk). apply in_seq in Hk. lia.
  - intro H. exists (N.to_nat x). split; [lia|]. apply in_seq. lia.
Qed.

Lemma below_length : forall n, length (below n) = N.to_nat n.
Proof. intro n. unfold below. rewrite map_length, seq_length. reflexivity. Qed.

Lemma below_nodup : forall n, NoDup (below n).
Proof.
  intro n. unfold below. apply Injective_map_NoDup; [|apply seq_NoDup].
  intros a b E. lia.
Qed.

Lemma pigeon_le : forall (l : list N) n, NoDup l -> (forall x, In x l -> x < n) -> lenN l <= n.
Proof.
  intros l n Hnd Hb.
  assert (H : (length l <= length (below n))%nat).
  { apply NoDup_incl_length; [exact Hnd|]. intros x Hx. apply In_below. exact (Hb x Hx). }
  rewrite below_length in H. rewrite CodecProofs.lenN_length. lia.
Qed.

Lemma pigeon_ge : forall (l : list N) n, (forall x, x < n -> In x l) -> n <= lenN l.
Proof.
  intros l n H.
  assert (Hl : (length (below n) <= length l)%nat).
  { apply NoDup_incl_length; [apply below_nodup|]. intros x Hx. apply H. apply In_below. exact Hx. }
  rewrite below_length in Hl. rewrite CodecProofs.lenN_length. lia.
Qed.

Lemma pigeon_cover : forall (l : list N) n, NoDup l -> (forall x, In x l -> x < n) ->
  n <= lenN l -> forall x, x < n -> In x l.
Proof.
  intros l n Hnd Hb Hlen x Hx.
  assert (Hincl : incl l (below n)) by (intros y Hy; apply In_below; exact (Hb y Hy)).
  assert (Hl : (length (below n) <= length l)%nat).
  { rewrite below_length. rewrite CodecProofs.lenN_length in Hlen. lia. }
  apply (NoDup_length_incl Hnd Hl Hincl). apply In_below. exact Hx.
Qed.

(* ---- the sectors of a file ---- *)

(* nothing is leaked: every FREE cell of the FAT is in the free stack *)
Definition FreeAll (s : cstate) : Prop :=
  forall x, nthN (fat s) x = Some FREE_SECTOR -> In x (free s).

Definition bigl (s : cstate) (e : dirent) : list N :=
  if big_b e then cids (fat s) (d_start e) else [].
Definition bigw (s : cstate) (ie : N * dirent) : list N := bigl s (snd ie).
Definition bigs (s : cstate) : list N := flat_map (bigw s) (index_from (dirs s) 0).

Definition cells (s : cstate) (rids mfids dids : list N) : list N :=
  free s ++ difat s ++ dids ++ mfids ++ rids ++ bigs s.

Lemma In_bigs : forall s x, In x (bigs s) <-> exists j, fowns s (OBig j) x.
Proof.
  intros s x. unfold bigs. rewrite in_flat_map. split.
  - intros ([j e] & Hin & Hx). apply In_index_from in Hin. destruct Hin as [_ He]. rewrite N.sub_0_r in He.
    unfold bigw, bigl in Hx. cbn [snd] in Hx. destruct (big_b e) eqn:Eb; [|destruct Hx].
    apply big_b_true in Eb. destruct Eb as [Ht Hb]. destruct (cids_in _ _ _ Hx) as (l & Hl & Hxl).
    exists j, e, l. auto.
  - intros (j & e & l & He & Ht & Hb & Hl & Hx). exists (j, e). split.
    + replace j with (0 + j) by lia. apply index_from_In. exact He.
    + unfold bigw, bigl. cbn [snd]. rewrite (proj2 (big_b_true e) (conj Ht Hb)), (cids_ok _ _ _ Hl). exact Hx.
Qed.

Lemma cells_len : forall s rids mfids dids,
  lenN (cells s rids mfids dids) =
  lenN (free s) + lenN (difat s) + lenN dids + lenN mfids + lenN rids +
  sumf (fun ie => lenN (bigw s ie)) (index_from (dirs s) 0).
Proof.
  intros. unfold cells, bigs. rewrite !CodecProofs.lenN_app, lenN_flat_map. lia.
Qed.

Lemma fat_len_nsect : forall s, Coherent s -> lenN (fat s) = nsect s.
Proof. intros s C. destruct (ch_fat s C) as [_ Hlen _ _]. exact Hlen. Qed.

Section Cells.
Variables (s : cstate) (r : dirent) (rids mfids dids : list N).
Hypothesis HCD : CohData' s.
Hypothesis HSD : SD s r rids mfids dids.

Let HC : Coherent s := cd_coh s HCD.
Let SW : SA.SWfX_at s r rids mfids dids SA.noX := proj1 HSD.
Let W : SA.MWf_at s r rids mfids dids := SA.sw_m _ _ _ _ _ _ SW.

Lemma cells_nodup : NoDup (cells s rids mfids dids) /\
  forall x, In x (cells s rids mfids dids) -> x < nsect s.
Proof.
  pose proof (cd_free s HCD) as [Hfnd Hfc].
  pose proof (br_sys s r rids mfids dids HSD) as Hsys.
  pose proof (br_md s r rids mfids dids HSD) as Hmd.
  pose proof (SA.mw_rm _ _ _ _ _ W) as Hrm. pose proof (SA.mw_rd _ _ _ _ _ W) as Hrd.
  pose proof (SA.sw_fdifat _ _ _ _ _ _ SW) as Hfd.
  assert (Hbg : forall x, In x (bigs s) ->
            ~ In x rids /\ ~ In x mfids /\ ~ In x dids /\ ~ In x (free s) /\ ~ In x (difat s)).
  { intros x Hx. apply In_bigs in Hx. destruct Hx as (j & Hj). exact (br_big s r rids mfids dids HSD j x Hj). }
  assert (Hdnd : NoDup (difat s)).
  { destruct (ch_fat s HC) as [[_ _ _ Hnodup _] _ _ _]. exact Hnodup. }
  assert (Hbnd : NoDup (bigs s)).
  { unfold bigs. apply NoDup_flat_map_idx.
    - apply index_from_fst.
    - intros [j e] _. unfold bigw, bigl. cbn [snd]. destruct (big_b e); [|constructor].
      unfold cids. destruct (chain_ids_of (fat s) (d_start e)) as [l| | |] eqn:E; try constructor.
      exact (chain_ids_nodup _ _ _ E).
    - intros [i e1] [j e2] x Hi Hj Hne Hx1 Hx2. cbn [fst] in Hne.
      apply In_index_from in Hi, Hj. destruct Hi as [_ Hi]. destruct Hj as [_ Hj]. rewrite N.sub_0_r in Hi, Hj.
      unfold bigw, bigl in Hx1, Hx2. cbn [snd] in Hx1, Hx2.
      destruct (big_b e1) eqn:E1; [|destruct Hx1]. destruct (big_b e2) eqn:E2; [|destruct Hx2].
      apply big_b_true in E1, E2.
      destruct (cids_in _ _ _ Hx1) as (l1 & Hl1 & Hy1). destruct (cids_in _ _ _ Hx2) as (l2 & Hl2 & Hy2).
      exact (SA.sw_bigdisj _ _ _ _ _ _ SW i j e1 e2 l1 l2 (SA.noX_not _) (SA.noX_not _) Hne
               Hi E1 Hl1 Hj E2 Hl2 x Hy1 Hy2). }
  split.
  - unfold cells.
    apply SA.NoDup_app_intro; [exact Hfnd| |].
    2:{ intros x Hx Hin. pose proof (Hsys x). pose proof (Hfd x). pose proof (Hbg x).
        repeat (apply in_app_or in Hin; destruct Hin as [Hin|Hin]); tauto. }
    apply SA.NoDup_app_intro; [exact Hdnd| |].
    2:{ intros x Hx Hin. pose proof (Hsys x). pose proof (Hbg x).
        repeat (apply in_app_or in Hin; destruct Hin as [Hin|Hin]); tauto. }
    apply SA.NoDup_app_intro; [exact (chain_ids_nodup _ _ _ (SA.mw_dch _ _ _ _ _ W))| |].
    2:{ intros x Hx Hin. pose proof (Hmd x). pose proof (Hrd x). pose proof (Hbg x).
        repeat (apply in_app_or in Hin; destruct Hin as [Hin|Hin]); tauto. }
    apply SA.NoDup_app_intro; [exact (chain_ids_nodup _ _ _ (SA.mw_mch _ _ _ _ _ W))| |].
    2:{ intros x Hx Hin. pose proof (Hrm x). pose proof (Hbg x).
        repeat (apply in_app_or in Hin; destruct Hin as [Hin|Hin]); tauto. }
    apply SA.NoDup_app_intro; [exact (chain_ids_nodup _ _ _ (SA.mw_rch _ _ _ _ _ W))|exact Hbnd|].
    intros x Hx Hin. pose proof (Hbg x). tauto.
  - assert (Hch : forall st l x, chain_ids_of (fat s) st = Ok l -> In x l -> x < nsect s).
    { intros st l x Hl Hx. rewrite <- (fat_len_nsect s HC). exact (chain_ids_lt _ _ _ _ Hl Hx). }
    intros x Hin. unfold cells in Hin.
    repeat (apply in_app_or in Hin; destruct Hin as [Hin|Hin]).
    + exact (proj1 (Hfc x Hin)).
    + destruct (ch_fat s HC) as [[_ _ _ _ Hlt] _ _ _]. exact (Hlt x Hin).
    + exact (Hch _ _ x (SA.mw_dch _ _ _ _ _ W) Hin).
    + exact (Hch _ _ x (SA.mw_mch _ _ _ _ _ W) Hin).
    + exact (Hch _ _ x (SA.mw_rch _ _ _ _ _ W) Hin).
    + apply In_bigs in Hin. destruct Hin as (j & e & l & _ & _ & _ & Hl & Hx). exact (Hch _ _ x Hl Hx).
Qed.

Lemma cells_le : lenN (cells s rids mfids dids) <= nsect s.
Proof. destruct cells_nodup as [Hnd Hb]. exact (pigeon_le _ _ Hnd Hb). Qed.

(* under the ownership invariant, and if nothing is leaked, they cover *)
Lemma cover_cells : DInv s -> FreeAll s -> forall x, x < nsect s -> In x (cells s rids mfids dids).
Proof.
  intros HD HFA x Hx. rewrite <- (fat_len_nsect s HC) in Hx.
  destruct (WalkProofs.nthN_lt_Some (fat s) x Hx) as [v Hv]. unfold cells.
  destruct (N.eq_dec v FREE_SECTOR) as [->|Hnf].
  - apply in_or_app. left. exact (HFA x Hv).
  - destruct (di_fat_cover s HD x v Hv Hnf) as (o & Ho).
    apply in_or_app. right. destruct o as [| | | |j].
    + apply in_or_app. left. exact Ho.
    + apply in_or_app. right. apply in_or_app. left. apply (br_dir s r rids mfids dids HSD). exact Ho.
    + do 2 (apply in_or_app; right). apply in_or_app. left. apply (br_mfat s r rids mfids dids HSD). exact Ho.
    + do 3 (apply in_or_app; right). apply in_or_app. left. apply (br_root s r rids mfids dids HSD). exact Ho.
    + do 4 (apply in_or_app; right). apply In_bigs. exists j. exact Ho.
Qed.

Lemma cells_eq : DInv s -> FreeAll s -> lenN (cells s rids mfids dids) = nsect s.
Proof.
  intros HD HFA. pose proof cells_le. pose proof (pigeon_ge _ _ (cover_cells HD HFA)). lia.
Qed.

(* conversely: if the parts cover, every non-FREE cell has an owner and every
   FREE cell is in the free stack *)
Lemma covered_fcover : (forall x, x < nsect s -> In x (cells s rids mfids dids)) ->
  (forall x v, nthN (fat s) x = Some v -> v <> FREE_SECTOR -> exists o, fowns s o x) /\ FreeAll s.
Proof.
  intro Hcov. pose proof (cd_free s HCD) as [_ Hfc].
  assert (Hcase : forall x, x < nsect s -> In x (free s) \/ exists o, fowns s o x).
  { intros x Hx. specialize (Hcov x Hx). unfold cells in Hcov.
    repeat (apply in_app_or in Hcov; destruct Hcov as [Hcov|Hcov]).
    - left. exact Hcov.
    - right. exists OFat. exact Hcov.
    - right. exists ODir. apply (br_dir s r rids mfids dids HSD). exact Hcov.
    - right. exists OMfat. apply (br_mfat s r rids mfids dids HSD). exact Hcov.
    - right. exists ORoot. apply (br_root s r rids mfids dids HSD). exact Hcov.
    - right. apply In_bigs in Hcov. destruct Hcov as (j & Hj). exists (OBig j). exact Hj. }
  split.
  - intros x v Hv Hnf. pose proof (nthN_Some_lt _ _ _ _ Hv) as Hx. rewrite (fat_len_nsect s HC) in Hx.
    destruct (Hcase x Hx) as [Hf|Ho]; [|exact Ho].
    destruct (Hfc x Hf) as (_ & Hcell & _). congruence.
  - intros x Hv. pose proof (nthN_Some_lt _ _ _ _ Hv) as Hx. rewrite (fat_len_nsect s HC) in Hx.
    destruct (Hcase x Hx) as [Hf|(o & Ho)]; [exact Hf|exfalso].
    destruct (fowns_cell s o x HC Ho) as (v & Hv' & Hnf & _). congruence.
Qed.
End Cells.

(* ---- the pigeonhole step ---- *)
Section FatCount.
Variables s s' : cstate.
Variables (r r' : dirent) (rids mfids dids rids' mfids' dids' : list N).
Variables (id : N) (e e' : dirent).
Hypothesis HCD : CohData' s.
Hypothesis HSD : SD s r rids mfids dids.
Hypothesis HD : DInv s.
Hypothesis HFA : FreeAll s.
Hypothesis HCD' : CohData' s'.
Hypothesis HSD' : SD s' r' rids' mfids' dids'.
Hypothesis Hslen : slen s' = slen s.
Hypothesis Hsys : lenN rids <= lenN rids' /\ lenN mfids <= lenN mfids' /\ lenN dids <= lenN dids' /\
                  lenN (difat s) <= lenN (difat s').
Hypothesis Hlen : lenN (dirs s') = lenN (dirs s).
Hypothesis Hid : id <> ROOT_STREAM_ID.
Hypothesis He : nthN (dirs s) id = Some e.
Hypothesis He' : nthN (dirs s') id = Some e'.
Hypothesis Hoth : forall j, j <> id -> j <> ROOT_STREAM_ID -> nthN (dirs s') j = nthN (dirs s) j.
(* the account: what the stream gains, the free stack (or the end of the file) gives *)
Hypothesis Hcount :
  nsect s' + lenN (free s) + lenN (bigl s e)
  <= nsect s + lenN (free s') + (if big_b e' then ceil_div (d_len e') (slen s) else 0).

Let K := lenN (bigl s e).
Let K' := if big_b e' then ceil_div (d_len e') (slen s) else 0.
Let w (ie : N * dirent) := lenN (bigw s ie).
Let w' (ie : N * dirent) := lenN (bigw s' ie).
Let dK (ie : N * dirent) := if fst ie =? id then K else 0.
Let dK' (ie : N * dirent) := if fst ie =? id then K' else 0.

Let SW' : SA.SWfX_at s' r' rids' mfids' dids' SA.noX := proj1 HSD'.
Let W : SA.MWf_at s r rids mfids dids := SA.sw_m _ _ _ _ _ _ (proj1 HSD).
Let W' : SA.MWf_at s' r' rids' mfids' dids' := SA.sw_m _ _ _ _ _ _ SW'.

Lemma fc_root_w : forall x, nthN (dirs s) ROOT_STREAM_ID = Some x -> big_b x = false.
Proof.
  intros x Hx. rewrite (SA.mw_root _ _ _ _ _ W) in Hx. injection Hx as <-.
  destruct (big_b r) eqn:E; [|reflexivity]. apply big_b_true in E. destruct E as [Ht _].
  exfalso. exact (SA.mw_rtype _ _ _ _ _ W Ht).
Qed.

(* a large stream of [s'] has at least the sectors its length needs *)
Lemma fc_lower : forall j x, nthN (dirs s') j = Some x -> big_b x = true ->
  ceil_div (d_len x) (slen s) <= lenN (bigl s' x).
Proof.
  intros j x Hx Hb. unfold bigl. rewrite Hb. apply big_b_true in Hb.
  destruct (SA.sw_bigchain _ _ _ _ _ _ SW' j x (SA.noX_not _) Hx Hb) as (l & Hl & Hcov & _).
  rewrite (cids_ok _ _ _ Hl). rewrite Hslen in Hcov. unfold ceil_div.
  apply ceil_le; [apply ChainProofs.slen_pos|exact Hcov].
Qed.

Lemma fc_exact_s : forall j x, nthN (dirs s) j = Some x -> big_b x = true ->
  lenN (bigl s x) = ceil_div (d_len x) (slen s).
Proof.
  intros j x Hx Hb. unfold bigl. rewrite Hb. apply big_b_true in Hb. destruct Hb as [Ht Hb].
  destruct (di_big s HD j x Hx Ht Hb) as (l & Hl & Hll). rewrite (cids_ok _ _ _ Hl). exact Hll.
Qed.

Lemma fc_pointwise :
  Forall2 (fun a b => w a + dK' a <= w' b + dK b) (index_from (dirs s) 0) (index_from (dirs s') 0).
Proof.
  apply F2_index_from; [symmetry; exact Hlen|].
  intros j a b Ha Hb. rewrite N.add_0_l. unfold w, w', dK, dK', bigw. cbn [fst snd].
  destruct (N.eqb_spec j id) as [->|Hj].
  - assert (a = e) by congruence. assert (b = e') by congruence. subst a b.
    fold K. unfold K'. destruct (big_b e') eqn:Eb; [|lia].
    pose proof (fc_lower id e' He' Eb). lia.
  - destruct (N.eq_dec j ROOT_STREAM_ID) as [->|Hr].
    + unfold bigl at 1. rewrite (fc_root_w a Ha). cbn [lenN]. lia.
    + rewrite (Hoth j Hj Hr) in Hb. assert (b = a) by congruence. subst b.
      destruct (big_b a) eqn:Eb.
      * rewrite (fc_exact_s j a Ha Eb). rewrite <- (Hoth j Hj Hr) in Ha.
        pose proof (fc_lower j a Ha Eb). lia.
      * unfold bigl. rewrite Eb. cbn [lenN]. lia.
Qed.

Lemma fc_idlt : id < lenN (dirs s).
Proof. eapply nthN_Some_lt. exact He. Qed.

Lemma fc_sums :
  sumf w (index_from (dirs s) 0) + K' <= sumf w' (index_from (dirs s') 0) + K.
Proof.
  pose proof (sumf_F2_le _ _ _ _ _ _ fc_pointwise) as H.
  rewrite !sumf_add in H. unfold dK, dK' in H.
  rewrite (sumf_delta _ (dirs s) 0 id K') in H by (pose proof fc_idlt; lia).
  rewrite (sumf_delta _ (dirs s') 0 id K) in H by (pose proof fc_idlt; lia).
  exact H.
Qed.

Lemma fc_total : lenN (cells s' rids' mfids' dids') = nsect s' /\
  sumf w' (index_from (dirs s') 0) + K = sumf w (index_from (dirs s) 0) + K'.
Proof.
  pose proof (cells_eq s r rids mfids dids HCD HSD HD HFA) as E.
  pose proof (cells_le s' r' rids' mfids' dids' HCD' HSD') as L'.
  rewrite cells_len in E, L' |- *. fold w in E. fold w' in L' |- *.
  pose proof fc_sums. fold K K' in Hcount. lia.
Qed.

Theorem fc_cover : forall x, x < nsect s' -> In x (cells s' rids' mfids' dids').
Proof.
  destruct (cells_nodup s' r' rids' mfids' dids' HCD' HSD') as [Hnd Hb].
  apply pigeon_cover; [exact Hnd|exact Hb|]. rewrite (proj1 fc_total). lia.
Qed.

Theorem fc_exact : forall j x ids, nthN (dirs s') j = Some x -> d_type x = TStream ->
  MINI_STREAM_CUTOFF <= d_len x -> chain_ids_of (fat s') (d_start x) = Ok ids ->
  lenN ids = ceil_div (d_len x) (slen s').
Proof.
  intros j x ids Hx Ht Hb Hl.
  assert (Eb : big_b x = true) by (apply big_b_true; auto).
  assert (Hj : j < lenN (dirs s)) by (rewrite <- Hlen; eapply nthN_Some_lt; exact Hx).
  destruct (WalkProofs.nthN_lt_Some (dirs s) j Hj) as [a Ha].
  assert (Hsum : sumf (fun b => w' b + dK b) (index_from (dirs s') 0)
                 <= sumf (fun a => w a + dK' a) (index_from (dirs s) 0)).
  { rewrite !sumf_add. unfold dK, dK'.
    rewrite (sumf_delta _ (dirs s) 0 id K') by (pose proof fc_idlt; lia).
    rewrite (sumf_delta _ (dirs s') 0 id K) by (pose proof fc_idlt; lia).
    pose proof (proj2 fc_total). lia. }
  pose proof (F2_index_from_nth _ _ _ _ _ 0 j a x (sumf_F2_eq _ _ _ _ _ _ fc_pointwise Hsum) Ha Hx) as Heq.
  cbv beta in Heq. rewrite N.add_0_l in Heq. unfold w, w', dK, dK', bigw in Heq. cbn [fst snd] in Heq.
  assert (Hw' : lenN (bigl s' x) = lenN ids) by (unfold bigl; rewrite Eb, (cids_ok _ _ _ Hl); reflexivity).
  rewrite Hslen.
  destruct (N.eqb_spec j id) as [->|Hne].
  - assert (x = e') by congruence. subst x. assert (a = e) by congruence. subst a.
    fold K in Heq. unfold K' in Heq. rewrite Eb in Heq. lia.
  - destruct (N.eq_dec j ROOT_STREAM_ID) as [->|Hr].
    + exfalso. rewrite (SA.mw_root _ _ _ _ _ W') in Hx. injection Hx as <-.
      exact (SA.mw_rtype _ _ _ _ _ W' Ht).
    + rewrite (Hoth j Hne Hr) in Hx. assert (a = x) by congruence. subst a.
      rewrite (fc_exact_s j x Ha Eb) in Heq. lia.
Qed.

Theorem fc_fcover : forall x v, nthN (fat s') x = Some v -> v <> FREE_SECTOR -> exists o, fowns s' o x.
Proof. exact (proj1 (covered_fcover s' r' rids' mfids' dids' HCD' HSD' fc_cover)). Qed.

Theorem fc_freeall : FreeAll s'.
Proof. exact (proj2 (covered_fcover s' r' rids' mfids' dids' HCD' HSD' fc_cover)). Qed.
End FatCount.

(* ---- the mini level of a FAT-level operation: nothing moves ---- *)
Section MiniSame.
Variables s s' : cstate.
Variables (id : N) (e e' : dirent).
Hypothesis HD : DInv s.
Hypothesis HC : Coherent s.
Hypothesis HC' : Coherent s'.
Hypothesis Hmf : minifat s' = minifat s.
Hypothesis He : nthN (dirs s) id = Some e.
Hypothesis He' : nthN (dirs s') id = Some e'.
Hypothesis Hoth : forall j, j <> id -> j <> ROOT_STREAM_ID -> nthN (dirs s') j = nthN (dirs s) j.
(* the stream under work is not small, neither before nor after *)
Hypothesis Hns : ~ SA.small_entry e.
Hypothesis Hns' : ~ SA.small_entry e'.
Hypothesis Hemp' : d_type e' = TStream -> d_len e' = 0 -> d_start e' = END_OF_CHAIN.

Lemma ms_stream_back : forall j x, nthN (dirs s') j = Some x -> d_type x = TStream -> j <> id ->
  nthN (dirs s) j = Some x.
Proof.
  intros j x Hx Ht Hj. destruct (N.eq_dec j ROOT_STREAM_ID) as [->|Hr].
  - rewrite (coherent_root_type s' x HC' Hx) in Ht. discriminate Ht.
  - rewrite <- (Hoth j Hj Hr). exact Hx.
Qed.

Lemma ms_stream_fwd : forall j x, nthN (dirs s) j = Some x -> d_type x = TStream -> j <> id ->
  nthN (dirs s') j = Some x.
Proof.
  intros j x Hx Ht Hj. destruct (N.eq_dec j ROOT_STREAM_ID) as [->|Hr].
  - rewrite (coherent_root_type s x HC Hx) in Ht. discriminate Ht.
  - rewrite (Hoth j Hj Hr). exact Hx.
Qed.

Lemma ms_mowns : forall i x, mowns s' i x <-> mowns s i x.
Proof.
  intros i x. unfold mowns. rewrite Hmf. split.
  - intros (x0 & l & Hx0 & Ht & Hp & Hb & Hl & Hx). destruct (N.eq_dec i id) as [->|Hi].
    + exfalso. assert (x0 = e') by congruence. subst x0. apply Hns'. repeat split; assumption.
    + exists x0, l. split; [exact (ms_stream_back i x0 Hx0 Ht Hi)|]. auto.
  - intros (x0 & l & Hx0 & Ht & Hp & Hb & Hl & Hx). destruct (N.eq_dec i id) as [->|Hi].
    + exfalso. assert (x0 = e) by congruence. subst x0. apply Hns. repeat split; assumption.
    + exists x0, l. split; [exact (ms_stream_fwd i x0 Hx0 Ht Hi)|]. auto.
Qed.

Lemma ms_empty : forall i x, nthN (dirs s') i = Some x -> d_type x = TStream -> d_len x = 0 ->
  d_start x = END_OF_CHAIN.
Proof.
  intros i x Hx Ht Hl. destruct (N.eq_dec i id) as [->|Hi].
  - assert (x = e') by congruence. subst x. exact (Hemp' Ht Hl).
  - exact (di_empty s HD i x (ms_stream_back i x Hx Ht Hi) Ht Hl).
Qed.

Lemma ms_small : forall i x ids, nthN (dirs s') i = Some x -> d_type x = TStream ->
  0 < d_len x -> d_len x < MINI_STREAM_CUTOFF ->
  chain_ids_of (minifat s') (d_start x) = Ok ids -> lenN ids = ceil_div (d_len x) MINI_SECTOR_LEN.
Proof.
  intros i x ids Hx Ht Hp Hb Hl. rewrite Hmf in Hl. destruct (N.eq_dec i id) as [->|Hi].
  - exfalso. assert (x = e') by congruence. subst x. apply Hns'. repeat split; assumption.
  - destruct (di_small s HD i x (ms_stream_back i x Hx Ht Hi) Ht Hp Hb) as (l & Hl' & Hlen). congruence.
Qed.

Lemma ms_mcover : forall x v, nthN (minifat s') x = Some v -> v <> FREE_SECTOR -> exists i, mowns s' i x.
Proof.
  intros x v Hv Hnf. rewrite Hmf in Hv. destruct (di_mini_cover s HD x v Hv Hnf) as (i & Hi).
  exists i. apply ms_mowns. exact Hi.
Qed.
End MiniSame.

(* ---- both halves: a FAT-level operation on one stream ---- *)
Theorem fat_step_dinv : forall s s' r r' rids mfids dids rids' mfids' dids' id e e',
  CohData' s -> SD s r rids mfids dids -> DInv s -> FreeAll s ->
  CohData' s' -> SD s' r' rids' mfids' dids' ->
  slen s' = slen s ->
  lenN rids <= lenN rids' /\ lenN mfids <= lenN mfids' /\ lenN dids <= lenN dids' /\
    lenN (difat s) <= lenN (difat s') ->
  lenN (dirs s') = lenN (dirs s) ->
  id <> ROOT_STREAM_ID ->
  nthN (dirs s) id = Some e -> nthN (dirs s') id = Some e' ->
  (forall j, j <> id -> j <> ROOT_STREAM_ID -> nthN (dirs s') j = nthN (dirs s) j) ->
  nsect s' + lenN (free s) + lenN (bigl s e)
    <= nsect s + lenN (free s') + (if big_b e' then ceil_div (d_len e') (slen s) else 0) ->
  minifat s' = minifat s ->
  ~ SA.small_entry e -> ~ SA.small_entry e' ->
  (d_type e' = TStream -> d_len e' = 0 -> d_start e' = END_OF_CHAIN) ->
  DInv s' /\ FreeAll s'.
Proof.
  intros s s' r r' rids mfids dids rids' mfids' dids' id e e' HCD HSD HD HFA HCD' HSD' Hslen Hsys Hlen Hid
         He He' Hoth Hcount Hmf Hns Hns' Hemp'.
  split.
  - apply (cohdata'_exact_dinv s' HCD'). constructor.
    + exact (ms_empty s s' id e' HD (cd_coh s' HCD') He' Hoth Hemp').
    + exact (fc_exact s s' r r' rids mfids dids rids' mfids' dids' id e e' HCD HSD HD HFA HCD' HSD'
               Hslen Hsys Hlen Hid He He' Hoth Hcount).
    + exact (ms_small s s' id e' HD (cd_coh s' HCD') Hmf He' Hoth Hns').
    + exact (fc_fcover s s' r r' rids mfids dids rids' mfids' dids' id e e' HCD HSD HD HFA HCD' HSD'
               Hslen Hsys Hlen Hid He He' Hoth Hcount).
    + exact (ms_mcover s s' id e e' HD (cd_coh s HCD) (cd_coh s' HCD') Hmf He He' Hoth Hns Hns').
  - exact (fc_freeall s s' r r' rids mfids dids rids' mfids' dids' id e e' HCD HSD HD HFA HCD' HSD'
             Hslen Hsys Hlen Hid He He' Hoth Hcount).
Qed.

(* ================================================================== *)
(* 3. the large-stream operations                                      *)
(* ================================================================== *)

Lemma difat_len_mono : forall s s', Coherent s -> Coherent s' -> slen s' = slen s ->
  nsect s <= nsect s' -> lenN (difat s) <= lenN (difat s').
Proof.
  intros s s' C C' Hsl Hn.
  destruct (ch_fat s C) as [_ L1 _ T1]. destruct (ch_fat s' C') as [_ L2 _ T2].
  rewrite T1, T2, L1, L2. unfold fat_per_sector. rewrite Hsl.
  destruct (MiniChainProofs.slen_cases s) as [E|E]; rewrite E;
    [change (512 / 4) with 128|change (4096 / 4) with 1024]; lia.
Qed.

Lemma not_small_big_empty : forall e, d_type e = TStream ->
  (d_len e = 0 \/ MINI_STREAM_CUTOFF <= d_len e) -> ~ SA.small_entry e.
Proof. intros e _ H (_ & Hp & Hb). lia. Qed.

(* the last step of every FAT-level operation: the entry of the stream is
   written back in a state [s2] whose mini level and table are those of [s];
   [CohData' s'] comes from DataPersist2.v, the account from the operation *)
Theorem finish_dinv : forall s s2 s' r rids mfids dids id e st ln,
  CohData' s -> SD s r rids mfids dids -> DInv s -> FreeAll s ->
  nthN (dirs s) id = Some e -> d_type e = TStream ->
  (d_len e = 0 \/ MINI_STREAM_CUTOFF <= d_len e) ->
  SA.SWfX_at s2 r rids mfids dids (SA.Xid id) -> SA.Q s2 = SA.Q s -> nsect s <= nsect s2 ->
  update_entry id st ln s2 = (s', Ok tt) -> CohData' s' ->
  (ln = 0 /\ st = END_OF_CHAIN \/ MINI_STREAM_CUTOFF <= ln) ->
  nsect s2 + lenN (free s) + lenN (bigl s e)
    <= nsect s + lenN (free s2) + (if MINI_STREAM_CUTOFF <=? ln then ceil_div ln (slen s) else 0) ->
  DInv s' /\ FreeAll s' /\
  dirs s' = updN (dirs s) id (set_start_len e st ln) /\ fat s' = fat s2 /\ free s' = free s2 /\
  nsect s' = nsect s2 /\ minifat s' = minifat s.
Proof.
  intros s s2 s' r rids mfids dids id e st ln HCD HSD HD HFA He Ht Hold SW2 HQ Hns Eu HCD' Hnew Hacc.
  pose proof (cd_coh s HCD) as HC.
  pose proof (SA.sw_m _ _ _ _ _ _ SW2) as W2.
  destruct (SA.Q_fields s s2 HQ) as (Qmf & Qmfr & Qms & Qdirs & Qds & Qver & Qsl).
  pose proof (nthN_Some_lt _ _ _ _ He) as Hidlt.
  assert (Hid : id <> ROOT_STREAM_ID) by exact (stream_not_root s id e HC He Ht).
  destruct (StoreProofs.update_entry_exec s2 id e st ln dids) as (s'' & Eu' & Hdirs & Hsh & Hmf & _).
  { rewrite Qdirs. exact He. }
  { apply (SA.mw_names _ _ _ _ _ W2 id). rewrite Qdirs. exact He. }
  { exact (SA.mw_dch _ _ _ _ _ W2). }
  { exact (SA.mw_dgood _ _ _ _ _ W2). }
  { pose proof (SA.mw_dcap _ _ _ _ _ W2) as Hcap. rewrite Qdirs in Hcap.
    rewrite StoreProofs.DEL_val in *. lia. }
  assert (s'' = s') by congruence. subst s''.
  destruct Hsh as (Zn & Zv & _ & _ & Zfat & Zfree & Zdifat & Zds & Zms).
  rewrite Qdirs in Hdirs.
  assert (Hsl' : slen s' = slen s) by (unfold slen; rewrite Zv, Qver; reflexivity).
  set (e' := set_start_len e st ln) in *.
  assert (He' : nthN (dirs s') id = Some e') by (rewrite Hdirs; apply nthN_updN_same; exact Hidlt).
  assert (Hoth : forall j, j <> id -> nthN (dirs s') j = nthN (dirs s) j)
    by (intros j Hj; rewrite Hdirs; apply nthN_updN_other; congruence).
  pose proof HCD' as [HC' (r' & rids' & mfids' & dids' & HSD') _ _].
  pose proof (SA.sw_m _ _ _ _ _ _ (proj1 HSD')) as W'.
  (* the capacity chains of [s'] are those of [s] *)
  assert (Er : r' = r).
  { pose proof (SA.mw_root _ _ _ _ _ W') as H1. rewrite (Hoth _ (not_eq_sym Hid)) in H1.
    pose proof (SA.mw_root _ _ _ _ _ W2) as H2. rewrite Qdirs in H2. congruence. }
  subst r'.
  assert (Erids : rids' = rids).
  { pose proof (SA.mw_rch _ _ _ _ _ W') as H1. rewrite Zfat in H1.
    pose proof (SA.mw_rch _ _ _ _ _ W2) as H2. congruence. }
  assert (Emf : mfids' = mfids).
  { pose proof (SA.mw_mch _ _ _ _ _ W') as H1. rewrite Zfat, Zms in H1.
    pose proof (SA.mw_mch _ _ _ _ _ W2) as H2. congruence. }
  assert (Ed : dids' = dids).
  { pose proof (SA.mw_dch _ _ _ _ _ W') as H1. rewrite Zfat, Zds in H1.
    pose proof (SA.mw_dch _ _ _ _ _ W2) as H2. congruence. }
  subst rids' mfids' dids'.
  assert (Hbig' : big_b e' = (MINI_STREAM_CUTOFF <=? ln)).
  { unfold big_b, is_stream_b, e'. cbn [set_start_len d_type d_len]. rewrite Ht. reflexivity. }
  destruct (fat_step_dinv s s' r r rids mfids dids rids mfids dids id e e' HCD HSD HD HFA HCD' HSD')
    as [HD' HFA']; try assumption.
  - repeat split; try lia. apply difat_len_mono; try assumption. lia.
  - rewrite Hdirs. apply lenN_updN.
  - intros j Hj _. exact (Hoth j Hj).
  - rewrite Hbig'. unfold e'. cbn [set_start_len d_len]. rewrite Zn, Zfree. exact Hacc.
  - congruence.
  - exact (not_small_big_empty e Ht Hold).
  - apply not_small_big_empty; [exact Ht|]. unfold e'. cbn [set_start_len d_len].
    destruct Hnew as [[-> _]|Hb]; [left; reflexivity|right; exact Hb].
  - intros _ Hl. unfold e' in *. cbn [set_start_len d_len d_start] in *.
    destruct Hnew as [[_ ->]|Hb]; [reflexivity|]. rewrite StoreProofs.CUTOFF_val in Hb. lia.
  - split; [exact HD'|]. split; [exact HFA'|]. split; [exact Hdirs|]. split; [exact Zfat|].
    split; [exact Zfree|]. split; [exact Zn|]. congruence.
Qed.

Import ReuseProofs StoreProofs MiniChainProofs StoreMiniProofs HandleFrame.
Import DataPersist.

Lemma ceil_div_comm' : forall n sl, ceil_div n sl = (sl + n - 1) / sl.
Proof. intros. unfold ceil_div. f_equal. lia. Qed.

Lemma bigl_not_big : forall s e, d_len e < MINI_STREAM_CUTOFF -> bigl s e = [].
Proof.
  intros s e H. unfold bigl. destruct (big_b e) eqn:E; [|reflexivity].
  apply big_b_true in E. lia.
Qed.

Lemma bigl_big : forall s e ids, SA.big_entry e -> chain_ids_of (fat s) (d_start e) = Ok ids ->
  bigl s e = ids.
Proof.
  intros s e ids Hb Hc. unfold bigl. rewrite (proj2 (big_b_true e) Hb). exact (cids_ok _ _ _ Hc).
Qed.

Lemma ready_sw : forall s s2 r rids mfids dids id ids1 news,
  BigReady s s2 r rids mfids dids id ids1 news ->
  SA.SWfX_at s2 r rids mfids dids (SA.Xid id) /\ SA.Q s2 = SA.Q s.
Proof. intros s s2 r rids mfids dids id ids1 news (_ & _ & SW & _ & _ & HQ & _). auto. Qed.

(* ---- the first growth of an empty stream to a large length (resize) ---- *)
Theorem resize_empty_big_dinv : forall s id new_len base nw,
  CohData' s -> DInv s -> FreeAll s -> SA.empty_stream s id ->
  MINI_STREAM_CUTOFF <= new_len -> new_len <= MAX_REGULAR_SECTOR * slen s -> LenFits s new_len ->
  free s = base ++ rev nw ->
  lenN nw = (slen s + new_len - 1) / slen s ->
  exists s',
    resize id new_len s = (s', Ok tt) /\ CohData' s' /\ DInv s' /\ FreeAll s'.
Proof.
  intros s id new_len base nw HCD HD HFA Hemp Hcut Hmax Hlen Hfree Hcount.
  pose proof (slen_pos s) as Hsp.
  pose proof HCD as [HC (r & rids & mfids & dids & HSD) HF _].
  pose proof Hemp as (e & Hn & Ht & Hst & Hl0).
  assert (Hpos : 0 < new_len) by (rewrite CUTOFF_val in Hcut; lia).
  destruct (ceil_props (slen s) new_len Hsp Hpos) as [Hc1 Hc2]. rewrite <- Hcount in Hc1, Hc2.
  pose proof (cohdata'_cohX s r rids mfids dids id HCD HSD) as HX.
  assert (Hnwne : nw <> []) by (intros ->; cbn [lenN] in Hc1; lia).
  destruct (grow_ready_from s s r rids mfids dids id [] [] base nw 0 (ready_nil _ _ _ _ _ _ HX) Hfree)
    as (s1 & Hgrow & BR1 & Fr1 & N1 & _ & Hhu).
  cbn [app] in *.
  destruct (big_finish_X s s1 r rids mfids dids id e nw nw new_len HX Hn Ht BR1 (Hhu eq_refl Hnwne) Hcut Hc1 Hlen)
    as (s' & Eu & HCD' & _).
  assert (R : resize id new_len s = (s', Ok tt)).
  { unfold resize. sred.
    rewrite (stream_entry_ok s id e Hn Ht). sred. rewrite Hst, Hl0.
    assert (E0 : (MAX_REGULAR_SECTOR * slen s <? new_len) = false) by (apply N.ltb_ge; exact Hmax).
    rewrite E0. sred. rewrite (mask_check_false s new_len Hlen). sred.
    rewrite N.eqb_refl. cbn [N.eqb negb].
    assert (E5 : (new_len <? MINI_STREAM_CUTOFF) = false) by lia. rewrite E5.
    rewrite (chain_new_exec s END_OF_CHAIN IZero [] (SA.chain_of_path _ _ _ (WalkProofs.path_nil _))).
    rewrite (StoreProofs.chain_set_len_grow s (mkChain IZero [] 0) new_len).
    - cbn [c_ids]. change (lenN (@nil N)) with 0. rewrite N.sub_0_r, <- Hcount.
      replace (N.to_nat (lenN nw)) with (length nw) by (rewrite (WalkProofs.lenN_length nw); lia).
      rewrite Hgrow. rewrite SA.chain_start_hd. exact Eu.
    - apply two64_room. exact Hmax.
    - exact Hpos.
    - cbn [c_ids]. change (lenN (@nil N)) with 0. rewrite <- Hcount. lia. }
  destruct (ready_sw _ _ _ _ _ _ _ _ _ BR1) as [SW1 HQ1].
  destruct (finish_dinv s s1 s' r rids mfids dids id e (hd END_OF_CHAIN nw) new_len HCD HSD HD HFA Hn Ht
              ltac:(left; exact Hl0) SW1 HQ1 ltac:(lia) Eu HCD' ltac:(right; exact Hcut))
    as (HD' & HFA' & _).
  { rewrite (bigl_not_big s e) by (rewrite Hl0, CUTOFF_val; lia). cbn [lenN].
    replace (MINI_STREAM_CUTOFF <=? new_len) with true by (symmetry; apply N.leb_le; exact Hcut).
    rewrite Hfree, Fr1, N1, CodecProofs.lenN_app, CodecProofs.lenN_rev, ceil_div_comm', Hcount. lia. }
  exists s'. auto.
Qed.

Lemma ceil_div_mono : forall a b sl, 0 < sl -> a <= b -> ceil_div a sl <= ceil_div b sl.
Proof. intros a b sl Hs H. unfold ceil_div. apply N.div_le_mono; lia. Qed.

(* ---- truncation of a large stream to zero ---- *)
Theorem resize_big_to_zero_dinv : forall s id V ids,
  CohData' s -> DInv s -> FreeAll s -> big_content s id V -> stream_ids s id ids ->
  exists s', resize id 0 s = (s', Ok tt) /\ CohData' s' /\ DInv s' /\ FreeAll s'.
Proof.
  intros s id V ids HCD HD HFA HB Hsi.
  pose proof HCD as [HC (r & rids & mfids & dids & HSD) HF Hax].
  destruct (big_entry_of_content s id V ids HB Hsi) as (e & He & Hbe & Hc).
  pose proof Hbe as [Ht Hbig].
  destruct (big_owned s r rids mfids dids id e ids (proj1 HSD) He Hbe Hc) as [_ Hcov].
  pose proof (ids_nonempty s ids _ Hbig Hcov) as Hne.
  destruct (chain_ids_head _ _ _ Hc Hne) as (Hst & tl0 & Eids).
  destruct (free_whole_cohX s r rids mfids dids id e ids HCD HSD He Hbe Hc)
    as (s1 & Efree & HX1 & HQ & Ho1 & Fr1 & N1).
  destruct (SA.Q_fields s s1 HQ) as (_ & _ & _ & Hd & _ & Hv & _).
  pose proof HX1 as (_ & _ & SW1 & _).
  destruct (finish_empty s1 r rids mfids dids id e SW1 ltac:(rewrite Hd; exact He) Ht) as (s' & Eu & _).
  destruct (empty_finish_X s1 s' r rids mfids dids id e HX1 ltac:(rewrite Hd; exact He) Ht Eu)
    as (HCD' & _).
  assert (R : resize id 0 s = (s', Ok tt)).
  { unfold resize. sred.
    rewrite (stream_entry_ok s id e He Ht). sred.
    assert (E0 : (MAX_REGULAR_SECTOR * slen s <? 0) = false) by lia. rewrite E0. sred.
    assert (E1 : (stream_len_mask (ver s) <? 0) = false) by lia. rewrite E1. sred.
    assert (E2 : (d_start e =? END_OF_CHAIN) = false) by lia. rewrite E2.
    assert (E3 : (d_len e <? MINI_STREAM_CUTOFF) = false) by lia. rewrite E3.
    rewrite N.eqb_refl. rewrite Efree. sred. exact Eu. }
  destruct (finish_dinv s s1 s' r rids mfids dids id e END_OF_CHAIN 0 HCD HSD HD HFA He Ht
              ltac:(right; exact Hbig) SW1 HQ ltac:(lia) Eu HCD' ltac:(left; split; reflexivity))
    as (HD' & HFA' & _).
  { rewrite (bigl_big s e ids Hbe Hc).
    replace (MINI_STREAM_CUTOFF <=? 0) with false by reflexivity.
    rewrite Fr1, N1, CodecProofs.lenN_app. lia. }
  exists s'. auto.
Qed.

(* ---- the first write of an empty stream, large ---- *)
Theorem write_empty_big_dinv : forall s id buf,
  CohData' s -> DInv s -> FreeAll s -> SA.empty_stream s id ->
  MINI_STREAM_CUTOFF <= lenN buf ->
  lenN buf <= N.min (MAX_REGULAR_SECTOR * slen s) (stream_len_mask (ver s)) ->
  (lenN buf + slen s - 1) / slen s <= lenN (free s) ->
  exists s', write_data id 0 buf s = (s', Ok tt) /\ CohData' s' /\ DInv s' /\ FreeAll s'.
Proof.
  intros s id buf HCD HD HFA Hemp Hcut Hbounds Hroom.
  pose proof (slen_pos s) as Hsp.
  pose proof HCD as [HC (r & rids & mfids & dids & HSD) HF _].
  pose proof Hemp as (e & Hn & Ht & Hst & Hl0).
  pose proof (cohdata'_cohX s r rids mfids dids id HCD HSD) as HX.
  destruct (write_all_ready s s r rids mfids dids id [] [] 0 buf (ready_nil _ _ _ _ _ _ HX))
    as (s1 & nw & Ew & BR1 & Fr1 & N1 & Hfit & _ & Hhu).
  { cbn [lenN]. lia. }
  { cbn [lenN]. rewrite N.add_0_l, N.sub_0_r. exact Hroom. }
  destruct (SA.chain_write_all_alloc s r rids mfids dids id [] 0 buf (SWf_X _ _ _ _ _ id (proj1 HSD))
              ltac:(constructor) (SA.owned_nil _ _ _ _ _))
    as (s1' & nw' & Ew' & _ & _ & _ & Hlnw & _).
  { cbn [lenN]. lia. }
  { cbn [lenN]. rewrite N.add_0_l, N.sub_0_r. exact Hroom. }
  rewrite Ew in Ew'. injection Ew' as <- Enw. cbn [app] in Enw. subst nw'.
  cbn [app lenN] in *. rewrite N.add_0_l, N.sub_0_r in *.
  assert (Hnwne : nw <> []).
  { intros ->. cbn [lenN] in Hfit. rewrite CUTOFF_val in Hcut. lia. }
  destruct (big_finish_X s s1 r rids mfids dids id e nw nw (lenN buf) HX Hn Ht BR1 (Hhu eq_refl Hnwne) Hcut Hfit)
    as (s' & Eu & HCD' & _).
  { unfold LenFits. lia. }
  assert (R : write_data id 0 buf s = (s', Ok tt)).
  { unfold write_data. sred.
    rewrite (stream_entry_ok s id e Hn Ht). sred. rewrite Hst, Hl0.
    change (0 <? 0) with false. sred.
    replace (N.min (MAX_REGULAR_SECTOR * slen s) (stream_len_mask (ver s)) <? N.max 0 (0 + lenN buf))
      with false by (symmetry; apply N.ltb_ge; lia).
    cbn [N.ltb N.compare N.eqb negb]. rewrite N.eqb_refl. rewrite N.add_0_l.
    replace (N.max 0 (lenN buf)) with (lenN buf) by lia.
    assert (E4 : (lenN buf <? MINI_STREAM_CUTOFF) = false) by lia. rewrite E4.
    rewrite (chain_new_exec s END_OF_CHAIN IZero [] (SA.chain_of_path _ _ _ (WalkProofs.path_nil _))).
    rewrite Ew. rewrite SA.chain_start_hd. exact Eu. }
  destruct (ready_sw _ _ _ _ _ _ _ _ _ BR1) as [SW1 HQ1].
  destruct (finish_dinv s s1 s' r rids mfids dids id e (hd END_OF_CHAIN nw) (lenN buf) HCD HSD HD HFA Hn Ht
              ltac:(left; exact Hl0) SW1 HQ1 ltac:(lia) Eu HCD' ltac:(right; exact Hcut))
    as (HD' & HFA' & _).
  { rewrite (bigl_not_big s e) by (rewrite Hl0, CUTOFF_val; lia). cbn [lenN].
    replace (MINI_STREAM_CUTOFF <=? lenN buf) with true by (symmetry; apply N.leb_le; exact Hcut).
    rewrite Fr1, N1, CodecProofs.lenN_app, CodecProofs.lenN_rev, Hlnw. unfold ceil_div. lia. }
  exists s'. auto.
Qed.

(* ---- a write to a large stream that takes sectors from the free stack ---- *)
Theorem write_big_alloc_dinv : forall s id V ids off buf,
  CohData' s -> DInv s -> FreeAll s ->
  big_content s id V -> stream_ids s id ids ->
  off <= lenN V ->
  N.max (lenN V) (off + lenN buf) <= N.min (MAX_REGULAR_SECTOR * slen s) (stream_len_mask (ver s)) ->
  (off + lenN buf + slen s - 1) / slen s - lenN ids <= lenN (free s) ->
  exists s', write_data id off buf s = (s', Ok tt) /\ CohData' s' /\ DInv s' /\ FreeAll s'.
Proof.
  intros s id V ids off buf HCD HD HFA HB Hsi Hoff Hbd Hroom.
  pose proof (slen_pos s) as Hsp.
  pose proof HCD as [HC (r & rids & mfids & dids & HSD) HF _].
  destruct (big_entry_of_content s id V ids HB Hsi) as (e & He & Hbe & Hc).
  destruct (big_owned s r rids mfids dids id e ids (proj1 HSD) He Hbe Hc) as [Hown Hcov].
  pose proof (big_content_len _ _ _ _ HB He) as HlV. rewrite HlV in *.
  pose proof (WalkProofs.chain_ids_path _ _ _ Hc) as Hp0.
  pose proof (path_hd_start _ _ _ Hp0) as Hhd.
  pose proof Hbe as [Ht Hbig].
  pose proof (ids_nonempty s ids _ Hbig Hcov) as Hne.
  pose proof (big_ready_refl s r rids mfids dids id e ids HCD HSD He Hbe Hc) as BR0.
  destruct (write_all_ready s s r rids mfids dids id ids [] off buf BR0) as (s2 & nw & Ew & BR2 & Fr2 & N2 & Hfit & _).
  { lia. }
  { exact Hroom. }
  cbn [app] in BR2.
  set (ln := N.max (d_len e) (off + lenN buf)) in *.
  destruct (big_finish_cohdata' s s2 r rids mfids dids id e (ids ++ nw) nw ln HCD HSD He Hbe BR2)
    as (s' & Eu & HCD' & _).
  { rewrite (SA.hd_app_ne ids nw END_OF_CHAIN Hne). symmetry. exact Hhd. }
  { intro Hin. destruct HF as [_ HFx].
    assert (Hinf : In (d_start e) (free s)).
    { rewrite Fr2. apply in_or_app. right. apply in_rev in Hin. exact Hin. }
    destruct (HFx _ Hinf) as (_ & Hxf & _).
    apply (free_not_in_chain s _ ids (d_start e) Hc Hxf). rewrite Hhd.
    destruct ids; [contradiction|left; reflexivity]. }
  { unfold ln. lia. }
  { unfold ln. apply N.max_lub; [|exact Hfit]. rewrite lenN_app. nia. }
  { unfold LenFits, ln. lia. }
  assert (R : write_data id off buf s = (s', Ok tt)).
  { exact (write_big_run_gen s s2 id e ids nw off buf s' He Hbe Hc Hcov Hoff Hbd Ew Eu). }
  destruct (SA.chain_write_all_alloc s r rids mfids dids id ids off buf (SWf_X _ _ _ _ _ id (proj1 HSD))
              ltac:(rewrite <- Hhd; exact Hp0) Hown)
    as (s2' & nw' & Ew' & _ & _ & _ & Hlnw & _).
  { lia. }
  { exact Hroom. }
  rewrite Ew in Ew'. injection Ew' as <- Enw. apply app_inv_head in Enw. subst nw'.
  destruct (ready_sw _ _ _ _ _ _ _ _ _ BR2) as [SW2 HQ2].
  destruct (di_big s HD id e He Ht Hbig) as (l & Hl & Hlen). assert (l = ids) by congruence. subst l.
  destruct (finish_dinv s s2 s' r rids mfids dids id e (d_start e) ln HCD HSD HD HFA He Ht
              ltac:(right; exact Hbig) SW2 HQ2 ltac:(lia) Eu HCD' ltac:(right; unfold ln; lia))
    as (HD' & HFA' & _).
  { rewrite (bigl_big s e ids Hbe Hc).
    replace (MINI_STREAM_CUTOFF <=? ln) with true by (symmetry; apply N.leb_le; unfold ln; lia).
    rewrite Fr2, N2, CodecProofs.lenN_app, CodecProofs.lenN_rev, Hlnw.
    pose proof (ceil_div_mono (d_len e) ln (slen s) Hsp ltac:(unfold ln; lia)) as M1.
    pose proof (ceil_div_mono (off + lenN buf) ln (slen s) Hsp ltac:(unfold ln; lia)) as M2.
    unfold ceil_div in *. lia. }
  exists s'. auto.
Qed.

(* ---- a large stream stays large: same count, reuse, append, release ---- *)
Theorem resize_big_same_dinv : forall s id V ids new_len,
  CohData' s -> DInv s -> FreeAll s ->
  big_content s id V -> stream_ids s id ids ->
  MINI_STREAM_CUTOFF <= new_len -> new_len <= slen s * lenN ids ->
  slen s * lenN ids < new_len + slen s -> LenFits s new_len ->
  exists s', resize id new_len s = (s', Ok tt) /\ CohData' s' /\ DInv s' /\ FreeAll s'.
Proof.
  intros s id V ids new_len HCD HD HFA HB Hsi Hcut Hfit Htight Hmask.
  pose proof (slen_pos s) as Hsp.
  pose proof HCD as [HC (r & rids & mfids & dids & HSD) HF _].
  destruct (big_entry_of_content s id V ids HB Hsi) as (e & He & Hbe & Hc).
  destruct (big_owned s r rids mfids dids id e ids (proj1 HSD) He Hbe Hc) as [_ Hcov].
  pose proof Hbe as [Ht Hbig].
  pose proof (path_hd_start _ _ _ (WalkProofs.chain_ids_path _ _ _ Hc)) as Hhd.
  assert (Hnl0 : 0 < new_len) by (rewrite CUTOFF_val in Hcut; lia).
  assert (Hmax : new_len <= MAX_REGULAR_SECTOR * slen s).
  { destruct HB as (e1 & ids1 & He1 & _ & _ & Hc1' & Hg & _).
    assert (ids1 = ids) by congruence. subst ids1.
    pose proof (good_chain_count _ _ Hg). pose proof (ch_nsect s HC). nia. }
  pose proof (big_ready_refl s r rids mfids dids id e ids HCD HSD He Hbe Hc) as BR0.
  destruct (zero_fill_ready s s r rids mfids dids id ids [] (d_len e)
              (N.min new_len (slen s * lenN ids)) BR0 ltac:(lia))
    as (s2 & Hz & BR2 & F2 & N2 & _).
  destruct (big_finish_cohdata' s s2 r rids mfids dids id e ids [] new_len HCD HSD He Hbe BR2
              ltac:(symmetry; exact Hhd) ltac:(intros []) Hcut Hfit Hmask)
    as (s' & Eu & HCD' & _).
  assert (R : resize id new_len s = (s', Ok tt)).
  { eapply (resize_big_run s s s2 id e ids ids);
      [exact He|exact Hbe|exact Hc|exact Hcov| |exact Hz| |exact Eu|exact Hcut|exact Hmax|exact Hmask].
    - apply chain_set_len_same; [exact Hnl0|apply two64_room; exact Hmax|].
      cbn [c_ids]. symmetry. apply (N.div_unique _ _ _ (slen s + new_len - 1 - slen s * lenN ids)); lia.
    - rewrite SA.chain_start_hd. symmetry. exact Hhd. }
  destruct (ready_sw _ _ _ _ _ _ _ _ _ BR2) as [SW2 HQ2].
  destruct (di_big s HD id e He Ht Hbig) as (l & Hl & Hlen). assert (l = ids) by congruence. subst l.
  destruct (finish_dinv s s2 s' r rids mfids dids id e (d_start e) new_len HCD HSD HD HFA He Ht
              ltac:(right; exact Hbig) SW2 HQ2 ltac:(lia) Eu HCD' ltac:(right; exact Hcut))
    as (HD' & HFA' & _).
  { rewrite (bigl_big s e ids Hbe Hc).
    replace (MINI_STREAM_CUTOFF <=? new_len) with true by (symmetry; apply N.leb_le; exact Hcut).
    rewrite F2, N2.
    assert (ceil_div new_len (slen s) = lenN ids).
    { unfold ceil_div. symmetry. apply (N.div_unique _ _ _ (new_len + slen s - 1 - slen s * lenN ids)); lia. }
    lia. }
  exists s'. auto.
Qed.

Theorem resize_big_reuse_dinv : forall s id V ids new_len base nw,
  CohData' s -> DInv s -> FreeAll s ->
  big_content s id V -> stream_ids s id ids ->
  slen s * lenN ids < new_len ->
  free s = base ++ rev nw ->
  lenN ids + lenN nw = (slen s + new_len - 1) / slen s ->
  new_len <= MAX_REGULAR_SECTOR * slen s -> LenFits s new_len ->
  exists s', resize id new_len s = (s', Ok tt) /\ CohData' s' /\ DInv s' /\ FreeAll s'.
Proof.
  intros s id V ids new_len base nw HCD HD HFA HB Hsi Hgt Hfree Hcount Hmax Hlen.
  pose proof (slen_pos s) as Hsp.
  pose proof HCD as [HC (r & rids & mfids & dids & HSD) HF _].
  destruct (big_entry_of_content s id V ids HB Hsi) as (e & He & Hbe & Hc).
  destruct (big_owned s r rids mfids dids id e ids (proj1 HSD) He Hbe Hc) as [_ Hcov].
  pose proof Hbe as [Ht Hbig].
  pose proof (ids_nonempty s ids _ Hbig Hcov) as Hne.
  pose proof (path_hd_start _ _ _ (WalkProofs.chain_ids_path _ _ _ Hc)) as Hhd.
  assert (Hnl0 : 0 < new_len) by lia.
  destruct (ceil_props (slen s) new_len Hsp Hnl0) as [Hc1 Hc2]. rewrite <- Hcount in Hc1, Hc2.
  destruct (grow_reuse_ready s r rids mfids dids id e ids base nw HCD HSD He Hbe Hc Hfree)
    as (s1 & Hgrow & BR1 & Fr1 & N1).
  destruct (zero_fill_ready s s1 r rids mfids dids id (ids ++ nw) nw (d_len e)
              (N.min new_len (slen s * lenN ids)) BR1)
    as (s2 & Hz & BR2 & F2 & N2 & _).
  { rewrite lenN_app. nia. }
  destruct (big_finish_cohdata' s s2 r rids mfids dids id e (ids ++ nw) nw new_len HCD HSD He Hbe BR2)
    as (s' & Eu & HCD' & _).
  { rewrite (SA.hd_app_ne ids nw END_OF_CHAIN Hne). symmetry. exact Hhd. }
  { intro Hin. destruct HF as [_ HFx].
    assert (Hinf : In (d_start e) (free s)).
    { rewrite Hfree. apply in_or_app. right. apply in_rev in Hin. exact Hin. }
    destruct (HFx _ Hinf) as (_ & Hxf & _).
    apply (free_not_in_chain s _ ids (d_start e) Hc Hxf). rewrite Hhd.
    destruct ids; [contradiction|left; reflexivity]. }
  { lia. }
  { rewrite lenN_app. exact Hc1. }
  { exact Hlen. }
  assert (R : resize id new_len s = (s', Ok tt)).
  { eapply (resize_big_run s s1 s2 id e ids (ids ++ nw));
      [exact He|exact Hbe|exact Hc|exact Hcov| |exact Hz| |exact Eu| |exact Hmax|exact Hlen].
    - rewrite chain_set_len_grow; [|apply two64_room; exact Hmax|exact Hnl0|cbn [c_ids]; nia].
      cbn [c_ids]. rewrite <- Hcount.
      replace (N.to_nat (lenN ids + lenN nw - lenN ids)) with (length nw)
        by (rewrite (WalkProofs.lenN_length nw); lia).
      exact Hgrow.
    - rewrite SA.chain_start_hd, (SA.hd_app_ne ids nw END_OF_CHAIN Hne). symmetry. exact Hhd.
    - lia. }
  destruct (ready_sw _ _ _ _ _ _ _ _ _ BR2) as [SW2 HQ2].
  destruct (finish_dinv s s2 s' r rids mfids dids id e (d_start e) new_len HCD HSD HD HFA He Ht
              ltac:(right; exact Hbig) SW2 HQ2 ltac:(lia) Eu HCD' ltac:(right; lia))
    as (HD' & HFA' & _).
  { rewrite (bigl_big s e ids Hbe Hc).
    replace (MINI_STREAM_CUTOFF <=? new_len) with true by (symmetry; apply N.leb_le; lia).
    rewrite F2, Fr1, N2, N1, Hfree, CodecProofs.lenN_app, CodecProofs.lenN_rev, ceil_div_comm', <- Hcount. lia. }
  exists s'. auto.
Qed.

Theorem resize_big_append_dinv : forall s id V ids new_len k,
  CohData' s -> DInv s -> FreeAll s -> free s = [] ->
  lenN (difat s) < NUM_DIFAT_HDR -> nsect s + N.of_nat k + 3 <= MAX_REGULAR_SECTOR ->
  big_content s id V -> stream_ids s id ids ->
  slen s * lenN ids < new_len ->
  lenN ids + N.of_nat k = (slen s + new_len - 1) / slen s ->
  (forall j, j < N.of_nat k -> (nsect s + j) mod fat_per_sector s <> 0) ->
  new_len <= MAX_REGULAR_SECTOR * slen s -> LenFits s new_len ->
  exists s', resize id new_len s = (s', Ok tt) /\ CohData' s' /\ DInv s' /\ FreeAll s'.
Proof.
  intros s id V ids new_len k HCD HD HFA Hfree Hreg Hsize HB Hsi Hgt Hcount Hmod Hmax Hlen.
  pose proof (slen_pos s) as Hsp.
  pose proof HCD as [HC (r & rids & mfids & dids & HSD) HF _].
  destruct (big_entry_of_content s id V ids HB Hsi) as (e & He & Hbe & Hc).
  destruct (big_owned s r rids mfids dids id e ids (proj1 HSD) He Hbe Hc) as [Hown Hcov].
  pose proof Hbe as [Ht Hbig].
  pose proof (ids_nonempty s ids _ Hbig Hcov) as Hne.
  pose proof (path_hd_start _ _ _ (WalkProofs.chain_ids_path _ _ _ Hc)) as Hhd.
  assert (Hnl0 : 0 < new_len) by lia.
  destruct (ceil_props (slen s) new_len Hsp Hnl0) as [Hc1 Hc2]. rewrite <- Hcount in Hc1, Hc2.
  set (nw := seqN (nsect s) k) in *.
  assert (Hlnw : lenN nw = N.of_nat k) by (unfold nw; apply lenN_seqN).
  destruct (grow_append_ready s r rids mfids dids id e ids k HCD HSD He Hbe Hc Hfree Hreg Hsize Hmod)
    as (s1 & Hgrow & BR1 & Fr1 & N1).
  fold nw in Hgrow, BR1.
  destruct (zero_fill_ready s s1 r rids mfids dids id (ids ++ nw) nw (d_len e)
              (N.min new_len (slen s * lenN ids)) BR1)
    as (s2 & Hz & BR2 & F2 & N2 & _).
  { rewrite lenN_app. nia. }
  destruct (big_finish_cohdata' s s2 r rids mfids dids id e (ids ++ nw) nw new_len HCD HSD He Hbe BR2)
    as (s' & Eu & HCD' & _).
  { rewrite (SA.hd_app_ne ids nw END_OF_CHAIN Hne). symmetry. exact Hhd. }
  { intro Hin. apply In_seqN in Hin.
    assert (Hs : In (d_start e) ids) by (rewrite Hhd; destruct ids; [contradiction|left; reflexivity]).
    pose proof (proj2 (proj2 (Hown _ Hs))). lia. }
  { lia. }
  { rewrite lenN_app, Hlnw. exact Hc1. }
  { exact Hlen. }
  assert (R : resize id new_len s = (s', Ok tt)).
  { eapply (resize_big_run s s1 s2 id e ids (ids ++ nw));
      [exact He|exact Hbe|exact Hc|exact Hcov| |exact Hz| |exact Eu| |exact Hmax|exact Hlen].
    - rewrite chain_set_len_grow; [|apply two64_room; exact Hmax|exact Hnl0|cbn [c_ids]; nia].
      cbn [c_ids]. rewrite <- Hcount.
      replace (N.to_nat (lenN ids + N.of_nat k - lenN ids)) with k by lia.
      exact Hgrow.
    - rewrite SA.chain_start_hd, (SA.hd_app_ne ids nw END_OF_CHAIN Hne). symmetry. exact Hhd.
    - lia. }
  destruct (ready_sw _ _ _ _ _ _ _ _ _ BR2) as [SW2 HQ2].
  destruct (finish_dinv s s2 s' r rids mfids dids id e (d_start e) new_len HCD HSD HD HFA He Ht
              ltac:(right; exact Hbig) SW2 HQ2 ltac:(lia) Eu HCD' ltac:(right; lia))
    as (HD' & HFA' & _).
  { rewrite (bigl_big s e ids Hbe Hc).
    replace (MINI_STREAM_CUTOFF <=? new_len) with true by (symmetry; apply N.leb_le; lia).
    rewrite F2, Fr1, N2, N1, Hfree, ceil_div_comm', <- Hcount. cbn [lenN]. lia. }
  exists s'. auto.
Qed.

Theorem resize_big_release_dinv : forall s id V ids new_len,
  CohData' s -> DInv s -> FreeAll s ->
  big_content s id V -> stream_ids s id ids ->
  MINI_STREAM_CUTOFF <= new_len -> new_len <= lenN V ->
  (slen s + new_len - 1) / slen s < lenN ids ->
  exists s', resize id new_len s = (s', Ok tt) /\ CohData' s' /\ DInv s' /\ FreeAll s'.
Proof.
  intros s id V ids new_len HCD HD HFA HB Hsi Hcut Hle Hlt.
  pose proof (slen_pos s) as Hsp.
  pose proof HCD as [HC (r & rids & mfids & dids & HSD) HF _].
  destruct (big_entry_of_content s id V ids HB Hsi) as (e & He & Hbe & Hc).
  destruct (big_owned s r rids mfids dids id e ids (proj1 HSD) He Hbe Hc) as [_ Hcov].
  pose proof Hbe as [Ht Hbig].
  pose proof (big_content_len _ _ _ _ HB He) as HlV.
  pose proof (path_hd_start _ _ _ (WalkProofs.chain_ids_path _ _ _ Hc)) as Hhd.
  assert (Hnl0 : 0 < new_len) by (rewrite CUTOFF_val in Hcut; lia).
  destruct (ceil_props (slen s) new_len Hsp Hnl0) as [Hc1 Hc2].
  set (n' := (slen s + new_len - 1) / slen s) in *.
  assert (Hmask : LenFits s new_len).
  { pose proof (old_len_fits s id e HC He). unfold LenFits in *. lia. }
  assert (Hmax : new_len <= MAX_REGULAR_SECTOR * slen s).
  { destruct HB as (e1 & ids1 & He1 & _ & _ & Hc1' & Hg & _).
    assert (ids1 = ids) by congruence. subst ids1.
    pose proof (good_chain_count _ _ Hg). pose proof (ch_nsect s HC). nia. }
  destruct (release_ready s r rids mfids dids id e ids new_len HCD HSD He Hbe Hc Hnl0 Hmax Hlt)
    as (s1 & Hset & BR1 & Fr1 & N1 & _).
  fold n' in BR1, Fr1.
  assert (Hne : ids <> []) by (eapply ids_nonempty; eassumption).
  assert (Hn1 : 1 <= n').
  { unfold n'. assert (0 < (slen s + new_len - 1) / slen s) by (apply N.div_str_pos; lia). lia. }
  assert (Hhdk : hd END_OF_CHAIN (takeN n' ids) = d_start e).
  { rewrite Hhd. destruct ids as [|a t]; [contradiction|].
    rewrite takeN_cons by lia. reflexivity. }
  destruct (big_finish_cohdata' s s1 r rids mfids dids id e (takeN n' ids) [] new_len HCD HSD He Hbe BR1 Hhdk)
    as (s' & Eu & HCD' & _).
  { intros []. }
  { exact Hcut. }
  { rewrite lenN_takeN. replace (N.min n' (lenN ids)) with n' by lia. exact Hc1. }
  { exact Hmask. }
  assert (R : resize id new_len s = (s', Ok tt)).
  { eapply (resize_big_run s s1 s1 id e ids ids);
      [exact He|exact Hbe|exact Hc|exact Hcov|exact Hset| | |exact Eu|exact Hcut|exact Hmax|exact Hmask].
    - unfold zero_fill_chain.
      destruct (d_len e <? N.min new_len (slen s * lenN ids)) eqn:E; [lia|]. reflexivity.
    - rewrite SA.chain_start_hd. symmetry. exact Hhd. }
  destruct (ready_sw _ _ _ _ _ _ _ _ _ BR1) as [SW1 HQ1].
  destruct (finish_dinv s s1 s' r rids mfids dids id e (d_start e) new_len HCD HSD HD HFA He Ht
              ltac:(right; exact Hbig) SW1 HQ1 ltac:(lia) Eu HCD' ltac:(right; exact Hcut))
    as (HD' & HFA' & _).
  { rewrite (bigl_big s e ids Hbe Hc).
    replace (MINI_STREAM_CUTOFF <=? new_len) with true by (symmetry; apply N.leb_le; exact Hcut).
    rewrite Fr1, N1, CodecProofs.lenN_app, ceil_div_comm'. fold n'.
    rewrite ChainProofs.lenN_dropN. lia. }
  exists s'. auto.
Qed.

(* ================================================================== *)
(* 4. histories                                                        *)
(* ================================================================== *)

(* the full invariant: DataPersist2's [CohTree] (the bytes reopen to the cached
   state), the ownership invariant, nothing leaked, blank slots outside the tree *)
Definition W2 (s : cstate) : Prop := CohTree s /\ DInv s /\ FreeAll s /\ Tidy (dirs s).

Theorem w2_image_wf : forall s, W2 s -> wf_check (concat_img (img s)) = 0.
Proof. intros s (HT & HD & _ & HTd). exact (dinv_image_wf s (cohtree_dbase s HT) HD HTd). Qed.

(* ---- the reopened state ---- *)
Lemma tidy_app_blanks : forall ds k, Tidy ds -> Tidy (ds ++ repeatN dirent_unallocated k).
Proof.
  intros ds k (t & U & HN & ND & Hb). exists t, U. split; [|split; [exact ND|]].
  - eapply MutRefine.NRU_transfer; [exact HN| |auto].
    intros j Hj. apply nthN_app_l. exact (QueryRefine.AllIds_bound _ _ _ _ (proj2 HN) j Hj).
  - intros i e He Hni. destruct (N.lt_ge_cases i (lenN ds)) as [Hlt|Hge].
    + rewrite nthN_app_l in He by exact Hlt. exact (Hb i e He Hni).
    + rewrite nthN_app_r in He by exact Hge. apply nthN_In in He. apply In_repeatN in He. exact He.
Qed.

Lemma reopened_stream : forall s j e, nthN (dirs (reopened s)) j = Some e -> d_type e = TStream ->
  nthN (dirs s) j = Some e.
Proof.
  intros s j e He Ht. destruct (reopened_nth_inv s j e He) as [H|[_ ->]]; [exact H|discriminate Ht].
Qed.

Lemma reopened_fowns : forall s o x, fowns s o x -> fowns (reopened s) o x.
Proof.
  intros s o x H. destruct o as [| | | |j]; cbn [fowns] in *;
    change (fat (reopened s)) with (fat s); change (difat (reopened s)) with (difat s);
    change (dir_start (reopened s)) with (dir_start s);
    change (minifat_start (reopened s)) with (minifat_start s); try exact H.
  - destruct H as (r & ids & Hr & Hc & Hx). exists r, ids. split; [apply reopened_nth_old; exact Hr|auto].
  - destruct H as (e & ids & He & Hrest). exists e, ids. split; [apply reopened_nth_old; exact He|exact Hrest].
Qed.

Lemma reopened_mowns : forall s i x, mowns s i x -> mowns (reopened s) i x.
Proof.
  intros s i x (e & ids & He & Hrest). exists e, ids. split; [apply reopened_nth_old; exact He|exact Hrest].
Qed.

Theorem w2_reopened : forall s, W2 s -> W2 (reopened s).
Proof.
  intros s (HT & HD & HFA & HTd). split; [exact (cohtree_reopened s HT)|]. split; [|split].
  - apply cohdata'_exact_dinv; [exact (proj1 (cohtree_reopened s HT))|]. constructor.
    + intros i e He Ht. exact (di_empty s HD i e (reopened_stream s i e He Ht) Ht).
    + intros i e ids He Ht Hb Hc. change (fat (reopened s)) with (fat s) in Hc.
      change (slen (reopened s)) with (slen s).
      destruct (di_big s HD i e (reopened_stream s i e He Ht) Ht Hb) as (l & Hl & Hlen). congruence.
    + intros i e ids He Ht Hp Hb Hc. change (minifat (reopened s)) with (minifat s) in Hc.
      destruct (di_small s HD i e (reopened_stream s i e He Ht) Ht Hp Hb) as (l & Hl & Hlen). congruence.
    + intros x v Hv Hnf. change (fat (reopened s)) with (fat s) in Hv.
      destruct (di_fat_cover s HD x v Hv Hnf) as (o & Ho). exists o. apply reopened_fowns. exact Ho.
    + intros x v Hv Hnf. change (minifat (reopened s)) with (minifat s) in Hv.
      destruct (di_mini_cover s HD x v Hv Hnf) as (i & Hi). exists i. apply reopened_mowns. exact Hi.
  - intros x Hx. change (fat (reopened s)) with (fat s) in Hx. unfold reopened. cbn [free].
    apply free_indices_spec. exact Hx.
  - unfold reopened. cbn [dirs]. apply tidy_app_blanks. exact HTd.
Qed.

(* ---- one call of the store ---- *)
Lemma w2_after : forall s s' id e,
  W2 s -> nthN (dirs s) id = Some e -> d_type e = TStream ->
  CohTree s' -> DInv s' -> FreeAll s' -> DF (PR id) (dirs s) (dirs s') -> W2 s'.
Proof.
  intros s s' id e (_ & _ & _ & HT) He Ht HT' HD' HFA' HDF.
  split; [exact HT'|]. split; [exact HD'|]. split; [exact HFA'|].
  apply (tidy_DF _ _ id HT HDF). intros e0 He0. congruence.
Qed.

Lemma covered_write_tables : forall s id off buf s',
  CohData s -> CoveredWrite s id off buf -> write_data id off buf s = (s', Ok tt) ->
  fat s' = fat s /\ free s' = free s.
Proof.
  intros s id off buf s' [C HA] HCW Hrun.
  destruct HCW as [(V & ids & HB & Hsi & Hoff & Hcap & Hbounds)|(e & rids & mids & V & Hsm & Hoff & Hcap & Hcut)].
  - destruct (big_content_ids s id V ids HB Hsi) as (e & He & Hbig).
    destruct (sw_dir s (aw_store s HA)) as (dids & Hd & _).
    destruct (write_big_quiet s id V ids dids e off buf HB Hsi (aw_store s HA) He Hd Hoff Hcap Hbounds)
      as (s1 & Hrun1 & HQ).
    rewrite Hrun in Hrun1. injection Hrun1 as <-.
    destruct (Quiet_shape _ _ _ _ _ _ HQ) as (_ & _ & _ & _ & Hf & Hfr & _). auto.
  - pose proof Hsm as (He & _).
    destruct (sw_dir s (aw_store s HA)) as (dids & Hd & _).
    destruct (write_small_quiet s id e rids mids dids V off buf Hsm
                (asw_dirwritable s id e HA He) Hd Hoff Hcap Hcut) as (s1 & Hrun1 & _ & HQ).
    rewrite Hrun in Hrun1. injection Hrun1 as <-.
    destruct (Quiet_shape _ _ _ _ _ _ HQ) as (_ & _ & _ & _ & Hf & Hfr & _). auto.
Qed.

Lemma freeall_same_tables : forall s s', fat s' = fat s -> free s' = free s -> FreeAll s -> FreeAll s'.
Proof. intros s s' Hf Hr H. unfold FreeAll in *. rewrite Hf, Hr. exact H. Qed.

(* the resize cases of DataPersist2.ResizeCase that stay at the FAT level *)
Definition ResizeCaseB (s : cstate) (id n : N) : Prop :=
  (exists V ids, big_content s id V /\ stream_ids s id ids /\
     MINI_STREAM_CUTOFF <= n /\ n <= slen s * lenN ids /\ slen s * lenN ids < n + slen s /\ LenFits s n) \/
  (exists V ids base nw, big_content s id V /\ stream_ids s id ids /\
     slen s * lenN ids < n /\ free s = base ++ rev nw /\
     lenN ids + lenN nw = (slen s + n - 1) / slen s /\
     n <= MAX_REGULAR_SECTOR * slen s /\ LenFits s n) \/
  (exists V ids k, free s = [] /\ lenN (difat s) < NUM_DIFAT_HDR /\
     nsect s + N.of_nat k + 3 <= MAX_REGULAR_SECTOR /\
     big_content s id V /\ stream_ids s id ids /\ slen s * lenN ids < n /\
     lenN ids + N.of_nat k = (slen s + n - 1) / slen s /\
     (forall j, j < N.of_nat k -> (nsect s + j) mod fat_per_sector s <> 0) /\
     n <= MAX_REGULAR_SECTOR * slen s /\ LenFits s n) \/
  (exists V ids, big_content s id V /\ stream_ids s id ids /\
     MINI_STREAM_CUTOFF <= n /\ n <= lenN V /\ (slen s + n - 1) / slen s < lenN ids) \/
  (exists base nw, SA.empty_stream s id /\ MINI_STREAM_CUTOFF <= n /\
     n <= MAX_REGULAR_SECTOR * slen s /\ LenFits s n /\
     free s = base ++ rev nw /\ lenN nw = (slen s + n - 1) / slen s) \/
  (exists V ids, big_content s id V /\ stream_ids s id ids /\ n = 0).

Lemma ResizeCaseB_ResizeCase : forall s id n, ResizeCaseB s id n -> ResizeCase s id n.
Proof.
  intros s id n [H|[H|[H|[H|[H|H]]]]]; unfold ResizeCase.
  - left. exact H.
  - right; left. exact H.
  - right; right; left. exact H.
  - right; right; right; left. exact H.
  - do 6 right. left. exact H.
  - do 9 right. left. exact H.
Qed.

Lemma big_content_stream : forall s id V, big_content s id V ->
  exists e, nthN (dirs s) id = Some e /\ d_type e = TStream.
Proof. intros s id V (e & l & He & Ht & _). exists e. auto. Qed.

Lemma empty_stream_stream : forall s id, SA.empty_stream s id ->
  exists e, nthN (dirs s) id = Some e /\ d_type e = TStream.
Proof. intros s id (e & He & Ht & _). exists e. auto. Qed.

Theorem resize_caseB_w2 : forall s id n,
  W2 s -> ResizeCaseB s id n -> exists s', resize id n s = (s', Ok tt) /\ W2 s'.
Proof.
  intros s id n HW HR. pose proof HW as (HT & HD & HFA & HTd). pose proof (proj1 HT) as HCD.
  destruct (resize_case_cohtree s id n HT (ResizeCaseB_ResizeCase s id n HR)) as (s0 & R0 & HT0 & _).
  assert (Hfin : forall s' e, resize id n s = (s', Ok tt) -> nthN (dirs s) id = Some e -> d_type e = TStream ->
            DInv s' -> FreeAll s' -> exists s', resize id n s = (s', Ok tt) /\ W2 s').
  { intros s' e R He Ht HD' HFA'. assert (s0 = s') by congruence. subst s0.
    exists s'. split; [exact R|]. apply (w2_after s s' id e HW He Ht HT0 HD' HFA').
    pose proof (framesR_resize id n s) as D. rewrite R in D. exact D. }
  destruct HR as [(V & ids & HB & Hsi & H1 & H2 & H3 & H4)|
                 [(V & ids & base & nw & HB & Hsi & H1 & H2 & H3 & H4 & H5)|
                 [(V & ids & k & H0 & H1 & H2 & HB & Hsi & H3 & H4 & H5 & H6 & H7)|
                 [(V & ids & HB & Hsi & H1 & H2 & H3)|
                 [(base & nw & He & H1 & H2 & H3 & H4 & H5)|
                  (V & ids & HB & Hsi & ->)]]]]].
  - destruct (big_content_stream s id V HB) as (e & He & Ht).
    destruct (resize_big_same_dinv s id V ids n HCD HD HFA HB Hsi H1 H2 H3 H4) as (s' & R & _ & HD' & HFA').
    exact (Hfin s' e R He Ht HD' HFA').
  - destruct (big_content_stream s id V HB) as (e & He & Ht).
    destruct (resize_big_reuse_dinv s id V ids n base nw HCD HD HFA HB Hsi H1 H2 H3 H4 H5) as (s' & R & _ & HD' & HFA').
    exact (Hfin s' e R He Ht HD' HFA').
  - destruct (big_content_stream s id V HB) as (e & He & Ht).
    destruct (resize_big_append_dinv s id V ids n k HCD HD HFA H0 H1 H2 HB Hsi H3 H4 H5 H6 H7)
      as (s' & R & _ & HD' & HFA').
    exact (Hfin s' e R He Ht HD' HFA').
  - destruct (big_content_stream s id V HB) as (e & He & Ht).
    destruct (resize_big_release_dinv s id V ids n HCD HD HFA HB Hsi H1 H2 H3) as (s' & R & _ & HD' & HFA').
    exact (Hfin s' e R He Ht HD' HFA').
  - destruct (empty_stream_stream s id He) as (e & Hn & Ht).
    destruct (resize_empty_big_dinv s id n base nw HCD HD HFA He H1 H2 H3 H4 H5) as (s' & R & _ & HD' & HFA').
    exact (Hfin s' e R Hn Ht HD' HFA').
  - destruct (big_content_stream s id V HB) as (e & He & Ht).
    destruct (resize_big_to_zero_dinv s id V ids HCD HD HFA HB Hsi) as (s' & R & _ & HD' & HFA').
    exact (Hfin s' e R He Ht HD' HFA').
Qed.

(* the write cases of DataPersist2.WriteCase that stay at the FAT level, and
   every covered write (large or small stream, nothing allocated) *)
Definition WriteCaseB (s : cstate) (id off : N) (buf : list byte) : Prop :=
  (CoveredWrite s id off buf /\ LenFits s (off + lenN buf)) \/
  (SA.empty_stream s id /\ off = 0 /\ MINI_STREAM_CUTOFF <= lenN buf /\
     lenN buf <= N.min (MAX_REGULAR_SECTOR * slen s) (stream_len_mask (ver s)) /\
     (lenN buf + slen s - 1) / slen s <= lenN (free s)) \/
  (exists V ids, big_content s id V /\ stream_ids s id ids /\ off <= lenN V /\
     N.max (lenN V) (off + lenN buf) <= N.min (MAX_REGULAR_SECTOR * slen s) (stream_len_mask (ver s)) /\
     (off + lenN buf + slen s - 1) / slen s - lenN ids <= lenN (free s)).

Lemma WriteCaseB_WriteCase : forall s id off buf, WriteCaseB s id off buf -> WriteCase s id off buf.
Proof.
  intros s id off buf [H|[H|H]]; unfold WriteCase.
  - left. exact H.
  - do 3 right. left. exact H.
  - do 5 right. exact H.
Qed.

Theorem write_caseB_w2 : forall s id off buf,
  W2 s -> WriteCaseB s id off buf -> exists s', write_data id off buf s = (s', Ok tt) /\ W2 s'.
Proof.
  intros s id off buf HW HC. pose proof HW as (HT & HD & HFA & HTd). pose proof (proj1 HT) as HCD.
  destruct (write_case_cohtree s id off buf HT (WriteCaseB_WriteCase s id off buf HC)) as (s0 & R0 & HT0 & _).
  assert (Hfin : forall s' e, write_data id off buf s = (s', Ok tt) -> nthN (dirs s) id = Some e ->
            d_type e = TStream -> DInv s' -> FreeAll s' ->
            exists s', write_data id off buf s = (s', Ok tt) /\ W2 s').
  { intros s' e R He Ht HD' HFA'. assert (s0 = s') by congruence. subst s0.
    exists s'. split; [exact R|]. apply (w2_after s s' id e HW He Ht HT0 HD' HFA').
    pose proof (framesR_write_data id off buf s) as D. rewrite R in D. exact D. }
  destruct HC as [(HCW & HL)|[(He & -> & H1 & H2 & H3)|(V & ids & HB & Hsi & H1 & H2 & H3)]].
  - pose proof (CohData'_CohData s HCD) as HCD0.
    destruct (covered_write_dinv s id off buf HCD0 HD HCW HL) as (s' & R & _ & HD').
    destruct (covered_write_tables s id off buf s' HCD0 HCW R) as [Hf Hfr].
    destruct (covered_write_stream s id off buf HCW) as (e & He & Ht).
    exact (Hfin s' e R He Ht HD' (freeall_same_tables s s' Hf Hfr HFA)).
  - destruct (empty_stream_stream s id He) as (e & Hn & Ht).
    destruct (write_empty_big_dinv s id buf HCD HD HFA He H1 H2 H3) as (s' & R & _ & HD' & HFA').
    exact (Hfin s' e R Hn Ht HD' HFA').
  - destruct (big_content_stream s id V HB) as (e & He & Ht).
    destruct (write_big_alloc_dinv s id V ids off buf HCD HD HFA HB Hsi H1 H2 H3) as (s' & R & _ & HD' & HFA').
    exact (Hfin s' e R He Ht HD' HFA').
Qed.

(* ---- through the handle ---- *)
Definition CWdB (id off : N) (bs : list byte) (s : cstate) : Prop := WriteCaseB s id off bs.
Definition CRdB (id n : N) (s : cstate) : Prop := ResizeCaseB s id n.

Definition cov_flushB (h : handle) (s : cstate) : Prop :=
  h_dirty h = true -> CWdB (h_id h) (h_off h) (buf_filled (h_buf h)) s.

Definition covered_opB (o : op) (h : handle) (s : cstate) : Prop :=
  match o with
  | OHRead _ _ | OHFill _ | OHWrite _ _ | OHSeek _ _ _ | OHFlush _ | OHDrop _ => cov_flushB h s
  | OHSetLen _ n =>
      cov_flushB h s /\ (n <> h_total h -> CRdB (h_id h) n (fst (flush_changes' h s)))
  | _ => True
  end.

Lemma w2_rd : forall id off n s, W2 s ->
  W2 (fst (read_data id off n s)) /\ Rtriv id s (fst (read_data id off n s)).
Proof. intros. rewrite read_data_pure. split; [assumption|exact I]. Qed.
Lemma w2_sl : forall id s, W2 s ->
  W2 (fst (stream_len_of id s)) /\ Rtriv id s (fst (stream_len_of id s)).
Proof. intros. rewrite stream_len_of_pure. split; [assumption|exact I]. Qed.
Lemma w2_wr : forall id off bs s, W2 s -> CWdB id off bs s ->
  W2 (fst (write_data id off bs s)) /\ Rtriv id s (fst (write_data id off bs s)).
Proof.
  intros id off bs s HG HC. destruct (write_caseB_w2 s id off bs HG HC) as (s' & E & H).
  rewrite E. split; [exact H|exact I].
Qed.
Lemma w2_rs : forall id n s, W2 s -> CRdB id n s ->
  W2 (fst (resize id n s)) /\ Rtriv id s (fst (resize id n s)).
Proof.
  intros id n s HG HC. destruct (resize_caseB_w2 s id n HG HC) as (s' & E & H).
  rewrite E. split; [exact H|exact I].
Qed.

Theorem hop_run_w2 : forall o h s, W2 s -> covered_opB o h s -> W2 (fst (hop_run o h s)).
Proof.
  intros o h s HA HC.
  assert (Rr : forall id s0, Rtriv id s0 s0) by (intros; exact I).
  assert (Rt : forall id a b c, Rtriv id a b -> Rtriv id b c -> Rtriv id a c) by (intros; exact I).
  pose proof (h_read_C cstate read_data write_data stream_len_of W2 Rtriv CWdB Rr Rt w2_rd w2_sl w2_wr) as Xread.
  pose proof (h_fill_buf_C cstate read_data write_data stream_len_of W2 Rtriv CWdB Rr Rt w2_rd w2_sl w2_wr) as Xfill.
  pose proof (h_write_C cstate write_data stream_len_of W2 Rtriv CWdB Rr Rt w2_sl w2_wr) as Xwrite.
  pose proof (h_seek_C cstate write_data stream_len_of W2 Rtriv CWdB Rr Rt w2_sl w2_wr) as Xseek.
  pose proof (h_set_len_C cstate write_data resize stream_len_of W2 Rtriv CWdB CRdB Rr Rt w2_sl w2_wr w2_rs) as Xsetlen.
  pose proof (h_flush_C cstate write_data stream_len_of W2 Rtriv CWdB Rr Rt w2_sl w2_wr) as Xflush.
  pose proof (flush_changes_C cstate write_data stream_len_of W2 Rtriv CWdB Rr Rt w2_sl w2_wr) as Xfc.
  destruct o; cbn [hop_run covered_opB] in *; cbv zeta; cbn [fst snd]; try exact HA.
  - exact (proj1 (proj1 (Xread h n s HA HC))).
  - exact (proj1 (proj1 (Xfill h s HA HC))).
  - exact (proj1 (proj1 (Xwrite h bs s HA HC))).
  - exact (proj1 (proj1 (Xseek h w z s HA HC))).
  - destruct HC as [HC1 HC2]. exact (proj1 (proj1 (Xsetlen h n s HA HC1 HC2))).
  - exact (proj1 (proj1 (Xflush h s HA HC))).
  - exact (proj1 (proj1 (Xfc h s HA HC))).
Qed.

(* ---- the step function: handle operations (reads, writes, seeks, set_len,
   flush, drop) in the cases above, reopening, queries ---- *)
Definition step_okB (f : fstate) (o : op) : Prop :=
  match handle_slot o with
  | Some i => forall h, nthN (hs f) i = Some (Some h) -> covered_opB o h (cs f)
  | None =>
    match o with
    | OReopen _ => all_clean f
    | ORemoveStream _ => False
    | _ => query_op o
    end
  end.

Theorem step_w2 : forall f now o, W2 (cs f) -> step_okB f o -> W2 (cs (fst (step f now o))).
Proof.
  intros f now o HG Hok. unfold step_okB in Hok.
  destruct (handle_slot o) as [i|] eqn:Eslot.
  - destruct (nthN (hs f) i) as [[h|]|] eqn:Eh.
    + destruct (step f now o) as [f' r] eqn:Es. cbn [fst].
      destruct (step_handle_shape f now o i h f' r Eslot Eh Es) as (E1 & _).
      rewrite E1. exact (hop_run_w2 o h (cs f) HG (Hok h eq_refl)).
    + rewrite (step_no_handle f now o i Eslot); [exact HG|]. intros h E. rewrite Eh in E. discriminate E.
    + rewrite (step_no_handle f now o i Eslot); [exact HG|]. intros h E. rewrite Eh in E. discriminate E.
  - assert (Hsame : cs (fst (step f now o)) = cs f -> W2 (cs (fst (step f now o)))).
    { intros ->. exact HG. }
    destruct o; cbn [handle_slot] in Eslot; try discriminate Eslot; cbn [query_op] in Hok;
      try contradiction; cbn [step].
    + apply Hsame, with_new_handle_pure, pure_api_open_stream.
    + apply Hsame, PersistProofs.with_cs_pure, PersistProofs.pure_api_exists.
    + apply Hsame, PersistProofs.with_cs_pure, PersistProofs.pure_api_is_stream.
    + apply Hsame, PersistProofs.with_cs_pure, PersistProofs.pure_api_is_storage.
    + apply Hsame, PersistProofs.with_cs_pure, PersistProofs.pure_api_entry.
    + apply Hsame, PersistProofs.with_cs_pure, PersistProofs.pure_api_root_entry.
    + apply Hsame, PersistProofs.with_cs_pure, PersistProofs.pure_api_read_storage.
    + apply Hsame, PersistProofs.with_cs_pure, PersistProofs.pure_api_read_root.
    + apply Hsame, PersistProofs.with_cs_pure, PersistProofs.pure_api_walk.
    + apply Hsame, PersistProofs.with_cs_pure, PersistProofs.pure_api_walk_storage.
    + apply Hsame. reflexivity.
    + apply Hsame. reflexivity.
    + cbv zeta. rewrite (drop_all_clean _ f 0 Hok).
      rewrite (cohdata'_reopens (cs f) (proj1 (proj1 HG)) strict). cbn [fst cs].
      apply w2_reopened. exact HG.
Qed.

Fixpoint hist_okB (f : fstate) (l : list (N * op)) : Prop :=
  match l with
  | [] => True
  | (now, o) :: t => step_okB f o /\ hist_okB (fst (step f now o)) t
  end.

Theorem history_w2 : forall l f, W2 (cs f) -> hist_okB f l -> W2 (cs (fst (ReadonlyTotal.run_ops f l))).
Proof.
  induction l as [|[now o] t IH]; intros f HG Hrun; [exact HG|].
  cbn [hist_okB] in Hrun. destruct Hrun as [Hok Hrun].
  rewrite PersistProofs.run_ops_cons. apply IH; [|exact Hrun]. apply step_w2; assumption.
Qed.

Lemma hist_okB_app : forall l1 l2 f, hist_okB f (l1 ++ l2) -> hist_okB f l1.
Proof.
  induction l1 as [|[now o] t IH]; intros l2 f H; [exact I|].
  cbn [app hist_okB] in *. destruct H as [H1 H2]. split; [exact H1|]. eapply IH. exact H2.
Qed.

(* C03 along histories that allocate and release sectors, truncate, reopen:
   after every prefix the independent checker accepts the bytes, the bytes
   reopen to the cached state, and no sector is leaked *)
Theorem wf_data_history2 : forall (l1 l2 : list (N * op)) f,
  W2 (cs f) -> hist_okB f (l1 ++ l2) ->
  wf_check (concat_img (img (cs (fst (ReadonlyTotal.run_ops f l1))))) = 0.
Proof.
  intros l1 l2 f HG Hrun. apply w2_image_wf.
  apply history_w2; [exact HG|]. eapply hist_okB_app. exact Hrun.
Qed.

(* ================================================================== *)
(* 5. non-vacuity                                                      *)
(* ================================================================== *)
Definition freeall_b (s : cstate) : bool :=
  forallb (fun xv : N * N => negb (snd xv =? FREE_SECTOR) || memN (fst xv) (free s)) (index_from (fat s) 0).

Lemma freeall_b_sound : forall s, freeall_b s = true -> FreeAll s.
Proof.
  intros s H x Hx. unfold freeall_b in H. rewrite forallb_forall in H.
  assert (Hin : In (x, FREE_SECTOR) (index_from (fat s) 0))
    by (replace x with (0 + x) by lia; apply index_from_In; exact Hx).
  specialize (H _ Hin). cbn [fst snd] in H. rewrite N.eqb_refl in H. cbn [negb orb] in H.
  apply WalkProofs.memN_In. exact H.
Qed.

(* [CohTree] alone does not give [DInv]: the same file with a large stream whose
   recorded length needs one sector less than its chain has passes every clause
   of [CohData'] (the chain still covers the length), but rule 42 of the
   checker wants the exact count.  Hence [Exact] / the counting argument. *)

Module Example7.
  Import HandleFrame.Example DataPersist.Example Example1 Example4.

  (* the file of HandleFrame.Example ("/a" 100 bytes in the mini stream, "/b"
     5000 bytes in ten sectors) satisfies the full invariant *)
  Lemma fA_w2 : W2 (cs fA).
  Proof.
    split; [exact fA_ct|].
    split; [apply dinv_b_sound; vm_compute; reflexivity|].
    split; [apply freeall_b_sound; vm_compute; reflexivity|].
    apply (relen_b_tidy (dirs (Examples.reach V3 [(0, Examples.pa); (1, Examples.pb)] []))).
    - vm_compute. reflexivity.
    - apply Examples.reach_nil_tidy. vm_compute. repeat split; reflexivity.
  Qed.

  (* growth at the end of the file, release, reopening (the free stack is
     rebuilt from the FREE cells), growth into a released sector, a buffered
     write and its flush *)
  Definition hist4 : list (N * op) :=
    [(0, OHSetLen 1 6000); (0, OHSetLen 1 4200); (0, OReopen true);
     (0, OOpenStream 1 [47; 98]); (0, OHSetLen 1 5000); (0, OHWrite 1 [5; 5]); (0, OHFlush 1)].

  Definition k4 : fstate := Eval vm_compute in fst (step g2 0 (OReopen true)).
  Definition k5 : fstate := Eval vm_compute in fst (step k4 0 (OOpenStream 1 [47; 98])).
  Definition k6 : fstate := Eval vm_compute in fst (step k5 0 (OHSetLen 1 5000)).
  Definition k7 : fstate := Eval vm_compute in fst (step k6 0 (OHWrite 1 [5; 5])).

  Example hist4_results :
    snd (ReadonlyTotal.run_ops fA hist4) = [Ok VUnit; Ok VUnit; Ok VUnit; Ok VUnit; Ok VUnit; Ok (VNum 2); Ok VUnit].
  Proof. vm_compute. reflexivity. Qed.

  Example hist4_ok : hist_okB fA hist4.
  Proof.
    assert (A1 : nthN (hs fA) 1 = Some (Some (slot fA 1))) by (vm_compute; reflexivity).
    assert (B1 : nthN (hs g1) 1 = Some (Some (slot g1 1))) by (vm_compute; reflexivity).
    assert (F1 : nthN (hs k5) 1 = Some (Some (slot k5 1))) by (vm_compute; reflexivity).
    assert (G1 : nthN (hs k6) 1 = Some (Some (slot k6 1))) by (vm_compute; reflexivity).
    assert (H1 : nthN (hs k7) 1 = Some (Some (slot k7 1))) by (vm_compute; reflexivity).
    unfold hist4. cbn [hist_okB].
    change (fst (step fA 0 (OHSetLen 1 6000))) with g1.
    change (fst (step g1 0 (OHSetLen 1 4200))) with g2.
    change (fst (step g2 0 (OReopen true))) with k4.
    change (fst (step k4 0 (OOpenStream 1 [47; 98]))) with k5.
    change (fst (step k5 0 (OHSetLen 1 5000))) with k6.
    change (fst (step k6 0 (OHWrite 1 [5; 5]))) with k7.
    unfold step_okB. cbn [handle_slot query_op].
    split.
    { intros h E. the_handle E A1. cbn [covered_opB]. split; [clean_flush|]. intros _.
      rewrite flush_clean by (vm_compute; reflexivity). cbn [fst].
      assert (Hid : h_id (slot fA 1) = 2) by (vm_compute; reflexivity). rewrite Hid.
      destruct (big_check (cs fA) Vb idsb fA_wf) as [HB Hsi]; [vm_compute; reflexivity|].
      right; right; left. exists Vb, idsb, 2%nat.
      split; [arith|]. split; [arith|]. split; [arith|]. split; [exact HB|]. split; [exact Hsi|].
      split; [arith|]. split; [arith|]. split.
      { intros j Hj. assert (j = 0 \/ j = 1) as [-> | ->] by lia; arith. }
      split; [arith|unfold LenFits; arith]. }
    split.
    { intros h E. the_handle E B1. cbn [covered_opB]. split; [clean_flush|]. intros _.
      rewrite flush_clean by (vm_compute; reflexivity). cbn [fst].
      assert (Hid : h_id (slot g1 1) = 2) by (vm_compute; reflexivity). rewrite Hid.
      assert (Hwf : AllStreamsWf (cs g1)) by wf_of (cs g1).
      destruct (big_check (cs g1) V1 ids1 Hwf) as [HB Hsi]; [vm_compute; reflexivity|].
      right; right; right; left. exists V1, ids1. split; [exact HB|]. split; [exact Hsi|].
      split; [arith|]. split; arith. }
    split; [apply all_clean_b_sound; vm_compute; reflexivity|].
    split; [exact I|].
    split.
    { intros h E. the_handle E F1. cbn [covered_opB]. split; [clean_flush|]. intros _.
      rewrite flush_clean by (vm_compute; reflexivity). cbn [fst].
      assert (Hid : h_id (slot k5 1) = 2) by (vm_compute; reflexivity). rewrite Hid.
      assert (Hwf : AllStreamsWf (cs k5)) by wf_of (cs k5).
      destruct (big_check (cs k5) V2 ids2 Hwf) as [HB Hsi]; [vm_compute; reflexivity|].
      right; left. exists V2, ids2, [13; 14], [15]. split; [exact HB|]. split; [exact Hsi|].
      split; [arith|]. split; [arith|]. split; [arith|]. split; [arith|unfold LenFits; arith]. }
    split.
    { intros h E. the_handle E G1. cbn [covered_opB]. clean_flush. }
    split; [|exact I].
    { intros h E. the_handle E H1. cbn [covered_opB]. intros _.
      assert (Hid : h_id (slot k7 1) = 2) by (vm_compute; reflexivity).
      assert (Hoff : h_off (slot k7 1) = 0) by (vm_compute; reflexivity).
      assert (Hbuf : buf_filled (h_buf (slot k7 1)) = [5; 5]) by (vm_compute; reflexivity).
      rewrite Hid, Hoff, Hbuf.
      assert (Hwf : AllStreamsWf (cs k7)) by wf_of (cs k7).
      destruct (big_check (cs k7) V6 ids6 Hwf) as [HB Hsi]; [vm_compute; reflexivity|].
      left. split; [|unfold LenFits; arith].
      left. exists V6, ids6. split; [exact HB|]. split; [exact Hsi|].
      split; [arith|]. split; arith. }
  Qed.

  (* the checker accepts the bytes after every prefix of the history ... *)
  Example hist4_wf : forall l1 l2, hist4 = l1 ++ l2 ->
    wf_check (concat_img (img (cs (fst (ReadonlyTotal.run_ops fA l1))))) = 0.
  Proof.
    intros l1 l2 E. apply (wf_data_history2 l1 l2 fA fA_w2). rewrite <- E. exact hist4_ok.
  Qed.

  (* ... the full invariant holds at the end ... *)
  Example hist4_w2 : W2 (cs (fst (ReadonlyTotal.run_ops fA hist4))).
  Proof. exact (history_w2 hist4 fA fA_w2 hist4_ok). Qed.

  (* ... and by evaluation *)
  Example hist4_evaluated :
    let s := cs (fst (ReadonlyTotal.run_ops fA hist4)) in
    wf_check (concat_img (img s)) = 0 /\ dinv_b s = true /\ freeall_b s = true /\ free s = [13; 14].
  Proof. repeat split; vm_compute; reflexivity. Qed.
End Example7.

(* [CohTree s -> DInv s] is not provable: the example file with the length of
   "/b" lowered from 5000 to 4100 by writing its entry back (cache and disk;
   the ten-sector chain stays) satisfies all of DataPersist2's invariant -- the
   chain still covers the length, the bytes reopen to the cached state -- but
   the checker rejects it with rule 42 (a chain longer than the length needs).
   The model never produces this state; it shows that exact chain lengths have
   to be carried separately, as [W2] does. *)
Module Counter.
  Import HandleFrame.Example DataPersist.Example Example1.

  Definition sbad : cstate := Eval vm_compute in fst (update_entry 2 4 4100 (cs fA)).

  Example sbad_made : update_entry 2 4 4100 (cs fA) = (sbad, Ok tt).
  Proof. vm_compute. reflexivity. Qed.

  Example cohtree_without_dinv :
    CohTree sbad /\ wf_check (concat_img (img sbad)) = 42 /\ ~ DInv sbad.
  Proof.
    assert (HCD : CohData' sbad) by (apply cohdata'_b_sound; vm_compute; reflexivity).
    assert (He : exists e, nthN (dirs (cs fA)) 2 = Some e /\ d_type e = TStream /\
                           dirs sbad = updN (dirs (cs fA)) 2 (set_start_len e 4 4100)).
    { eexists. split; [vm_compute; reflexivity|]. split; vm_compute; reflexivity. }
    destruct He as (e & He & Ht & Hd).
    assert (HT : CohTree sbad).
    { split; [exact HCD|].
      apply (TreePart_startlen (cs fA) sbad 2 e 4 4100 (proj2 fA_ct) (cd_coh _ (proj1 fA_ct)) He Ht).
      - vm_compute. discriminate.
      - vm_compute. discriminate.
      - exact Hd.
      - reflexivity.
      - reflexivity. }
    assert (Hwf : wf_check (concat_img (img sbad)) = 42) by (vm_compute; reflexivity).
    split; [exact HT|]. split; [exact Hwf|].
    intro HD.
    assert (HTd : Tidy (dirs sbad)).
    { rewrite Hd. apply tidy_updN_start_len; [exact (proj2 (proj2 (proj2 Example7.fA_w2)))|exact He| |];
        rewrite Ht; discriminate. }
    pose proof (dinv_image_wf sbad (cohtree_dbase sbad HT) HD HTd) as H0.
    rewrite Hwf in H0. discriminate H0.
  Qed.
End Counter.

(* ================================================================== *)
(* 6. removal of a stream that holds data                              *)
(* ================================================================== *)

(* ---- [Tidy] after api_remove_stream, whatever the stream holds ---- *)
Theorem remove_stream_tidy_data : forall p s s',
  Tidy (dirs s) -> api_remove_stream p s = (s', Ok tt) -> Tidy (dirs s').
Proof.
  intros p s s' HTd H.
  destruct (Tidy_inv _ HTd) as (t & U & HN & ND & HUin & HUlen).
  destruct (MutRefine.NRU_tree _ _ _ _ HN ND) as [HT HU].
  destruct (MutRefine.remove_stream_refines ctrue ctrue p 0 s s' t HT HU (fun _ _ _ c => c) H)
    as (t' & Hspec & HT' & HU').
  pose proof HN as [HNR _].
  destruct (QueryRefine.NodeRep_root_dir _ _ _ _ _ HNR) as (m0 & ks0 & Et).
  pose proof (spec_count_remove_stream _ _ _ _ _ _ _ Et Hspec) as Hcount.
  unfold api_remove_stream, remove_stream_names in H.
  destruct (MutRefine.names_lookup_inv _ _ _ _ _ _ H) as (names & r & En & Hlk & HK).
  destruct r as [id0|]; [|discriminate HK].
  binv HK e s1 H1 H2. apply dir_entry_inv in H1. destruct H1 as [-> He].
  destruct (objtype_eqb (d_type e) TStream) eqn:T1; cbn [negb] in H2; [|discriminate H2].
  destruct (d_child e =? NO_STREAM) eqn:Ch; cbn [negb] in H2; [|discriminate H2].
  apply objtype_eqb_true in T1.
  binv H2 u1 s1 H1 H2.
  assert (HRL : MutRefine.RootLen (dirs s) (dirs s1)).
  { destruct (d_len e <? MINI_STREAM_CUTOFF).
    - eapply MutRefine.free_mini_chain_rootlen. exact H1.
    - apply MutRefine.RootLen_eq. eapply DirProofs.frames_run; [apply HandleFrame.frames_free_chain|exact H1]. }
  destruct (lastN names) as [nm|] eqn:Hlast; [|discriminate H2].
  destruct (MutRefine.lookup_inv _ _ _ _ _ _ H2) as (pr & Hlkp & H3). clear H2.
  destruct pr as [pid|]; [|discriminate H3].
  pose proof (MutRefine.lookup_get _ _ _ _ _ HT Hlk) as Hg.
  destruct (Tree.get t names) as [n|] eqn:G; [|contradiction]. destruct Hg as (nm' & HNn).
  assert (exists st bs, n = Tree.Leaf st bs) as (st & bs & En').
  { destruct n as [st bs|m' ks']; [eauto|].
    apply QueryRefine.NodeRep_dir in HNn. destruct HNn as (_ & e0 & He0 & _ & Ht & _).
    assert (e0 = e) by congruence. subst e0. rewrite Ht in T1.
    destruct (QueryRefine.is_nil names); discriminate T1. }
  (* the table after the release of the data: only the root's length moved *)
  destruct (MutRefine.rootlen_tree ctrue _ _ t HRL HT HU) as [HT1 HU1].
  destruct (MutRefine.tree_NRU _ _ _ HT1 HU1) as (U1 & HN1 & ND1).
  pose proof HRL as (RL & RO & RR).
  assert (Hroot : exists er, nthN (dirs s) ROOT_STREAM_ID = Some er /\ d_type er = TRoot).
  { rewrite Et in HN. apply MutRefine.NRU_dir in HN. destruct HN as (_ & er & Her & _ & Ht & _). eauto. }
  destruct Hroot as (er & Her & Hert).
  assert (HrU : In ROOT_STREAM_ID U).
  { apply HUin. exists er. split; [exact Her|]. intros ->. discriminate Hert. }
  assert (Hnb : forall i, nonblank (dirs s1) i -> In i U).
  { intros i (x & Hx & Hne). destruct (N.eq_dec i ROOT_STREAM_ID) as [->|Hi]; [exact HrU|].
    apply HUin. exists x. rewrite <- (RO i Hi). auto. }
  assert (Hincl : incl U1 U).
  { intros i Hi. apply Hnb. destruct (MutRefine.NRU_typed _ _ _ _ _ _ _ HN1 i Hi) as (x & Hx & Ht).
    exists x. split; [exact Hx|]. intros ->. apply Ht. reflexivity. }
  assert (HU1len : length U1 = node_count t) by (destruct HN1 as [_ HA]; exact (QueryRefine.AllIds_length _ _ _ _ HA)).
  assert (Hrev : incl U U1) by (apply (NoDup_length_incl ND1); [lia|exact Hincl]).
  rewrite <- (MutRefine.rootlen_lookup _ _ HRL) in Hlk.
  assert (He1 : nthN (dirs s1) id0 = Some e).
  { destruct (N.eq_dec id0 ROOT_STREAM_ID) as [->|Hi]; [|rewrite (RO id0 Hi); exact He].
    exfalso. assert (er = e) by congruence. subst er. rewrite T1 in Hert. discriminate Hert. }
  apply (remove_tidy_core s1 s' t U1 t' names id0 e nm pid n HN1 ND1); try assumption.
  - intros i Hi. apply Hrev. apply Hnb. exact Hi.
  - rewrite T1. discriminate.
  - left. eauto.
Qed.


(* ---- the pigeonhole step when the other entries keep only their type,
   start sector and length (removal relinks and recolours siblings) ---- *)
Lemma tsl_big_b : forall a b, tsl a b -> big_b b = big_b a.
Proof. intros a b (Ht & _ & Hl). unfold big_b, is_stream_b. rewrite Ht, Hl. reflexivity. Qed.

Lemma tsl_bigl : forall s a b, tsl a b -> bigl s b = bigl s a.
Proof. intros s a b H. unfold bigl. rewrite (tsl_big_b a b H). destruct H as (_ & Hs & _). rewrite Hs. reflexivity. Qed.

Section FatCount2.
Variables s s' : cstate.
Variables (r r' : dirent) (rids mfids dids rids' mfids' dids' : list N).
Variables (id : N) (e e' : dirent).
Hypothesis HCD : CohData' s.
Hypothesis HSD : SD s r rids mfids dids.
Hypothesis HD : DInv s.
Hypothesis HFA : FreeAll s.
Hypothesis HCD' : CohData' s'.
Hypothesis HSD' : SD s' r' rids' mfids' dids'.
Hypothesis Hslen : slen s' = slen s.
Hypothesis Hsys : lenN rids <= lenN rids' /\ lenN mfids <= lenN mfids' /\ lenN dids <= lenN dids' /\
                  lenN (difat s) <= lenN (difat s').
Hypothesis Hlen : lenN (dirs s') = lenN (dirs s).
Hypothesis Hid : id <> ROOT_STREAM_ID.
Hypothesis He : nthN (dirs s) id = Some e.
Hypothesis He' : nthN (dirs s') id = Some e'.
Hypothesis Hoth : forall j a, j <> id -> j <> ROOT_STREAM_ID -> nthN (dirs s) j = Some a ->
  exists b, nthN (dirs s') j = Some b /\ tsl a b.
Hypothesis Hcount :
  nsect s' + lenN (free s) + lenN (bigl s e)
  <= nsect s + lenN (free s') + (if big_b e' then ceil_div (d_len e') (slen s) else 0).

Let K := lenN (bigl s e).
Let K' := if big_b e' then ceil_div (d_len e') (slen s) else 0.
Let w (ie : N * dirent) := lenN (bigw s ie).
Let w' (ie : N * dirent) := lenN (bigw s' ie).
Let dK (ie : N * dirent) := if fst ie =? id then K else 0.
Let dK' (ie : N * dirent) := if fst ie =? id then K' else 0.

Let SW' : SA.SWfX_at s' r' rids' mfids' dids' SA.noX := proj1 HSD'.
Let W : SA.MWf_at s r rids mfids dids := SA.sw_m _ _ _ _ _ _ (proj1 HSD).
Let W' : SA.MWf_at s' r' rids' mfids' dids' := SA.sw_m _ _ _ _ _ _ SW'.

Lemma fc2_pointwise :
  Forall2 (fun a b => w a + dK' a <= w' b + dK b) (index_from (dirs s) 0) (index_from (dirs s') 0).
Proof.
  apply F2_index_from; [symmetry; exact Hlen|].
  intros j a b Ha Hb. rewrite N.add_0_l. unfold w, w', dK, dK', bigw. cbn [fst snd].
  destruct (N.eqb_spec j id) as [->|Hj].
  - assert (a = e) by congruence. assert (b = e') by congruence. subst a b.
    fold K. unfold K'. destruct (big_b e') eqn:Eb; [|lia].
    pose proof (fc_lower s s' r' rids' mfids' dids' HSD' Hslen id e' He' Eb). lia.
  - destruct (N.eq_dec j ROOT_STREAM_ID) as [->|Hr].
    + unfold bigl at 1. rewrite (fc_root_w s r rids mfids dids HSD a Ha). cbn [lenN]. lia.
    + destruct (Hoth j a Hj Hr Ha) as (b' & Hb' & Htsl). assert (b' = b) by congruence. subst b'.
      destruct (big_b a) eqn:Eb.
      * rewrite (fc_exact_s s HD j a Ha Eb).
        pose proof (fc_lower s s' r' rids' mfids' dids' HSD' Hslen j b Hb
                      ltac:(rewrite (tsl_big_b a b Htsl); exact Eb)) as Hl.
        destruct Htsl as (_ & _ & Hln). rewrite Hln in Hl. lia.
      * unfold bigl at 1. rewrite Eb. cbn [lenN]. lia.
Qed.

Lemma fc2_idlt : id < lenN (dirs s).
Proof. eapply nthN_Some_lt. exact He. Qed.

Lemma fc2_total : lenN (cells s' rids' mfids' dids') = nsect s' /\
  sumf w' (index_from (dirs s') 0) + K = sumf w (index_from (dirs s) 0) + K'.
Proof.
  pose proof (cells_eq s r rids mfids dids HCD HSD HD HFA) as E.
  pose proof (cells_le s' r' rids' mfids' dids' HCD' HSD') as L'.
  rewrite cells_len in E, L' |- *. fold w in E. fold w' in L' |- *.
  pose proof (sumf_F2_le _ _ _ _ _ _ fc2_pointwise) as H.
  rewrite !sumf_add in H. unfold dK, dK' in H.
  rewrite (sumf_delta _ (dirs s) 0 id K') in H by (pose proof fc2_idlt; lia).
  rewrite (sumf_delta _ (dirs s') 0 id K) in H by (pose proof fc2_idlt; lia).
  fold K K' in Hcount. lia.
Qed.

Theorem fc2_cover : forall x, x < nsect s' -> In x (cells s' rids' mfids' dids').
Proof.
  destruct (cells_nodup s' r' rids' mfids' dids' HCD' HSD') as [Hnd Hb].
  apply pigeon_cover; [exact Hnd|exact Hb|]. rewrite (proj1 fc2_total). lia.
Qed.

Theorem fc2_exact : forall j x ids, nthN (dirs s') j = Some x -> d_type x = TStream ->
  MINI_STREAM_CUTOFF <= d_len x -> chain_ids_of (fat s') (d_start x) = Ok ids ->
  lenN ids = ceil_div (d_len x) (slen s').
Proof.
  intros j x ids Hx Ht Hb Hl.
  assert (Eb : big_b x = true) by (apply big_b_true; auto).
  assert (Hj : j < lenN (dirs s)) by (rewrite <- Hlen; eapply nthN_Some_lt; exact Hx).
  destruct (WalkProofs.nthN_lt_Some (dirs s) j Hj) as [a Ha].
  assert (Hsum : sumf (fun b => w' b + dK b) (index_from (dirs s') 0)
                 <= sumf (fun a => w a + dK' a) (index_from (dirs s) 0)).
  { rewrite !sumf_add. unfold dK, dK'.
    rewrite (sumf_delta _ (dirs s) 0 id K') by (pose proof fc2_idlt; lia).
    rewrite (sumf_delta _ (dirs s') 0 id K) by (pose proof fc2_idlt; lia).
    pose proof (proj2 fc2_total). lia. }
  pose proof (F2_index_from_nth _ _ _ _ _ 0 j a x (sumf_F2_eq _ _ _ _ _ _ fc2_pointwise Hsum) Ha Hx) as Heq.
  cbv beta in Heq. rewrite N.add_0_l in Heq. unfold w, w', dK, dK', bigw in Heq. cbn [fst snd] in Heq.
  assert (Hw' : lenN (bigl s' x) = lenN ids) by (unfold bigl; rewrite Eb, (cids_ok _ _ _ Hl); reflexivity).
  rewrite Hslen.
  destruct (N.eqb_spec j id) as [->|Hne].
  - assert (x = e') by congruence. subst x. assert (a = e) by congruence. subst a.
    fold K in Heq. unfold K' in Heq. rewrite Eb in Heq. lia.
  - destruct (N.eq_dec j ROOT_STREAM_ID) as [->|Hr].
    + exfalso. rewrite (SA.mw_root _ _ _ _ _ W') in Hx. injection Hx as <-.
      exact (SA.mw_rtype _ _ _ _ _ W' Ht).
    + destruct (Hoth j a Hne Hr Ha) as (b' & Hb' & Htsl). assert (b' = x) by congruence. subst b'.
      rewrite (tsl_big_b a x Htsl) in Eb.
      rewrite (fc_exact_s s HD j a Ha Eb) in Heq. destruct Htsl as (_ & _ & Hln). rewrite Hln. lia.
Qed.

Theorem fc2_fcover : forall x v, nthN (fat s') x = Some v -> v <> FREE_SECTOR -> exists o, fowns s' o x.
Proof. exact (proj1 (covered_fcover s' r' rids' mfids' dids' HCD' HSD' fc2_cover)). Qed.

Theorem fc2_freeall : FreeAll s'.
Proof. exact (proj2 (covered_fcover s' r' rids' mfids' dids' HCD' HSD' fc2_cover)). Qed.
End FatCount2.

Section MiniSame2.
Variables s s' : cstate.
Variables (id : N) (e e' : dirent).
Hypothesis HD : DInv s.
Hypothesis HC : Coherent s.
Hypothesis HC' : Coherent s'.
Hypothesis Hmf : minifat s' = minifat s.
Hypothesis Hlen : lenN (dirs s') = lenN (dirs s).
Hypothesis He : nthN (dirs s) id = Some e.
Hypothesis He' : nthN (dirs s') id = Some e'.
Hypothesis Hoth : forall j a, j <> id -> j <> ROOT_STREAM_ID -> nthN (dirs s) j = Some a ->
  exists b, nthN (dirs s') j = Some b /\ tsl a b.
Hypothesis Hns : ~ SA.small_entry e.
Hypothesis Hns' : ~ SA.small_entry e'.
Hypothesis Hemp' : d_type e' = TStream -> d_len e' = 0 -> d_start e' = END_OF_CHAIN.

Lemma ms2_back : forall j x, nthN (dirs s') j = Some x -> d_type x = TStream -> j <> id ->
  exists a, nthN (dirs s) j = Some a /\ tsl a x.
Proof.
  intros j x Hx Ht Hj. destruct (N.eq_dec j ROOT_STREAM_ID) as [->|Hr].
  - rewrite (coherent_root_type s' x HC' Hx) in Ht. discriminate Ht.
  - assert (Hjl : j < lenN (dirs s)) by (rewrite <- Hlen; eapply nthN_Some_lt; exact Hx).
    destruct (WalkProofs.nthN_lt_Some (dirs s) j Hjl) as [a Ha].
    destruct (Hoth j a Hj Hr Ha) as (b & Hb & Htsl). assert (b = x) by congruence. subst b. eauto.
Qed.

Lemma ms2_fwd : forall j a, nthN (dirs s) j = Some a -> d_type a = TStream -> j <> id ->
  exists b, nthN (dirs s') j = Some b /\ tsl a b.
Proof.
  intros j a Ha Ht Hj. destruct (N.eq_dec j ROOT_STREAM_ID) as [->|Hr].
  - rewrite (coherent_root_type s a HC Ha) in Ht. discriminate Ht.
  - exact (Hoth j a Hj Hr Ha).
Qed.

Lemma ms2_mowns : forall i x, mowns s' i x <-> mowns s i x.
Proof.
  intros i x. unfold mowns. rewrite Hmf. split.
  - intros (x0 & l & Hx0 & Ht & Hp & Hb & Hl & Hx). destruct (N.eq_dec i id) as [->|Hi].
    + exfalso. assert (x0 = e') by congruence. subst x0. apply Hns'. repeat split; assumption.
    + destruct (ms2_back i x0 Hx0 Ht Hi) as (a & Ha & (T1 & T2 & T3)).
      exists a, l. rewrite <- T1, <- T2, <- T3. auto 10.
  - intros (x0 & l & Hx0 & Ht & Hp & Hb & Hl & Hx). destruct (N.eq_dec i id) as [->|Hi].
    + exfalso. assert (x0 = e) by congruence. subst x0. apply Hns. repeat split; assumption.
    + destruct (ms2_fwd i x0 Hx0 Ht Hi) as (b & Hb' & (T1 & T2 & T3)).
      exists b, l. rewrite T1, T2, T3. auto 10.
Qed.

Lemma ms2_empty : forall i x, nthN (dirs s') i = Some x -> d_type x = TStream -> d_len x = 0 ->
  d_start x = END_OF_CHAIN.
Proof.
  intros i x Hx Ht Hl. destruct (N.eq_dec i id) as [->|Hi].
  - assert (x = e') by congruence. subst x. exact (Hemp' Ht Hl).
  - destruct (ms2_back i x Hx Ht Hi) as (a & Ha & (T1 & T2 & T3)).
    rewrite T2. apply (di_empty s HD i a Ha); congruence.
Qed.

Lemma ms2_small : forall i x ids, nthN (dirs s') i = Some x -> d_type x = TStream ->
  0 < d_len x -> d_len x < MINI_STREAM_CUTOFF ->
  chain_ids_of (minifat s') (d_start x) = Ok ids -> lenN ids = ceil_div (d_len x) MINI_SECTOR_LEN.
Proof.
  intros i x ids Hx Ht Hp Hb Hl. rewrite Hmf in Hl. destruct (N.eq_dec i id) as [->|Hi].
  - exfalso. assert (x = e') by congruence. subst x. apply Hns'. repeat split; assumption.
  - destruct (ms2_back i x Hx Ht Hi) as (a & Ha & (T1 & T2 & T3)).
    destruct (di_small s HD i a Ha ltac:(congruence) ltac:(lia) ltac:(lia)) as (l & Hl' & Hll).
    rewrite T3. congruence.
Qed.

Lemma ms2_mcover : forall x v, nthN (minifat s') x = Some v -> v <> FREE_SECTOR -> exists i, mowns s' i x.
Proof.
  intros x v Hv Hnf. rewrite Hmf in Hv. destruct (di_mini_cover s HD x v Hv Hnf) as (i & Hi).
  exists i. apply ms2_mowns. exact Hi.
Qed.
End MiniSame2.

Theorem fat_step_dinv2 : forall s s' r r' rids mfids dids rids' mfids' dids' id e e',
  CohData' s -> SD s r rids mfids dids -> DInv s -> FreeAll s ->
  CohData' s' -> SD s' r' rids' mfids' dids' ->
  slen s' = slen s ->
  lenN rids <= lenN rids' /\ lenN mfids <= lenN mfids' /\ lenN dids <= lenN dids' /\
    lenN (difat s) <= lenN (difat s') ->
  lenN (dirs s') = lenN (dirs s) ->
  id <> ROOT_STREAM_ID ->
  nthN (dirs s) id = Some e -> nthN (dirs s') id = Some e' ->
  (forall j a, j <> id -> j <> ROOT_STREAM_ID -> nthN (dirs s) j = Some a ->
     exists b, nthN (dirs s') j = Some b /\ tsl a b) ->
  nsect s' + lenN (free s) + lenN (bigl s e)
    <= nsect s + lenN (free s') + (if big_b e' then ceil_div (d_len e') (slen s) else 0) ->
  minifat s' = minifat s ->
  ~ SA.small_entry e -> ~ SA.small_entry e' ->
  (d_type e' = TStream -> d_len e' = 0 -> d_start e' = END_OF_CHAIN) ->
  DInv s' /\ FreeAll s'.
Proof.
  intros s s' r r' rids mfids dids rids' mfids' dids' id e e' HCD HSD HD HFA HCD' HSD' Hslen Hsys Hlen Hid
         He He' Hoth Hcount Hmf Hns Hns' Hemp'.
  split.
  - apply (cohdata'_exact_dinv s' HCD'). constructor.
    + exact (ms2_empty s s' id e' HD (cd_coh s' HCD') Hlen He' Hoth Hemp').
    + exact (fc2_exact s s' r r' rids mfids dids rids' mfids' dids' id e e' HCD HSD HD HFA HCD' HSD'
               Hslen Hsys Hlen Hid He He' Hoth Hcount).
    + exact (ms2_small s s' id e' HD (cd_coh s' HCD') Hmf Hlen He' Hoth Hns' Hemp').
    + exact (fc2_fcover s s' r r' rids mfids dids rids' mfids' dids' id e e' HCD HSD HD HFA HCD' HSD'
               Hslen Hsys Hlen Hid He He' Hoth Hcount).
    + exact (ms2_mcover s s' id e e' HD (cd_coh s HCD) (cd_coh s' HCD') Hmf Hlen He He' Hoth Hns Hns').
  - exact (fc2_freeall s s' r r' rids mfids dids rids' mfids' dids' id e e' HCD HSD HD HFA HCD' HSD'
             Hslen Hsys Hlen Hid He He' Hoth Hcount).
Qed.

Lemma same_payload_tsl : forall a b, same_payload a b -> tsl a b.
Proof. intros a b (_ & Ht & Hs & Hl & _). repeat split; assumption. Qed.

(* ---- api_remove_stream on a large stream: the chain goes to the free stack,
   the slot is blank, siblings are relinked ---- *)
Theorem remove_big_stream_w2 : forall p s s' id e,
  W2 s -> api_remove_stream p s = (s', Ok tt) ->
  MutRefine.id_of_path s p = Some id -> nthN (dirs s) id = Some e ->
  MINI_STREAM_CUTOFF <= d_len e -> W2 s'.
Proof.
  intros p s s' id e (HT0 & HD & HFA & HTd) H Hidp He Hbig.
  pose proof H as H0.
  destruct (remove_big_stream_cohtree p s s' id e HT0 H0 Hidp He Hbig)
    as (HT' & _ & Hun & _ & (ids0 & Hc0 & Hfr') & Hns').
  split; [exact HT'|]. split; [|split; [|exact (remove_stream_tidy_data p s s' HTd H0)]];
  destruct HT0 as [HCD HTP];
  pose proof HCD as [HC (r & rids & mfids & dids & HSD) HF Hax];
  pose proof HTP as [_ _ (t & HT & HU)];
  destruct (MutRefine.remove_stream_refines ctrue ctrue p 0 s s' t HT HU (fun _ _ _ c => c) H)
    as (t' & _ & HTt' & HU');
  unfold api_remove_stream, remove_stream_names in H;
  destruct (MutRefine.names_lookup_inv _ _ _ _ _ _ H) as (names & r0 & En & Hlk & HK);
  (destruct r0 as [id0|]; [|discriminate HK]);
  assert (id0 = id) by (unfold MutRefine.id_of_path in Hidp; rewrite En, Hlk in Hidp; congruence);
  subst id0;
  binv HK e1 s0 H1 H2; apply dir_entry_inv in H1; destruct H1 as [-> He1];
  assert (e1 = e) by congruence; subst e1;
  (destruct (objtype_eqb (d_type e) TStream) eqn:T1; cbn [negb] in H2; [|discriminate H2]);
  (destruct (d_child e =? NO_STREAM) eqn:Ch; cbn [negb] in H2; [|discriminate H2]);
  apply objtype_eqb_true in T1;
  (destruct (d_len e <? MINI_STREAM_CUTOFF) eqn:Ecut; [lia|]);
  binv H2 u1 s1 H1 H2;
  assert (Hbe : SA.big_entry e) by (split; assumption);
  destruct (SA.sw_bigchain _ _ _ _ _ _ (proj1 HSD) id e (SA.noX_not _) He Hbe) as (ids & Hc & _);
  destruct (free_whole_ready s r rids mfids dids id e ids HCD HSD He Hbe Hc)
    as (s1' & Efree & HC1 & HF1 & SW1 & HQ1 & Ho1 & Fr1 & N1 & Hmono & Hfu1);
  destruct u1; rewrite H1 in Efree; injection Efree as <-;
  destruct (SA.Q_fields s s1 HQ1) as (Hmf1 & Hmfr1 & _ & Hd1 & _ & Hv1 & Hsl1);
  (destruct (lastN names) as [nm|] eqn:Hlast; [|discriminate H2]);
  destruct (MutRefine.lookup_inv _ _ _ _ _ _ H2) as (pr & Hlkp & H3); clear H2;
  (destruct pr as [pid|]; [|discriminate H3]);
  pose proof (TreePart_same_dirs s s1 HTP Hd1 Hv1 Hmf1) as HTP1;
  (destruct (remove_entry_coh s1 s' names id e nm pid HC1) as (HC' & HTP' & Hun' & Hidr & Hst & dd & Hdd & F);
    try assumption;
    [intros d m Hd Hm; rewrite (swfx_dir_ids _ _ _ _ _ _ _ SW1 Hd), (swfx_mini_ids _ _ _ _ _ _ _ SW1 Hm);
       apply avoids_sym; exact (proj2 HSD)
    |rewrite Hd1; exact Hlk
    |rewrite Hd1; exact He
    |rewrite T1; discriminate
    |exists t'; split; assumption
    |]);
  assert (dd = dids) by exact (swfx_dir_ids _ _ _ _ _ _ _ SW1 Hdd); subst dd;
  destruct (swfx_payload s1 s' r rids mfids dids id dids SW1 F Hun' Hidr Hst) as (r' & Hr' & Pr & SW');
  pose proof F as (F1 & F2 & F3 & F4 & F5 & F6 & F7 & F8 & F9 & F10 & F11 & F12 & F13 & F14 & F15);
  assert (HSD' : SD s' r' rids mfids dids) by (split; [exact SW'|exact (proj2 HSD)]);
  assert (Hsl' : slen s' = slen s) by (unfold slen; rewrite F1, Hv1; reflexivity);
  assert (Hids : ids0 = ids) by congruence; subst ids0;
  (destruct (fat_step_dinv2 s s' r r' rids mfids dids rids mfids dids id e dirent_unallocated
               HCD HSD HD HFA (proj1 HT') HSD' Hsl') as [HD' HFA'];
    [repeat split; try lia; apply difat_len_mono; [exact HC|exact HC'|exact Hsl'|lia]
    |rewrite F15, Hd1; reflexivity
    |exact Hidr
    |exact He
    |exact Hun
    |intros j a Hj _ Ha; rewrite <- Hd1 in Ha; destruct (Hst j a Hj Ha) as (b & Hb & Pb);
       exists b; split; [exact Hb|exact (same_payload_tsl a b Pb)]
    |rewrite (bigl_big s e ids Hbe Hc); change (big_b dirent_unallocated) with false; cbv iota;
       rewrite Hfr', Hns', CodecProofs.lenN_app; lia
    |congruence
    |exact (not_small_big_empty e T1 (or_intror Hbig))
    |intros (Ht & _); discriminate Ht
    |intros Ht; discriminate Ht
    |]);
  assumption.
Qed.

(* ---- api_remove_stream on an empty stream of a file with data ---- *)
Theorem remove_empty_stream_w2 : forall p s s' id e,
  W2 s -> api_remove_stream p s = (s', Ok tt) ->
  MutRefine.id_of_path s p = Some id -> SA.empty_at s id e -> W2 s'.
Proof.
  intros p s s' id e (HT0 & HD & HFA & HTd) H Hidp Hemp.
  pose proof H as H0.
  destruct (remove_empty_stream_cohtree p s s' id e HT0 H0 Hidp Hemp)
    as (HT' & _ & Hun & _ & Hfr' & Hns' & Hmf').
  destruct Hemp as (He & Ht & Hst0 & Hl0).
  split; [exact HT'|]. split; [|split; [|exact (remove_stream_tidy_data p s s' HTd H0)]];
  destruct HT0 as [HCD HTP];
  pose proof HCD as [HC (r & rids & mfids & dids & HSD) HF Hax];
  pose proof HSD as [SW Hmdj];
  pose proof HTP as [_ _ (t & HT & HU)];
  destruct (MutRefine.remove_stream_refines ctrue ctrue p 0 s s' t HT HU (fun _ _ _ c => c) H)
    as (t' & _ & HTt' & HU');
  unfold api_remove_stream, remove_stream_names in H;
  destruct (MutRefine.names_lookup_inv _ _ _ _ _ _ H) as (names & r0 & En & Hlk & HK);
  (destruct r0 as [id0|]; [|discriminate HK]);
  assert (id0 = id) by (unfold MutRefine.id_of_path in Hidp; rewrite En, Hlk in Hidp; congruence);
  subst id0;
  binv HK e1 s0 H1 H2; apply dir_entry_inv in H1; destruct H1 as [-> He1];
  assert (e1 = e) by congruence; subst e1;
  (destruct (objtype_eqb (d_type e) TStream) eqn:T1; cbn [negb] in H2; [|discriminate H2]);
  (destruct (d_child e =? NO_STREAM) eqn:Ch; cbn [negb] in H2; [|discriminate H2]);
  (destruct (d_len e <? MINI_STREAM_CUTOFF) eqn:Ecut; [|rewrite Hl0, CUTOFF_val in Ecut; discriminate Ecut]);
  binv H2 u1 s1 H1 H2; destruct u1;
  assert (s1 = s) by (unfold free_mini_chain in H1; rewrite bind_get in H1; cbn [free_mini_chain_go] in H1;
                      rewrite Hst0, N.eqb_refl in H1; unfold ret in H1; congruence);
  subst s1;
  (destruct (lastN names) as [nm|] eqn:Hlast; [|discriminate H2]);
  destruct (MutRefine.lookup_inv _ _ _ _ _ _ H2) as (pr & Hlkp & H3); clear H2;
  (destruct pr as [pid|]; [|discriminate H3]);
  (destruct (remove_entry_coh s s' names id e nm pid HC) as (HC' & HTP' & Hun' & Hidr & Hst & dd & Hdd & F);
    try assumption;
    [intros d m Hd Hm; apply avoids_sym; exact (CohData'_MD s HCD d m Hd Hm)
    |rewrite Ht; discriminate
    |exists t'; split; assumption
    |]);
  pose proof (SWf_X _ _ _ _ _ id SW) as SW1;
  assert (dd = dids) by exact (swfx_dir_ids _ _ _ _ _ _ _ SW1 Hdd); subst dd;
  destruct (swfx_payload s s' r rids mfids dids id dids SW1 F Hun' Hidr Hst) as (r' & Hr' & Pr & SW');
  pose proof F as (F1 & F2 & F3 & F4 & F5 & F6 & F7 & F8 & F9 & F10 & F11 & F12 & F13 & F14 & F15);
  assert (HSD' : SD s' r' rids mfids dids) by (split; [exact SW'|exact Hmdj]);
  assert (Hsl' : slen s' = slen s) by (unfold slen; rewrite F1; reflexivity);
  (destruct (fat_step_dinv2 s s' r r' rids mfids dids rids mfids dids id e dirent_unallocated
               HCD HSD HD HFA (proj1 HT') HSD' Hsl') as [HD' HFA'];
    [repeat split; try lia; rewrite F4; lia
    |exact F15
    |exact Hidr
    |exact He
    |exact Hun
    |intros j a Hj _ Ha; destruct (Hst j a Hj Ha) as (b & Hb & Pb);
       exists b; split; [exact Hb|exact (same_payload_tsl a b Pb)]
    |rewrite (bigl_not_big s e) by (rewrite Hl0, CUTOFF_val; lia);
       change (big_b dirent_unallocated) with false; cbv iota; rewrite Hfr', Hns'; cbn [lenN]; lia
    |exact F8
    |exact (not_small_big_empty e Ht (or_introl Hl0))
    |intros (Htt & _); discriminate Htt
    |intros Htt; discriminate Htt
    |]);
  assumption.
Qed.


(* ================================================================== *)
(* 7. histories with removal of large and of empty streams             *)
(* ================================================================== *)
Definition step_okC (f : fstate) (o : op) : Prop :=
  match handle_slot o with
  | Some i => forall h, nthN (hs f) i = Some (Some h) -> covered_opB o h (cs f)
  | None =>
    match o with
    | ORemoveStream p =>
        exists id e, MutRefine.id_of_path (cs f) p = Some id /\ nthN (dirs (cs f)) id = Some e /\
                     (MINI_STREAM_CUTOFF <= d_len e \/ SA.empty_at (cs f) id e) /\
                     snd (api_remove_stream p (cs f)) = Ok tt
    | OReopen _ => all_clean f
    | _ => query_op o
    end
  end.

Lemma step_okB_okC : forall f o, step_okB f o -> step_okC f o.
Proof.
  intros f o H. unfold step_okB, step_okC in *. destruct (handle_slot o); [exact H|].
  destruct o; try exact H. contradiction.
Qed.

Theorem step_w2C : forall f now o, W2 (cs f) -> step_okC f o -> W2 (cs (fst (step f now o))).
Proof.
  intros f now o HG Hok.
  assert (Hdef : step_okB f o -> W2 (cs (fst (step f now o)))) by (apply step_w2; exact HG).
  unfold step_okC in Hok. unfold step_okB in Hdef.
  destruct (handle_slot o) as [i|] eqn:Eslot; [exact (Hdef Hok)|].
  destruct o; try exact (Hdef Hok).
  destruct Hok as (id & e & Hid & He & Hcase & Hres).
  cbn [step]. unfold with_cs. destruct (api_remove_stream p (cs f)) as [s' r] eqn:E.
  cbn [snd] in Hres. subst r. cbn [fst cs].
  destruct Hcase as [Hbig|Hemp].
  - exact (remove_big_stream_w2 p (cs f) s' id e HG E Hid He Hbig).
  - exact (remove_empty_stream_w2 p (cs f) s' id e HG E Hid Hemp).
Qed.

Fixpoint hist_okC (f : fstate) (l : list (N * op)) : Prop :=
  match l with
  | [] => True
  | (now, o) :: t => step_okC f o /\ hist_okC (fst (step f now o)) t
  end.

Theorem history_w2C : forall l f, W2 (cs f) -> hist_okC f l -> W2 (cs (fst (ReadonlyTotal.run_ops f l))).
Proof.
  induction l as [|[now o] t IH]; intros f HG Hrun; [exact HG|].
  cbn [hist_okC] in Hrun. destruct Hrun as [Hok Hrun].
  rewrite PersistProofs.run_ops_cons. apply IH; [|exact Hrun]. apply step_w2C; assumption.
Qed.

Lemma hist_okC_app : forall l1 l2 f, hist_okC f (l1 ++ l2) -> hist_okC f l1.
Proof.
  induction l1 as [|[now o] t IH]; intros l2 f H; [exact I|].
  cbn [app hist_okC] in *. destruct H as [H1 H2]. split; [exact H1|]. eapply IH. exact H2.
Qed.

Lemma hist_okB_okC : forall l f, hist_okB f l -> hist_okC f l.
Proof.
  induction l as [|[now o] t IH]; intros f H; [exact I|].
  cbn [hist_okB hist_okC] in *. destruct H as [H1 H2]. split; [apply step_okB_okC; exact H1|apply IH; exact H2].
Qed.

(* C03 along histories that allocate and release sectors, truncate, remove
   large and empty streams, reopen *)
Theorem wf_data_history3 : forall (l1 l2 : list (N * op)) f,
  W2 (cs f) -> hist_okC f (l1 ++ l2) ->
  wf_check (concat_img (img (cs (fst (ReadonlyTotal.run_ops f l1))))) = 0.
Proof.
  intros l1 l2 f HG Hrun. apply w2_image_wf.
  apply history_w2C; [exact HG|]. eapply hist_okC_app. exact Hrun.
Qed.

(* non-vacuity: growth at the end of the file, removal of the large stream
   "/b" (twelve sectors go to the free stack), reopening, a query *)
Module Example8.
  Import HandleFrame.Example DataPersist.Example Example1 Example4.

  Definition hist5 : list (N * op) :=
    [(0, OHSetLen 1 6000); (0, ORemoveStream [47; 98]); (0, OReopen true); (0, OExists [47; 98])].

  Definition m2 : fstate := Eval vm_compute in fst (step g1 0 (ORemoveStream [47; 98])).
  Definition m3 : fstate := Eval vm_compute in fst (step m2 0 (OReopen true)).

  Example hist5_results :
    snd (ReadonlyTotal.run_ops fA hist5) = [Ok VUnit; Ok VUnit; Ok VUnit; Ok (VBool false)].
  Proof. vm_compute. reflexivity. Qed.

  Example hist5_ok : hist_okC fA hist5.
  Proof.
    assert (A1 : nthN (hs fA) 1 = Some (Some (slot fA 1))) by (vm_compute; reflexivity).
    unfold hist5. cbn [hist_okC].
    change (fst (step fA 0 (OHSetLen 1 6000))) with g1.
    change (fst (step g1 0 (ORemoveStream [47; 98]))) with m2.
    change (fst (step m2 0 (OReopen true))) with m3.
    unfold step_okC. cbn [handle_slot query_op].
    split.
    { intros h E. the_handle E A1. cbn [covered_opB]. split; [clean_flush|]. intros _.
      rewrite flush_clean by (vm_compute; reflexivity). cbn [fst].
      assert (Hid : h_id (slot fA 1) = 2) by (vm_compute; reflexivity). rewrite Hid.
      destruct (big_check (cs fA) Vb idsb fA_wf) as [HB Hsi]; [vm_compute; reflexivity|].
      right; right; left. exists Vb, idsb, 2%nat.
      split; [arith|]. split; [arith|]. split; [arith|]. split; [exact HB|]. split; [exact Hsi|].
      split; [arith|]. split; [arith|]. split.
      { intros j Hj. assert (j = 0 \/ j = 1) as [-> | ->] by lia; arith. }
      split; [arith|unfold LenFits; arith]. }
    split.
    { exists 2. eexists. split; [vm_compute; reflexivity|]. split; [vm_compute; reflexivity|].
      split; [left; vm_compute; discriminate|vm_compute; reflexivity]. }
    split; [apply all_clean_b_sound; vm_compute; reflexivity|].
    split; [exact I|exact I].
  Qed.

  Example hist5_wf : forall l1 l2, hist5 = l1 ++ l2 ->
    wf_check (concat_img (img (cs (fst (ReadonlyTotal.run_ops fA l1))))) = 0.
  Proof.
    intros l1 l2 E. apply (wf_data_history3 l1 l2 fA Example7.fA_w2). rewrite <- E. exact hist5_ok.
  Qed.

  Example hist5_evaluated :
    let s := cs (fst (ReadonlyTotal.run_ops fA hist5)) in
    wf_check (concat_img (img s)) = 0 /\ dinv_b s = true /\ freeall_b s = true /\
    free s = [4; 5; 6; 7; 8; 9; 10; 11; 12; 13; 14; 15].
  Proof. repeat split; vm_compute; reflexivity. Qed.
End Example8.


(* ================================================================== *)
(* 8. the mini level: release of a whole mini chain (truncation of a    *)
(*    small stream to zero): MiniFAT trim, root length shrink           *)
(* ================================================================== *)

(* the walk of free_mini_chain once more (DataPersist2.free_mini_chain_go_coh),
   with what it does to the cells of the MiniFAT: a cell that is not FREE
   afterwards was the same before and is not a member of the released chain *)
Lemma free_mini_chain_go_back : forall l fuel c s r rids mfids dids s',
  Coherent s -> MD s -> FreeUnref (minifat s) ->
  SA.MWf_at s r rids mfids dids ->
  path (minifat s) c l -> (l <> [] -> unref (minifat s) c) ->
  free_mini_chain_go fuel c s = (s', Ok tt) ->
  forall y w, nthN (minifat s') y = Some w -> w <> FREE_SECTOR ->
    nthN (minifat s) y = Some w /\ ~ In y l.
Proof.
  induction l as [|cur rest IH]; intros fuel c s r rids mfids dids s' HC Hmd Hfu W Hp Hhead H.
  - inversion Hp; subst. destruct fuel as [|fuel]; [discriminate H|].
    cbn [free_mini_chain_go] in H. rewrite N.eqb_refl in H. apply ret_inv in H. destruct H as [-> _].
    intros y w Hy _. split; [exact Hy|intros []].
  - inversion Hp as [|c0 nx l0 Hc Hn Hp']; subst.
    destruct fuel as [|fuel]; [discriminate H|]. cbn [free_mini_chain_go] in H.
    destruct (cur =? END_OF_CHAIN) eqn:Ea; [apply N.eqb_eq in Ea; contradiction|].
    assert (Hnext : next_mini cur s = (s, Ok nx)).
    { unfold next_mini, next_mini_of. rewrite bind_get, Hn. reflexivity. }
    rewrite (bind_exec _ _ _ _ _ Hnext) in H.
    pose proof Hn as Hn0. apply WalkProofs.next_of_Ok in Hn0. destruct Hn0 as [Hcell Hr].
    assert (Hnf : nx <> FREE_SECTOR) by (markers; lia).
    destruct (SA.free_mini_sector_step s r rids mfids dids cur nx W Hcell Hnf)
      as (s1 & r1 & E1 & W1 & Sh1 & Ld1 & Dj1 & Fr1 & Le1 & K1).
    rewrite (bind_exec _ _ _ _ _ E1) in H.
    pose proof (Hhead ltac:(discriminate)) as Hcu.
    destruct (free_mini_sector_coh s cur s1 HC Hmd Hfu Hcu) as (HC1 & Hmd1 & HT & Hlt & dd & mm & Hdd & Hmm & F1).
    { intros r0 Hr0. rewrite (SA.mw_root _ _ _ _ _ W) in Hr0. injection Hr0 as <-. apply W. }
    { apply W. }
    { exact E1. }
    pose proof (SA.mw_bound _ _ _ _ _ W) as Hbd.
    assert (Hcur_ne : cur <> FREE_SECTOR) by (markers; lia).
    pose proof (ReuseProofs.path_nodup _ _ _ Hp) as Hnd. inversion Hnd as [|? ? Hni Hnd']; subst.
    assert (Hp1 : path (minifat s1) nx rest).
    { apply (SA.path_keep _ _ _ _ Hp' Le1). intros y w Hy Hcy Hw. apply K1; [|exact Hcy|exact Hw].
      intro E. subst y. contradiction. }
    assert (Hmono1 : forall y, y <> FREE_SECTOR -> unref (minifat s) y -> unref (minifat s1) y).
    { intros y Hy Hu. exact (unref_trim_upd _ _ cur y Hu Hy HT). }
    assert (Hfu1 : FreeUnref (minifat s1)).
    { intros x Hx. pose proof (Trim_nth _ _ _ _ HT Hx) as Hx0.
      destruct (N.eq_dec x cur) as [->|Hne].
      - apply Hmono1; assumption.
      - rewrite nthN_updN_other in Hx0 by congruence.
        apply Hmono1; [|exact (Hfu x Hx0)].
        pose proof (nthN_Some_lt _ _ _ _ Hx0). markers. lia. }
    assert (Hhead1 : rest <> [] -> unref (minifat s1) nx).
    { intros Hne i Hi. pose proof (Trim_nth _ _ _ _ HT Hi) as Hi0.
      assert (Hnx_reg : nx <= MAX_REGULAR_SECTOR).
      { destruct Hr as [->|[Hr1 _]]; [|exact Hr1]. inversion Hp'; subst; [contradiction|]. congruence. }
      destruct (N.eq_dec i cur) as [->|Hic].
      * rewrite nthN_updN_same in Hi0 by exact Hlt. markers. injection Hi0 as Hi0. lia.
      * rewrite nthN_updN_other in Hi0 by congruence. apply Hic.
        pose proof (ch_mini_valid s HC) as Hval.
        apply WalkProofs.check_pointees_spec in Hval. destruct Hval as (_ & Hndr & _).
        eapply WalkProofs.nodup_regs_index; [exact Hndr|exact Hi0|exact Hcell|].
        apply regular_spec. exact Hnx_reg. }
    pose proof (IH fuel nx s1 r1 rids mfids dids s' HC1 Hmd1 Hfu1 W1 Hp1 Hhead1 H) as Hback.
    intros y w Hy Hw. destruct (Hback y w Hy Hw) as [Hy1 Hnr].
    pose proof (Trim_nth _ _ _ _ HT Hy1) as Hy0.
    destruct (N.eq_dec y cur) as [->|Hyc].
    + exfalso. rewrite nthN_updN_same in Hy0 by exact Hlt. congruence.
    + rewrite nthN_updN_other in Hy0 by congruence. split; [exact Hy0|].
      intros [E|Hin]; [exact (Hyc (eq_sym E))|exact (Hnr Hin)].
Qed.

(* ---- the table-level step: a small stream gives its whole mini chain back;
   the FAT does not move, the MiniFAT loses the chain (and trailing FREE
   cells), the other entries keep type / start / length ---- *)
Section SmallRelease.
Variables s s' : cstate.
Variables (r r' : dirent) (rids mfids dids : list N).
Variables (id : N) (e e' : dirent) (mids : list N).
Hypothesis HCD : CohData' s.
Hypothesis HSD : SD s r rids mfids dids.
Hypothesis HD : DInv s.
Hypothesis HFA : FreeAll s.
Hypothesis HCD' : CohData' s'.
Hypothesis HSD' : SD s' r' rids mfids dids.
Hypothesis Hfat : fat s' = fat s.
Hypothesis Hfree : free s' = free s.
Hypothesis Hdifat : difat s' = difat s.
Hypothesis Hslen : slen s' = slen s.
Hypothesis Hlen : lenN (dirs s') = lenN (dirs s).
Hypothesis He : nthN (dirs s) id = Some e.
Hypothesis He' : nthN (dirs s') id = Some e'.
Hypothesis Hsm : SA.small_entry e.
Hypothesis Hch : chain_ids_of (minifat s) (d_start e) = Ok mids.
Hypothesis Hns' : ~ SA.small_entry e'.
Hypothesis Hnb' : ~ SA.big_entry e'.
Hypothesis Hemp' : d_type e' = TStream -> d_len e' = 0 -> d_start e' = END_OF_CHAIN.
Hypothesis Hoth : forall j a, j <> id -> j <> ROOT_STREAM_ID -> nthN (dirs s) j = Some a ->
  exists b, nthN (dirs s') j = Some b /\ tsl a b.
Hypothesis Hmlen : lenN (minifat s') <= lenN (minifat s).
Hypothesis HF : forall y w, ~ In y mids -> nthN (minifat s) y = Some w -> w <> FREE_SECTOR ->
  nthN (minifat s') y = Some w.
Hypothesis HB : forall y w, nthN (minifat s') y = Some w -> w <> FREE_SECTOR ->
  nthN (minifat s) y = Some w /\ ~ In y mids.

Let HC : Coherent s := cd_coh s HCD.
Let HC' : Coherent s' := cd_coh s' HCD'.

Lemma sr_old : forall x, mowns s id x <-> In x mids.
Proof.
  intro x. split.
  - intros (e0 & l & He0 & _ & _ & _ & Hl & Hx). assert (e0 = e) by congruence. subst e0. congruence.
  - intro Hx. destruct Hsm as (Ht & Hp & Hb). exists e, mids. auto 10.
Qed.

(* the mini chain of another small stream survives *)
Lemma sr_chain : forall j a l, j <> id -> nthN (dirs s) j = Some a -> SA.small_entry a ->
  chain_ids_of (minifat s) (d_start a) = Ok l -> chain_ids_of (minifat s') (d_start a) = Ok l.
Proof.
  intros j a l Hj Ha (Ht & Hp & Hb) Hl. apply SA.chain_of_path.
  apply (SA.path_keep (minifat s)); [apply WalkProofs.chain_ids_path; exact Hl|exact Hmlen|].
  intros y w Hy Hcy Hw. apply HF; [|exact Hcy|exact Hw].
  intro Hin. apply Hj. apply (di_mini_uniq s HD j id y); [|apply sr_old; exact Hin].
  exists a, l. auto 10.
Qed.

Lemma sr_mowns_fwd : forall i x, i <> id -> mowns s i x -> mowns s' i x.
Proof.
  intros i x Hi (a & l & Ha & Ht & Hp & Hb & Hl & Hx).
  destruct (ms2_fwd s s' id HC Hoth i a Ha Ht Hi) as (b & Hb' & (T1 & T2 & T3)).
  exists b, l. rewrite T1, T2, T3.
  pose proof (sr_chain i a l Hi Ha (conj Ht (conj Hp Hb)) Hl). auto 10.
Qed.

Lemma sr_fowns_fwd : forall o x, fowns s o x -> fowns s' o x.
Proof.
  intros o x Ho. destruct o as [| | | |j].
  - cbn [fowns] in *. rewrite Hdifat. exact Ho.
  - apply (br_dir s' r' rids mfids dids HSD'). apply (br_dir s r rids mfids dids HSD). exact Ho.
  - apply (br_mfat s' r' rids mfids dids HSD'). apply (br_mfat s r rids mfids dids HSD). exact Ho.
  - apply (br_root s' r' rids mfids dids HSD'). apply (br_root s r rids mfids dids HSD). exact Ho.
  - destruct Ho as (a & l & Ha & Ht & Hb & Hl & Hx).
    assert (Hj : j <> id).
    { intros ->. assert (a = e) by congruence. subst a. destruct Hsm as (_ & _ & Hlt). lia. }
    destruct (ms2_fwd s s' id HC Hoth j a Ha Ht Hj) as (b & Hb' & (T1 & T2 & T3)).
    exists b, l. rewrite Hfat, T1, T2, T3. auto.
Qed.

Theorem small_release_dinv : DInv s' /\ FreeAll s'.
Proof.
  split; [|exact (freeall_same_tables s s' Hfat Hfree HFA)].
  apply (cohdata'_exact_dinv s' HCD'). constructor.
  - intros i x Hx Ht Hl. destruct (N.eq_dec i id) as [->|Hi].
    + assert (x = e') by congruence. subst x. exact (Hemp' Ht Hl).
    + destruct (ms2_back s s' id HC' Hlen Hoth i x Hx Ht Hi) as (a & Ha & (T1 & T2 & T3)).
      rewrite T2. apply (di_empty s HD i a Ha); congruence.
  - intros i x ids Hx Ht Hb Hl. rewrite Hfat in Hl. rewrite Hslen. destruct (N.eq_dec i id) as [->|Hi].
    + exfalso. assert (x = e') by congruence. subst x. apply Hnb'. split; assumption.
    + destruct (ms2_back s s' id HC' Hlen Hoth i x Hx Ht Hi) as (a & Ha & (T1 & T2 & T3)).
      destruct (di_big s HD i a Ha ltac:(congruence) ltac:(lia)) as (l & Hl' & Hll).
      rewrite T3. congruence.
  - intros i x ids Hx Ht Hp Hb Hl. destruct (N.eq_dec i id) as [->|Hi].
    + exfalso. assert (x = e') by congruence. subst x. apply Hns'. repeat split; assumption.
    + destruct (ms2_back s s' id HC' Hlen Hoth i x Hx Ht Hi) as (a & Ha & (T1 & T2 & T3)).
      destruct (di_small s HD i a Ha ltac:(congruence) ltac:(lia) ltac:(lia)) as (l & Hl' & Hll).
      assert (Hsa : SA.small_entry a) by (unfold SA.small_entry; rewrite <- T1, <- T3; auto).
      pose proof (sr_chain i a l Hi Ha Hsa Hl') as Hl2. rewrite <- T2 in Hl2. rewrite T3. congruence.
  - intros x v Hv Hnf. rewrite Hfat in Hv. destruct (di_fat_cover s HD x v Hv Hnf) as (o & Ho).
    exists o. apply sr_fowns_fwd. exact Ho.
  - intros y w Hy Hw. destruct (HB y w Hy Hw) as [Hy0 Hnm].
    destruct (di_mini_cover s HD y w Hy0 Hw) as (i & Hi). exists i. apply sr_mowns_fwd; [|exact Hi].
    intros ->. apply Hnm. apply sr_old. exact Hi.
Qed.
End SmallRelease.

Lemma tsl_refl : forall a, tsl a a.
Proof. intro a. repeat split. Qed.

(* ---- truncation of a small stream to zero ---- *)
Theorem resize_small_to_zero_dinv : forall s id V,
  CohData' s -> DInv s -> FreeAll s -> small_content s id V ->
  exists s', resize id 0 s = (s', Ok tt) /\ CohData' s' /\ DInv s' /\ FreeAll s'.
Proof.
  intros s id V HCD HD HFA Hsc.
  pose proof HCD as [HC (r & rids & mfids & dids & HSD) HF Hax]. pose proof HSD as [SW0 Hmdj].
  pose proof (SA.sw_m _ _ _ _ _ _ SW0) as W.
  destruct (SA.small_content_at _ _ _ _ _ _ _ W Hsc) as (e & mids & Hsm).
  destruct (small_at_start _ _ _ _ _ _ Hsm) as (Hne & Hst & Hk).
  pose proof (SA.small_at_entry _ _ _ _ _ _ Hsm) as Hse.
  pose proof Hsm as (Hnth & Ht & Hcut & Hpos & Hch & Hgm & Hle & HV).
  destruct (free_small_ready s r rids mfids dids id e mids HCD HSD Hnth Hse Hch)
    as (s1 & r1 & Efree & HX1 & Hn1 & Ho1 & HRL & FM1).
  pose proof FM1 as (G1 & G2 & _ & G4 & G5 & G6 & _).
  pose proof HX1 as (_ & _ & SW1 & _).
  destruct (finish_empty s1 r1 rids mfids dids id e SW1 Hn1 Ht) as (s' & Eu & SW' & _).
  destruct (empty_finish_X s1 s' r1 rids mfids dids id e HX1 Hn1 Ht Eu)
    as (HCD' & _ & _ & Hv' & Hm' & Hf' & Fr' & N' & Hd').
  assert (Hdf' : difat s' = difat s1).
  { pose proof (SA.sw_m _ _ _ _ _ _ SW1) as W1.
    destruct (StoreProofs.update_entry_exec s1 id e END_OF_CHAIN 0 dids) as (s'' & Eu' & _ & Hsh & _).
    { exact Hn1. }
    { exact (SA.mw_names _ _ _ _ _ W1 id e Hn1). }
    { exact (SA.mw_dch _ _ _ _ _ W1). }
    { exact (SA.mw_dgood _ _ _ _ _ W1). }
    { pose proof (SA.mw_dcap _ _ _ _ _ W1) as Hcap. pose proof (nthN_Some_lt _ _ _ _ Hn1).
      rewrite StoreProofs.DEL_val in *. lia. }
    assert (s'' = s') by congruence. subst s''.
    destruct Hsh as (_ & _ & _ & _ & _ & _ & Zd & _). exact Zd. }
  assert (R : resize id 0 s = (s', Ok tt)).
  { unfold resize. sred.
    rewrite (stream_entry_ok s id e Hnth Ht). sred.
    assert (E0 : (MAX_REGULAR_SECTOR * slen s <? 0) = false) by lia. rewrite E0. sred.
    assert (E1 : (stream_len_mask (ver s) <? 0) = false) by lia. rewrite E1. sred.
    assert (E2 : (d_start e =? END_OF_CHAIN) = false) by lia. rewrite E2.
    assert (E3 : (d_len e <? MINI_STREAM_CUTOFF) = true) by lia. rewrite E3.
    rewrite N.eqb_refl. rewrite Efree. sred. exact Eu. }
  pose proof Efree as Erun. unfold free_mini_chain in Erun. rewrite bind_get in Erun.
  pose proof (WalkProofs.chain_ids_path _ _ _ Hch) as Hp.
  destruct (SA.free_mini_chain_go_spec mids (S (S (length (minifat s)))) (d_start e) s r rids mfids dids W
              Hp (path_length_fuel _ _ _ Hp))
    as (sx & rx & Ex & _ & _ & _ & _ & _ & Lx & Kx).
  rewrite Erun in Ex. injection Ex as <-.
  pose proof (free_mini_chain_go_back mids _ (d_start e) s r rids mfids dids s1 HC (CohData'_MD s HCD)
                (ax_mfree s Hax) W Hp ltac:(intros _; exact (ax_mheads s Hax id e Hnth Hse)) Erun) as Hback.
  pose proof HRL as (RL & RO & _).
  assert (Hidr : id <> ROOT_STREAM_ID) by exact (stream_not_root s id e HC Hnth Ht).
  pose proof (nthN_Some_lt _ _ _ _ Hn1) as Hidlt.
  destruct (small_release_dinv s s' r r1 rids mfids dids id e (set_start_len e END_OF_CHAIN 0) mids
              HCD HSD HD HFA HCD' (conj SW' Hmdj)) as [HD' HFA']; try assumption.
  - congruence.
  - congruence.
  - congruence.
  - unfold slen. rewrite Hv', G1. reflexivity.
  - rewrite Hd', lenN_updN. exact RL.
  - rewrite Hd'. apply nthN_updN_same. exact Hidlt.
  - intros (_ & Hp0 & _). cbn [set_start_len d_len] in Hp0. lia.
  - intros (_ & Hb0). cbn [set_start_len d_len] in Hb0. rewrite CUTOFF_val in Hb0. lia.
  - intros _ _. reflexivity.
  - intros j a Hj Hr Ha. exists a. split; [|apply tsl_refl].
    rewrite Hd', nthN_updN_other by congruence. rewrite (RO j Hr). exact Ha.
  - rewrite Hm'. exact Lx.
  - intros y w Hy Hcy Hw. rewrite Hm'. exact (Kx y w Hy Hcy Hw).
  - intros y w Hy Hw. rewrite Hm' in Hy. exact (Hback y w Hy Hw).
  - exists s'. auto.
Qed.

(* ================================================================== *)
(* 9. histories, with the truncation of small streams                  *)
(* ================================================================== *)
Definition ResizeCaseC (s : cstate) (id n : N) : Prop :=
  ResizeCaseB s id n \/ (exists V, small_content s id V /\ n = 0).

Lemma ResizeCaseC_ResizeCase : forall s id n, ResizeCaseC s id n -> ResizeCase s id n.
Proof.
  intros s id n [H|H]; [exact (ResizeCaseB_ResizeCase s id n H)|].
  unfold ResizeCase. do 10 right. exact H.
Qed.

Theorem resize_caseC_w2 : forall s id n,
  W2 s -> ResizeCaseC s id n -> exists s', resize id n s = (s', Ok tt) /\ W2 s'.
Proof.
  intros s id n HW [HR|(V & Hsc & ->)]; [exact (resize_caseB_w2 s id n HW HR)|].
  pose proof HW as (HT & HD & HFA & HTd). pose proof (proj1 HT) as HCD.
  destruct (resize_case_cohtree s id 0 HT (ResizeCaseC_ResizeCase s id 0 (or_intror (ex_intro _ V (conj Hsc eq_refl)))))
    as (s0 & R0 & HT0 & _).
  destruct (resize_small_to_zero_dinv s id V HCD HD HFA Hsc) as (s' & R & _ & HD' & HFA').
  assert (s0 = s') by congruence. subst s0.
  destruct Hsc as (e & l & m & (He & Ht & _)).
  exists s'. split; [exact R|]. apply (w2_after s s' id e HW He Ht HT0 HD' HFA').
  pose proof (framesR_resize id 0 s) as D. rewrite R in D. exact D.
Qed.

Definition CRdC (id n : N) (s : cstate) : Prop := ResizeCaseC s id n.

Definition covered_opC (o : op) (h : handle) (s : cstate) : Prop :=
  match o with
  | OHRead _ _ | OHFill _ | OHWrite _ _ | OHSeek _ _ _ | OHFlush _ | OHDrop _ => cov_flushB h s
  | OHSetLen _ n =>
      cov_flushB h s /\ (n <> h_total h -> CRdC (h_id h) n (fst (flush_changes' h s)))
  | _ => True
  end.

Lemma w2_rsC : forall id n s, W2 s -> CRdC id n s ->
  W2 (fst (resize id n s)) /\ Rtriv id s (fst (resize id n s)).
Proof.
  intros id n s HG HC. destruct (resize_caseC_w2 s id n HG HC) as (s' & E & H).
  rewrite E. split; [exact H|exact I].
Qed.

Theorem hop_run_w2C : forall o h s, W2 s -> covered_opC o h s -> W2 (fst (hop_run o h s)).
Proof.
  intros o h s HA HC.
  assert (Rr : forall id s0, Rtriv id s0 s0) by (intros; exact I).
  assert (Rt : forall id a b c, Rtriv id a b -> Rtriv id b c -> Rtriv id a c) by (intros; exact I).
  pose proof (h_read_C cstate read_data write_data stream_len_of W2 Rtriv CWdB Rr Rt w2_rd w2_sl w2_wr) as Xread.
  pose proof (h_fill_buf_C cstate read_data write_data stream_len_of W2 Rtriv CWdB Rr Rt w2_rd w2_sl w2_wr) as Xfill.
  pose proof (h_write_C cstate write_data stream_len_of W2 Rtriv CWdB Rr Rt w2_sl w2_wr) as Xwrite.
  pose proof (h_seek_C cstate write_data stream_len_of W2 Rtriv CWdB Rr Rt w2_sl w2_wr) as Xseek.
  pose proof (h_set_len_C cstate write_data resize stream_len_of W2 Rtriv CWdB CRdC Rr Rt w2_sl w2_wr w2_rsC) as Xsetlen.
  pose proof (h_flush_C cstate write_data stream_len_of W2 Rtriv CWdB Rr Rt w2_sl w2_wr) as Xflush.
  pose proof (flush_changes_C cstate write_data stream_len_of W2 Rtriv CWdB Rr Rt w2_sl w2_wr) as Xfc.
  destruct o; cbn [hop_run covered_opC] in *; cbv zeta; cbn [fst snd]; try exact HA.
  - exact (proj1 (proj1 (Xread h n s HA HC))).
  - exact (proj1 (proj1 (Xfill h s HA HC))).
  - exact (proj1 (proj1 (Xwrite h bs s HA HC))).
  - exact (proj1 (proj1 (Xseek h w z s HA HC))).
  - destruct HC as [HC1 HC2]. exact (proj1 (proj1 (Xsetlen h n s HA HC1 HC2))).
  - exact (proj1 (proj1 (Xflush h s HA HC))).
  - exact (proj1 (proj1 (Xfc h s HA HC))).
Qed.

Definition step_okD (f : fstate) (o : op) : Prop :=
  match handle_slot o with
  | Some i => forall h, nthN (hs f) i = Some (Some h) -> covered_opC o h (cs f)
  | None => step_okC f o
  end.

Theorem step_w2D : forall f now o, W2 (cs f) -> step_okD f o -> W2 (cs (fst (step f now o))).
Proof.
  intros f now o HG Hok. unfold step_okD in Hok.
  destruct (handle_slot o) as [i|] eqn:Eslot; [|exact (step_w2C f now o HG Hok)].
  destruct (nthN (hs f) i) as [[h|]|] eqn:Eh.
  - destruct (step f now o) as [f' r] eqn:Es. cbn [fst].
    destruct (step_handle_shape f now o i h f' r Eslot Eh Es) as (E1 & _).
    rewrite E1. exact (hop_run_w2C o h (cs f) HG (Hok h eq_refl)).
  - rewrite (step_no_handle f now o i Eslot); [exact HG|]. intros h E. rewrite Eh in E. discriminate E.
  - rewrite (step_no_handle f now o i Eslot); [exact HG|]. intros h E. rewrite Eh in E. discriminate E.
Qed.

Fixpoint hist_okD (f : fstate) (l : list (N * op)) : Prop :=
  match l with
  | [] => True
  | (now, o) :: t => step_okD f o /\ hist_okD (fst (step f now o)) t
  end.

Theorem history_w2D : forall l f, W2 (cs f) -> hist_okD f l -> W2 (cs (fst (ReadonlyTotal.run_ops f l))).
Proof.
  induction l as [|[now o] t IH]; intros f HG Hrun; [exact HG|].
  cbn [hist_okD] in Hrun. destruct Hrun as [Hok Hrun].
  rewrite PersistProofs.run_ops_cons. apply IH; [|exact Hrun]. apply step_w2D; assumption.
Qed.

Lemma hist_okD_app : forall l1 l2 f, hist_okD f (l1 ++ l2) -> hist_okD f l1.
Proof.
  induction l1 as [|[now o] t IH]; intros l2 f H; [exact I|].
  cbn [app hist_okD] in *. destruct H as [H1 H2]. split; [exact H1|]. eapply IH. exact H2.
Qed.

(* the largest fragment reached: [hist_ok2] without small growth with
   allocation, first small writes, the migrations and the removal of small streams *)
Theorem wf_data_history4 : forall (l1 l2 : list (N * op)) f,
  W2 (cs f) -> hist_okD f (l1 ++ l2) ->
  wf_check (concat_img (img (cs (fst (ReadonlyTotal.run_ops f l1))))) = 0.
Proof.
  intros l1 l2 f HG Hrun. apply w2_image_wf.
  apply history_w2D; [exact HG|]. eapply hist_okD_app. exact Hrun.
Qed.

(* non-vacuity: "/a" (100 bytes in two mini sectors) is truncated to zero --
   the MiniFAT is trimmed to nothing, the root length goes to 0 -- then the
   file is reopened *)
Module Example9.
  Import HandleFrame.Example DataPersist.Example Example1 Example4.

  Definition hist6 : list (N * op) := [(0, OHSetLen 0 0); (0, OReopen true)].
  Definition n1 : fstate := Eval vm_compute in fst (step fA 0 (OHSetLen 0 0)).

  Example hist6_ok : hist_okD fA hist6.
  Proof.
    assert (A0 : nthN (hs fA) 0 = Some (Some (slot fA 0))) by (vm_compute; reflexivity).
    unfold hist6. cbn [hist_okD].
    change (fst (step fA 0 (OHSetLen 0 0))) with n1.
    unfold step_okD, step_okC. cbn [handle_slot query_op].
    split.
    { intros h E. the_handle E A0. cbn [covered_opC]. split; [clean_flush|]. intros _.
      rewrite flush_clean by (vm_compute; reflexivity). cbn [fst].
      assert (Hid : h_id (slot fA 0) = 1) by (vm_compute; reflexivity). rewrite Hid.
      assert (E : cs fA = cs fB) by (vm_compute; reflexivity).
      right. exists bytes100. split; [rewrite E; exact a_small|reflexivity]. }
    split; [apply all_clean_b_sound; vm_compute; reflexivity|exact I].
  Qed.

  Example hist6_wf : forall l1 l2, hist6 = l1 ++ l2 ->
    wf_check (concat_img (img (cs (fst (ReadonlyTotal.run_ops fA l1))))) = 0.
  Proof.
    intros l1 l2 E. apply (wf_data_history4 l1 l2 fA Example7.fA_w2). rewrite <- E. exact hist6_ok.
  Qed.

  Example hist6_evaluated :
    let s := cs (fst (ReadonlyTotal.run_ops fA hist6)) in
    wf_check (concat_img (img s)) = 0 /\ dinv_b s = true /\ freeall_b s = true /\ minifat s = [].
  Proof. repeat split; vm_compute; reflexivity. Qed.
End Example9.


(* ================================================================== *)
(* 10. removal of a small stream                                       *)
(* ================================================================== *)
Theorem remove_small_stream_w2 : forall p s s' id e,
  W2 s -> api_remove_stream p s = (s', Ok tt) ->
  MutRefine.id_of_path s p = Some id -> nthN (dirs s) id = Some e ->
  0 < d_len e -> d_len e < MINI_STREAM_CUTOFF -> W2 s'.
Proof.
  intros p s s' id e (HT0 & HD & HFA & HTd) H Hidp He Hpos Hcut.
  pose proof H as H0.
  destruct (remove_small_stream_cohtree p s s' id e HT0 H0 Hidp He Hpos Hcut) as (HT' & _ & Hun0 & _).
  split; [exact HT'|]. split; [|split; [|exact (remove_stream_tidy_data p s s' HTd H0)]];
  destruct HT0 as [HCD HTP];
  pose proof HCD as [HC (r & rids & mfids & dids & HSD) HF Hax];
  pose proof HSD as [SW Hmdj];
  pose proof (SA.sw_m _ _ _ _ _ _ SW) as W;
  pose proof HTP as [_ _ (t & HT & HU)];
  destruct (MutRefine.remove_stream_refines ctrue ctrue p 0 s s' t HT HU (fun _ _ _ c => c) H)
    as (t' & _ & HTt' & HU');
  unfold api_remove_stream, remove_stream_names in H;
  destruct (MutRefine.names_lookup_inv _ _ _ _ _ _ H) as (names & r0 & En & Hlk & HK);
  (destruct r0 as [id0|]; [|discriminate HK]);
  assert (id0 = id) by (unfold MutRefine.id_of_path in Hidp; rewrite En, Hlk in Hidp; congruence);
  subst id0;
  binv HK e1 s0 H1 H2; apply dir_entry_inv in H1; destruct H1 as [-> He1];
  assert (e1 = e) by congruence; subst e1;
  (destruct (objtype_eqb (d_type e) TStream) eqn:T1; cbn [negb] in H2; [|discriminate H2]);
  (destruct (d_child e =? NO_STREAM) eqn:Ch; cbn [negb] in H2; [|discriminate H2]);
  apply objtype_eqb_true in T1;
  (destruct (d_len e <? MINI_STREAM_CUTOFF) eqn:Ecut; [|lia]);
  binv H2 u1 s1 H1 H2; destruct u1;
  assert (Hse : SA.small_entry e) by (split; [exact T1|split; assumption]);
  destruct (SA.sw_small _ _ _ _ _ _ SW id e (SA.noX_not _) He Hse) as (mids & Hc & Hcov);
  destruct (SA.free_small_chain s r rids mfids dids id e mids SW He Hse Hc)
    as (s1' & r1 & Efree & SW1 & Sh1 & He1' & Ho1);
  rewrite H1 in Efree; injection Efree as <-;
  pose proof (MutRefine.free_mini_chain_rootlen _ _ _ _ H1) as HRL;
  pose proof H1 as Erun; unfold free_mini_chain in Erun; rewrite bind_get in Erun;
  pose proof (WalkProofs.chain_ids_path _ _ _ Hc) as Hp;
  destruct (free_mini_chain_go_coh mids _ (d_start e) s r rids mfids dids s1 HC (CohData'_MD s HCD)
              (ax_mfree s Hax) W Hp ltac:(intros _; exact (ax_mheads s Hax id e He Hse)) Erun)
    as (HC1 & Hmd1 & Hfu1 & Hmono & F1);
  pose proof (free_mini_chain_go_back mids _ (d_start e) s r rids mfids dids s1 HC (CohData'_MD s HCD)
                (ax_mfree s Hax) W Hp ltac:(intros _; exact (ax_mheads s Hax id e He Hse)) Erun) as Hback;
  destruct (SA.free_mini_chain_go_spec mids (S (S (length (minifat s)))) (d_start e) s r rids mfids dids W
              Hp (path_length_fuel _ _ _ Hp))
    as (sx & rx & Ex & _ & _ & _ & _ & _ & Lx & Kx);
  rewrite Erun in Ex; injection Ex as <-;
  pose proof F1 as (G1 & G2 & G3 & G4 & G5 & G6 & G7 & G9 & _);
  pose proof (TreePart_rootlen s s1 HTP HC1 HRL G1) as HTP1;
  (destruct (lastN names) as [nm|] eqn:Hlast; [|discriminate H2]);
  destruct (MutRefine.lookup_inv _ _ _ _ _ _ H2) as (pr & Hlkp & H3); clear H2;
  (destruct pr as [pid|]; [|discriminate H3]);
  (destruct (remove_entry_coh s1 s' names id e nm pid HC1) as (HC' & HTP' & Hun & Hidr & Hst & dd & Hdd & F);
    try assumption;
    [intros d m Hd Hm; apply avoids_sym; exact (Hmd1 d m Hd Hm)
    |rewrite (MutRefine.rootlen_lookup _ _ HRL); exact Hlk
    |rewrite T1; discriminate
    |exists t'; split; assumption
    |]);
  assert (dd = dids) by exact (swfx_dir_ids _ _ _ _ _ _ _ SW1 Hdd); subst dd;
  destruct (swfx_payload s1 s' r1 rids mfids dids id dids SW1 F Hun Hidr Hst) as (r' & Hr' & Pr & SW');
  pose proof F as (F1' & F2 & F3 & F4 & F5 & F6 & F7 & F8 & F9 & F10 & F11 & F12 & F13 & F14 & F15);
  pose proof HRL as (RL & RO & _);
  (destruct (small_release_dinv s s' r r' rids mfids dids id e dirent_unallocated mids
               HCD HSD HD HFA (proj1 HT') (conj SW' Hmdj)) as [HD' HFA'];
    [congruence
    |congruence
    |congruence
    |unfold slen; rewrite F1', G1; reflexivity
    |rewrite F15; exact RL
    |exact He
    |exact Hun
    |exact Hse
    |exact Hc
    |intros (Htt & _); discriminate Htt
    |intros (Htt & _); discriminate Htt
    |intros Htt; discriminate Htt
    |intros j a Hj Hr Ha; rewrite <- (RO j Hr) in Ha; destruct (Hst j a Hj Ha) as (b & Hb & Pb);
       exists b; split; [exact Hb|exact (same_payload_tsl a b Pb)]
    |rewrite F8; exact Lx
    |intros y w Hy Hcy Hw; rewrite F8; exact (Kx y w Hy Hcy Hw)
    |intros y w Hy Hw; rewrite F8 in Hy; exact (Hback y w Hy Hw)
    |]);
  assumption.
Qed.

(* ================================================================== *)
(* 11. the mini level, allocation side                                 *)
(* ================================================================== *)

(* one more mini sector: every index of the new MiniFAT is an index of the old
   one or the mini sector just allocated (nothing else is appended) *)
Lemma extend_tight : forall s mids r rids mfids dids,
  SA.MWf_at s r rids mfids dids ->
  path (minifat s) (hd END_OF_CHAIN mids) mids ->
  SA.mroom s rids mfids 1 ->
  exists s' x,
    SA.extend_or_begin mids s = (s', Ok x) /\
    forall y, y < lenN (minifat s') -> y < lenN (minifat s) \/ y = x.
Proof.
  intros s mids r rids mfids dids W Hp Hroom.
  destruct (SA.alloc_mini_step s END_OF_CHAIN r rids mfids dids W Hroom)
    as (s1 & x & Ea & Hfresh & Hxle & Hmf1 & Hmfr1 & Hxni & W1 & Hsh1 & Hld1 & Hdj1 & Hfr1 & Hroom1).
  assert (Hxmids : ~ In x mids) by (intro Hin; exact (SA.path_not_fresh _ _ _ _ Hp Hin Hfresh)).
  assert (Ht1 : forall y, y < lenN (minifat s1) -> y < lenN (minifat s) \/ y = x).
  { intros y Hy. rewrite Hmf1 in Hy. unfold fat_set in Hy.
    destruct (x =? lenN (minifat s)) eqn:Ex.
    - rewrite lenN_app in Hy. cbn [lenN] in Hy. apply N.eqb_eq in Ex. lia.
    - rewrite lenN_updN in Hy. left. exact Hy. }
  unfold SA.extend_or_begin.
  destruct (lastN mids) as [last|] eqn:Elast.
  - pose proof (lastN_Some_snoc _ _ _ Elast) as Emids.
    pose proof Hp as Hp0. rewrite Emids in Hp0.
    pose proof (StoreProofs.path_last_EOC _ _ _ _ Hp0) as Hnx.
    pose proof (WalkProofs.next_of_lt _ _ _ Hnx) as Hlast_lt.
    assert (Hlast_ne : last <> END_OF_CHAIN).
    { apply StoreProofs.path_mid in Hp0. inversion Hp0 as [|cur nx l' Hc Hn' Hp']. exact Hc. }
    assert (Hlen1 : lenN (minifat s) <= lenN (minifat s1)).
    { rewrite Hmf1. unfold fat_set. destruct (x =? lenN (minifat s)); [rewrite lenN_app|rewrite lenN_updN]; lia. }
    destruct (SA.set_minifat_fr s1 last x mfids) as (s2 & E2 & Hsh2 & Hmf2 & _).
    { lia. } { apply W1. } { apply W1. }
    { pose proof (SA.mw_mcap _ _ _ _ _ W1). lia. }
    assert (Hlen2 : lenN (minifat s2) = lenN (minifat s1)).
    { rewrite Hmf2. unfold fat_set. destruct (last =? lenN (minifat s1)) eqn:Ei; [lia|apply lenN_updN]. }
    exists s2, x. split.
    + unfold extend_mini_chain.
      destruct (last =? END_OF_CHAIN) eqn:E; [apply N.eqb_eq in E; contradiction|].
      rewrite bind_get. rewrite (StoreProofs.find_last_at_end _ _ Hnx). rewrite bind_lift_ok.
      rewrite (bind_exec _ _ _ _ _ Ea). rewrite (bind_exec _ _ _ _ _ E2). reflexivity.
    + intros y Hy. rewrite Hlen2 in Hy. exact (Ht1 y Hy).
  - exists s1, x. split; [exact Ea|exact Ht1].
Qed.

Lemma mchain_grow_tight : forall k s mids o r rids mfids dids,
  SA.MWf_at s r rids mfids dids ->
  path (minifat s) (hd END_OF_CHAIN mids) mids ->
  SA.mroom s rids mfids (N.of_nat k) ->
  exists s' news,
    mchain_grow k (mkMChain mids o) s = (s', Ok (mkMChain (mids ++ news) o)) /\
    forall y, y < lenN (minifat s') -> y < lenN (minifat s) \/ In y news.
Proof.
  induction k as [|k IH]; intros s mids o r rids mfids dids W Hp Hroom.
  - exists s, []. cbn [mchain_grow]. rewrite app_nil_r. split; [reflexivity|]. intros y Hy. left. exact Hy.
  - assert (Hr1 : SA.mroom s rids mfids 1) by (eapply SA.mroom_le; [|exact Hroom]; lia).
    destruct (SA.mini_extend_step s mids r rids mfids dids ROOT_STREAM_ID W Hp Hr1)
      as (s1 & x & r1 & E1 & W1 & P1 & F1 & N1 & M1 & B1 & R1).
    destruct (extend_tight s mids r rids mfids dids W Hp Hr1) as (s1' & x' & E1' & T1).
    rewrite E1 in E1'. injection E1' as <- <-.
    assert (Hrk : SA.mroom s1 rids mfids (N.of_nat k)).
    { apply R1. replace (N.of_nat k + 1) with (N.of_nat (S k)) by lia. exact Hroom. }
    destruct (IH s1 (mids ++ [x]) o r1 rids mfids dids W1 P1 Hrk) as (s' & news & E' & T').
    rewrite <- app_assoc in E'. cbn [app] in E'.
    exists s', (x :: news). split.
    + cbn [mchain_grow mc_ids mc_off]. unfold SA.extend_or_begin in E1.
      rewrite (bind_exec _ _ _ _ _ E1). exact E'.
    + intros y Hy. destruct (T' y Hy) as [H1|H1]; [|right; right; exact H1].
      destruct (T1 y H1) as [H2|H2]; [left; exact H2|right; left; symmetry; exact H2].
Qed.

(* ---- the table-level step: a small (or empty) stream gets more mini
   sectors; the FAT does not move; new members were FREE or are appended;
   nothing else is appended ---- *)
Section SmallGrow.
Variables s s' : cstate.
Variables (r r' : dirent) (rids mfids dids : list N).
Variables (id : N) (e e' : dirent) (mids news : list N).
Hypothesis HCD : CohData' s.
Hypothesis HD : DInv s.
Hypothesis HFA : FreeAll s.
Hypothesis HCD' : CohData' s'.
Hypothesis W : SA.MWf_at s r rids mfids dids.
Hypothesis W' : SA.MWf_at s' r' rids mfids dids.
Hypothesis Hsh : same_shape s s'.
Hypothesis Hlen : lenN (dirs s') = lenN (dirs s).
Hypothesis Hoth : forall j, j <> ROOT_STREAM_ID -> j <> id -> nthN (dirs s') j = nthN (dirs s) j.
Hypothesis He : nthN (dirs s) id = Some e.
Hypothesis He' : nthN (dirs s') id = Some e'.
Hypothesis Ht : d_type e = TStream.
Hypothesis Hold : (SA.small_entry e /\ chain_ids_of (minifat s) (d_start e) = Ok mids) \/
                  (d_len e = 0 /\ mids = []).
Hypothesis Hsm' : SA.small_entry e'.
Hypothesis Hch' : chain_ids_of (minifat s') (d_start e') = Ok (mids ++ news).
Hypothesis Hexact : lenN (mids ++ news) = ceil_div (d_len e') MINI_SECTOR_LEN.
Hypothesis Hmlen : lenN (minifat s) <= lenN (minifat s').
Hypothesis Hframe : forall y, ~ In y (mids ++ news) -> y < lenN (minifat s) ->
  nthN (minifat s') y = nthN (minifat s) y.
Hypothesis Hfresh : forall x, In x news -> SA.fresh (minifat s) x.
Hypothesis Htight : forall y, y < lenN (minifat s') -> y < lenN (minifat s) \/ In y (mids ++ news).

Let HC : Coherent s := cd_coh s HCD.
Let HC' : Coherent s' := cd_coh s' HCD'.

Lemma sg_fields : fat s' = fat s /\ free s' = free s /\ difat s' = difat s /\
  dir_start s' = dir_start s /\ minifat_start s' = minifat_start s /\ slen s' = slen s.
Proof.
  destruct Hsh as (_ & Zv & _ & _ & Zfat & Zfree & Zdifat & Zds & Zms).
  repeat split; try assumption. unfold slen. rewrite Zv. reflexivity.
Qed.

Lemma sg_idr : id <> ROOT_STREAM_ID.
Proof. exact (stream_not_root s id e HC He Ht). Qed.

Lemma sg_stream_back : forall j x, nthN (dirs s') j = Some x -> d_type x = TStream -> j <> id ->
  nthN (dirs s) j = Some x.
Proof.
  intros j x Hx Htx Hj. destruct (N.eq_dec j ROOT_STREAM_ID) as [->|Hr].
  - rewrite (coherent_root_type s' x HC' Hx) in Htx. discriminate Htx.
  - rewrite <- (Hoth j Hr Hj). exact Hx.
Qed.

Lemma sg_stream_fwd : forall j x, nthN (dirs s) j = Some x -> d_type x = TStream -> j <> id ->
  nthN (dirs s') j = Some x.
Proof.
  intros j x Hx Htx Hj. destruct (N.eq_dec j ROOT_STREAM_ID) as [->|Hr].
  - rewrite (coherent_root_type s x HC Hx) in Htx. discriminate Htx.
  - rewrite (Hoth j Hr Hj). exact Hx.
Qed.

Lemma sg_old : forall x, mowns s id x -> In x mids.
Proof.
  intros x (e0 & l & He0 & _ & Hp & _ & Hl & Hx). assert (e0 = e) by congruence. subst e0.
  destruct Hold as [[_ Hc]|[Hz _]]; [congruence|lia].
Qed.

(* the mini chain of another small stream is untouched *)
Lemma sg_chain : forall j a l, j <> id -> nthN (dirs s) j = Some a -> SA.small_entry a ->
  chain_ids_of (minifat s) (d_start a) = Ok l -> chain_ids_of (minifat s') (d_start a) = Ok l.
Proof.
  intros j a l Hj Ha (Hta & Hp & Hb) Hl.
  apply (chain_transfer (minifat s)); [exact Hl|exact Hmlen|].
  intros x Hx. apply Hframe; [|exact (chain_ids_lt _ _ _ _ Hl Hx)].
  intro Hin. apply in_app_or in Hin. destruct Hin as [Hin|Hin].
  - apply Hj. apply (di_mini_uniq s HD j id x); [exists a, l; auto 10|].
    destruct Hold as [[(Hte & Hpe & Hbe) Hc]|[_ ->]]; [|destruct Hin]. exists e, mids. auto 10.
  - destruct (chain_cell _ _ _ _ Hl Hx) as (v & Hv & Hr). pose proof (Hfresh x Hin v Hv). markers. lia.
Qed.

Lemma sg_mowns_fwd : forall i x, i <> id -> mowns s i x -> mowns s' i x.
Proof.
  intros i x Hi (a & l & Ha & Hta & Hp & Hb & Hl & Hx).
  exists a, l. split; [exact (sg_stream_fwd i a Ha Hta Hi)|].
  pose proof (sg_chain i a l Hi Ha (conj Hta (conj Hp Hb)) Hl). auto 10.
Qed.

Lemma sg_fowns_fwd : forall o x, fowns s o x -> fowns s' o x.
Proof.
  destruct sg_fields as (Zfat & _ & Zdifat & Zds & Zms & _).
  intros o x Ho. destruct o as [| | | |j]; cbn [fowns] in *; rewrite ?Zfat, ?Zdifat, ?Zds, ?Zms; try exact Ho.
  - destruct Ho as (r0 & l & Hr0 & Hl & Hx).
    rewrite (SA.mw_root _ _ _ _ _ W) in Hr0. injection Hr0 as <-.
    rewrite (SA.mw_rch _ _ _ _ _ W) in Hl. injection Hl as <-.
    exists r', rids. split; [exact (SA.mw_root _ _ _ _ _ W')|]. split; [|exact Hx].
    rewrite <- Zfat. exact (SA.mw_rch _ _ _ _ _ W').
  - destruct Ho as (a & l & Ha & Hta & Hb & Hl & Hx).
    assert (Hj : j <> id).
    { intros ->. assert (a = e) by congruence. subst a.
      destruct Hold as [[(_ & _ & Hlt) _]|[Hz _]]; rewrite CUTOFF_val in *; lia. }
    exists a, l. split; [exact (sg_stream_fwd j a Ha Hta Hj)|]. auto.
Qed.

Theorem small_grow_dinv : DInv s' /\ FreeAll s'.
Proof.
  destruct sg_fields as (Zfat & Zfree & Zdifat & Zds & Zms & Zsl).
  split; [|exact (freeall_same_tables s s' Zfat Zfree HFA)].
  destruct Hsm' as (Ht' & Hp' & Hb').
  apply (cohdata'_exact_dinv s' HCD'). constructor.
  - intros i x Hx Htx Hl. destruct (N.eq_dec i id) as [->|Hi].
    + assert (x = e') by congruence. subst x. lia.
    + exact (di_empty s HD i x (sg_stream_back i x Hx Htx Hi) Htx Hl).
  - intros i x ids Hx Htx Hb Hl. rewrite Zfat in Hl. rewrite Zsl. destruct (N.eq_dec i id) as [->|Hi].
    + assert (x = e') by congruence. subst x. lia.
    + destruct (di_big s HD i x (sg_stream_back i x Hx Htx Hi) Htx Hb) as (l & Hl' & Hll). congruence.
  - intros i x ids Hx Htx Hp Hb Hl. destruct (N.eq_dec i id) as [->|Hi].
    + assert (x = e') by congruence. subst x. rewrite Hch' in Hl. injection Hl as <-. exact Hexact.
    + pose proof (sg_stream_back i x Hx Htx Hi) as Hx0.
      destruct (di_small s HD i x Hx0 Htx Hp Hb) as (l & Hl' & Hll).
      pose proof (sg_chain i x l Hi Hx0 (conj Htx (conj Hp Hb)) Hl'). congruence.
  - intros x v Hv Hnf. rewrite Zfat in Hv. destruct (di_fat_cover s HD x v Hv Hnf) as (o & Ho).
    exists o. apply sg_fowns_fwd. exact Ho.
  - intros y w Hy Hw.
    destruct (in_dec N.eq_dec y (mids ++ news)) as [Hin|Hout].
    + exists id, e', (mids ++ news). auto 10.
    + pose proof (nthN_Some_lt _ _ _ _ Hy) as Hlt.
      destruct (Htight y Hlt) as [Hlt0|Hc]; [|contradiction].
      rewrite (Hframe y Hout Hlt0) in Hy.
      destruct (di_mini_cover s HD y w Hy Hw) as (i & Hi). exists i. apply sg_mowns_fwd; [|exact Hi].
      intros ->. apply Hout. apply in_or_app. left. exact (sg_old y Hi).
Qed.
End SmallGrow.

Lemma update_entry_minifat : forall s2 s' id e st ln r rids mfids dids,
  SA.MWf_at s2 r rids mfids dids -> nthN (dirs s2) id = Some e ->
  update_entry id st ln s2 = (s', Ok tt) -> minifat s' = minifat s2.
Proof.
  intros s2 s' id e st ln r rids mfids dids W2 Hn Eu.
  destruct (StoreProofs.update_entry_exec s2 id e st ln dids) as (s'' & Eu' & _ & _ & Hmf & _).
  { exact Hn. }
  { exact (SA.mw_names _ _ _ _ _ W2 id e Hn). }
  { exact (SA.mw_dch _ _ _ _ _ W2). }
  { exact (SA.mw_dgood _ _ _ _ _ W2). }
  { pose proof (SA.mw_dcap _ _ _ _ _ W2) as Hcap. pose proof (nthN_Some_lt _ _ _ _ Hn).
    rewrite StoreProofs.DEL_val in *. lia. }
  assert (s'' = s') by congruence. subst s''. exact Hmf.
Qed.

Lemma ceil64 : forall n, ceil_div n MINI_SECTOR_LEN = (64 + n - 1) / 64.
Proof. intro n. unfold ceil_div, MINI_SECTOR_LEN. f_equal. lia. Qed.

(* ---- a small stream grows and takes mini sectors (free list or appended) ---- *)
Theorem resize_small_alloc_dinv : forall s id V k new_len,
  CohData' s -> DInv s -> FreeAll s ->
  small_content s id V -> mini_sectors s id k ->
  0 < new_len -> new_len < MINI_STREAM_CUTOFF -> k <= SA.msectors new_len ->
  SA.mini_room s (SA.msectors new_len - k) -> RootFits s (SA.msectors new_len - k) ->
  exists s', resize id new_len s = (s', Ok tt) /\ CohData' s' /\ DInv s' /\ FreeAll s'.
Proof.
  intros s id V k new_len HCD HD HFA Hsc Hk Hpos' Hcut' Hle Hmr Hrf.
  destruct (resize_small_alloc_cohdata' s id V k new_len HCD Hsc Hk Hpos' Hcut' Hle Hmr Hrf)
    as (s0 & R0 & HCD0 & _).
  destruct Hmr as (r0 & rids0 & mfids0 & dids0 & SW0 & Hroom).
  pose proof HCD as [HC (r & rids & mfids & dids & SW & Hmdj) HF Hax].
  destruct (swf_witness_fun _ _ _ _ _ _ _ _ _ _ _ SW SW0) as (-> & -> & -> & ->). clear SW0.
  pose proof (SA.sw_m _ _ _ _ _ _ SW) as W.
  destruct (SA.small_content_at _ _ _ _ _ _ _ W Hsc) as (e & mids & Hsm).
  pose proof (mini_sectors_small_at _ _ _ _ _ _ _ Hsm Hk) as Ek. subst k.
  rewrite <- SA.msectors_ceil in *.
  set (num := (64 + new_len - 1) / 64) in *.
  destruct (SA.resize_small_alloc_full s id e r rids mfids dids mids V new_len W Hsm Hpos' Hle Hcut' Hroom)
    as (s' & news & r' & Hrun & Hsm' & Hlen & W' & Hfresh & M).
  assert (s0 = s') by congruence. subst s0.
  destruct (small_at_start _ _ _ _ _ _ Hsm) as (Hne & Hst & Hk0).
  pose proof Hsm as (Hnth & Ht & Hcut & Hpos & Hch & Hgm & Hle0 & HV).
  assert (Hmne : mids <> []) by (intros ->; cbn [lenN] in Hk0; lia).
  assert (Hpath0 : path (minifat s) (d_start e) mids) by (apply WalkProofs.chain_ids_path; exact Hch).
  pose proof (path_hd_start _ _ _ Hpath0) as Hhd.
  assert (Hpath : path (minifat s) (hd END_OF_CHAIN mids) mids) by (rewrite <- Hhd; exact Hpath0).
  destruct (mchain_grow_tight (N.to_nat (num - lenN mids)) s mids 0 r rids mfids dids W Hpath)
    as (s1 & news1 & Eg & T1).
  { rewrite N2Nat.id. exact Hroom. }
  destruct (SA.mchain_grow_spec (N.to_nat (num - lenN mids)) s mids 0 r rids mfids dids ROOT_STREAM_ID W Hpath)
    as (s1' & news' & r1 & Eg' & Ln & W1 & P1 & _ & M1 & _).
  { rewrite N2Nat.id. exact Hroom. }
  rewrite Eg in Eg'. injection Eg' as <- Enw. apply app_inv_head in Enw. subst news'.
  rewrite N2Nat.id in Ln.
  set (mall := mids ++ news1) in *.
  assert (Hhd' : hd END_OF_CHAIN mall = d_start e)
    by (unfold mall; rewrite SA.hd_app_ne by exact Hmne; symmetry; exact Hhd).
  assert (Hnum : new_len <= 64 * num /\ 64 * num < new_len + 64) by (unfold num; lia).
  destruct (SA.zero_fill_small s1 r1 rids mfids dids id mall (d_len e) new_len 0 W1 P1)
    as (s2 & o2 & Ez & W2 & Hmf2 & Hd2 & _); [unfold mall; rewrite lenN_app; lia|unfold mall; rewrite lenN_app; lia|].
  pose proof (SA.small_not_root _ _ _ _ _ _ _ W Hnth Ht) as Hidr.
  assert (Hn2 : nthN (dirs s2) id = Some e).
  { rewrite Hd2, (SA.mframe_entry _ _ _ _ _ _ id M1 Hidr). exact Hnth. }
  assert (P2 : path (minifat s2) (hd END_OF_CHAIN mall) mall) by (rewrite Hmf2; exact P1).
  destruct (SA.finish_small s2 id e r1 rids mfids dids mall new_len W2 Hn2 Ht P2)
    as (s'' & Eu & _); [lia|lia|unfold mall; rewrite lenN_app; lia|].
  rewrite Hhd' in Eu.
  assert (Hrun' : resize id new_len s = (s'', Ok tt)).
  { refine (resize_small_run s id e mids mall s1 s2 o2 new_len s'' Hnth Ht Hpos Hcut Hne Hpos' Hcut' Hch _ Ez Hhd' Eu).
    rewrite (SA.mchain_set_len_grow s (mkMChain mids 0) new_len Hcut' Hpos' Hle). cbn [mc_ids].
    fold num. exact Eg. }
  assert (s'' = s') by congruence. subst s''.
  assert (Hmfeq : minifat s' = minifat s1).
  { rewrite (update_entry_minifat s2 s' id e _ _ r1 rids mfids dids W2 Hn2 Eu). exact Hmf2. }
  pose proof Hsm' as (Hnth' & Ht' & Hcut2 & Hpos2 & Hch2 & _).
  cbn [set_start_len d_start] in Hch2.
  assert (Enews : news = news1).
  { assert (Hc1 : chain_ids_of (minifat s') (d_start e) = Ok mall).
    { rewrite Hmfeq, <- Hhd'. apply SA.chain_of_path. exact P1. }
    rewrite Hch2 in Hc1. injection Hc1 as Hc1. unfold mall in Hc1. apply app_inv_head in Hc1. exact Hc1. }
  subst news1.
  pose proof M as (Msh & Mlen & Moth & _ & _ & Mml & Mfr).
  destruct (small_grow_dinv s s' r r' rids mfids dids id e (set_start_len e (d_start e) new_len) mids news
              HCD HD HFA HCD0 W W' Msh Mlen) as [HD' HFA']; try assumption.
  - left. split; [exact (SA.small_at_entry _ _ _ _ _ _ Hsm)|exact Hch].
  - exact (SA.small_at_entry _ _ _ _ _ _ Hsm').
  - rewrite ceil64. cbn [set_start_len d_len]. exact Hlen.
  - intros y Hy. rewrite Hmfeq in Hy. destruct (T1 y Hy) as [H1|H1]; [left; exact H1|].
    right. apply in_or_app. right. exact H1.
  - exists s'. auto.
Qed.

(* ---- the first growth of an empty stream to a small length ---- *)
Theorem resize_empty_small_dinv : forall s id new_len,
  CohData' s -> DInv s -> FreeAll s -> SA.empty_stream s id ->
  0 < new_len -> new_len < MINI_STREAM_CUTOFF ->
  SA.mini_room s (SA.msectors new_len) -> RootFits s (SA.msectors new_len) ->
  exists s', resize id new_len s = (s', Ok tt) /\ CohData' s' /\ DInv s' /\ FreeAll s'.
Proof.
  intros s id new_len HCD HD HFA Hemp Hpos Hcut Hmr Hrf.
  destruct (resize_empty_small_cohdata' s id new_len HCD Hemp Hpos Hcut Hmr Hrf) as (s0 & R0 & HCD0 & _).
  destruct Hemp as (e & He).
  destruct Hmr as (r0 & rids0 & mfids0 & dids0 & SW0 & Hroom).
  pose proof HCD as [HC (r & rids & mfids & dids & SW & Hmdj) HF Hax].
  destruct (swf_witness_fun _ _ _ _ _ _ _ _ _ _ _ SW SW0) as (-> & -> & -> & ->). clear SW0.
  pose proof (SA.sw_m _ _ _ _ _ _ SW) as W.
  rewrite <- SA.msectors_ceil in *.
  set (num := (64 + new_len - 1) / 64) in *.
  destruct (SA.resize_empty_small_full s id e r rids mfids dids new_len W He Hpos Hcut Hroom)
    as (s' & news & r' & Hrun & Hsm' & Hlen & W' & Hfresh & M).
  assert (s0 = s') by congruence. subst s0.
  pose proof He as (Hnth & Ht & Hst & Hl0).
  pose proof (SA.small_not_root _ _ _ _ _ _ _ W Hnth Ht) as Hidr.
  assert (Hnum : new_len <= 64 * num /\ 64 * num < new_len + 64 /\ 0 < num) by (unfold num; lia).
  assert (Hp0 : path (minifat s) (hd END_OF_CHAIN []) []) by constructor.
  destruct (mchain_grow_tight (N.to_nat num) s [] 0 r rids mfids dids W Hp0) as (s1 & news1 & Eg & T1).
  { rewrite N2Nat.id. exact Hroom. }
  destruct (SA.mchain_grow_spec (N.to_nat num) s [] 0 r rids mfids dids ROOT_STREAM_ID W Hp0)
    as (s1' & news' & r1 & Eg' & Ln & W1 & P1 & _ & M1 & _).
  { rewrite N2Nat.id. exact Hroom. }
  rewrite Eg in Eg'. injection Eg' as <- Enw. cbn [app] in *. subst news'.
  rewrite N2Nat.id in Ln.
  set (zs := repeatN 0 new_len : list byte).
  assert (Hzs : lenN zs = new_len) by (unfold zs; apply lenN_repeatN).
  destruct (SA.mwrite_within s1 r1 rids mfids dids id news1 0 zs W1 P1) as (s2 & Ew & W2 & Hmf2 & Hd2 & _);
    [rewrite Hzs, Ln; lia|].
  assert (Hn2 : nthN (dirs s2) id = Some e).
  { rewrite Hd2, (SA.mframe_entry _ _ _ _ _ _ id M1 Hidr). exact Hnth. }
  assert (P2 : path (minifat s2) (hd END_OF_CHAIN news1) news1) by (rewrite Hmf2; exact P1).
  destruct (SA.finish_small s2 id e r1 rids mfids dids news1 new_len W2 Hn2 Ht P2)
    as (s'' & Eu & _); [lia|lia|lia|].
  assert (Hrun' : resize id new_len s = (s'', Ok tt)).
  { unfold resize. sred.
    rewrite (stream_entry_ok s id e Hnth Ht). sred. rewrite Hst, Hl0.
    assert (E0 : (MAX_REGULAR_SECTOR * slen s <? new_len) = false).
    { pose proof (ChainProofs.slen_pos s). apply N.ltb_ge. rewrite MAXREG_val. rewrite CUTOFF_val in Hcut. nia. }
    rewrite E0. sred.
    rewrite (mask_check_false s new_len) by (apply small_fits_mask; lia). sred.
    rewrite N.eqb_refl. cbn [N.eqb negb].
    assert (E5 : (new_len <? MINI_STREAM_CUTOFF) = true) by lia. rewrite E5.
    rewrite (SA.mchain_new_eoc s).
    rewrite (SA.mchain_set_len_grow s (mkMChain [] 0) new_len Hcut Hpos) by (cbn [mc_ids lenN]; lia).
    cbn [mc_ids lenN]. rewrite N.sub_0_r. fold num. rewrite Eg.
    unfold zero_fill_mchain.
    assert (E6 : (0 <? new_len) = true) by lia. rewrite E6. sred.
    rewrite (mchain_seek_ok s1 news1 0 0) by lia.
    rewrite N.sub_0_r. fold zs. rewrite Ew.
    rewrite SA.mchain_start_hd. exact Eu. }
  assert (s'' = s') by congruence. subst s''.
  assert (Hmfeq : minifat s' = minifat s1).
  { rewrite (update_entry_minifat s2 s' id e _ _ r1 rids mfids dids W2 Hn2 Eu). exact Hmf2. }
  pose proof Hsm' as (Hnth' & Ht' & Hcut2 & Hpos2 & Hch2 & _).
  cbn [set_start_len d_start] in Hch2.
  assert (Hnews_ne : news1 <> []) by (intros ->; cbn [lenN] in Ln; lia).
  assert (Enews : news = news1).
  { assert (Hc1 : chain_ids_of (minifat s') (hd END_OF_CHAIN news1) = Ok news1).
    { rewrite Hmfeq. apply SA.chain_of_path. exact P1. }
    assert (Hne : news <> []) by (intros ->; cbn [lenN] in Hlen; fold num in Hlen; lia).
    (* both chains start at the head recorded in the entry *)
    pose proof (WalkProofs.chain_ids_path _ _ _ Hch2) as Hp2.
    pose proof (path_hd_start _ _ _ Hp2) as Hh2.
    assert (Hstart : hd END_OF_CHAIN news = hd END_OF_CHAIN news1).
    { pose proof Eu as Eu0.
      destruct (StoreProofs.update_entry_exec s2 id e (hd END_OF_CHAIN news1) new_len dids) as (sx & Eux & Hdx & _).
      { exact Hn2. } { exact (SA.mw_names _ _ _ _ _ W2 id e Hn2). } { exact (SA.mw_dch _ _ _ _ _ W2). }
      { exact (SA.mw_dgood _ _ _ _ _ W2). }
      { pose proof (SA.mw_dcap _ _ _ _ _ W2) as Hcap. pose proof (nthN_Some_lt _ _ _ _ Hn2).
        rewrite StoreProofs.DEL_val in *. lia. }
      assert (sx = s') by congruence. subst sx.
      rewrite Hdx in Hnth'. rewrite nthN_updN_same in Hnth' by (eapply nthN_Some_lt; exact Hn2).
      injection Hnth' as Heq. symmetry. exact Heq. }
    rewrite Hstart in Hch2. congruence. }
  subst news1.
  pose proof M as (Msh & Mlen & Moth & _ & _ & Mml & Mfr).
  destruct (small_grow_dinv s s' r r' rids mfids dids id e (set_start_len e (hd END_OF_CHAIN news) new_len) [] news
              HCD HD HFA HCD0 W W' Msh Mlen) as [HD' HFA']; try assumption.
  - right. split; [exact Hl0|reflexivity].
  - exact (SA.small_at_entry _ _ _ _ _ _ Hsm').
  - cbn [app]. rewrite ceil64. cbn [set_start_len d_len]. exact Hlen.
  - intros y Hy. rewrite Hmfeq in Hy. destruct (T1 y Hy) as [H1|H1]; [left; exact H1|right; exact H1].
  - exists s'. auto.
Qed.


(* ---- MiniChain::write with extension: nothing but the new members is appended ---- *)
Lemma mchain_write_go_tight : forall fuel s mids off bs r rids mfids dids,
  SA.MWf_at s r rids mfids dids ->
  path (minifat s) (hd END_OF_CHAIN mids) mids ->
  off <= 64 * lenN mids ->
  SA.mroom s rids mfids ((off + lenN bs + 63) / 64 - lenN mids) ->
  (1 <= fuel)%nat ->
  (0 < lenN bs -> off + lenN bs <= 64 * (off / 64 + N.of_nat fuel - 1)) ->
  exists s' news,
    mchain_write_go fuel (mkMChain mids off) bs s
      = (s', Ok (mkMChain (mids ++ news) (off + lenN bs))) /\
    forall y, y < lenN (minifat s') -> y < lenN (minifat s) \/ In y news.
Proof.
  induction fuel as [|f IH]; intros s mids off bs r rids mfids dids W Hp Hoff Hroom Hf1 Hfuel; [lia|].
  assert (Hpos : 0 < 64) by lia.
  cbn [mchain_write_go].
  destruct bs as [|b0 bt] eqn:Ebs.
  - exists s, []. rewrite app_nil_r. cbn [lenN]. rewrite N.add_0_r.
    split; [reflexivity|]. intros y Hy. left. exact Hy.
  - assert (Hbs : 0 < lenN (b0 :: bt)) by (cbn [lenN]; lia).
    rewrite <- Ebs in *. clear Ebs b0 bt. specialize (Hfuel Hbs).
    destruct (SA.pre_extend s mids off (lenN bs) r rids mfids dids W Hp Hoff Hbs Hroom)
      as (s1 & news1 & r1 & Epre & W1 & P1 & Hoff1 & Hroom1 & Ln1 & F1 & M1 & B1).
    assert (T1 : forall y, y < lenN (minifat s1) -> y < lenN (minifat s) \/ In y news1).
    { destruct (off =? 64 * lenN mids) eqn:E.
      - apply N.eqb_eq in E.
        assert (Hr1 : SA.mroom s rids mfids 1).
        { eapply SA.mroom_le; [|exact Hroom]. lia. }
        destruct (extend_tight s mids r rids mfids dids W Hp Hr1) as (sx & x & Ex & Tx).
        rewrite (bind_exec _ _ _ _ _ Ex) in Epre. unfold ret in Epre.
        injection Epre as <- En. apply app_inv_head in En. subst news1.
        intros y Hy. destruct (Tx y Hy) as [H|H]; [left; exact H|right; left; symmetry; exact H].
      - unfold ret in Epre. injection Epre as <- _. intros y Hy. left. exact Hy. }
    set (mids1 := mids ++ news1) in *.
    cbn [mc_ids mc_off]. unfold mchain_len. cbn [mc_ids]. change MINI_SECTOR_LEN with 64.
    erewrite bind_exec; [|exact Epre].
    cbn [mc_ids mc_off].
    destruct (ChainProofs.divmod_split 64 off Hpos) as [Eoff Hr].
    assert (Hq : off / 64 < lenN mids1) by (apply ChainProofs.div_lt_len; lia).
    destruct (nthN mids1 (off / 64)) as [ms|] eqn:Hn;
      [| apply nthN_None_ge in Hn; lia].
    pose proof (nthN_In _ _ _ _ Hn) as Hin.
    pose proof (SA.good_mchain_of_path _ _ _ _ _ _ _ W1 P1) as Hgm1.
    pose proof Hgm1 as (Hroot1 & Hgood1 & Hnd1 & HF1).
    pose proof HF1 as HF1'. rewrite Forall_forall in HF1'.
    pose proof (HF1' _ Hin) as Hrange. cbv beta in Hrange.
    cbv zeta.
    remember (N.min (lenN bs) (64 - off mod 64)) as k eqn:Ek.
    assert (Hlk : lenN (takeN k bs) = k) by (rewrite lenN_takeN; lia).
    destruct (mini_write_step s1 rids ms (off mod 64) (takeN k bs) Hroot1 Hgood1 Hrange Hr)
      as (sid & s2 & Hloc & Hw & Hmeta2 & Himg2 & Hlen2 & Hfr2 & Hgood2 & Hst2); [lia|].
    erewrite bind_exec; [|exact Hloc]. cbv beta iota.
    erewrite bind_exec; [|exact Hw].
    pose proof (SA.MWf_same_meta s1 s2 r1 rids mfids dids W1 Hmeta2 Himg2 Hlen2) as W2.
    destruct (same_meta_fields s1 s2 Hmeta2)
      as (A1 & A2 & A3 & A4 & A5 & A6 & A7 & A8 & A9 & A10 & A11 & A12).
    assert (P2 : path (minifat s2) (hd END_OF_CHAIN mids1) mids1) by (rewrite A9; exact P1).
    destruct (IH s2 mids1 (off + k) (dropN k bs) r1 rids mfids dids W2 P2)
      as (s' & news2 & Ego & T').
    { nia. }
    { apply (SA.mroom_same s1 s2); [rewrite A9; reflexivity | exact A11 | exact A12 |].
      rewrite lenN_dropN. replace (off + k + (lenN bs - k)) with (off + lenN bs) by lia.
      exact Hroom1. }
    { assert (off + lenN bs > 64 * (off / 64)) by lia. nia. }
    { rewrite lenN_dropN. intro Hrem.
      assert (Hk : k = 64 - off mod 64) by lia.
      rewrite Hk, ChainProofs.div_next by exact Hpos.
      replace (off + (64 - off mod 64) + (lenN bs - (64 - off mod 64)))
        with (off + lenN bs) by lia.
      replace (off / 64 + 1 + N.of_nat f - 1)
        with (off / 64 + N.of_nat (S f) - 1) by lia.
      exact Hfuel. }
    rewrite lenN_dropN in Ego.
    replace (off + k + (lenN bs - k)) with (off + lenN bs) in Ego by lia.
    unfold mids1 in Ego. rewrite <- app_assoc in Ego.
    exists s', (news1 ++ news2). split; [exact Ego|].
    intros y Hy. destruct (T' y Hy) as [H|H]; [|right; apply in_or_app; right; exact H].
    rewrite A9 in H. destruct (T1 y H) as [H1|H1]; [left; exact H1|right; apply in_or_app; left; exact H1].
Qed.

Lemma mchain_write_all_tight : forall s mids off bs r rids mfids dids,
  SA.MWf_at s r rids mfids dids ->
  path (minifat s) (hd END_OF_CHAIN mids) mids ->
  off <= 64 * lenN mids ->
  SA.mroom s rids mfids ((off + lenN bs + 63) / 64 - lenN mids) ->
  exists s' news,
    mchain_write_all (mkMChain mids off) bs s
      = (s', Ok (mkMChain (mids ++ news) (off + lenN bs))) /\
    forall y, y < lenN (minifat s') -> y < lenN (minifat s) \/ In y news.
Proof.
  intros s mids off bs r rids mfids dids W Hp Hoff Hroom.
  unfold mchain_write_all. change MINI_SECTOR_LEN with 64.
  apply (mchain_write_go_tight _ s mids off bs r rids mfids dids W Hp Hoff Hroom).
  - apply le_n_S, Nat.le_0_l.
  - intro Hn. apply ChainProofs.fuel_enough; [lia | exact Hn].
Qed.

(* ---- a write that makes a small stream take mini sectors ---- *)
Theorem write_small_alloc_dinv : forall s id V k off buf,
  CohData' s -> DInv s -> FreeAll s ->
  small_content s id V -> mini_sectors s id k ->
  off <= lenN V -> lenN (spliceN V off buf) < MINI_STREAM_CUTOFF ->
  SA.mini_room s (SA.msectors (off + lenN buf) - k) ->
  RootFits s (SA.msectors (off + lenN buf) - k) ->
  exists s', write_data id off buf s = (s', Ok tt) /\ CohData' s' /\ DInv s' /\ FreeAll s'.
Proof.
  intros s id V k off buf HCD HD HFA Hsc Hk Hoff Hcut Hmr Hrf.
  destruct (write_small_alloc_cohdata' s id V k off buf HCD Hsc Hk Hoff Hcut Hmr Hrf) as (s0 & R0 & HCD0 & _).
  destruct Hmr as (r0 & rids0 & mfids0 & dids0 & SW0 & Hroom).
  pose proof HCD as [HC (r & rids & mfids & dids & SW & Hmdj) HF Hax].
  destruct (swf_witness_fun _ _ _ _ _ _ _ _ _ _ _ SW SW0) as (-> & -> & -> & ->). clear SW0.
  pose proof (SA.sw_m _ _ _ _ _ _ SW) as W.
  destruct (SA.small_content_at _ _ _ _ _ _ _ W Hsc) as (e & mids & Hsm).
  pose proof (mini_sectors_small_at _ _ _ _ _ _ _ Hsm Hk) as Ek. subst k.
  rewrite lenN_spliceN in Hcut. unfold SA.msectors in *.
  destruct (SA.write_data_small_alloc_full s id e r rids mfids dids mids V off buf W Hsm Hoff)
    as (s' & news & r' & Hrun & Hsm' & Hlen & W' & Hfresh & M); [lia | exact Hroom |].
  assert (s0 = s') by congruence. subst s0.
  pose proof (small_at_lenV _ _ _ _ _ _ Hsm) as HlenV. rewrite HlenV in *.
  destruct (small_at_start _ _ _ _ _ _ Hsm) as (Hne & Hst & Hk0).
  pose proof Hsm as (Hnth & Ht & Hcut0 & Hpos & Hch & Hgm & Hle0 & HV).
  pose proof (SA.small_not_root _ _ _ _ _ _ _ W Hnth Ht) as Hidr.
  assert (Hmne : mids <> []) by (intros ->; cbn [lenN] in Hk0; lia).
  assert (Hpath0 : path (minifat s) (d_start e) mids) by (apply WalkProofs.chain_ids_path; exact Hch).
  pose proof (path_hd_start _ _ _ Hpath0) as Hhd.
  assert (Hpath : path (minifat s) (hd END_OF_CHAIN mids) mids) by (rewrite <- Hhd; exact Hpath0).
  set (ln := N.max (d_len e) (off + lenN buf)) in *.
  destruct (mchain_write_all_tight s mids off buf r rids mfids dids W Hpath) as (s1 & news1 & Ew & T1);
    [lia|exact Hroom|].
  destruct (SA.mchain_write_all_alloc s mids off buf r rids mfids dids W Hpath)
    as (s1' & news' & r1 & Ew' & W1 & P1 & Ln & Hfit & _ & _ & M1); [lia|exact Hroom|].
  rewrite Ew in Ew'. injection Ew' as <- Enw. apply app_inv_head in Enw. subst news'.
  set (mall := mids ++ news1) in *.
  assert (Hhd' : hd END_OF_CHAIN mall = d_start e)
    by (unfold mall; rewrite SA.hd_app_ne by exact Hmne; symmetry; exact Hhd).
  assert (Hn1 : nthN (dirs s1) id = Some e).
  { rewrite (SA.mframe_entry _ _ _ _ _ _ id M1 Hidr). exact Hnth. }
  assert (HLall : lenN mids <= lenN mall) by (unfold mall; rewrite lenN_app; lia).
  destruct (SA.finish_small s1 id e r1 rids mfids dids mall ln W1 Hn1 Ht P1)
    as (s'' & Eu & _); [unfold ln; lia | unfold ln; lia | unfold ln; lia |].
  rewrite Hhd' in Eu.
  assert (Hrun' : write_data id off buf s = (s'', Ok tt)).
  { unfold write_data. sred.
    rewrite (stream_entry_ok s id e Hnth Ht). sred.
    assert (E1 : (d_len e <? off) = false) by lia. rewrite E1.
    rewrite (both_check_false_small s (N.max (d_len e) (off + lenN buf))) by lia.
    assert (E2 : (d_start e =? END_OF_CHAIN) = false) by lia. rewrite E2.
    assert (E3 : (d_len e <? MINI_STREAM_CUTOFF) = true) by lia. rewrite E3.
    fold ln.
    assert (E4 : (ln <? MINI_STREAM_CUTOFF) = true) by (unfold ln; lia). rewrite E4.
    rewrite (mchain_new_ok s _ mids Hch).
    rewrite (mchain_seek_ok s mids 0 off) by lia.
    rewrite Ew.
    assert (E5 : negb (mchain_start (mkMChain mall (off + lenN buf)) =? d_start e) = false).
    { rewrite SA.mchain_start_hd, Hhd', N.eqb_refl. reflexivity. }
    rewrite E5. exact Eu. }
  assert (s'' = s') by congruence. subst s''.
  assert (Hmfeq : minifat s' = minifat s1)
    by exact (update_entry_minifat s1 s' id e _ _ r1 rids mfids dids W1 Hn1 Eu).
  pose proof Hsm' as (Hnth' & Ht' & Hcut2 & Hpos2 & Hch2 & _).
  cbn [set_start_len d_start] in Hch2.
  assert (Enews : news = news1).
  { assert (Hc1 : chain_ids_of (minifat s') (d_start e) = Ok mall).
    { rewrite Hmfeq, <- Hhd'. apply SA.chain_of_path. exact P1. }
    rewrite Hch2 in Hc1. injection Hc1 as Hc1. unfold mall in Hc1. apply app_inv_head in Hc1. exact Hc1. }
  subst news1.
  destruct (di_small s HD id e Hnth Ht Hpos Hcut0) as (l & Hl & Hll). assert (l = mids) by congruence. subst l.
  rewrite ceil64 in Hll.
  pose proof M as (Msh & Mlen & Moth & _ & _ & Mml & Mfr).
  destruct (small_grow_dinv s s' r r' rids mfids dids id e
              (set_start_len e (d_start e) (N.max (d_len e) (off + lenN buf))) mids news
              HCD HD HFA HCD0 W W' Msh Mlen) as [HD' HFA']; try assumption.
  - left. split; [exact (SA.small_at_entry _ _ _ _ _ _ Hsm)|exact Hch].
  - exact (SA.small_at_entry _ _ _ _ _ _ Hsm').
  - rewrite ceil64. cbn [set_start_len d_len]. rewrite lenN_app, Hlen. fold ln.
    destruct (N.max_spec (d_len e) (off + lenN buf)) as [[Hc1 Hc2]|[Hc1 Hc2]]; unfold ln; rewrite Hc2; lia.
  - intros y Hy. rewrite Hmfeq in Hy. destruct (T1 y Hy) as [H1|H1]; [left; exact H1|].
    right. apply in_or_app. right. exact H1.
  - exists s'. auto.
Qed.

(* ---- the first write of an empty stream, small ---- *)
Theorem write_empty_small_dinv : forall s id buf,
  CohData' s -> DInv s -> FreeAll s -> SA.empty_stream s id ->
  0 < lenN buf -> lenN buf < MINI_STREAM_CUTOFF ->
  SA.mini_room s (SA.msectors (lenN buf)) -> RootFits s (SA.msectors (lenN buf)) ->
  exists s', write_data id 0 buf s = (s', Ok tt) /\ CohData' s' /\ DInv s' /\ FreeAll s'.
Proof.
  intros s id buf HCD HD HFA Hemp Hpos Hcut Hmr Hrf.
  destruct (write_empty_small_cohdata' s id buf HCD Hemp Hpos Hcut Hmr Hrf) as (s0 & R0 & HCD0 & _).
  destruct Hemp as (e & He).
  destruct Hmr as (r0 & rids0 & mfids0 & dids0 & SW0 & Hroom).
  pose proof HCD as [HC (r & rids & mfids & dids & SW & Hmdj) HF Hax].
  destruct (swf_witness_fun _ _ _ _ _ _ _ _ _ _ _ SW SW0) as (-> & -> & -> & ->). clear SW0.
  pose proof (SA.sw_m _ _ _ _ _ _ SW) as W. unfold SA.msectors in *.
  destruct (SA.write_data_empty_small_full s id e r rids mfids dids buf W He Hpos Hcut Hroom)
    as (s' & news & r' & Hrun & Hsm' & Hlen & W' & Hfresh & M).
  assert (s0 = s') by congruence. subst s0.
  pose proof He as (Hnth & Ht & Hst & Hl0).
  pose proof (SA.small_not_root _ _ _ _ _ _ _ W Hnth Ht) as Hidr.
  assert (Hp0 : path (minifat s) (hd END_OF_CHAIN []) []) by constructor.
  destruct (mchain_write_all_tight s [] 0 buf r rids mfids dids W Hp0) as (s1 & news1 & Ew & T1).
  { cbn [lenN]. lia. }
  { cbn [lenN]. rewrite N.add_0_l, N.sub_0_r. exact Hroom. }
  destruct (SA.mchain_write_all_alloc s [] 0 buf r rids mfids dids W Hp0)
    as (s1' & news' & r1 & Ew' & W1 & P1 & Ln & Hfit & _ & _ & M1).
  { cbn [lenN]. lia. }
  { cbn [lenN]. rewrite N.add_0_l, N.sub_0_r. exact Hroom. }
  rewrite Ew in Ew'. injection Ew' as <- Enw. cbn [app] in *. subst news'.
  cbn [lenN] in *. rewrite N.add_0_l in *. rewrite N.sub_0_r in Ln.
  assert (Hn1 : nthN (dirs s1) id = Some e).
  { rewrite (SA.mframe_entry _ _ _ _ _ _ id M1 Hidr). exact Hnth. }
  destruct (SA.finish_small s1 id e r1 rids mfids dids news1 (lenN buf) W1 Hn1 Ht P1)
    as (s'' & Eu & _); [lia | lia | lia |].
  assert (Hrun' : write_data id 0 buf s = (s'', Ok tt)).
  { unfold write_data. sred.
    rewrite (stream_entry_ok s id e Hnth Ht). sred. rewrite Hst, Hl0.
    change (0 <? 0) with false. sred.
    rewrite (both_check_false_small s (N.max 0 (0 + lenN buf))) by lia.
    cbn [N.ltb N.compare N.eqb negb]. rewrite N.eqb_refl.
    rewrite N.add_0_l.
    replace (N.max 0 (lenN buf)) with (lenN buf) by lia.
    assert (E4 : (lenN buf <? MINI_STREAM_CUTOFF) = true) by lia. rewrite E4.
    rewrite (SA.mchain_new_eoc s). rewrite Ew.
    rewrite SA.mchain_start_hd. exact Eu. }
  assert (s'' = s') by congruence. subst s''.
  assert (Hmfeq : minifat s' = minifat s1)
    by exact (update_entry_minifat s1 s' id e _ _ r1 rids mfids dids W1 Hn1 Eu).
  pose proof Hsm' as (Hnth' & Ht' & Hcut2 & Hpos2 & Hch2 & _).
  cbn [set_start_len d_start] in Hch2.
  assert (Enews : news = news1).
  { assert (Hc1 : chain_ids_of (minifat s') (hd END_OF_CHAIN news1) = Ok news1).
    { rewrite Hmfeq. apply SA.chain_of_path. exact P1. }
    assert (Hstart : hd END_OF_CHAIN news = hd END_OF_CHAIN news1).
    { destruct (StoreProofs.update_entry_exec s1 id e (hd END_OF_CHAIN news1) (lenN buf) dids) as (sx & Eux & Hdx & _).
      { exact Hn1. } { exact (SA.mw_names _ _ _ _ _ W1 id e Hn1). } { exact (SA.mw_dch _ _ _ _ _ W1). }
      { exact (SA.mw_dgood _ _ _ _ _ W1). }
      { pose proof (SA.mw_dcap _ _ _ _ _ W1) as Hcap. pose proof (nthN_Some_lt _ _ _ _ Hn1).
        rewrite StoreProofs.DEL_val in *. lia. }
      assert (sx = s') by congruence. subst sx.
      rewrite Hdx in Hnth'. rewrite nthN_updN_same in Hnth' by (eapply nthN_Some_lt; exact Hn1).
      injection Hnth' as Heq. symmetry. exact Heq. }
    rewrite Hstart in Hch2. congruence. }
  subst news1.
  pose proof M as (Msh & Mlen & Moth & _ & _ & Mml & Mfr).
  destruct (small_grow_dinv s s' r r' rids mfids dids id e
              (set_start_len e (hd END_OF_CHAIN news) (lenN buf)) [] news
              HCD HD HFA HCD0 W W' Msh Mlen) as [HD' HFA']; try assumption.
  - right. split; [exact Hl0|reflexivity].
  - exact (SA.small_at_entry _ _ _ _ _ _ Hsm').
  - cbn [app]. rewrite ceil64. cbn [set_start_len d_len]. rewrite Ln. f_equal. lia.
  - intros y Hy. rewrite Hmfeq in Hy. destruct (T1 y Hy) as [H1|H1]; [left; exact H1|right; exact H1].
  - exists s'. auto.
Qed.


(* ================================================================== *)
(* 12. histories: everything of [hist_ok2] except the migrations       *)
(* ================================================================== *)
Definition ResizeCaseE (s : cstate) (id n : N) : Prop :=
  ResizeCaseC s id n \/
  (exists V k, small_content s id V /\ mini_sectors s id k /\ 0 < n /\ n < MINI_STREAM_CUTOFF /\
     k <= SA.msectors n /\ SA.mini_room s (SA.msectors n - k) /\ RootFits s (SA.msectors n - k)) \/
  (SA.empty_stream s id /\ 0 < n /\ n < MINI_STREAM_CUTOFF /\
     SA.mini_room s (SA.msectors n) /\ RootFits s (SA.msectors n)).

Lemma ResizeCaseE_ResizeCase : forall s id n, ResizeCaseE s id n -> ResizeCase s id n.
Proof.
  intros s id n [H|[H|H]]; [exact (ResizeCaseC_ResizeCase s id n H)| |]; unfold ResizeCase.
  - do 4 right. left. exact H.
  - do 5 right. left. exact H.
Qed.

Lemma small_content_stream : forall s id V, small_content s id V ->
  exists e, nthN (dirs s) id = Some e /\ d_type e = TStream.
Proof. intros s id V (e & l & m & (He & Ht & _)). exists e. auto. Qed.

Theorem resize_caseE_w2 : forall s id n,
  W2 s -> ResizeCaseE s id n -> exists s', resize id n s = (s', Ok tt) /\ W2 s'.
Proof.
  intros s id n HW HR0. pose proof HR0 as HR.
  destruct HR as [HR|HR]; [exact (resize_caseC_w2 s id n HW HR)|].
  pose proof HW as (HT & HD & HFA & HTd). pose proof (proj1 HT) as HCD.
  destruct (resize_case_cohtree s id n HT (ResizeCaseE_ResizeCase s id n HR0)) as (s0 & R0 & HT0 & _).
  assert (Hfin : forall s' e, resize id n s = (s', Ok tt) -> nthN (dirs s) id = Some e -> d_type e = TStream ->
            DInv s' -> FreeAll s' -> exists s', resize id n s = (s', Ok tt) /\ W2 s').
  { intros s' e R He Ht HD' HFA'. assert (s0 = s') by congruence. subst s0.
    exists s'. split; [exact R|]. apply (w2_after s s' id e HW He Ht HT0 HD' HFA').
    pose proof (framesR_resize id n s) as D. rewrite R in D. exact D. }
  destruct HR as [(V & k & Hsc & Hk & H1 & H2 & H3 & H4 & H5)|(He & H1 & H2 & H3 & H4)].
  - destruct (small_content_stream s id V Hsc) as (e & Hn & Ht).
    destruct (resize_small_alloc_dinv s id V k n HCD HD HFA Hsc Hk H1 H2 H3 H4 H5) as (s' & R & _ & HD' & HFA').
    exact (Hfin s' e R Hn Ht HD' HFA').
  - destruct (empty_stream_stream s id He) as (e & Hn & Ht).
    destruct (resize_empty_small_dinv s id n HCD HD HFA He H1 H2 H3 H4) as (s' & R & _ & HD' & HFA').
    exact (Hfin s' e R Hn Ht HD' HFA').
Qed.

Definition WriteCaseE (s : cstate) (id off : N) (buf : list byte) : Prop :=
  WriteCaseB s id off buf \/
  (exists V k, small_content s id V /\ mini_sectors s id k /\ off <= lenN V /\
     lenN (spliceN V off buf) < MINI_STREAM_CUTOFF /\
     SA.mini_room s (SA.msectors (off + lenN buf) - k) /\ RootFits s (SA.msectors (off + lenN buf) - k)) \/
  (SA.empty_stream s id /\ off = 0 /\ 0 < lenN buf /\ lenN buf < MINI_STREAM_CUTOFF /\
     SA.mini_room s (SA.msectors (lenN buf)) /\ RootFits s (SA.msectors (lenN buf))).

Lemma WriteCaseE_WriteCase : forall s id off buf, WriteCaseE s id off buf -> WriteCase s id off buf.
Proof.
  intros s id off buf [H|[H|H]]; [exact (WriteCaseB_WriteCase s id off buf H)| |]; unfold WriteCase.
  - right; left. exact H.
  - right; right; left. exact H.
Qed.

Theorem write_caseE_w2 : forall s id off buf,
  W2 s -> WriteCaseE s id off buf -> exists s', write_data id off buf s = (s', Ok tt) /\ W2 s'.
Proof.
  intros s id off buf HW HC0. pose proof HC0 as HC.
  destruct HC as [HC|HC]; [exact (write_caseB_w2 s id off buf HW HC)|].
  pose proof HW as (HT & HD & HFA & HTd). pose proof (proj1 HT) as HCD.
  destruct (write_case_cohtree s id off buf HT (WriteCaseE_WriteCase s id off buf HC0)) as (s0 & R0 & HT0 & _).
  assert (Hfin : forall s' e, write_data id off buf s = (s', Ok tt) -> nthN (dirs s) id = Some e ->
            d_type e = TStream -> DInv s' -> FreeAll s' ->
            exists s', write_data id off buf s = (s', Ok tt) /\ W2 s').
  { intros s' e R He Ht HD' HFA'. assert (s0 = s') by congruence. subst s0.
    exists s'. split; [exact R|]. apply (w2_after s s' id e HW He Ht HT0 HD' HFA').
    pose proof (framesR_write_data id off buf s) as D. rewrite R in D. exact D. }
  destruct HC as [(V & k & Hsc & Hk & H1 & H2 & H3 & H4)|(He & -> & H1 & H2 & H3 & H4)].
  - destruct (small_content_stream s id V Hsc) as (e & Hn & Ht).
    destruct (write_small_alloc_dinv s id V k off buf HCD HD HFA Hsc Hk H1 H2 H3 H4) as (s' & R & _ & HD' & HFA').
    exact (Hfin s' e R Hn Ht HD' HFA').
  - destruct (empty_stream_stream s id He) as (e & Hn & Ht).
    destruct (write_empty_small_dinv s id buf HCD HD HFA He H1 H2 H3 H4) as (s' & R & _ & HD' & HFA').
    exact (Hfin s' e R Hn Ht HD' HFA').
Qed.

Definition CWdE (id off : N) (bs : list byte) (s : cstate) : Prop := WriteCaseE s id off bs.
Definition CRdE (id n : N) (s : cstate) : Prop := ResizeCaseE s id n.

Definition cov_flushE (h : handle) (s : cstate) : Prop :=
  h_dirty h = true -> CWdE (h_id h) (h_off h) (buf_filled (h_buf h)) s.

Definition covered_opE (o : op) (h : handle) (s : cstate) : Prop :=
  match o with
  | OHRead _ _ | OHFill _ | OHWrite _ _ | OHSeek _ _ _ | OHFlush _ | OHDrop _ => cov_flushE h s
  | OHSetLen _ n =>
      cov_flushE h s /\ (n <> h_total h -> CRdE (h_id h) n (fst (flush_changes' h s)))
  | _ => True
  end.

Lemma w2_wrE : forall id off bs s, W2 s -> CWdE id off bs s ->
  W2 (fst (write_data id off bs s)) /\ Rtriv id s (fst (write_data id off bs s)).
Proof.
  intros id off bs s HG HC. destruct (write_caseE_w2 s id off bs HG HC) as (s' & E & H).
  rewrite E. split; [exact H|exact I].
Qed.
Lemma w2_rsE : forall id n s, W2 s -> CRdE id n s ->
  W2 (fst (resize id n s)) /\ Rtriv id s (fst (resize id n s)).
Proof.
  intros id n s HG HC. destruct (resize_caseE_w2 s id n HG HC) as (s' & E & H).
  rewrite E. split; [exact H|exact I].
Qed.

Theorem hop_run_w2E : forall o h s, W2 s -> covered_opE o h s -> W2 (fst (hop_run o h s)).
Proof.
  intros o h s HA HC.
  assert (Rr : forall id s0, Rtriv id s0 s0) by (intros; exact I).
  assert (Rt : forall id a b c, Rtriv id a b -> Rtriv id b c -> Rtriv id a c) by (intros; exact I).
  pose proof (h_read_C cstate read_data write_data stream_len_of W2 Rtriv CWdE Rr Rt w2_rd w2_sl w2_wrE) as Xread.
  pose proof (h_fill_buf_C cstate read_data write_data stream_len_of W2 Rtriv CWdE Rr Rt w2_rd w2_sl w2_wrE) as Xfill.
  pose proof (h_write_C cstate write_data stream_len_of W2 Rtriv CWdE Rr Rt w2_sl w2_wrE) as Xwrite.
  pose proof (h_seek_C cstate write_data stream_len_of W2 Rtriv CWdE Rr Rt w2_sl w2_wrE) as Xseek.
  pose proof (h_set_len_C cstate write_data resize stream_len_of W2 Rtriv CWdE CRdE Rr Rt w2_sl w2_wrE w2_rsE) as Xsetlen.
  pose proof (h_flush_C cstate write_data stream_len_of W2 Rtriv CWdE Rr Rt w2_sl w2_wrE) as Xflush.
  pose proof (flush_changes_C cstate write_data stream_len_of W2 Rtriv CWdE Rr Rt w2_sl w2_wrE) as Xfc.
  destruct o; cbn [hop_run covered_opE] in *; cbv zeta; cbn [fst snd]; try exact HA.
  - exact (proj1 (proj1 (Xread h n s HA HC))).
  - exact (proj1 (proj1 (Xfill h s HA HC))).
  - exact (proj1 (proj1 (Xwrite h bs s HA HC))).
  - exact (proj1 (proj1 (Xseek h w z s HA HC))).
  - destruct HC as [HC1 HC2]. exact (proj1 (proj1 (Xsetlen h n s HA HC1 HC2))).
  - exact (proj1 (proj1 (Xflush h s HA HC))).
  - exact (proj1 (proj1 (Xfc h s HA HC))).
Qed.

(* one step: the conditions of DataPersist2.step_ok2, with [covered_opE] (no
   migration) for the handle operations; every api_remove_stream of step_ok2 *)
Definition step_okE (f : fstate) (o : op) : Prop :=
  match handle_slot o with
  | Some i => forall h, nthN (hs f) i = Some (Some h) -> covered_opE o h (cs f)
  | None =>
    match o with
    | ORemoveStream p =>
        exists id e, MutRefine.id_of_path (cs f) p = Some id /\ nthN (dirs (cs f)) id = Some e /\
                     (0 < d_len e \/ SA.empty_at (cs f) id e) /\
                     snd (api_remove_stream p (cs f)) = Ok tt
    | OReopen _ => all_clean f
    | _ => query_op o
    end
  end.

Theorem step_w2E : forall f now o, W2 (cs f) -> step_okE f o -> W2 (cs (fst (step f now o))).
Proof.
  intros f now o HG Hok. unfold step_okE in Hok.
  destruct (handle_slot o) as [i|] eqn:Eslot.
  - destruct (nthN (hs f) i) as [[h|]|] eqn:Eh.
    + destruct (step f now o) as [f' r] eqn:Es. cbn [fst].
      destruct (step_handle_shape f now o i h f' r Eslot Eh Es) as (E1 & _).
      rewrite E1. exact (hop_run_w2E o h (cs f) HG (Hok h eq_refl)).
    + rewrite (step_no_handle f now o i Eslot); [exact HG|]. intros h E. rewrite Eh in E. discriminate E.
    + rewrite (step_no_handle f now o i Eslot); [exact HG|]. intros h E. rewrite Eh in E. discriminate E.
  - assert (Hdef : step_okC f o -> W2 (cs (fst (step f now o)))) by (apply step_w2C; exact HG).
    unfold step_okC in Hdef. rewrite Eslot in Hdef.
    destruct o; try exact (Hdef Hok).
    destruct Hok as (id & e & Hid & He & Hcase & Hres).
    cbn [step]. unfold with_cs. destruct (api_remove_stream p (cs f)) as [s' r] eqn:E.
    cbn [snd] in Hres. subst r. cbn [fst cs].
    destruct Hcase as [Hpos|Hemp]; [|exact (remove_empty_stream_w2 p (cs f) s' id e HG E Hid Hemp)].
    destruct (N.lt_ge_cases (d_len e) MINI_STREAM_CUTOFF) as [Hsm|Hbg].
    + exact (remove_small_stream_w2 p (cs f) s' id e HG E Hid He Hpos Hsm).
    + exact (remove_big_stream_w2 p (cs f) s' id e HG E Hid He Hbg).
Qed.

Fixpoint hist_okE (f : fstate) (l : list (N * op)) : Prop :=
  match l with
  | [] => True
  | (now, o) :: t => step_okE f o /\ hist_okE (fst (step f now o)) t
  end.

Theorem history_w2E : forall l f, W2 (cs f) -> hist_okE f l -> W2 (cs (fst (ReadonlyTotal.run_ops f l))).
Proof.
  induction l as [|[now o] t IH]; intros f HG Hrun; [exact HG|].
  cbn [hist_okE] in Hrun. destruct Hrun as [Hok Hrun].
  rewrite PersistProofs.run_ops_cons. apply IH; [|exact Hrun]. apply step_w2E; assumption.
Qed.

Lemma hist_okE_app : forall l1 l2 f, hist_okE f (l1 ++ l2) -> hist_okE f l1.
Proof.
  induction l1 as [|[now o] t IH]; intros l2 f H; [exact I|].
  cbn [app hist_okE] in *. destruct H as [H1 H2]. split; [exact H1|]. eapply IH. exact H2.
Qed.

(* C03 along the histories of DataPersist2.persist_data_history2 that contain
   no migration across the 4096-byte cutoff: after every prefix the checker
   accepts the bytes (and [W2] holds: the bytes reopen to the cached state,
   exact chains, unique owners, no leaked sector) *)
Theorem wf_data_history5 : forall (l1 l2 : list (N * op)) f,
  W2 (cs f) -> hist_okE f (l1 ++ l2) ->
  wf_check (concat_img (img (cs (fst (ReadonlyTotal.run_ops f l1))))) = 0.
Proof.
  intros l1 l2 f HG Hrun. apply w2_image_wf.
  apply history_w2E; [exact HG|]. eapply hist_okE_app. exact Hrun.
Qed.

(* non-vacuity: DataPersist2's Example4.hist2 itself -- growth at the end of
   the file, release, removal of the SMALL stream "/a" (MiniFAT trimmed to
   nothing, root length 0), reopening, growth into a released sector, a
   buffered write and its flush *)
Module Example10.
  Import HandleFrame.Example DataPersist.Example Example1 Example4.

  Example hist2_okE : hist_okE fA hist2.
  Proof.
    assert (A1 : nthN (hs fA) 1 = Some (Some (slot fA 1))) by (vm_compute; reflexivity).
    assert (B1 : nthN (hs g1) 1 = Some (Some (slot g1 1))) by (vm_compute; reflexivity).
    assert (F1 : nthN (hs g5) 1 = Some (Some (slot g5 1))) by (vm_compute; reflexivity).
    assert (G1 : nthN (hs g6) 1 = Some (Some (slot g6 1))) by (vm_compute; reflexivity).
    assert (H1 : nthN (hs g7) 1 = Some (Some (slot g7 1))) by (vm_compute; reflexivity).
    unfold hist2. cbn [hist_okE].
    change (fst (step fA 0 (OHSetLen 1 6000))) with g1.
    change (fst (step g1 0 (OHSetLen 1 4200))) with g2.
    change (fst (step g2 0 (ORemoveStream [47; 97]))) with g3.
    change (fst (step g3 0 (OReopen true))) with g4.
    change (fst (step g4 0 (OOpenStream 1 [47; 98]))) with g5.
    change (fst (step g5 0 (OHSetLen 1 5000))) with g6.
    change (fst (step g6 0 (OHWrite 1 [5; 5]))) with g7.
    unfold step_okE. cbn [handle_slot query_op].
    split.
    { intros h E. the_handle E A1. cbn [covered_opE]. split; [clean_flush|]. intros _.
      rewrite flush_clean by (vm_compute; reflexivity). cbn [fst].
      assert (Hid : h_id (slot fA 1) = 2) by (vm_compute; reflexivity). rewrite Hid.
      destruct (big_check (cs fA) Vb idsb fA_wf) as [HB Hsi]; [vm_compute; reflexivity|].
      left; left. right; right; left. exists Vb, idsb, 2%nat.
      split; [arith|]. split; [arith|]. split; [arith|]. split; [exact HB|]. split; [exact Hsi|].
      split; [arith|]. split; [arith|]. split.
      { intros j Hj. assert (j = 0 \/ j = 1) as [-> | ->] by lia; arith. }
      split; [arith|unfold LenFits; arith]. }
    split.
    { intros h E. the_handle E B1. cbn [covered_opE]. split; [clean_flush|]. intros _.
      rewrite flush_clean by (vm_compute; reflexivity). cbn [fst].
      assert (Hid : h_id (slot g1 1) = 2) by (vm_compute; reflexivity). rewrite Hid.
      assert (Hwf : AllStreamsWf (cs g1)) by wf_of (cs g1).
      destruct (big_check (cs g1) V1 ids1 Hwf) as [HB Hsi]; [vm_compute; reflexivity|].
      left; left. right; right; right; left. exists V1, ids1. split; [exact HB|]. split; [exact Hsi|].
      split; [arith|]. split; arith. }
    split.
    { exists 1. eexists. split; [vm_compute; reflexivity|]. split; [vm_compute; reflexivity|].
      split; [left|]; vm_compute; reflexivity. }
    split; [apply all_clean_b_sound; vm_compute; reflexivity|].
    split; [exact I|].
    split.
    { intros h E. the_handle E F1. cbn [covered_opE]. split; [clean_flush|]. intros _.
      rewrite flush_clean by (vm_compute; reflexivity). cbn [fst].
      assert (Hid : h_id (slot g5 1) = 2) by (vm_compute; reflexivity). rewrite Hid.
      assert (Hwf : AllStreamsWf (cs g5)) by wf_of (cs g5).
      destruct (big_check (cs g5) V2 ids2 Hwf) as [HB Hsi]; [vm_compute; reflexivity|].
      left; left. right; left. exists V2, ids2, [13; 14], [15]. split; [exact HB|]. split; [exact Hsi|].
      split; [arith|]. split; [arith|]. split; [arith|]. split; [arith|unfold LenFits; arith]. }
    split.
    { intros h E. the_handle E G1. cbn [covered_opE]. clean_flush. }
    split; [|exact I].
    { intros h E. the_handle E H1. cbn [covered_opE]. intros _.
      assert (Hid : h_id (slot g7 1) = 2) by (vm_compute; reflexivity).
      assert (Hoff : h_off (slot g7 1) = 0) by (vm_compute; reflexivity).
      assert (Hbuf : buf_filled (h_buf (slot g7 1)) = [5; 5]) by (vm_compute; reflexivity).
      rewrite Hid, Hoff, Hbuf.
      assert (Hwf : AllStreamsWf (cs g7)) by wf_of (cs g7).
      destruct (big_check (cs g7) V6 ids6 Hwf) as [HB Hsi]; [vm_compute; reflexivity|].
      left. left. split; [|unfold LenFits; arith].
      left. exists V6, ids6. split; [exact HB|]. split; [exact Hsi|].
      split; [arith|]. split; arith. }
  Qed.

  Example hist2_wf : forall l1 l2, hist2 = l1 ++ l2 ->
    wf_check (concat_img (img (cs (fst (ReadonlyTotal.run_ops fA l1))))) = 0.
  Proof.
    intros l1 l2 E. apply (wf_data_history5 l1 l2 fA Example7.fA_w2). rewrite <- E. exact hist2_okE.
  Qed.

  Example hist2_w2 : W2 (cs (fst (ReadonlyTotal.run_ops fA hist2))).
  Proof. exact (history_w2E hist2 fA Example7.fA_w2 hist2_okE). Qed.

  Example hist2_evaluated :
    wf_check (concat_img (img (cs gEnd))) = 0 /\ dinv_b (cs gEnd) = true /\ freeall_b (cs gEnd) = true /\
    wf_check (concat_img (img (cs g3))) = 0 /\ minifat (cs g3) = [].
  Proof. repeat split; vm_compute; reflexivity. Qed.
End Example10.


(* ================================================================== *)
(* 13. migration small -> large                                        *)
(* ================================================================== *)

(* both tables move: the mini chain is released (MiniFAT trimmed), a FAT chain
   is built from the free stack.  The FAT half is the pigeonhole step, the
   mini half the frames of the release *)
Section SmallToBig.
Variables s s' : cstate.
Variables (r r' : dirent) (rids mfids dids : list N).
Variables (id : N) (e e' : dirent) (mids : list N).
Hypothesis HCD : CohData' s.
Hypothesis HSD : SD s r rids mfids dids.
Hypothesis HD : DInv s.
Hypothesis HFA : FreeAll s.
Hypothesis HCD' : CohData' s'.
Hypothesis HSD' : SD s' r' rids mfids dids.
Hypothesis Hslen : slen s' = slen s.
Hypothesis Hdifat : lenN (difat s) <= lenN (difat s').
Hypothesis Hlen : lenN (dirs s') = lenN (dirs s).
Hypothesis Hid : id <> ROOT_STREAM_ID.
Hypothesis He : nthN (dirs s) id = Some e.
Hypothesis He' : nthN (dirs s') id = Some e'.
Hypothesis Hsm : SA.small_entry e.
Hypothesis Hch : chain_ids_of (minifat s) (d_start e) = Ok mids.
Hypothesis Hbig' : SA.big_entry e'.
Hypothesis Hoth : forall j a, j <> id -> j <> ROOT_STREAM_ID -> nthN (dirs s) j = Some a ->
  exists b, nthN (dirs s') j = Some b /\ tsl a b.
Hypothesis Hcount :
  nsect s' + lenN (free s) <= nsect s + lenN (free s') + ceil_div (d_len e') (slen s).
Hypothesis Hmlen : lenN (minifat s') <= lenN (minifat s).
Hypothesis HF : forall y w, ~ In y mids -> nthN (minifat s) y = Some w -> w <> FREE_SECTOR ->
  nthN (minifat s') y = Some w.
Hypothesis HB : forall y w, nthN (minifat s') y = Some w -> w <> FREE_SECTOR ->
  nthN (minifat s) y = Some w /\ ~ In y mids.

Let HC' : Coherent s' := cd_coh s' HCD'.

Lemma stb_count :
  nsect s' + lenN (free s) + lenN (bigl s e)
  <= nsect s + lenN (free s') + (if big_b e' then ceil_div (d_len e') (slen s) else 0).
Proof.
  pose proof Hsm as (_ & _ & Hlt). rewrite (bigl_not_big s e Hlt).
  rewrite (proj2 (big_b_true e') Hbig'). cbn [lenN]. lia.
Qed.

Lemma stb_sys : lenN rids <= lenN rids /\ lenN mfids <= lenN mfids /\ lenN dids <= lenN dids /\
  lenN (difat s) <= lenN (difat s').
Proof. repeat split; lia. Qed.

Theorem small_to_big_dinv : DInv s' /\ FreeAll s'.
Proof.
  destruct Hbig' as (Ht' & Hb').
  split.
  - apply (cohdata'_exact_dinv s' HCD'). constructor.
    + intros i x Hx Htx Hl. destruct (N.eq_dec i id) as [->|Hi].
      * assert (x = e') by congruence. subst x. rewrite CUTOFF_val in Hb'. lia.
      * destruct (ms2_back s s' id HC' Hlen Hoth i x Hx Htx Hi) as (a & Ha & (T1 & T2 & T3)).
        rewrite T2. apply (di_empty s HD i a Ha); congruence.
    + exact (fc2_exact s s' r r' rids mfids dids rids mfids dids id e e' HCD HSD HD HFA HCD' HSD'
               Hslen stb_sys Hlen Hid He He' Hoth stb_count).
    + intros i x ids Hx Htx Hp Hb Hl. destruct (N.eq_dec i id) as [->|Hi].
      * assert (x = e') by congruence. subst x. lia.
      * destruct (ms2_back s s' id HC' Hlen Hoth i x Hx Htx Hi) as (a & Ha & (T1 & T2 & T3)).
        destruct (di_small s HD i a Ha ltac:(congruence) ltac:(lia) ltac:(lia)) as (l & Hl' & Hll).
        assert (Hsa : SA.small_entry a) by (unfold SA.small_entry; rewrite <- T1, <- T3; auto).
        pose proof (sr_chain s s' id e mids HD He Hsm Hch Hmlen HF i a l Hi Ha Hsa Hl') as Hl2.
        rewrite <- T2 in Hl2. rewrite T3. congruence.
    + exact (fc2_fcover s s' r r' rids mfids dids rids mfids dids id e e' HCD HSD HD HFA HCD' HSD'
               Hslen stb_sys Hlen Hid He He' Hoth stb_count).
    + intros y w Hy Hw. destruct (HB y w Hy Hw) as [Hy0 Hnm].
      destruct (di_mini_cover s HD y w Hy0 Hw) as (i & Hi). exists i.
      apply (sr_mowns_fwd s s' id e mids HCD HD He Hsm Hch Hoth Hmlen HF); [|exact Hi].
      intros ->. apply Hnm. apply (sr_old s id e mids He Hsm Hch). exact Hi.
  - exact (fc2_freeall s s' r r' rids mfids dids rids mfids dids id e e' HCD HSD HD HFA HCD' HSD'
             Hslen stb_sys Hlen Hid He He' Hoth stb_count).
Qed.
End SmallToBig.

(* ---- migration by resize: a small stream becomes large ---- *)
Theorem resize_small_to_big_dinv : forall s id V new_len,
  CohData' s -> DInv s -> FreeAll s -> small_content s id V ->
  MINI_STREAM_CUTOFF <= new_len -> new_len <= MAX_REGULAR_SECTOR * slen s -> LenFits s new_len ->
  (slen s + new_len - 1) / slen s <= lenN (free s) ->
  exists s', resize id new_len s = (s', Ok tt) /\ CohData' s' /\ DInv s' /\ FreeAll s'.
Proof.
  intros s id V new_len HCD HD HFA Hsc Hcut2 Hmax Hmask Hroom.
  pose proof (slen_pos s) as Hsp.
  pose proof HCD as [HC (r & rids & mfids & dids & HSD) HF Hax]. pose proof HSD as [SW0 Hmdj].
  pose proof (SA.sw_m _ _ _ _ _ _ SW0) as W.
  destruct (SA.small_content_at _ _ _ _ _ _ _ W Hsc) as (e & mids & Hsm).
  pose proof (small_at_lenV _ _ _ _ _ _ Hsm) as HlenV.
  destruct (small_at_start _ _ _ _ _ _ Hsm) as (Hne & Hst & Hk).
  pose proof (SA.small_at_entry _ _ _ _ _ _ Hsm) as Hse.
  pose proof Hsm as (Hnth & Ht & Hcut & Hpos & Hch & Hgm & Hle & HV).
  destruct (free_small_ready s r rids mfids dids id e mids HCD HSD Hnth Hse Hch)
    as (s1 & r1 & Efree & HX1 & Hn1 & Ho1 & HRL & FM1).
  pose proof FM1 as (G1 & G2 & _ & _ & G5 & G6 & _).
  assert (Hsl1 : slen s1 = slen s) by (unfold slen; rewrite G1; reflexivity).
  set (num := (slen s + new_len - 1) / slen s) in *.
  assert (Hpos' : 0 < new_len) by (rewrite CUTOFF_val in *; lia).
  destruct (ceil_props (slen s) new_len Hsp Hpos') as [Hc1 Hc2'']. fold num in Hc1, Hc2''.
  assert (Etmp : takeN (d_len e) (dropN 0 (mchain_content s rids mids)) = V)
    by (rewrite dropN_0; symmetry; exact HV).
  destruct (write_all_ready s1 s1 r1 rids mfids dids id [] [] 0 V (ready_nil _ _ _ _ _ _ HX1))
    as (s2 & nw1 & Ew1 & BR2 & Fr2 & N2 & Hfit1 & _ & Hh1).
  { cbn [lenN]. lia. }
  { cbn [lenN]. rewrite N.add_0_l, N.sub_0_r, HlenV, Hsl1, G6.
    etransitivity; [|exact Hroom]. apply SA.div_mono; [exact Hsp | rewrite CUTOFF_val in *; lia]. }
  cbn [app lenN] in *. rewrite N.add_0_l in *. rewrite HlenV, Hsl1 in *.
  assert (Hnw1ne : nw1 <> []) by (intros ->; cbn [lenN] in Hfit1; lia).
  pose proof (Hh1 eq_refl Hnw1ne) as Hhead2.
  assert (Hnw1 : lenN nw1 <= num).
  { assert (Hl1 : lenN nw1 = (d_len e + slen s - 1) / slen s).
    { destruct (SA.chain_write_all_alloc s1 r1 rids mfids dids id [] 0 V)
        as (s2' & nw1' & Ew1' & _ & _ & _ & Ln1 & _); try apply HX1.
      - constructor.
      - apply SA.owned_nil.
      - cbn [lenN]. lia.
      - cbn [lenN]. rewrite N.add_0_l, N.sub_0_r, HlenV, Hsl1, G6.
        etransitivity; [|exact Hroom]. apply SA.div_mono; [exact Hsp | rewrite CUTOFF_val in *; lia].
      - cbn [app lenN] in *. rewrite N.add_0_l, N.sub_0_r, HlenV, Hsl1 in *.
        rewrite Ew1 in Ew1'. injection Ew1' as _ <-. exact Ln1. }
    rewrite Hl1. unfold num. apply SA.div_mono; [exact Hsp | rewrite CUTOFF_val in *; lia]. }
  assert (Hfl : lenN (free s) = lenN (free s2) + lenN nw1).
  { rewrite <- G6, Fr2, lenN_app, WalkProofs.lenN_rev. reflexivity. }
  destruct (split_stack (free s2) (N.to_nat (num - lenN nw1))) as (base & nw2 & Hfree2 & Hlen2).
  { rewrite N2Nat.id. lia. }
  destruct (grow_ready_from s1 s2 r1 rids mfids dids id nw1 nw1 base nw2 (d_len e) BR2 Hfree2)
    as (s3 & Hgrow & BR3 & Fr3 & N3 & Hun3 & _).
  rewrite Hlen2 in Hgrow.
  assert (Hln2 : lenN nw2 = num - lenN nw1) by (rewrite (WalkProofs.lenN_length nw2), Hlen2, N2Nat.id; reflexivity).
  assert (Hhead3 : unref (fat s3) (hd END_OF_CHAIN (nw1 ++ nw2))).
  { rewrite (SA.hd_app_ne nw1 nw2 END_OF_CHAIN Hnw1ne).
    destruct BR2 as (HC2 & _ & _ & P2 & O2 & _).
    assert (Hin : In (hd END_OF_CHAIN nw1) nw1) by (destruct nw1; [contradiction|left; reflexivity]).
    apply Hun3; [exact (coh_member_regular s2 _ nw1 _ HC2 P2 Hin)|exact Hhead2|].
    intro Hin2. destruct (O2 _ Hin) as (_ & Hnf & _). apply Hnf.
    rewrite Hfree2. apply in_or_app. right. apply in_rev in Hin2. exact Hin2. }
  assert (Hcap3 : new_len <= slen s1 * lenN (nw1 ++ nw2)).
  { rewrite Hsl1, lenN_app, Hln2. replace (lenN nw1 + (num - lenN nw1)) with num by lia. exact Hc1. }
  destruct (big_finish_X s1 s3 r1 rids mfids dids id e (nw1 ++ nw2) (nw1 ++ nw2) new_len HX1 Hn1 Ht BR3 Hhead3 Hcut2 Hcap3)
    as (s' & Eu & HCD' & _ & Ho & F' & N' & Hf' & Hv' & Hm' & Hd' & Hst32).
  { unfold LenFits in *. rewrite G1. exact Hmask. }
  assert (R : resize id new_len s = (s', Ok tt)).
  { unfold resize. sred.
    rewrite (stream_entry_ok s id e Hnth Ht). sred.
    assert (E0 : (MAX_REGULAR_SECTOR * slen s <? new_len) = false) by (apply N.ltb_ge; exact Hmax).
    rewrite E0. sred. rewrite (mask_check_false s new_len Hmask). sred.
    assert (E2 : (d_start e =? END_OF_CHAIN) = false) by lia. rewrite E2.
    assert (E3 : (d_len e <? MINI_STREAM_CUTOFF) = true) by lia. rewrite E3.
    assert (E4 : (new_len =? 0) = false) by lia. rewrite E4.
    assert (E5 : (new_len <? MINI_STREAM_CUTOFF) = false) by lia. rewrite E5.
    rewrite (mchain_new_ok s _ mids Hch).
    rewrite (mchain_read_spec s rids (mkMChain mids 0) (d_len e) Hgm)
      by (unfold mchain_len; cbn [mc_ids mc_off]; rewrite MSL_64; lia).
    cbn [mc_ids mc_off]. rewrite Etmp.
    rewrite SA.mchain_start_hd. rewrite SA.mchain_start_hd in Hst. rewrite Hst, Efree.
    rewrite (chain_new_exec s1 END_OF_CHAIN IZero [] (SA.chain_of_path _ _ _ (WalkProofs.path_nil _))).
    rewrite Ew1.
    assert (Hsl2 : slen s2 = slen s).
    { destruct BR2 as (_ & _ & _ & _ & _ & HQ2 & _).
      destruct (SA.Q_fields s1 s2 HQ2) as (_ & _ & _ & _ & _ & _ & H). rewrite H. exact Hsl1. }
    rewrite (SA.chain_set_len_ge s2 (mkChain IZero nw1 (d_len e)) new_len).
    - cbn [c_ids]. rewrite Hsl2. fold num. rewrite Hgrow. rewrite SA.chain_start_hd. exact Eu.
    - rewrite Hsl2, StoreProofs.two64_val. rewrite MAXREG_val in Hmax.
      destruct (slen_cases s) as [E|E]; rewrite E in *; lia.
    - exact Hpos'.
    - cbn [c_ids]. rewrite Hsl2. fold num. exact Hnw1. }
  (* the capacity chains of [s'] *)
  destruct (ready_sw _ _ _ _ _ _ _ _ _ BR3) as [SW3 HQ3].
  destruct (SA.Q_fields s1 s3 HQ3) as (Qmf & _ & _ & Qdirs & _ & _ & Qsl).
  pose proof BR3 as (_ & _ & _ & P3 & O3 & _).
  destruct (SA.finish_big s3 r1 rids mfids dids id e (nw1 ++ nw2) new_len SW3
              ltac:(rewrite Qdirs; exact Hn1) Ht P3 O3 Hcut2 ltac:(rewrite Qsl; exact Hcap3))
    as (s'' & Eu'' & _ & SW' & _).
  assert (s'' = s') by congruence. subst s''.
  (* the mini level *)
  pose proof Efree as Erun. unfold free_mini_chain in Erun. rewrite bind_get in Erun.
  pose proof (WalkProofs.chain_ids_path _ _ _ Hch) as Hp.
  destruct (SA.free_mini_chain_go_spec mids (S (S (length (minifat s)))) (d_start e) s r rids mfids dids W
              Hp (path_length_fuel _ _ _ Hp))
    as (sx & rx & Ex & _ & _ & _ & _ & _ & Lx & Kx).
  rewrite Erun in Ex. injection Ex as <-.
  pose proof (free_mini_chain_go_back mids _ (d_start e) s r rids mfids dids s1 HC (CohData'_MD s HCD)
                (ax_mfree s Hax) W Hp ltac:(intros _; exact (ax_mheads s Hax id e Hnth Hse)) Erun) as Hback.
  pose proof HRL as (RL & RO & _).
  assert (Hidr : id <> ROOT_STREAM_ID) by exact (stream_not_root s id e HC Hnth Ht).
  pose proof (nthN_Some_lt _ _ _ _ Hn1) as Hidlt.
  assert (Hsl' : slen s' = slen s) by (unfold slen; rewrite Hv', G1; reflexivity).
  destruct (small_to_big_dinv s s' r r1 rids mfids dids id e
              (set_start_len e (hd END_OF_CHAIN (nw1 ++ nw2)) new_len) mids
              HCD HSD HD HFA HCD' (conj SW' Hmdj) Hsl') as [HD' HFA']; try assumption.
  - apply difat_len_mono; [exact HC|exact (cd_coh s' HCD')|exact Hsl'|]. rewrite N', N3, N2, G2. lia.
  - rewrite Hd', lenN_updN. exact RL.
  - rewrite Hd'. apply nthN_updN_same. exact Hidlt.
  - split; [exact Ht|exact Hcut2].
  - intros j a Hj Hr Ha. exists a. split; [|apply tsl_refl].
    rewrite Hd', nthN_updN_other by congruence. rewrite (RO j Hr). exact Ha.
  - cbn [set_start_len d_len]. rewrite ceil_div_comm'. fold num.
    rewrite N', N3, N2, G2, F', Fr3. rewrite <- G6, Fr2, Hfree2, !lenN_app, !WalkProofs.lenN_rev. lia.
  - rewrite Hm'. exact Lx.
  - intros y w Hy Hcy Hw. rewrite Hm'. exact (Kx y w Hy Hcy Hw).
  - intros y w Hy Hw. rewrite Hm' in Hy. exact (Hback y w Hy Hw).
  - exists s'. auto.
Qed.


(* ---- migration by write: a small stream becomes large ---- *)
Theorem write_small_to_big_dinv : forall s id V off buf,
  CohData' s -> DInv s -> FreeAll s -> small_content s id V -> off <= lenN V ->
  MINI_STREAM_CUTOFF <= off + lenN buf ->
  off + lenN buf <= N.min (MAX_REGULAR_SECTOR * slen s) (stream_len_mask (ver s)) ->
  (off + lenN buf + slen s - 1) / slen s <= lenN (free s) ->
  exists s', write_data id off buf s = (s', Ok tt) /\ CohData' s' /\ DInv s' /\ FreeAll s'.
Proof.
  intros s id V off buf HCD HD HFA Hsc Hoff Hcut2 Hbounds Hroom.
  pose proof (slen_pos s) as Hsp.
  pose proof HCD as [HC (r & rids & mfids & dids & HSD) HF Hax]. pose proof HSD as [SW0 Hmdj].
  pose proof (SA.sw_m _ _ _ _ _ _ SW0) as W.
  destruct (SA.small_content_at _ _ _ _ _ _ _ W Hsc) as (e & mids & Hsm).
  pose proof (small_at_lenV _ _ _ _ _ _ Hsm) as HlenV. rewrite HlenV in Hoff.
  destruct (small_at_start _ _ _ _ _ _ Hsm) as (Hne & Hst & Hk).
  pose proof (SA.small_at_entry _ _ _ _ _ _ Hsm) as Hse.
  pose proof Hsm as (Hnth & Ht & Hcut & Hpos & Hch & Hgm & Hle & HV).
  pose proof (good_mchain_len _ _ _ Hgm) as HL0.
  destruct (free_small_ready s r rids mfids dids id e mids HCD HSD Hnth Hse Hch)
    as (s1 & r1 & Efree & HX1 & Hn1 & Ho1 & HRL & FM1).
  pose proof FM1 as (G1 & G2 & _ & _ & G5 & G6 & _).
  assert (Hsl1 : slen s1 = slen s) by (unfold slen; rewrite G1; reflexivity).
  set (tmp := takeN off (dropN 0 (mchain_content s rids mids))).
  assert (Hltmp : lenN tmp = off) by (unfold tmp; rewrite dropN_0, lenN_takeN; lia).
  pose proof (ready_nil _ _ _ _ _ _ HX1) as BR1.
  destruct (write_all_ready s1 s1 r1 rids mfids dids id [] [] 0 tmp BR1)
    as (s2 & nw1 & Ew1 & BR2 & Fr2 & N2 & Hfit1 & _ & Hh1).
  { cbn [lenN]. lia. }
  { cbn [lenN]. rewrite N.add_0_l, N.sub_0_r, Hltmp, Hsl1, G6.
    etransitivity; [|exact Hroom]. apply SA.div_mono; lia. }
  destruct (SA.chain_write_all_alloc s1 r1 rids mfids dids id [] 0 tmp)
    as (s2' & nw1' & Ew1' & _ & _ & _ & Ln1 & _); try apply HX1.
  { constructor. }
  { apply SA.owned_nil. }
  { cbn [lenN]. lia. }
  { cbn [lenN]. rewrite N.add_0_l, N.sub_0_r, Hltmp, Hsl1, G6.
    etransitivity; [|exact Hroom]. apply SA.div_mono; lia. }
  rewrite Ew1 in Ew1'. injection Ew1' as <- Enw. cbn [app] in Enw. subst nw1'.
  cbn [app lenN] in *. rewrite N.add_0_l in *. rewrite N.sub_0_r in Ln1. rewrite Hltmp, Hsl1 in *.
  assert (Hfl : lenN (free s) = lenN (free s2) + lenN nw1).
  { rewrite <- G6, Fr2, lenN_app, WalkProofs.lenN_rev. reflexivity. }
  destruct (ready_sw _ _ _ _ _ _ _ _ _ BR2) as [SW2 HQ2].
  destruct (SA.Q_fields s1 s2 HQ2) as (_ & _ & _ & _ & _ & _ & Qsl2).
  pose proof BR2 as (_ & _ & _ & P2 & O2 & _).
  destruct (write_all_ready s1 s2 r1 rids mfids dids id nw1 nw1 off buf BR2)
    as (s3 & nw2 & Ew2 & BR3 & Fr3 & N3 & Hfit2 & Hun3 & Hh2).
  { rewrite Hsl1. exact Hfit1. }
  { rewrite Hsl1. lia. }
  destruct (SA.chain_write_all_alloc s2 r1 rids mfids dids id nw1 off buf SW2 P2 O2)
    as (s3' & nw2' & Ew2' & _ & _ & _ & Ln2 & _).
  { rewrite Qsl2, Hsl1. exact Hfit1. }
  { rewrite Qsl2, Hsl1. lia. }
  rewrite Ew2 in Ew2'. injection Ew2' as <- Enw. apply app_inv_head in Enw. subst nw2'.
  rewrite Qsl2 in Ln2.
  rewrite Hsl1 in *.
  assert (Hallne : nw1 ++ nw2 <> []).
  { intro E. rewrite E in Hfit2. cbn [lenN] in Hfit2. rewrite CUTOFF_val in Hcut2. lia. }
  assert (Hhead3 : unref (fat s3) (hd END_OF_CHAIN (nw1 ++ nw2))).
  { destruct nw1 as [|x1 t1].
    - cbn [app] in *. apply Hh2; [reflexivity|exact Hallne].
    - cbn [app hd].
      destruct BR2 as (HC2 & _ & _ & P2' & O2' & _).
      assert (Hin : In x1 (x1 :: t1)) by (left; reflexivity).
      apply Hun3; [exact (coh_member_regular s2 _ _ _ HC2 P2' Hin)|exact (Hh1 eq_refl ltac:(discriminate))|].
      intro Hin2. destruct (O2' _ Hin) as (_ & Hnf & _). apply Hnf.
      rewrite Fr3. apply in_or_app. right. apply in_rev in Hin2. exact Hin2. }
  set (ln := N.max (d_len e) (off + lenN buf)).
  assert (Eln : ln = off + lenN buf) by (unfold ln; lia).
  assert (Hcap3 : ln <= slen s1 * lenN (nw1 ++ nw2)) by (rewrite Hsl1, Eln; exact Hfit2).
  destruct (big_finish_X s1 s3 r1 rids mfids dids id e (nw1 ++ nw2) (nw1 ++ nw2) ln HX1 Hn1 Ht BR3 Hhead3
              ltac:(lia) Hcap3)
    as (s' & Eu & HCD' & _ & Ho & F' & N' & Hf' & Hv' & Hm' & Hd' & Hst32).
  { unfold LenFits. rewrite G1, Eln. lia. }
  assert (R : write_data id off buf s = (s', Ok tt)).
  { unfold write_data. sred.
    rewrite (stream_entry_ok s id e Hnth Ht). sred.
    assert (E1 : (d_len e <? off) = false) by lia. rewrite E1.
    fold ln.
    replace (N.min (MAX_REGULAR_SECTOR * slen s) (stream_len_mask (ver s)) <? ln)
      with false by (symmetry; apply N.ltb_ge; rewrite Eln; exact Hbounds).
    assert (E2 : (d_start e =? END_OF_CHAIN) = false) by lia. rewrite E2.
    assert (E3 : (d_len e <? MINI_STREAM_CUTOFF) = true) by lia. rewrite E3.
    assert (E4 : (ln <? MINI_STREAM_CUTOFF) = false) by lia. rewrite E4.
    assert (E5 : (MINI_STREAM_CUTOFF <=? off) = false) by lia. rewrite E5.
    rewrite (mchain_new_ok s _ mids Hch).
    rewrite (mchain_read_spec s rids (mkMChain mids 0) off Hgm)
      by (unfold mchain_len; cbn [mc_ids mc_off]; rewrite MSL_64; lia).
    cbn [mc_ids mc_off]. fold tmp.
    rewrite SA.mchain_start_hd. rewrite SA.mchain_start_hd in Hst. rewrite Hst, Efree.
    rewrite (chain_new_exec s1 END_OF_CHAIN IZero [] (SA.chain_of_path _ _ _ (WalkProofs.path_nil _))).
    rewrite Ew1. rewrite Ew2. rewrite SA.chain_start_hd. exact Eu. }
  destruct (ready_sw _ _ _ _ _ _ _ _ _ BR3) as [SW3 HQ3].
  destruct (SA.Q_fields s1 s3 HQ3) as (Qmf & _ & _ & Qdirs & _ & _ & Qsl).
  pose proof BR3 as (_ & _ & _ & P3 & O3 & _).
  destruct (SA.finish_big s3 r1 rids mfids dids id e (nw1 ++ nw2) ln SW3
              ltac:(rewrite Qdirs; exact Hn1) Ht P3 O3 ltac:(lia) ltac:(rewrite Qsl; exact Hcap3))
    as (s'' & Eu'' & _ & SW' & _).
  assert (s'' = s') by congruence. subst s''.
  pose proof Efree as Erun. unfold free_mini_chain in Erun. rewrite bind_get in Erun.
  pose proof (WalkProofs.chain_ids_path _ _ _ Hch) as Hp.
  destruct (SA.free_mini_chain_go_spec mids (S (S (length (minifat s)))) (d_start e) s r rids mfids dids W
              Hp (path_length_fuel _ _ _ Hp))
    as (sx & rx & Ex & _ & _ & _ & _ & _ & Lx & Kx).
  rewrite Erun in Ex. injection Ex as <-.
  pose proof (free_mini_chain_go_back mids _ (d_start e) s r rids mfids dids s1 HC (CohData'_MD s HCD)
                (ax_mfree s Hax) W Hp ltac:(intros _; exact (ax_mheads s Hax id e Hnth Hse)) Erun) as Hback.
  pose proof HRL as (RL & RO & _).
  assert (Hidr : id <> ROOT_STREAM_ID) by exact (stream_not_root s id e HC Hnth Ht).
  pose proof (nthN_Some_lt _ _ _ _ Hn1) as Hidlt.
  assert (Hsl' : slen s' = slen s) by (unfold slen; rewrite Hv', G1; reflexivity).
  destruct (small_to_big_dinv s s' r r1 rids mfids dids id e
              (set_start_len e (hd END_OF_CHAIN (nw1 ++ nw2)) ln) mids
              HCD HSD HD HFA HCD' (conj SW' Hmdj) Hsl') as [HD' HFA']; try assumption.
  - apply difat_len_mono; [exact HC|exact (cd_coh s' HCD')|exact Hsl'|]. rewrite N', N3, N2, G2. lia.
  - rewrite Hd', lenN_updN. exact RL.
  - rewrite Hd'. apply nthN_updN_same. exact Hidlt.
  - split; [exact Ht|]. cbn [set_start_len d_len]. lia.
  - intros j a Hj Hr Ha. exists a. split; [|apply tsl_refl].
    rewrite Hd', nthN_updN_other by congruence. rewrite (RO j Hr). exact Ha.
  - cbn [set_start_len d_len]. rewrite Eln. unfold ceil_div.
    rewrite N', N3, N2, G2, F'. rewrite <- G6, Fr2, Fr3, !lenN_app, !WalkProofs.lenN_rev, Ln2, Ln1.
    assert ((off + slen s - 1) / slen s <= (off + lenN buf + slen s - 1) / slen s)
      by (apply SA.div_mono; lia).
    lia.
  - rewrite Hm'. exact Lx.
  - intros y w Hy Hcy Hw. rewrite Hm'. exact (Kx y w Hy Hcy Hw).
  - intros y w Hy Hw. rewrite Hm' in Hy. exact (Hback y w Hy Hw).
  - exists s'. auto.
Qed.

(* ================================================================== *)
(* 14. histories: everything of [hist_ok2] except large -> small        *)
(* ================================================================== *)
Definition ResizeCaseF (s : cstate) (id n : N) : Prop :=
  ResizeCaseE s id n \/
  (exists V, small_content s id V /\ MINI_STREAM_CUTOFF <= n /\ n <= MAX_REGULAR_SECTOR * slen s /\
     LenFits s n /\ (slen s + n - 1) / slen s <= lenN (free s)).

Lemma ResizeCaseF_ResizeCase : forall s id n, ResizeCaseF s id n -> ResizeCase s id n.
Proof.
  intros s id n [H|H]; [exact (ResizeCaseE_ResizeCase s id n H)|]. unfold ResizeCase.
  do 7 right. left. exact H.
Qed.

Theorem resize_caseF_w2 : forall s id n,
  W2 s -> ResizeCaseF s id n -> exists s', resize id n s = (s', Ok tt) /\ W2 s'.
Proof.
  intros s id n HW HR0. pose proof HR0 as HR.
  destruct HR as [HR|(V & Hsc & H1 & H2 & H3 & H4)]; [exact (resize_caseE_w2 s id n HW HR)|].
  pose proof HW as (HT & HD & HFA & HTd). pose proof (proj1 HT) as HCD.
  destruct (resize_case_cohtree s id n HT (ResizeCaseF_ResizeCase s id n HR0)) as (s0 & R0 & HT0 & _).
  destruct (small_content_stream s id V Hsc) as (e & Hn & Ht).
  destruct (resize_small_to_big_dinv s id V n HCD HD HFA Hsc H1 H2 H3 H4) as (s' & R & _ & HD' & HFA').
  assert (s0 = s') by congruence. subst s0.
  exists s'. split; [exact R|]. apply (w2_after s s' id e HW Hn Ht HT0 HD' HFA').
  pose proof (framesR_resize id n s) as D. rewrite R in D. exact D.
Qed.

Definition WriteCaseF (s : cstate) (id off : N) (buf : list byte) : Prop :=
  WriteCaseE s id off buf \/
  (exists V, small_content s id V /\ off <= lenN V /\ MINI_STREAM_CUTOFF <= off + lenN buf /\
     off + lenN buf <= N.min (MAX_REGULAR_SECTOR * slen s) (stream_len_mask (ver s)) /\
     (off + lenN buf + slen s - 1) / slen s <= lenN (free s)).

Lemma WriteCaseF_WriteCase : forall s id off buf, WriteCaseF s id off buf -> WriteCase s id off buf.
Proof.
  intros s id off buf [H|H]; [exact (WriteCaseE_WriteCase s id off buf H)|]. unfold WriteCase.
  do 4 right. left. exact H.
Qed.

Theorem write_caseF_w2 : forall s id off buf,
  W2 s -> WriteCaseF s id off buf -> exists s', write_data id off buf s = (s', Ok tt) /\ W2 s'.
Proof.
  intros s id off buf HW HC0. pose proof HC0 as HC.
  destruct HC as [HC|(V & Hsc & H1 & H2 & H3 & H4)]; [exact (write_caseE_w2 s id off buf HW HC)|].
  pose proof HW as (HT & HD & HFA & HTd). pose proof (proj1 HT) as HCD.
  destruct (write_case_cohtree s id off buf HT (WriteCaseF_WriteCase s id off buf HC0)) as (s0 & R0 & HT0 & _).
  destruct (small_content_stream s id V Hsc) as (e & Hn & Ht).
  destruct (write_small_to_big_dinv s id V off buf HCD HD HFA Hsc H1 H2 H3 H4) as (s' & R & _ & HD' & HFA').
  assert (s0 = s') by congruence. subst s0.
  exists s'. split; [exact R|]. apply (w2_after s s' id e HW Hn Ht HT0 HD' HFA').
  pose proof (framesR_write_data id off buf s) as D. rewrite R in D. exact D.
Qed.

Definition CWdF (id off : N) (bs : list byte) (s : cstate) : Prop := WriteCaseF s id off bs.
Definition CRdF (id n : N) (s : cstate) : Prop := ResizeCaseF s id n.
Definition cov_flushF (h : handle) (s : cstate) : Prop :=
  h_dirty h = true -> CWdF (h_id h) (h_off h) (buf_filled (h_buf h)) s.
Definition covered_opF (o : op) (h : handle) (s : cstate) : Prop :=
  match o with
  | OHRead _ _ | OHFill _ | OHWrite _ _ | OHSeek _ _ _ | OHFlush _ | OHDrop _ => cov_flushF h s
  | OHSetLen _ n =>
      cov_flushF h s /\ (n <> h_total h -> CRdF (h_id h) n (fst (flush_changes' h s)))
  | _ => True
  end.

Lemma w2_wrF : forall id off bs s, W2 s -> CWdF id off bs s ->
  W2 (fst (write_data id off bs s)) /\ Rtriv id s (fst (write_data id off bs s)).
Proof.
  intros id off bs s HG HC. destruct (write_caseF_w2 s id off bs HG HC) as (s' & E & H).
  rewrite E. split; [exact H|exact I].
Qed.
Lemma w2_rsF : forall id n s, W2 s -> CRdF id n s ->
  W2 (fst (resize id n s)) /\ Rtriv id s (fst (resize id n s)).
Proof.
  intros id n s HG HC. destruct (resize_caseF_w2 s id n HG HC) as (s' & E & H).
  rewrite E. split; [exact H|exact I].
Qed.

Theorem hop_run_w2F : forall o h s, W2 s -> covered_opF o h s -> W2 (fst (hop_run o h s)).
Proof.
  intros o h s HA HC.
  assert (Rr : forall id s0, Rtriv id s0 s0) by (intros; exact I).
  assert (Rt : forall id a b c, Rtriv id a b -> Rtriv id b c -> Rtriv id a c) by (intros; exact I).
  pose proof (h_read_C cstate read_data write_data stream_len_of W2 Rtriv CWdF Rr Rt w2_rd w2_sl w2_wrF) as Xread.
  pose proof (h_fill_buf_C cstate read_data write_data stream_len_of W2 Rtriv CWdF Rr Rt w2_rd w2_sl w2_wrF) as Xfill.
  pose proof (h_write_C cstate write_data stream_len_of W2 Rtriv CWdF Rr Rt w2_sl w2_wrF) as Xwrite.
  pose proof (h_seek_C cstate write_data stream_len_of W2 Rtriv CWdF Rr Rt w2_sl w2_wrF) as Xseek.
  pose proof (h_set_len_C cstate write_data resize stream_len_of W2 Rtriv CWdF CRdF Rr Rt w2_sl w2_wrF w2_rsF) as Xsetlen.
  pose proof (h_flush_C cstate write_data stream_len_of W2 Rtriv CWdF Rr Rt w2_sl w2_wrF) as Xflush.
  pose proof (flush_changes_C cstate write_data stream_len_of W2 Rtriv CWdF Rr Rt w2_sl w2_wrF) as Xfc.
  destruct o; cbn [hop_run covered_opF] in *; cbv zeta; cbn [fst snd]; try exact HA.
  - exact (proj1 (proj1 (Xread h n s HA HC))).
  - exact (proj1 (proj1 (Xfill h s HA HC))).
  - exact (proj1 (proj1 (Xwrite h bs s HA HC))).
  - exact (proj1 (proj1 (Xseek h w z s HA HC))).
  - destruct HC as [HC1 HC2]. exact (proj1 (proj1 (Xsetlen h n s HA HC1 HC2))).
  - exact (proj1 (proj1 (Xflush h s HA HC))).
  - exact (proj1 (proj1 (Xfc h s HA HC))).
Qed.

Definition step_okF (f : fstate) (o : op) : Prop :=
  match handle_slot o with
  | Some i => forall h, nthN (hs f) i = Some (Some h) -> covered_opF o h (cs f)
  | None => step_okE f o
  end.

Theorem step_w2F : forall f now o, W2 (cs f) -> step_okF f o -> W2 (cs (fst (step f now o))).
Proof.
  intros f now o HG Hok. unfold step_okF in Hok.
  destruct (handle_slot o) as [i|] eqn:Eslot.
  - destruct (nthN (hs f) i) as [[h|]|] eqn:Eh.
    + destruct (step f now o) as [f' r] eqn:Es. cbn [fst].
      destruct (step_handle_shape f now o i h f' r Eslot Eh Es) as (E1 & _).
      rewrite E1. exact (hop_run_w2F o h (cs f) HG (Hok h eq_refl)).
    + rewrite (step_no_handle f now o i Eslot); [exact HG|]. intros h E. rewrite Eh in E. discriminate E.
    + rewrite (step_no_handle f now o i Eslot); [exact HG|]. intros h E. rewrite Eh in E. discriminate E.
  - apply step_w2E; [exact HG|]. exact Hok.
Qed.

Fixpoint hist_okF (f : fstate) (l : list (N * op)) : Prop :=
  match l with
  | [] => True
  | (now, o) :: t => step_okF f o /\ hist_okF (fst (step f now o)) t
  end.

Theorem history_w2F : forall l f, W2 (cs f) -> hist_okF f l -> W2 (cs (fst (ReadonlyTotal.run_ops f l))).
Proof.
  induction l as [|[now o] t IH]; intros f HG Hrun; [exact HG|].
  cbn [hist_okF] in Hrun. destruct Hrun as [Hok Hrun].
  rewrite PersistProofs.run_ops_cons. apply IH; [|exact Hrun]. apply step_w2F; assumption.
Qed.

Lemma hist_okF_app : forall l1 l2 f, hist_okF f (l1 ++ l2) -> hist_okF f l1.
Proof.
  induction l1 as [|[now o] t IH]; intros l2 f H; [exact I|].
  cbn [app hist_okF] in *. destruct H as [H1 H2]. split; [exact H1|]. eapply IH. exact H2.
Qed.

(* the largest fragment: [hist_ok2] without the migration large -> small
   (ResizeCase 9) *)
Theorem wf_data_history6 : forall (l1 l2 : list (N * op)) f,
  W2 (cs f) -> hist_okF f (l1 ++ l2) ->
  wf_check (concat_img (img (cs (fst (ReadonlyTotal.run_ops f l1))))) = 0.
Proof.
  intros l1 l2 f HG Hrun. apply w2_image_wf.
  apply history_w2F; [exact HG|]. eapply hist_okF_app. exact Hrun.
Qed.

(* non-vacuity with a migration: the large stream "/b" is removed (ten sectors
   go to the free stack), then "/a" grows from 100 bytes in the mini stream to
   4200 bytes in nine of those sectors (the MiniFAT is trimmed to nothing),
   then the file is reopened *)
Module Example11.
  Import HandleFrame.Example DataPersist.Example Example1 Example4.

  Definition hist7 : list (N * op) :=
    [(0, ORemoveStream [47; 98]); (0, OHSetLen 0 4200); (0, OReopen true)].
  Definition q1 : fstate := Eval vm_compute in fst (step fA 0 (ORemoveStream [47; 98])).
  Definition q2 : fstate := Eval vm_compute in fst (step q1 0 (OHSetLen 0 4200)).

  Example hist7_results : snd (ReadonlyTotal.run_ops fA hist7) = [Ok VUnit; Ok VUnit; Ok VUnit].
  Proof. vm_compute. reflexivity. Qed.

  Example hist7_ok : hist_okF fA hist7.
  Proof.
    assert (A0 : nthN (hs q1) 0 = Some (Some (slot q1 0))) by (vm_compute; reflexivity).
    unfold hist7. cbn [hist_okF].
    change (fst (step fA 0 (ORemoveStream [47; 98]))) with q1.
    change (fst (step q1 0 (OHSetLen 0 4200))) with q2.
    unfold step_okF, step_okE. cbn [handle_slot query_op].
    split.
    { exists 2. eexists. split; [vm_compute; reflexivity|]. split; [vm_compute; reflexivity|].
      split; [left|]; vm_compute; reflexivity. }
    split.
    { intros h E. the_handle E A0. cbn [covered_opF]. split; [clean_flush|]. intros _.
      rewrite flush_clean by (vm_compute; reflexivity). cbn [fst].
      assert (Hid : h_id (slot q1 0) = 1) by (vm_compute; reflexivity). rewrite Hid.
      right. exists bytes100. split.
      { apply SA.small_bytes_sound; [apply SA.swf_b_sound; vm_compute; reflexivity|vm_compute; reflexivity]. }
      split; [vm_compute; discriminate|]. split; [vm_compute; discriminate|].
      split; [unfold LenFits; vm_compute; discriminate|vm_compute; discriminate]. }
    split; [apply all_clean_b_sound; vm_compute; reflexivity|exact I].
  Qed.

  Example hist7_wf : forall l1 l2, hist7 = l1 ++ l2 ->
    wf_check (concat_img (img (cs (fst (ReadonlyTotal.run_ops fA l1))))) = 0.
  Proof.
    intros l1 l2 E. apply (wf_data_history6 l1 l2 fA Example7.fA_w2). rewrite <- E. exact hist7_ok.
  Qed.

  Example hist7_evaluated :
    let s := cs (fst (ReadonlyTotal.run_ops fA hist7)) in
    wf_check (concat_img (img s)) = 0 /\ dinv_b s = true /\ freeall_b s = true /\
    minifat s = [] /\ free s = [4].
  Proof. repeat split; vm_compute; reflexivity. Qed.
End Example11.


(* ================================================================== *)
(* 15. migration large -> small                                        *)
(* ================================================================== *)

(* the FAT chain goes to the free stack (pigeonhole step), a mini chain is
   built from FREE / appended mini sectors (frames + tightness) *)
Section BigToSmall.
Variables s s' : cstate.
Variables (r r' : dirent) (rids mfids dids : list N).
Variables (id : N) (e e' : dirent) (ids news : list N).
Hypothesis HCD : CohData' s.
Hypothesis HSD : SD s r rids mfids dids.
Hypothesis HD : DInv s.
Hypothesis HFA : FreeAll s.
Hypothesis HCD' : CohData' s'.
Hypothesis HSD' : SD s' r' rids mfids dids.
Hypothesis Hslen : slen s' = slen s.
Hypothesis Hdifat : lenN (difat s) <= lenN (difat s').
Hypothesis Hlen : lenN (dirs s') = lenN (dirs s).
Hypothesis Hid : id <> ROOT_STREAM_ID.
Hypothesis He : nthN (dirs s) id = Some e.
Hypothesis He' : nthN (dirs s') id = Some e'.
Hypothesis Hbig : SA.big_entry e.
Hypothesis Hc : chain_ids_of (fat s) (d_start e) = Ok ids.
Hypothesis Hsm' : SA.small_entry e'.
Hypothesis Hch' : chain_ids_of (minifat s') (d_start e') = Ok news.
Hypothesis Hexact : lenN news = ceil_div (d_len e') MINI_SECTOR_LEN.
Hypothesis Hoth : forall j, j <> ROOT_STREAM_ID -> j <> id -> nthN (dirs s') j = nthN (dirs s) j.
Hypothesis Hcount : nsect s' + lenN (free s) + lenN ids <= nsect s + lenN (free s').
Hypothesis Hmlen : lenN (minifat s) <= lenN (minifat s').
Hypothesis Hframe : forall y, ~ In y news -> y < lenN (minifat s) ->
  nthN (minifat s') y = nthN (minifat s) y.
Hypothesis Hfresh : forall x, In x news -> SA.fresh (minifat s) x.
Hypothesis Htight : forall y, y < lenN (minifat s') -> y < lenN (minifat s) \/ In y news.

Let HC : Coherent s := cd_coh s HCD.
Let HC' : Coherent s' := cd_coh s' HCD'.

Lemma bts_oth : forall j a, j <> id -> j <> ROOT_STREAM_ID -> nthN (dirs s) j = Some a ->
  exists b, nthN (dirs s') j = Some b /\ tsl a b.
Proof. intros j a Hj Hr Ha. exists a. split; [rewrite (Hoth j Hr Hj); exact Ha|apply tsl_refl]. Qed.

Lemma bts_count :
  nsect s' + lenN (free s) + lenN (bigl s e)
  <= nsect s + lenN (free s') + (if big_b e' then ceil_div (d_len e') (slen s) else 0).
Proof.
  rewrite (bigl_big s e ids Hbig Hc).
  assert (Eb : big_b e' = false).
  { destruct (big_b e') eqn:E; [|reflexivity]. apply big_b_true in E. destruct Hsm' as (_ & _ & Hlt). lia. }
  rewrite Eb. lia.
Qed.

Lemma bts_sys : lenN rids <= lenN rids /\ lenN mfids <= lenN mfids /\ lenN dids <= lenN dids /\
  lenN (difat s) <= lenN (difat s').
Proof. repeat split; lia. Qed.

Lemma bts_stream_back : forall j x, nthN (dirs s') j = Some x -> d_type x = TStream -> j <> id ->
  nthN (dirs s) j = Some x.
Proof.
  intros j x Hx Htx Hj. destruct (N.eq_dec j ROOT_STREAM_ID) as [->|Hr].
  - rewrite (coherent_root_type s' x HC' Hx) in Htx. discriminate Htx.
  - rewrite <- (Hoth j Hr Hj). exact Hx.
Qed.

Lemma bts_stream_fwd : forall j x, nthN (dirs s) j = Some x -> d_type x = TStream -> j <> id ->
  nthN (dirs s') j = Some x.
Proof.
  intros j x Hx Htx Hj. destruct (N.eq_dec j ROOT_STREAM_ID) as [->|Hr].
  - rewrite (coherent_root_type s x HC Hx) in Htx. discriminate Htx.
  - rewrite (Hoth j Hr Hj). exact Hx.
Qed.

Lemma bts_chain : forall l st, chain_ids_of (minifat s) st = Ok l ->
  chain_ids_of (minifat s') st = Ok l.
Proof.
  intros l st Hl. apply (chain_transfer (minifat s)); [exact Hl|exact Hmlen|].
  intros x Hx. apply Hframe; [|exact (chain_ids_lt _ _ _ _ Hl Hx)].
  intro Hin. destruct (chain_cell _ _ _ _ Hl Hx) as (v & Hv & Hr).
  pose proof (Hfresh x Hin v Hv). markers. lia.
Qed.

Lemma bts_mowns_fwd : forall i x, mowns s i x -> mowns s' i x.
Proof.
  intros i x (a & l & Ha & Hta & Hp & Hb & Hl & Hx).
  assert (Hi : i <> id).
  { intros ->. assert (a = e) by congruence. subst a. destruct Hbig as (_ & Hge). lia. }
  exists a, l. split; [exact (bts_stream_fwd i a Ha Hta Hi)|].
  pose proof (bts_chain l (d_start a) Hl). auto 10.
Qed.

Theorem big_to_small_dinv : DInv s' /\ FreeAll s'.
Proof.
  destruct Hsm' as (Ht' & Hp' & Hb').
  split.
  - apply (cohdata'_exact_dinv s' HCD'). constructor.
    + intros i x Hx Htx Hl. destruct (N.eq_dec i id) as [->|Hi].
      * assert (x = e') by congruence. subst x. lia.
      * exact (di_empty s HD i x (bts_stream_back i x Hx Htx Hi) Htx Hl).
    + exact (fc2_exact s s' r r' rids mfids dids rids mfids dids id e e' HCD HSD HD HFA HCD' HSD'
               Hslen bts_sys Hlen Hid He He' bts_oth bts_count).
    + intros i x l Hx Htx Hp Hb Hl. destruct (N.eq_dec i id) as [->|Hi].
      * assert (x = e') by congruence. subst x. rewrite Hch' in Hl. injection Hl as <-. exact Hexact.
      * pose proof (bts_stream_back i x Hx Htx Hi) as Hx0.
        destruct (di_small s HD i x Hx0 Htx Hp Hb) as (l0 & Hl0 & Hll).
        pose proof (bts_chain l0 (d_start x) Hl0). congruence.
    + exact (fc2_fcover s s' r r' rids mfids dids rids mfids dids id e e' HCD HSD HD HFA HCD' HSD'
               Hslen bts_sys Hlen Hid He He' bts_oth bts_count).
    + intros y w Hy Hw.
      destruct (in_dec N.eq_dec y news) as [Hin|Hout].
      * exists id, e', news. auto 10.
      * pose proof (nthN_Some_lt _ _ _ _ Hy) as Hlt.
        destruct (Htight y Hlt) as [Hlt0|Hcn]; [|contradiction].
        rewrite (Hframe y Hout Hlt0) in Hy.
        destruct (di_mini_cover s HD y w Hy Hw) as (i & Hi). exists i. exact (bts_mowns_fwd i y Hi).
  - exact (fc2_freeall s s' r r' rids mfids dids rids mfids dids id e e' HCD HSD HD HFA HCD' HSD'
             Hslen bts_sys Hlen Hid He He' bts_oth bts_count).
Qed.
End BigToSmall.

(* ---- migration by resize: a large stream becomes small ---- *)
Theorem resize_big_to_small_dinv : forall s id V new_len,
  CohData' s -> DInv s -> FreeAll s -> big_content s id V ->
  0 < new_len -> new_len < MINI_STREAM_CUTOFF ->
  SA.mini_room s (SA.msectors new_len) -> RootFits s (SA.msectors new_len) ->
  exists s', resize id new_len s = (s', Ok tt) /\ CohData' s' /\ DInv s' /\ FreeAll s'.
Proof.
  intros s id V new_len HCD HD HFA HB Hpos Hcut Hmr Hrf.
  destruct (resize_big_to_small_cohdata' s id V new_len HCD HB Hpos Hcut Hmr Hrf) as (s0 & R0 & HCD0 & _).
  destruct Hmr as (r0 & rids0 & mfids0 & dids0 & SW0 & Hroom).
  pose proof HCD as [HC (r & rids & mfids & dids & HSD) HF Hax]. pose proof HSD as [SW Hmdj].
  destruct (swf_witness_fun _ _ _ _ _ _ _ _ _ _ _ SW SW0) as (-> & -> & -> & ->). clear SW0.
  pose proof HB as (e & ids & He & Ht & Hbig & Hc & Hg & Hle & HV).
  pose proof (SA.sw_m _ _ _ _ _ _ SW) as W.
  pose proof (SA.small_not_root _ _ _ _ _ _ _ W He Ht) as Hidr.
  assert (Hne : ids <> []) by (eapply StoreProofs.ids_nonempty; eassumption).
  destruct (StoreProofs.chain_ids_head _ _ _ Hc Hne) as (Hst & tl0 & Eids).
  destruct (free_whole_cohX s r rids mfids dids id e ids HCD HSD He (conj Ht Hbig) Hc)
    as (s1 & Efree & HX1 & HQ & Ho1 & Fr1 & N1).
  destruct (SA.Q_fields s s1 HQ) as (Hmf & Hmfr & Hms & Hd & Hds & Hv & Hsl).
  pose proof HX1 as (HC1 & HF1 & SW1 & _).
  pose proof (SA.sw_m _ _ _ _ _ _ SW1) as W1.
  unfold SA.msectors in *.
  set (tmp := takeN new_len (dropN 0 (chain_content s ids))).
  assert (Htmp : tmp = takeN new_len V).
  { unfold tmp. rewrite dropN_0, HV. symmetry. apply takeN_takeN. rewrite CUTOFF_val in *. lia. }
  assert (Hltmp : lenN tmp = new_len).
  { rewrite Htmp, lenN_takeN, (StoreProofs.big_content_len _ _ _ _ HB He). rewrite CUTOFF_val in *. lia. }
  assert (Hp0 : path (minifat s1) (hd END_OF_CHAIN []) []) by constructor.
  assert (Hroom1 : SA.mroom s1 rids mfids ((0 + lenN tmp + 63) / 64 - lenN (@nil N))).
  { cbn [lenN]. rewrite N.add_0_l, N.sub_0_r, Hltmp.
    apply (SA.mroom_same s s1); [rewrite Hmf; reflexivity | exact Hmfr | exact Hsl | exact Hroom]. }
  destruct (mchain_write_all_tight s1 [] 0 tmp r rids mfids dids W1 Hp0) as (s2 & news1 & Ew & T2).
  { cbn [lenN]. lia. }
  { exact Hroom1. }
  destruct (SA.mchain_write_all_alloc s1 [] 0 tmp r rids mfids dids W1 Hp0)
    as (s2' & news & r2 & Ew' & W2 & P2 & Ln & Hfit & F2 & Hc2 & M2).
  { cbn [lenN]. lia. }
  { exact Hroom1. }
  rewrite Ew in Ew'. injection Ew' as <- Enw. cbn [app] in *. subst news1.
  cbn [lenN] in *. rewrite N.add_0_l in *. rewrite N.sub_0_r in Ln. rewrite Hltmp in *.
  assert (Hn2 : nthN (dirs s2) id = Some e).
  { rewrite (SA.mframe_entry _ _ _ _ _ _ id M2 Hidr), Hd. exact He. }
  destruct (SA.finish_small s2 id e r2 rids mfids dids news new_len W2 Hn2 Ht P2)
    as (s' & Eu & Hsm' & W' & M3); [lia | lia | lia |].
  assert (M13 : SA.mframe s1 s' id rids mfids dids news).
  { eapply SA.mframe_trans; [apply SA.mframe_weaken_id; exact M2 | exact M3
                         | intros x Hx; exact Hx | intros x Hx; exact Hx]. }
  destruct (SA.after_opX s1 s' r r2 rids mfids dids (SA.Xid id) id _ [] news _
              SW1 ltac:(intros j E; exact E) W' Hsm' F2
              ltac:(intros j e0 m _ _ _ _ x []) M13) as [SW' Ho2].
  assert (R : resize id new_len s = (s', Ok tt)).
  { unfold resize. sred.
    rewrite (stream_entry_ok s id e He Ht). sred.
    assert (E0 : (MAX_REGULAR_SECTOR * slen s <? new_len) = false).
    { pose proof (ChainProofs.slen_pos s). apply N.ltb_ge.
      rewrite MAXREG_val. rewrite CUTOFF_val in Hcut. nia. }
    rewrite E0. sred.
    rewrite (mask_check_false s new_len) by (apply small_fits_mask; lia). sred.
    assert (E2 : (d_start e =? END_OF_CHAIN) = false) by lia. rewrite E2.
    assert (E3 : (d_len e <? MINI_STREAM_CUTOFF) = false) by lia. rewrite E3.
    assert (E4 : (new_len =? 0) = false) by lia. rewrite E4.
    assert (E5 : (new_len <? MINI_STREAM_CUTOFF) = true) by lia. rewrite E5.
    assert (E6 : (d_len e <=? new_len) = false) by lia. rewrite E6.
    rewrite (chain_new_exec s _ IZero ids Hc).
    rewrite (chain_read_spec s (mkChain IZero ids 0) new_len Hg)
      by (unfold chain_len; cbn [c_ids c_off]; rewrite CUTOFF_val in *; lia).
    cbn [c_init c_ids c_off]. fold tmp.
    assert (Ecs : chain_start (mkChain IZero ids (0 + new_len)) = d_start e)
      by (rewrite Eids; reflexivity).
    rewrite Ecs, Efree.
    rewrite (SA.mchain_new_eoc s1). rewrite Ew.
    rewrite SA.mchain_start_hd. exact Eu. }
  assert (s0 = s') by congruence. subst s0.
  assert (Hmfeq : minifat s' = minifat s2)
    by exact (update_entry_minifat s2 s' id e _ _ r2 rids mfids dids W2 Hn2 Eu).
  pose proof Hsm' as (Hnth' & Ht' & Hcut2 & Hpos2 & Hch2 & _).
  pose proof M13 as (Msh & Mlen & Moth & _ & _ & Mml & Mfr).
  destruct Msh as (Zn & Zv & _ & _ & Zfat & Zfree & Zdifat & Zds & Zms).
  assert (Hsl' : slen s' = slen s) by (unfold slen; rewrite Zv, Hv; reflexivity).
  destruct (big_to_small_dinv s s' r r2 rids mfids dids id e
              (set_start_len e (hd END_OF_CHAIN news) new_len) ids news
              HCD HSD HD HFA HCD0 (conj SW' Hmdj) Hsl') as [HD' HFA']; try assumption.
  - apply difat_len_mono; [exact HC|exact (cd_coh s' HCD0)|exact Hsl'|]. rewrite Zn, N1. lia.
  - rewrite Mlen, Hd. reflexivity.
  - split; assumption.
  - exact (SA.small_at_entry _ _ _ _ _ _ Hsm').
  - rewrite ceil64. cbn [set_start_len d_len]. rewrite Ln. f_equal. lia.
  - intros j Hr Hj. rewrite (Moth j Hr Hj), Hd. reflexivity.
  - rewrite Zn, N1, Zfree, Fr1, CodecProofs.lenN_app. lia.
  - rewrite <- Hmf. exact Mml.
  - intros y Hy Hlt. rewrite <- Hmf in Hlt |- *. exact (Mfr y Hy Hlt).
  - intros x Hx. rewrite <- Hmf. exact (F2 x Hx).
  - intros y Hy. rewrite Hmfeq in Hy. rewrite <- Hmf. exact (T2 y Hy).
  - exists s'. auto.
Qed.

(* ================================================================== *)
(* 16. the histories of DataPersist2.persist_data_history2, all of them *)
(* ================================================================== *)
Lemma ResizeCase_split : forall s id n, ResizeCase s id n ->
  ResizeCaseF s id n \/
  (exists V, big_content s id V /\ 0 < n /\ n < MINI_STREAM_CUTOFF /\
     SA.mini_room s (SA.msectors n) /\ RootFits s (SA.msectors n)).
Proof.
  intros s id n H. unfold ResizeCase in H.
  destruct H as [H|[H|[H|[H|[H|[H|[H|[H|[H|[H|H]]]]]]]]]].
  - left; left; left; left. left. exact H.
  - left; left; left; left. right; left. exact H.
  - left; left; left; left. right; right; left. exact H.
  - left; left; left; left. right; right; right; left. exact H.
  - left; left. right; left. exact H.
  - left; left. right; right. exact H.
  - left; left; left; left. right; right; right; right; left. exact H.
  - left. right. exact H.
  - right. exact H.
  - left; left; left; left. right; right; right; right; right. exact H.
  - left; left; left. right. exact H.
Qed.

Lemma WriteCase_WriteCaseF : forall s id off buf, WriteCase s id off buf -> WriteCaseF s id off buf.
Proof.
  intros s id off buf H. unfold WriteCase in H.
  destruct H as [H|[H|[H|[H|[H|H]]]]].
  - left; left. left. exact H.
  - left. right; left. exact H.
  - left. right; right. exact H.
  - left; left. right; left. exact H.
  - right. exact H.
  - left; left. right; right. exact H.
Qed.

Theorem resize_case_w2 : forall s id n,
  W2 s -> ResizeCase s id n -> exists s', resize id n s = (s', Ok tt) /\ W2 s'.
Proof.
  intros s id n HW HR0. destruct (ResizeCase_split s id n HR0) as [HR|(V & HB & H1 & H2 & H3 & H4)];
    [exact (resize_caseF_w2 s id n HW HR)|].
  pose proof HW as (HT & HD & HFA & HTd). pose proof (proj1 HT) as HCD.
  destruct (resize_case_cohtree s id n HT HR0) as (s0 & R0 & HT0 & _).
  destruct (big_content_stream s id V HB) as (e & Hn & Ht).
  destruct (resize_big_to_small_dinv s id V n HCD HD HFA HB H1 H2 H3 H4) as (s' & R & _ & HD' & HFA').
  assert (s0 = s') by congruence. subst s0.
  exists s'. split; [exact R|]. apply (w2_after s s' id e HW Hn Ht HT0 HD' HFA').
  pose proof (framesR_resize id n s) as D. rewrite R in D. exact D.
Qed.

Theorem write_case_w2 : forall s id off buf,
  W2 s -> WriteCase s id off buf -> exists s', write_data id off buf s = (s', Ok tt) /\ W2 s'.
Proof.
  intros s id off buf HW HC. exact (write_caseF_w2 s id off buf HW (WriteCase_WriteCaseF s id off buf HC)).
Qed.

Lemma w2_wr2 : forall id off bs s, W2 s -> CWd2 id off bs s ->
  W2 (fst (write_data id off bs s)) /\ Rtriv id s (fst (write_data id off bs s)).
Proof.
  intros id off bs s HG HC. destruct (write_case_w2 s id off bs HG HC) as (s' & E & H).
  rewrite E. split; [exact H|exact I].
Qed.
Lemma w2_rs2 : forall id n s, W2 s -> CRd2 id n s ->
  W2 (fst (resize id n s)) /\ Rtriv id s (fst (resize id n s)).
Proof.
  intros id n s HG HC. destruct (resize_case_w2 s id n HG HC) as (s' & E & H).
  rewrite E. split; [exact H|exact I].
Qed.

Theorem hop_run_w2_full : forall o h s, W2 s -> covered_op2 o h s -> W2 (fst (hop_run o h s)).
Proof.
  intros o h s HA HC.
  assert (Rr : forall id s0, Rtriv id s0 s0) by (intros; exact I).
  assert (Rt : forall id a b c, Rtriv id a b -> Rtriv id b c -> Rtriv id a c) by (intros; exact I).
  pose proof (h_read_C cstate read_data write_data stream_len_of W2 Rtriv CWd2 Rr Rt w2_rd w2_sl w2_wr2) as Xread.
  pose proof (h_fill_buf_C cstate read_data write_data stream_len_of W2 Rtriv CWd2 Rr Rt w2_rd w2_sl w2_wr2) as Xfill.
  pose proof (h_write_C cstate write_data stream_len_of W2 Rtriv CWd2 Rr Rt w2_sl w2_wr2) as Xwrite.
  pose proof (h_seek_C cstate write_data stream_len_of W2 Rtriv CWd2 Rr Rt w2_sl w2_wr2) as Xseek.
  pose proof (h_set_len_C cstate write_data resize stream_len_of W2 Rtriv CWd2 CRd2 Rr Rt w2_sl w2_wr2 w2_rs2) as Xsetlen.
  pose proof (h_flush_C cstate write_data stream_len_of W2 Rtriv CWd2 Rr Rt w2_sl w2_wr2) as Xflush.
  pose proof (flush_changes_C cstate write_data stream_len_of W2 Rtriv CWd2 Rr Rt w2_sl w2_wr2) as Xfc.
  destruct o; cbn [hop_run covered_op2] in *; cbv zeta; cbn [fst snd]; try exact HA.
  - exact (proj1 (proj1 (Xread h n s HA HC))).
  - exact (proj1 (proj1 (Xfill h s HA HC))).
  - exact (proj1 (proj1 (Xwrite h bs s HA HC))).
  - exact (proj1 (proj1 (Xseek h w z s HA HC))).
  - destruct HC as [HC1 HC2]. exact (proj1 (proj1 (Xsetlen h n s HA HC1 HC2))).
  - exact (proj1 (proj1 (Xflush h s HA HC))).
  - exact (proj1 (proj1 (Xfc h s HA HC))).
Qed.

Theorem step_w2_full : forall f now o, W2 (cs f) -> step_ok2 f o -> W2 (cs (fst (step f now o))).
Proof.
  intros f now o HG Hok. unfold step_ok2 in Hok.
  destruct (handle_slot o) as [i|] eqn:Eslot.
  - destruct (nthN (hs f) i) as [[h|]|] eqn:Eh.
    + destruct (step f now o) as [f' r] eqn:Es. cbn [fst].
      destruct (step_handle_shape f now o i h f' r Eslot Eh Es) as (E1 & _).
      rewrite E1. exact (hop_run_w2_full o h (cs f) HG (Hok h eq_refl)).
    + rewrite (step_no_handle f now o i Eslot); [exact HG|]. intros h E. rewrite Eh in E. discriminate E.
    + rewrite (step_no_handle f now o i Eslot); [exact HG|]. intros h E. rewrite Eh in E. discriminate E.
  - apply step_w2E; [exact HG|]. unfold step_okE. rewrite Eslot. exact Hok.
Qed.

(* the full invariant along every history of DataPersist2.persist_data_history2 *)
Theorem history_w2_full : forall l f,
  W2 (cs f) -> hist_ok2 f l -> W2 (cs (fst (ReadonlyTotal.run_ops f l))).
Proof.
  induction l as [|[now o] t IH]; intros f HG Hrun; [exact HG|].
  cbn [hist_ok2] in Hrun. destruct Hrun as [Hok Hrun].
  rewrite PersistProofs.run_ops_cons. apply IH; [|exact Hrun]. apply step_w2_full; assumption.
Qed.

(* C03 along histories that write and resize streams on both sides of the
   cutoff with allocation and release of sectors and mini sectors, migrate in
   both directions, remove streams with data, reopen the file: after every
   prefix the independent checker accepts the bytes *)
Theorem wf_data_history_full : forall (l1 l2 : list (N * op)) f,
  W2 (cs f) -> hist_ok2 f (l1 ++ l2) ->
  wf_check (concat_img (img (cs (fst (ReadonlyTotal.run_ops f l1))))) = 0.
Proof.
  intros l1 l2 f HG Hrun. apply w2_image_wf.
  apply history_w2_full; [exact HG|]. eapply hist_ok2_app. exact Hrun.
Qed.

(* non-vacuity of the full theorem: DataPersist2's Example6.hist3 on the file
   fH ("/b" 5000 bytes, "/c" 70 bytes in the mini stream, "/d" empty, two mini
   sectors in the mini free list): "/b" migrates large -> small (ten sectors
   released, two mini sectors reused), "/c" migrates small -> large, "/d" gets
   its first small write, the file is reopened *)
Module Example12.
  Import HandleFrame.Example DataPersist.Example Example1 Example3 Example4 Example5 Example6.

  Definition u1 : fstate := Eval vm_compute in fst (step fA 0 (OCreateNewStream 2 [47; 99])).
  Definition u3 : fstate :=
    Eval vm_compute in fst (step (fst (step u1 0 (OHWrite 2 (repeatN 7 70)))) 0 (OHFlush 2)).
  Definition u4 : fstate := Eval vm_compute in fst (step u3 0 (OCreateNewStream 3 [47; 100])).

  Lemma fH_tidy : Tidy (dirs (cs fH)).
  Proof.
    assert (T0 : Tidy (dirs (cs fA))) by exact (proj2 (proj2 (proj2 Example7.fA_w2))).
    assert (T1 : Tidy (dirs (cs u1))).
    { apply (Examples.tidy_after_create fA 2 [47; 99] u1 (Ok VUnit) T0);
        [vm_compute; reflexivity|vm_compute; reflexivity|reflexivity]. }
    assert (T3 : Tidy (dirs (cs u3))) by (apply (relen_b_tidy (dirs (cs u1)) (dirs (cs u3))); [vm_compute; reflexivity|exact T1]).
    assert (T4 : Tidy (dirs (cs u4))).
    { apply (Examples.tidy_after_create u3 3 [47; 100] u4 (Ok VUnit) T3);
        [vm_compute; reflexivity|vm_compute; reflexivity|reflexivity]. }
    apply (remove_stream_tidy_data [47; 97] (cs u4) (cs fH) T4). vm_compute. reflexivity.
  Qed.

  Lemma fH_w2 : W2 (cs fH).
  Proof.
    split; [exact fH_ct|].
    split; [apply dinv_b_sound; vm_compute; reflexivity|].
    split; [apply freeall_b_sound; vm_compute; reflexivity|exact fH_tidy].
  Qed.

  Example hist3_wf : forall l1 l2, hist3 = l1 ++ l2 ->
    wf_check (concat_img (img (cs (fst (ReadonlyTotal.run_ops fH l1))))) = 0.
  Proof.
    intros l1 l2 E. apply (wf_data_history_full l1 l2 fH fH_w2). rewrite <- E. exact hist3_ok.
  Qed.

  Example hist3_w2 : W2 (cs (fst (ReadonlyTotal.run_ops fH hist3))).
  Proof. exact (history_w2_full hist3 fH fH_w2 hist3_ok). Qed.

  Example hist3_evaluated :
    let s := cs (fst (ReadonlyTotal.run_ops fH hist3)) in
    wf_check (concat_img (img s)) = 0 /\ dinv_b s = true /\ freeall_b s = true.
  Proof. repeat split; vm_compute; reflexivity. Qed.

  (* and Example4.hist2 through the full theorem *)
  Example hist2_wf_full : forall l1 l2, hist2 = l1 ++ l2 ->
    wf_check (concat_img (img (cs (fst (ReadonlyTotal.run_ops fA l1))))) = 0.
  Proof.
    intros l1 l2 E. apply (wf_data_history_full l1 l2 fA Example7.fA_w2). rewrite <- E. exact hist2_ok.
  Qed.
End Example12.

(* ================================================================== *)
(* summary                                                             *)
(* ================================================================== *)
Check cohtree_dbase.
Check cohdata'_exact_dinv.
Check cells_nodup.
Check cover_cells.
Check fc_cover.
Check fc_exact.
Check fat_step_dinv.
Check finish_dinv.
Check resize_big_same_dinv.
Check resize_big_reuse_dinv.
Check resize_big_append_dinv.
Check resize_big_release_dinv.
Check resize_big_to_zero_dinv.
Check resize_empty_big_dinv.
Check write_empty_big_dinv.
Check write_big_alloc_dinv.
Check w2_image_wf.
Check w2_reopened.
Check resize_caseB_w2.
Check write_caseB_w2.
Check step_w2.
Check history_w2.
Check wf_data_history2.
Check Example7.hist4_wf.
Check Counter.cohtree_without_dinv.
Print Assumptions cohdata'_exact_dinv.
Print Assumptions fat_step_dinv.
Print Assumptions finish_dinv.
Print Assumptions resize_big_same_dinv.
Print Assumptions resize_big_reuse_dinv.
Print Assumptions resize_big_append_dinv.
Print Assumptions resize_big_release_dinv.
Print Assumptions resize_big_to_zero_dinv.
Print Assumptions resize_empty_big_dinv.
Print Assumptions write_empty_big_dinv.
Print Assumptions write_big_alloc_dinv.
Print Assumptions w2_reopened.
Print Assumptions resize_caseB_w2.
Print Assumptions write_caseB_w2.
Print Assumptions step_w2.
Print Assumptions history_w2.
Print Assumptions wf_data_history2.
Print Assumptions Example7.hist4_wf.
Print Assumptions Example7.hist4_w2.
Print Assumptions Counter.cohtree_without_dinv.
Check remove_stream_tidy_data.
Check fat_step_dinv2.
Check remove_big_stream_w2.
Check remove_empty_stream_w2.
Check step_w2C.
Check wf_data_history3.
Check free_mini_chain_go_back.
Check small_release_dinv.
Check resize_small_to_zero_dinv.
Check resize_caseC_w2.
Check step_w2D.
Check wf_data_history4.
Check Example8.hist5_wf.
Check Example9.hist6_wf.
Print Assumptions remove_stream_tidy_data.
Print Assumptions fat_step_dinv2.
Print Assumptions remove_big_stream_w2.
Print Assumptions remove_empty_stream_w2.
Print Assumptions step_w2C.
Print Assumptions wf_data_history3.
Print Assumptions free_mini_chain_go_back.
Print Assumptions small_release_dinv.
Print Assumptions resize_small_to_zero_dinv.
Print Assumptions resize_caseC_w2.
Print Assumptions step_w2D.
Print Assumptions history_w2D.
Print Assumptions wf_data_history4.
Print Assumptions Example8.hist5_wf.
Print Assumptions Example9.hist6_wf.
Check remove_small_stream_w2.
Check extend_tight.
Check mchain_grow_tight.
Check small_grow_dinv.
Check resize_small_alloc_dinv.
Check resize_empty_small_dinv.
Check mchain_write_go_tight.
Check write_small_alloc_dinv.
Check write_empty_small_dinv.
Check resize_caseE_w2.
Check write_caseE_w2.
Check step_w2E.
Check history_w2E.
Check wf_data_history5.
Check Example10.hist2_wf.
Check small_to_big_dinv.
Check resize_small_to_big_dinv.
Check write_small_to_big_dinv.
Check resize_caseF_w2.
Check write_caseF_w2.
Check step_w2F.
Check history_w2F.
Check wf_data_history6.
Check Example11.hist7_wf.
Print Assumptions remove_small_stream_w2.
Print Assumptions extend_tight.
Print Assumptions mchain_grow_tight.
Print Assumptions small_grow_dinv.
Print Assumptions resize_small_alloc_dinv.
Print Assumptions resize_empty_small_dinv.
Print Assumptions mchain_write_go_tight.
Print Assumptions write_small_alloc_dinv.
Print Assumptions write_empty_small_dinv.
Print Assumptions resize_caseE_w2.
Print Assumptions write_caseE_w2.
Print Assumptions step_w2E.
Print Assumptions history_w2E.
Print Assumptions wf_data_history5.
Print Assumptions Example10.hist2_wf.
Print Assumptions small_to_big_dinv.
Print Assumptions resize_small_to_big_dinv.
Print Assumptions write_small_to_big_dinv.
Print Assumptions resize_caseF_w2.
Print Assumptions write_caseF_w2.
Print Assumptions step_w2F.
Print Assumptions history_w2F.
Print Assumptions wf_data_history6.
Print Assumptions Example11.hist7_wf.
Check big_to_small_dinv.
Check resize_big_to_small_dinv.
Check resize_case_w2.
Check write_case_w2.
Check hop_run_w2_full.
Check step_w2_full.
Check history_w2_full.
Check wf_data_history_full.
Check Example12.fH_w2.
Check Example12.hist3_wf.
Check Example12.hist2_wf_full.
Print Assumptions big_to_small_dinv.
Print Assumptions resize_big_to_small_dinv.
Print Assumptions resize_case_w2.
Print Assumptions write_case_w2.
Print Assumptions hop_run_w2_full.
Print Assumptions step_w2_full.
Print Assumptions history_w2_full.
Print Assumptions wf_data_history_full.
Print Assumptions Example12.fH_w2.
Print Assumptions Example12.hist3_wf.
Print Assumptions Example12.hist2_wf_full.
