(* Progress.v -- the missing half of C01 / C02 / C03 / C15 for namespace
   histories: PROGRESS.  If the specification accepts a covered namespace call
   on a state satisfying the history invariant of PersistProofs, the model
   returns Ok (no late failure in slot allocation, directory-chain extension,
   sector allocation or write-through). *)
From Coq Require Import List NArith Lia Bool ZifyN ZifyBool Permutation Sorted Arith.
From Cfb.model Require Import Base Names Time DirEnt State Alloc Dir Mini Store Handle Open Cfb.
From Cfb.gen Require Import Consts.
From Cfb.spec Require Import Tree.
From Cfb.proofs Require Import DirProofs ChainProofs.
From Cfb.proofs Require CodecProofs WalkProofs ReuseProofs CoherenceProofs DirCoherence
                        ReopenProofs ReadonlyTotal QueryRefine MutRefine TreeProofs
                        TimeProofs NamesProofs PersistProofs HistoryRefine MutTotal WfPersist NetZero.
Import ListNotations.
Open Scope N_scope.

Ltac Zify.zify_post_hook ::= Z.div_mod_to_equations.

Import PersistProofs.

Local Opaque cmp_names validate_name name_chain_from_path path_join path_from_name_chain.

(* ================================================================== *)
(* 0. what an accepted call says about the path                        *)
(* ================================================================== *)

Lemma with_names_ok : forall t p k t' sv,
  with_names t p k = (t', Ok sv) ->
  exists names, name_chain_from_path p = Ok names /\ k names = (t', Ok sv).
Proof.
  intros t p k t' sv H. unfold with_names in H.
  destruct (name_chain_from_path p) as [names| | |]; try discriminate H. eauto.
Qed.

(* ================================================================== *)
(* 1. the metadata setters                                             *)
(* ================================================================== *)

Lemma set_entry_progress : forall c s t p f names n,
  PInv s -> QueryRefine.TreeRep (dirs s) c t ->
  (forall e, d_name (f e) = d_name e) ->
  name_chain_from_path p = Ok names -> Tree.get t names = Some n ->
  exists s', set_entry_with_path p f s = (s', Ok tt).
Proof.
  intros c s t p f names n [B Hdir Hents _ _] HT Hf En G.
  unfold set_entry_with_path. rewrite MutRefine.prefix_run, En.
  destruct (MutRefine.look c s t HT names) as [(id & e & n' & Hl & G' & He & _)|[Hl G']];
    [|congruence].
  rewrite Hl. destruct (PInv_DH s B Hdir) as (dids & HD).
  apply (wdem_total dids s id f e HD He).
  rewrite Hf. rewrite Forall_nthN in Hents. eapply ent_name_len. eapply Hents. exact He.
Qed.

Theorem set_state_progress : forall c s t now p bits t' sv,
  PInv s -> QueryRefine.TreeRep (dirs s) c t ->
  spec_step t now (SSetState p bits) = (t', Ok sv) ->
  exists s', api_set_state p bits s = (s', Ok tt).
Proof.
  intros c s t now p bits t' sv HP HT H. cbn [spec_step] in H.
  destruct (with_names_ok _ _ _ _ _ H) as (names & En & H1).
  destruct (Tree.get t names) as [n|] eqn:G; [|discriminate H1].
  eapply set_entry_progress; eauto.
Qed.

Theorem set_created_progress : forall c s t now p b secs nanos t' sv,
  PInv s -> QueryRefine.TreeRep (dirs s) c t ->
  spec_step t now (SSetCreated p b secs nanos) = (t', Ok sv) ->
  exists s', api_set_created p b secs nanos s = (s', Ok tt).
Proof.
  intros c s t now p b secs nanos t' sv HP HT H. cbn [spec_step] in H.
  destruct (with_names_ok _ _ _ _ _ H) as (names & En & H1).
  destruct (Tree.get t names) as [n|] eqn:G; [|discriminate H1].
  eapply set_entry_progress; eauto.
  intros e. cbv beta. destruct (objtype_eqb (d_type e) TStream); reflexivity.
Qed.

Theorem set_modified_progress : forall c s t now p b secs nanos t' sv,
  PInv s -> QueryRefine.TreeRep (dirs s) c t ->
  spec_step t now (SSetModified p b secs nanos) = (t', Ok sv) ->
  exists s', api_set_modified p b secs nanos s = (s', Ok tt).
Proof.
  intros c s t now p b secs nanos t' sv HP HT H. cbn [spec_step] in H.
  destruct (with_names_ok _ _ _ _ _ H) as (names & En & H1).
  destruct (Tree.get t names) as [n|] eqn:G; [|discriminate H1].
  eapply set_entry_progress; eauto.
  intros e. cbv beta. destruct (objtype_eqb (d_type e) TStream); reflexivity.
Qed.

Theorem set_clsid_progress : forall c s t now p g t' sv,
  PInv s -> QueryRefine.TreeRep (dirs s) c t ->
  spec_step t now (SSetClsid p g) = (t', Ok sv) ->
  exists s', api_set_clsid p g s = (s', Ok tt).
Proof.
  intros c s t now p g t' sv [B Hdir Hents _ _] HT H. cbn [spec_step] in H.
  destruct (with_names_ok _ _ _ _ _ H) as (names & En & H1).
  unfold api_set_clsid. rewrite MutRefine.prefix_run, En.
  destruct (MutRefine.look c s t HT names) as [(id & e & n' & Hl & G' & He & nm' & HN)|[Hl G']];
    rewrite G' in H1; [|discriminate H1].
  rewrite Hl. rewrite (MutRefine.dir_entry_run' _ _ _ _ _ He).
  destruct n' as [st bs|m ks]; [discriminate H1|].
  rewrite (MutRefine.dir_type c s _ _ _ _ _ _ HN He).
  replace (objtype_eqb (if QueryRefine.is_nil names then TRoot else TStorage) TStream) with false
    by (destruct (QueryRefine.is_nil names); reflexivity).
  destruct (PInv_DH s B Hdir) as (dids & HD).
  apply (wdem_total dids s id (fun e0 => set_clsid e0 g) e HD He).
  cbn [set_clsid d_name]. rewrite Forall_nthN in Hents. eapply ent_name_len. eapply Hents. exact He.
Qed.


(* ================================================================== *)
(* 2. forward execution of the directory primitives                    *)
(* ================================================================== *)

Definition name_ok (e : dirent) : Prop := lenN (utf16 (d_name e)) <= 31.

(* what every directory-only step keeps: the write hypotheses, the length of
   the table, short names *)
Definition DT (dids : list N) (n : N) (s : cstate) : Prop :=
  DH dids s /\ lenN (dirs s) = n /\ Forall name_ok (dirs s).

(* goals have the shape [exists s' a, m s = (s', Ok a) /\ Q s' a] *)
Lemma run_bind : forall A B (m : M A) (f : A -> M B) s s1 a (Q : cstate -> B -> Prop),
  m s = (s1, Ok a) -> (exists s' b, f a s1 = (s', Ok b) /\ Q s' b) ->
  exists s' b, bind m f s = (s', Ok b) /\ Q s' b.
Proof.
  intros A B m f s s1 a Q H (s' & b & H1 & H2). exists s', b. split; [|exact H2].
  unfold bind. rewrite H. exact H1.
Qed.

Lemma run_ret : forall A (a : A) s (Q : cstate -> A -> Prop),
  Q s a -> exists s' b, ret a s = (s', Ok b) /\ Q s' b.
Proof. intros A a s Q H. exists s, a. split; [reflexivity|exact H]. Qed.

Lemma DT_get : forall dids n s j, DT dids n s -> j < n -> exists e, nthN (dirs s) j = Some e.
Proof. intros dids n s j (_ & L & _) Hj. apply WalkProofs.nthN_lt_Some. lia. Qed.

Lemma DT_lt : forall dids n s j e, DT dids n s -> nthN (dirs s) j = Some e -> j < n.
Proof. intros dids n s j e (_ & L & _) He. apply nthN_Some_lt in He. lia. Qed.

Lemma DT_name : forall dids n s j e, DT dids n s -> nthN (dirs s) j = Some e -> name_ok e.
Proof. intros dids n s j e (_ & _ & F) He. rewrite Forall_nthN in F. eapply F. exact He. Qed.

Lemma sde_run : forall dids n s j e0 e,
  DT dids n s -> nthN (dirs s) j = Some e0 -> name_ok e ->
  set_dir_entry j e s = (w_dirs s (updN (dirs s) j e), Ok tt) /\
  DT dids n (w_dirs s (updN (dirs s) j e)).
Proof.
  intros dids n s j e0 e (HD & L & F) He Hn.
  pose proof (ReuseProofs.set_dir_entry_exec s j e0 e He) as E. split; [exact E|].
  destruct (dstep_set_dir_entry dids j e s _ tt HD E) as [HD' _].
  split; [exact HD'|]. cbn [dirs w_dirs]. split; [rewrite lenN_updN; exact L|].
  apply Forall_updN; assumption.
Qed.

Lemma wide_run : forall dids n s j off bs,
  DT dids n s -> j < n -> off + lenN bs <= 128 ->
  exists s', write_in_dir_entry j off bs s = (s', Ok tt) /\ DT dids n s' /\ dirs s' = dirs s.
Proof.
  intros dids n s j off bs (HD & L & F) Hj Hfit. pose proof HD as (Hids & Hg & Hcap & _).
  destruct (DirCoherence.write_in_dir_entry_spec s dids j off bs Hids Hg ltac:(nia) Hfit)
    as (s' & Hw & _).
  exists s'. split; [exact Hw|].
  destruct (dstep_write_in_dir_entry dids j off bs Hfit s s' tt HD Hw) as [HD' _].
  pose proof (frames_run _ _ _ _ _ (frames_write_in_dir_entry j off bs) Hw) as Ed.
  split; [|exact Ed]. split; [exact HD'|]. rewrite Ed. split; assumption.
Qed.

Lemma wde_run : forall dids n s j e,
  DT dids n s -> nthN (dirs s) j = Some e ->
  exists s', write_dir_entry j s = (s', Ok tt) /\ DT dids n s' /\ dirs s' = dirs s.
Proof.
  intros dids n s j e HT He. pose proof (DT_name _ _ _ _ _ HT He) as Hn.
  pose proof (DT_lt _ _ _ _ _ HT He) as Hj.
  destruct HT as (HD & L & F). pose proof HD as (Hids & Hg & Hcap & _).
  destruct (DirCoherence.write_dir_entry_spec s dids j e Hids Hg ltac:(nia) He Hn) as (s' & Hw & _).
  exists s'. split; [exact Hw|].
  destruct (dstep_write_dir_entry dids j s s' tt HD Hw) as [HD' _].
  pose proof (frames_run _ _ _ _ _ (frames_write_dir_entry j) Hw) as Ed.
  split; [|exact Ed]. split; [exact HD'|]. rewrite Ed. split; assumption.
Qed.

(* dir_entry j; set_dir_entry j (g e) *)
Lemma rmw_run : forall dids n s j (g : dirent -> dirent),
  DT dids n s -> j < n -> (forall e, d_name (g e) = d_name e) ->
  exists e s1, dir_entry j s = (s, Ok e) /\ set_dir_entry j (g e) s = (s1, Ok tt) /\
    DT dids n s1.
Proof.
  intros dids n s j g HT Hj Hg. destruct (DT_get _ _ _ _ HT Hj) as (e & He).
  exists e, (w_dirs s (updN (dirs s) j (g e))).
  split; [apply ReuseProofs.dir_entry_exec; exact He|].
  apply (sde_run dids n s j e (g e) HT He). unfold name_ok. rewrite Hg.
  exact (DT_name _ _ _ _ _ HT He).
Qed.

Lemma write_entries_run : forall dids n l s,
  DT dids n s -> Forall (fun j => j < n) l ->
  exists s', write_entries l s = (s', Ok tt) /\ DT dids n s' /\ dirs s' = dirs s.
Proof.
  intros dids n l. induction l as [|j l IH]; intros s HT HF; cbn [write_entries].
  - exists s. split; [reflexivity|]. split; [exact HT|reflexivity].
  - inversion HF as [|? ? Hj HF']; subst. destruct (DT_get _ _ _ _ HT Hj) as (e & He).
    destruct (wde_run dids n s j e HT He) as (s1 & E1 & HT1 & D1).
    destruct (IH s1 HT1 HF') as (s2 & E2 & HT2 & D2).
    exists s2. split; [|split; [exact HT2|congruence]].
    unfold bind. rewrite E1. exact E2.
Qed.

(* ================================================================== *)
(* 3. remove_dir_entry succeeds on a sibling tree                      *)
(* ================================================================== *)

Lemma recolor_run : forall dids n s c,
  DT dids n s -> (c <> NO_STREAM -> c < n) ->
  exists s' t, (if negb (c =? NO_STREAM)
                then do ce <- dir_entry c; set_dir_entry c (set_color ce Black) ;; ret [c]
                else ret []) s = (s', Ok t) /\ DT dids n s' /\ Forall (fun j => j < n) t.
Proof.
  intros dids n s c HT Hc. destruct (N.eqb_spec c NO_STREAM) as [E|E]; cbn [negb].
  - apply run_ret. split; [exact HT|constructor].
  - destruct (rmw_run dids n s c (fun ce => set_color ce Black) HT (Hc E) ltac:(reflexivity))
      as (ce & s1 & E1 & E2 & HT1).
    eapply run_bind; [exact E1|]. cbv beta. eapply run_bind; [exact E2|]. cbv beta.
    apply run_ret. split; [exact HT1|]. constructor; [exact (Hc E)|constructor].
Qed.

Lemma splice_run : forall dids n s x e,
  DT dids n s ->
  (d_left e <> NO_STREAM -> d_right e <> NO_STREAM ->
   exists pp pred, find_pred (S (length (dirs s))) (dirs s) x (d_left e) = Ok (pp, pred)) ->
  (forall pp pred,
     (d_left e <> NO_STREAM -> d_right e <> NO_STREAM ->
      find_pred (S (length (dirs s))) (dirs s) x (d_left e) = Ok (pp, pred)) ->
     forall j, In j (splice_touched (dirs s) x e pp pred) -> j < n) ->
  exists s' a, splice_block x e s = (s', Ok a) /\ DT dids n s' /\ Forall (fun j => j < n) (snd a).
Proof.
  intros dids n s x e HT Hfp Hin. unfold splice_block. cbv zeta.
  destruct ((d_left e =? NO_STREAM) || (d_right e =? NO_STREAM)) eqn:C.
  - set (c := if d_left e =? NO_STREAM then d_right e else d_left e) in *.
    assert (Hc : c <> NO_STREAM -> c < n).
    { intros Hne. apply (Hin 0 0).
      - intros Hl Hr. apply orb_true_iff in C. destruct C as [C|C]; apply N.eqb_eq in C; contradiction.
      - unfold splice_touched. rewrite C. fold c. unfold optN.
        destruct (N.eqb_spec c NO_STREAM); [contradiction|left; reflexivity]. }
    destruct (N.eqb_spec c NO_STREAM) as [E|E]; cbn [negb].
    + apply run_ret. cbn [snd]. split; [exact HT|constructor].
    + destruct (rmw_run dids n s c (fun ce => set_color ce Black) HT (Hc E) ltac:(reflexivity))
        as (ce & s1 & E1 & E2 & HT1).
      eapply run_bind; [exact E1|]. cbv beta. eapply run_bind; [exact E2|]. cbv beta.
      apply run_ret. cbn [snd]. split; [exact HT1|]. constructor; [exact (Hc E)|constructor].
  - apply orb_false_iff in C. destruct C as [C1 C2]. apply N.eqb_neq in C1, C2.
    destruct (Hfp C1 C2) as (pp & pred & Ef).
    pose proof (Hin pp pred (fun _ _ => Ef)) as Hin'. unfold splice_touched in Hin'.
    replace ((d_left e =? NO_STREAM) || (d_right e =? NO_STREAM)) with false in Hin'
      by (symmetry; apply orb_false_iff; split; apply N.eqb_neq; assumption).
    assert (Hpred : pred < n).
    { apply Hin'. apply in_or_app. right. apply in_or_app. right. left. reflexivity. }
    eapply run_bind; [apply ReuseProofs.get_exec|]. cbv beta.
    rewrite Ef. eapply run_bind; [reflexivity|]. cbv beta iota.
    destruct (DT_get _ _ _ _ HT Hpred) as (pe & Hpe). rewrite Hpe in Hin'.
    eapply run_bind; [apply ReuseProofs.dir_entry_exec; exact Hpe|]. cbv beta zeta.
    assert (Hpl : d_left pe <> NO_STREAM -> d_left pe < n).
    { intros Hne. apply Hin'. apply in_or_app. left. unfold optN.
      destruct (N.eqb_spec (d_left pe) NO_STREAM); [contradiction|left; reflexivity]. }
    destruct (recolor_run dids n s (d_left pe) HT Hpl) as (s1 & t1 & E1 & HT1 & F1).
    eapply run_bind; [exact E1|]. cbv beta.
    assert (Hpp : pp <> x -> pp < n).
    { intros Hne. apply Hin'. apply in_or_app. right. apply in_or_app. left.
      destruct (N.eqb_spec pp x); [contradiction|left; reflexivity]. }
    assert (Hs2 : exists s2 t2,
      (if negb (pp =? x)
       then do ppe <- dir_entry pp;
            set_dir_entry pp (set_right ppe (d_left pe)) ;;
            (do pe' <- dir_entry pred; set_dir_entry pred (set_left pe' (d_left e)) ;; ret [pp])
       else ret []) s1 = (s2, Ok t2) /\ DT dids n s2 /\ Forall (fun j => j < n) t2).
    { destruct (N.eqb_spec pp x) as [E|E]; cbn [negb].
      - apply run_ret. split; [exact HT1|constructor].
      - destruct (rmw_run dids n s1 pp (fun ppe => set_right ppe (d_left pe)) HT1 (Hpp E)
                    ltac:(reflexivity)) as (ppe & s2 & E2 & E3 & HT2).
        eapply run_bind; [exact E2|]. cbv beta. eapply run_bind; [exact E3|]. cbv beta.
        destruct (rmw_run dids n s2 pred (fun pe' => set_left pe' (d_left e)) HT2 Hpred
                    ltac:(reflexivity)) as (pe' & s3 & E4 & E5 & HT3).
        eapply run_bind; [exact E4|]. cbv beta. eapply run_bind; [exact E5|]. cbv beta.
        apply run_ret. split; [exact HT3|]. constructor; [exact (Hpp E)|constructor]. }
    destruct Hs2 as (s2 & t2 & E2 & HT2 & F2).
    eapply run_bind; [exact E2|]. cbv beta.
    destruct (rmw_run dids n s2 pred (fun pe' => set_color (set_right pe' (d_right e)) (d_color e))
                HT2 Hpred ltac:(reflexivity)) as (pe' & s3 & E3 & E4 & HT3).
    eapply run_bind; [exact E3|]. cbv beta. eapply run_bind; [exact E4|]. cbv beta.
    apply run_ret. cbn [snd]. split; [exact HT3|].
    apply Forall_app. split; [exact F1|]. apply Forall_app. split; [exact F2|].
    constructor; [exact Hpred|constructor].
Qed.

Lemma remove_dir_entry_run : forall dids n s parent nm p t x ex,
  DT dids n s ->
  nthN (dirs s) parent = Some p -> Rep (dirs s) (d_child p) t -> NoDup (ids t) ->
  bst_find (dirs s) nm t = Some x -> nthN (dirs s) x = Some ex -> d_child ex = NO_STREAM ->
  x <> ROOT_STREAM_ID ->
  exists s', remove_dir_entry parent nm s = (s', Ok tt).
Proof.
  intros dids n s parent nm p t x ex HT Hp HR ND HF Hex Hch Hx0.
  assert (Hinner : exists s' u, remove_dir_entry_inner parent nm s = (s', Ok u) /\ True).
  2:{ destruct Hinner as (s' & [] & E & _). exists s'. apply remove_dir_entry_ok. exact E. }
  pose proof HT as (_ & Ln & _).
  (* the path *)
  assert (Hrf : remove_find (S (length (dirs s))) (dirs s) nm (d_child p) []
                = Ok (anc (dirs s) nm t ++ [x])).
  { rewrite (remove_find_spec (dirs s) nm x t (d_child p) (S (length (dirs s))) [] HR HF ND).
    - reflexivity.
    - intros j [].
    - pose proof (rep_length _ _ _ HR ND). lia. }
  destruct (kids (dirs s) nm t) as [l r] eqn:HK.
  destruct (kids_rep _ _ _ _ _ _ _ HR HF HK) as (HRx & Hsub & NDx).
  specialize (NDx ND).
  pose proof HRx as (_ & HxN & e' & He' & HRl & HRr).
  assert (e' = ex) by congruence. subst e'.
  apply nodup_node in NDx. destruct NDx as (NDl & NDr & Hxl & Hxr & Hlr).
  assert (Hsubn : forall j, In j (ids l ++ ids r) -> j < n).
  { intros j Hj. rewrite <- Ln. apply (rep_ids _ _ _ HR). apply Hsub. apply in_node.
    apply in_app_or in Hj. tauto. }
  unfold remove_dir_entry_inner.
  eapply run_bind; [apply ReuseProofs.dir_entry_exec; exact Hp|]. cbv beta.
  eapply run_bind; [apply ReuseProofs.get_exec|]. cbv beta.
  rewrite Hrf. eapply run_bind; [reflexivity|]. cbv beta.
  rewrite lastN_app1, pop_last_app1.
  eapply run_bind; [apply ReuseProofs.dir_entry_exec; exact Hex|]. cbv beta.
  rewrite Hch, N.eqb_refl. cbn [negb]. eapply run_bind; [reflexivity|]. cbv beta zeta.
  (* the splice *)
  assert (Hfp : d_left ex <> NO_STREAM -> d_right ex <> NO_STREAM ->
                exists pp pred, find_pred (S (length (dirs s))) (dirs s) x (d_left ex) = Ok (pp, pred)).
  { intros Hl Hr. destruct (rep_some _ _ _ HRl Hl) as (ll & lr & ->).
    exists (fst (tree_pred x (d_left ex) lr)), (snd (tree_pred x (d_left ex) lr)).
    rewrite <- surjective_pairing. apply (find_pred_total _ lr ll); [exact HRl|].
    pose proof (rep_length _ _ _ HRl NDl) as Hlen. cbn [ids] in Hlen. rewrite app_length in Hlen.
    cbn [length] in Hlen. lia. }
  assert (Hin : forall pp pred,
            (d_left ex <> NO_STREAM -> d_right ex <> NO_STREAM ->
             find_pred (S (length (dirs s))) (dirs s) x (d_left ex) = Ok (pp, pred)) ->
            forall j, In j (splice_touched (dirs s) x ex pp pred) -> In j (ids l ++ ids r)).
  { intros pp pred Hf j Hj. eapply splice_touched_in; try eassumption.
    intros Hl Hr. eexists. apply Hf; assumption. }
  destruct (splice_run dids n s x ex HT Hfp (fun pp pred Hf j Hj => Hsubn j (Hin pp pred Hf j Hj)))
    as (s2 & [repl touched] & E2 & HT2 & F2).
  change (splice_block x ex s = (s2, Ok (repl, touched))) in E2.
  eapply run_bind; [exact E2|]. cbv beta iota.
  destruct (splice_proj _ _ _ _ _ _ E2) as (pp & pred & Hf & Hsp).
  cbn [snd] in F2.
  destruct (write_entries_run dids n touched s2 HT2 F2) as (s3 & E3 & HT3 & D3).
  eapply run_bind; [exact E3|]. cbv beta.
  (* the relink *)
  assert (Hrel : exists s4 u,
    (match lastN (anc (dirs s) nm t) with
     | Some sib =>
       do se <- dir_entry sib;
       if d_left se =? x then
         set_dir_entry sib (set_left se repl) ;; write_in_dir_entry sib DE_OFF_LEFT (le_bytes 4 repl)
       else if negb (d_right se =? x) then panic 411
       else set_dir_entry sib (set_right se repl) ;; write_in_dir_entry sib DE_OFF_RIGHT (le_bytes 4 repl)
     | None =>
       do pe <- dir_entry parent;
       set_dir_entry parent (set_child pe repl) ;; write_in_dir_entry parent DE_OFF_CHILD (le_bytes 4 repl)
     end) s3 = (s4, Ok u) /\ DT dids n s4).
  { destruct (lastN (anc (dirs s) nm t)) as [sib|] eqn:Hsib.
    - destruct (MutTotal.anc_last_link (dirs s) nm x t (d_child p) sib HR HF Hsib) as (se & Hse & Hlink).
      assert (Hse3 : nthN (dirs s3) sib = Some se).
      { rewrite D3. replace (dirs s2) with (fst (splice_tbl (dirs s) x ex pp pred))
          by (rewrite <- Hsp; reflexivity).
        rewrite splice_untouched; [exact Hse|]. intros Hj.
        apply (MutTotal.anc_disjoint (dirs s) nm x t l r ND HF HK sib (lastN_in _ _ _ Hsib)).
        apply in_node. specialize (Hin pp pred Hf sib Hj). apply in_app_or in Hin. tauto. }
      pose proof (DT_lt _ _ _ _ _ HT3 Hse3) as Hsn.
      eapply run_bind; [apply ReuseProofs.dir_entry_exec; exact Hse3|]. cbv beta.
      destruct (N.eqb_spec (d_left se) x) as [El|El].
      + destruct (sde_run dids n s3 sib se (set_left se repl) HT3 Hse3) as [E4 HT4].
        { exact (DT_name _ _ _ _ _ HT3 Hse3). }
        eapply run_bind; [exact E4|]. cbv beta.
        destruct (wide_run dids n _ sib DE_OFF_LEFT (le_bytes 4 repl) HT4 Hsn) as (s5 & E5 & HT5 & _).
        { rewrite CodecProofs.lenN_le_bytes4. unfold DE_OFF_LEFT. lia. }
        exists s5, tt. split; [exact E5|exact HT5].
      + destruct Hlink as [Hl|Hr]; [contradiction|]. rewrite Hr, N.eqb_refl. cbn [negb].
        destruct (sde_run dids n s3 sib se (set_right se repl) HT3 Hse3) as [E4 HT4].
        { exact (DT_name _ _ _ _ _ HT3 Hse3). }
        eapply run_bind; [exact E4|]. cbv beta.
        destruct (wide_run dids n _ sib DE_OFF_RIGHT (le_bytes 4 repl) HT4 Hsn) as (s5 & E5 & HT5 & _).
        { rewrite CodecProofs.lenN_le_bytes4. unfold DE_OFF_RIGHT. lia. }
        exists s5, tt. split; [exact E5|exact HT5].
    - pose proof (DT_lt _ _ _ _ _ HT Hp) as Hpn.
      destruct (rmw_run dids n s3 parent (fun pe => set_child pe repl) HT3 Hpn ltac:(reflexivity))
        as (pe & s4 & E4 & E5 & HT4).
      eapply run_bind; [exact E4|]. cbv beta. eapply run_bind; [exact E5|]. cbv beta.
      destruct (wide_run dids n s4 parent DE_OFF_CHILD (le_bytes 4 repl) HT4 Hpn) as (s5 & E6 & HT5 & _).
      { rewrite CodecProofs.lenN_le_bytes4. unfold DE_OFF_CHILD. lia. }
      exists s5, tt. split; [exact E6|exact HT5]. }
  destruct Hrel as (s4 & [] & E4 & HT4).
  eapply run_bind; [exact E4|]. cbv beta.
  (* free the slot *)
  unfold free_dir_entry. destruct (N.eqb_spec x ROOT_STREAM_ID) as [E|_]; [contradiction|].
  pose proof (DT_lt _ _ _ _ _ HT Hex) as Hxn.
  destruct (wide_run dids n s4 x 0 (dirent_encode dirent_unallocated) HT4 Hxn) as (s5 & E5 & HT5 & _).
  { rewrite DirCoherence.lenN_enc_unalloc. lia. }
  eapply run_bind; [exact E5|]. cbv beta.
  destruct (DT_get _ _ _ _ HT5 Hxn) as (e5 & He5).
  destruct (sde_run dids n s5 x e5 dirent_unallocated HT5 He5) as [E6 _].
  { unfold name_ok. cbn. lia. }
  eexists _, tt. split; [exact E6|exact I].
Qed.

(* ================================================================== *)
(* 4. remove_storage / remove_stream                                   *)
(* ================================================================== *)

Lemma PInv_DT : forall s, PInv s -> exists dids, DT dids (lenN (dirs s)) s.
Proof.
  intros s [B Hdir Hents _ _]. destruct (PInv_DH s B Hdir) as (dids & HD). exists dids.
  split; [exact HD|]. split; [reflexivity|].
  eapply Forall_impl; [|exact Hents]. intros e He. eapply ent_name_len. exact He.
Qed.

(* the parent of a found entry, with its sibling tree *)
Lemma parent_of_found : forall c s t names nm id,
  QueryRefine.TreeRep (dirs s) c t -> lastN names = Some nm ->
  lookup_chain (dirs s) names ROOT_STREAM_ID = Ok (Some id) ->
  exists pid p t1, lookup_chain (dirs s) (pop_last names) ROOT_STREAM_ID = Ok (Some pid) /\
    nthN (dirs s) pid = Some p /\ Rep (dirs s) (d_child p) t1 /\ NoDup (ids t1) /\
    bst_find (dirs s) nm t1 = Some id.
Proof.
  intros c s t names nm id HT Hlast Hlk.
  rewrite (TreeProofs.lastN_some _ _ _ Hlast), MutRefine.lookup_chain_app in Hlk.
  destruct (MutRefine.look c s t HT (pop_last names))
    as [(pid & p & n & Hl & G & Hp & nm' & HN)|[Hl G]]; rewrite Hl in Hlk; cbn [rbind] in Hlk;
    [|discriminate Hlk].
  cbn [lookup_chain] in Hlk. unfold dir_entry_of in Hlk. rewrite Hp in Hlk. cbn [rbind] in Hlk.
  exists pid, p. destruct n as [st bs|m ks].
  - apply QueryRefine.NodeRep_leaf in HN. destruct HN as (_ & e0 & He0 & _ & _ & _ & Hc & _).
    assert (e0 = p) by congruence. subst e0. rewrite Hc in Hlk. cbn [find_in_siblings] in Hlk.
    rewrite N.eqb_refl in Hlk. discriminate Hlk.
  - apply QueryRefine.NodeRep_dir in HN.
    destruct HN as (_ & e0 & He0 & _ & _ & _ & _ & t1 & HR & HB & ND & _).
    assert (e0 = p) by congruence. subst e0. exists t1.
    rewrite (find_in_siblings_total _ nm t1 _ HR ND) in Hlk. cbn [rbind] in Hlk.
    destruct (bst_find (dirs s) nm t1) as [i|]; [|discriminate Hlk]. injection Hlk as ->.
    repeat split; assumption.
Qed.

Lemma root_is_root : forall c s t e,
  QueryRefine.TreeRep (dirs s) c t -> nthN (dirs s) ROOT_STREAM_ID = Some e -> d_type e = TRoot.
Proof.
  intros c s t e HT He. destruct (QueryRefine.NodeRep_entry _ _ _ _ _ _ HT) as (_ & e0 & He0 & _ & Ht).
  assert (e0 = e) by congruence. subst e0. rewrite Ht.
  destruct (QueryRefine.NodeRep_root_dir _ _ _ _ _ HT) as (m & ks & ->). reflexivity.
Qed.

Lemma nonempty_last : forall A (l : list A), l <> [] -> exists x, lastN l = Some x.
Proof.
  intros A [|a l] H; [contradiction|]. rewrite DirProofs.lastN_cons. destruct (lastN l); eauto.
Qed.

Theorem remove_storage_progress : forall c s t now p t' sv,
  PInv s -> QueryRefine.TreeRep (dirs s) c t ->
  spec_step t now (SRemoveStorage p) = (t', Ok sv) ->
  exists s', api_remove_storage p s = (s', Ok tt).
Proof.
  intros c s t now p t' sv HP HT H. cbn [spec_step] in H.
  destruct (with_names_ok _ _ _ _ _ H) as (names & En & H1).
  unfold api_remove_storage, remove_storage_names. rewrite MutRefine.prefix_run, En.
  destruct (MutRefine.look c s t HT names) as [(id & e & n' & Hl & G' & He & nm' & HN)|[Hl G']];
    rewrite G' in H1; [|discriminate H1].
  rewrite Hl. rewrite (MutRefine.dir_entry_run' _ _ _ _ _ He).
  destruct n' as [st bs|m ks]; [discriminate H1|].
  destruct names as [|a l] eqn:Enames; [discriminate H1|]. rewrite <- Enames in *.
  assert (Hne : names <> []) by (rewrite Enames; discriminate).
  assert (Hnil : QueryRefine.is_nil names = false) by (rewrite Enames; reflexivity).
  clear Enames a l. destruct ks as [|kc ks]; [|destruct names; discriminate H1].
  pose proof (MutRefine.dir_type c s _ _ _ _ _ _ HN He) as Hty. rewrite Hnil in Hty.
  rewrite Hty. cbn [objtype_eqb negb].
  apply QueryRefine.NodeRep_dir in HN.
  destruct HN as (_ & e0 & He0 & _ & _ & _ & _ & t0 & HR0 & _ & _ & HK0).
  assert (e0 = e) by congruence. subst e0.
  assert (Hch : d_child e = NO_STREAM).
  { destruct t0 as [|l0 i0 r0]; [exact HR0|]. cbn [ids] in HK0. inversion HK0.
    destruct (ids l0); discriminate. }
  rewrite Hch, N.eqb_refl. cbn [negb].
  destruct (nonempty_last _ names Hne) as (nm & Hlast). rewrite Hlast.
  destruct (parent_of_found c s t names nm id HT Hlast Hl) as (pid & pe & t1 & Hlp & Hpe & HR & ND & HF).
  rewrite MutRefine.lookup_run', Hlp.
  destruct (PInv_DT s HP) as (dids & HDT).
  apply (remove_dir_entry_run dids _ s pid nm pe t1 id e HDT Hpe HR ND HF He Hch).
  intros ->. rewrite (root_is_root c s t e HT He) in Hty. discriminate Hty.
Qed.

Theorem remove_stream_progress : forall c s t now p t' sv,
  PInv s -> EmptyStreams s -> QueryRefine.TreeRep (dirs s) c t ->
  spec_step t now (SRemoveStream p) = (t', Ok sv) ->
  exists s', api_remove_stream p s = (s', Ok tt).
Proof.
  intros c s t now p t' sv HP HE HT H. cbn [spec_step] in H.
  destruct (with_names_ok _ _ _ _ _ H) as (names & En & H1).
  unfold api_remove_stream, remove_stream_names. rewrite MutRefine.prefix_run, En.
  destruct (MutRefine.look c s t HT names) as [(id & e & n' & Hl & G' & He & nm' & HN)|[Hl G']];
    rewrite G' in H1; [|discriminate H1].
  rewrite Hl. rewrite (MutRefine.dir_entry_run' _ _ _ _ _ He).
  destruct n' as [st bs|m ks]; [|discriminate H1].
  pose proof (MutRefine.leaf_type c s _ _ _ _ _ _ HN He) as Hty. rewrite Hty. cbn [objtype_eqb negb].
  apply QueryRefine.NodeRep_leaf in HN.
  destruct HN as (_ & e0 & He0 & _ & Hr & _ & Hch & _).
  assert (e0 = e) by congruence. subst e0.
  rewrite Hch, N.eqb_refl. cbn [negb].
  assert (Hes : d_start e = END_OF_CHAIN /\ d_len e = 0).
  { unfold EmptyStreams in HE. rewrite Forall_nthN in HE. exact (HE _ _ He Hty). }
  destruct Hes as [Est Eln]. rewrite Eln, Est.
  replace (0 <? MINI_STREAM_CUTOFF) with true by reflexivity.
  rewrite QueryRefine.q_bind_eq, free_mini_chain_eoc.
  assert (Hne : names <> []).
  { intros ->. cbn [QueryRefine.is_nil] in Hr. discriminate Hr. }
  destruct (nonempty_last _ names Hne) as (nm & Hlast). rewrite Hlast.
  destruct (parent_of_found c s t names nm id HT Hlast Hl) as (pid & pe & t1 & Hlp & Hpe & HR & ND & HF).
  rewrite MutRefine.lookup_run', Hlp.
  destruct (PInv_DT s HP) as (dids & HDT).
  apply (remove_dir_entry_run dids _ s pid nm pe t1 id e HDT Hpe HR ND HF He Hch).
  intros ->. rewrite (root_is_root c s t e HT He) in Hty. discriminate Hty.
Qed.

(* ================================================================== *)
(* 5. the allocator (growth branch) does not fail                      *)
(* ================================================================== *)

Import ReuseProofs CoherenceProofs ReopenProofs.

Lemma header_write_run : forall off bs s, off < HEADER_LEN ->
  exists s', header_write off bs s = (s', Ok tt).
Proof.
  intros off bs s H. unfold header_write. destruct (HEADER_LEN <=? off) eqn:E; [lia|].
  eexists. reflexivity.
Qed.

Lemma append_fat_sector_run : forall s,
  FatInv s -> lenN (fat s) mod fat_per_sector s = 0 -> lenN (difat s) < NUM_DIFAT_HDR ->
  exists s', append_fat_sector s = (s', Ok tt).
Proof.
  intros s [Hcore Hlen Hpos Htight] Hmod Hreg.
  pose proof (fps_pos s) as Hfp.
  unfold append_fat_sector. rewrite bind_get. rewrite Hlen.
  rewrite (bind_exec _ _ _ _ _ (init_sector_append_exec s IFat (co_img _ Hcore) (co_full _ Hcore) Hpos)).
  set (s1 := app_sector s (init_bytes (ver s) IFat)) in *.
  assert (Hcore1 : Core s1)
    by (apply app_sector_core; [exact Hcore | rewrite lenN_init_bytes; reflexivity]).
  rewrite bind_modify.
  set (s2 := w_difat s1 (difat s1 ++ [nsect s])) in *.
  assert (Hni : ~ In (nsect s) (difat s)).
  { intro Hin. pose proof (co_lt _ Hcore _ Hin). lia. }
  assert (Hcore2 : Core s2).
  { apply w_difat_app_core; [exact Hcore1 | cbn; lia | exact Hni]. }
  assert (Hdl : lenN (difat s) = nsect s / fat_per_sector s).
  { rewrite Htight, Hlen. rewrite Hlen in Hmod.
    destruct (fps_cases s) as [[_ E]|[_ E]]; rewrite E in *; lia. }
  assert (Hd2 : nthN (difat s2) (nsect s / fat_per_sector s2) = Some (nsect s)).
  { cbn [s2 difat w_difat s1 app_sector w_img w_nsect].
    change (fat_per_sector _) with (fat_per_sector s).
    rewrite nthN_app_r by lia. rewrite Hdl, N.sub_diag. reflexivity. }
  assert (Hfn2 : nsect s < nsect s2) by (cbn; lia).
  rewrite (bind_exec _ _ _ _ _
             (set_fat_exec s2 (nsect s) FAT_SECTOR (nsect s) ltac:(cbn; lia) Hd2 Hfn2
                (co_full _ Hcore2 _ Hfn2))).
  replace (lenN (difat s) <? NUM_DIFAT_HDR) with true by lia.
  destruct (header_write_run (HDR_OFF_DIFAT_ARRAY + 4 * lenN (difat s)) (le_bytes 4 (nsect s))
              (set_fat_state s2 (nsect s) FAT_SECTOR (nsect s))) as (s4 & E4).
  { unfold HDR_OFF_DIFAT_ARRAY, HEADER_LEN, NUM_DIFAT_HDR in *. lia. }
  rewrite (bind_exec _ _ _ _ _ E4). rewrite bind_get.
  apply header_write_run. reflexivity.
Qed.

Theorem allocate_grow_run : forall i s,
  FatInv s -> DifatOk s -> free s = [] -> lenN (difat s) < NUM_DIFAT_HDR ->
  exists s' sid, allocate_sector i s = (s', Ok sid).
Proof.
  intros i s Hinv Hok Hfree Hreg. pose proof (fps_pos s) as Hfp.
  destruct (N.eq_dec (lenN (fat s) mod fat_per_sector s) 0) as [Em|Em].
  - destruct (append_fat_sector_run s Hinv Em Hreg) as (s1 & E1).
    destruct (append_fat_sector_coherent s s1 Hinv Hok Em E1)
      as ([Hcore1 Hlen1 Hpos1 Hok1] & Efr1 & Ed1 & Hcase & Ev1).
    assert (Efps1 : fat_per_sector s1 = fat_per_sector s)
      by (unfold fat_per_sector, slen; rewrite Ev1; reflexivity).
    destruct Hinv as [Hcore Hlen Hpos Htight].
    assert (Hinv1 : FatInv s1).
    { constructor; [exact Hcore1 | exact Hlen1 | exact Hpos1 |].
      rewrite Efps1, Ed1, lenN_app, Htight. cbn [lenN].
      destruct Hcase as [[A B]|[A B]]; rewrite B, lenN_app; cbn [lenN];
        destruct (fps_cases s) as [[_ E]|[_ E]]; rewrite E in *; lia. }
    assert (Hmod1 : lenN (fat s1) mod fat_per_sector s1 <> 0).
    { rewrite Efps1. destruct Hcase as [[A B]|[A B]]; rewrite B, lenN_app; cbn [lenN];
        destruct (fps_cases s) as [[_ E]|[_ E]]; rewrite E in *; lia. }
    destruct (alloc_tail_coherent i s1 Hinv1 Hmod1) as (s2 & E2 & _).
    exists s2, (nsect s1). rewrite (allocate_sector_grow_unfold i s Hfree).
    replace (lenN (fat s) mod fat_per_sector s =? 0) with true by lia.
    rewrite (bind_exec _ _ _ _ _ E1). exact E2.
  - destruct (allocate_append_coherent i s Hinv Hfree Em) as (s' & E & _). eauto.
Qed.

(* ================================================================== *)
(* 6. extending the directory chain does not fail                      *)
(* ================================================================== *)

Lemma find_last_go_run : forall fat cur l, WalkProofs.path fat cur l -> cur <> END_OF_CHAIN ->
  forall f steps, (length l <= f)%nat -> steps + lenN l <= lenN fat ->
  exists last, find_last_go f fat steps cur = Ok last.
Proof.
  intros fat cur l Hp. induction Hp as [|cur nx l Hc Hn Hp IH]; intros Hne f steps Hf Hs; [congruence|].
  destruct f as [|f]; [cbn [length] in Hf; lia|]. cbn [find_last_go]. rewrite Hn. cbn [rbind].
  destruct (N.eqb_spec nx END_OF_CHAIN) as [E|E]; [eauto|].
  assert (Hl : 1 <= lenN l).
  { inversion Hp; subst; [congruence|]. cbn [lenN]. lia. }
  cbn [lenN] in Hs. destruct (lenN fat <? steps + 1) eqn:E2; [lia|].
  apply IH; [exact E|cbn [length] in Hf; lia|lia].
Qed.

Lemma path_head_next : forall fat cur l, WalkProofs.path fat cur l -> cur <> END_OF_CHAIN ->
  exists nx, next_of fat cur = Ok nx.
Proof. intros fat cur l H Hne. destruct H as [|cur nx l Hc Hn Hp]; [congruence|eauto]. Qed.

Lemma dir_start_not_eoc : forall dids s, DH dids s -> 0 < lenN (dirs s) ->
  dir_start s <> END_OF_CHAIN /\ dids <> [].
Proof.
  intros dids s (Hids & _ & Hcap & _) Hpos.
  assert (dids <> []) as Hne by (intros ->; cbn [lenN] in Hcap; lia).
  split; [|exact Hne]. intros E. unfold DirCoherence.dir_ids in Hids. rewrite E in Hids.
  unfold chain_ids_of in Hids. cbn [chain_ids_go] in Hids. rewrite N.eqb_refl in Hids.
  injection Hids as <-. apply Hne. reflexivity.
Qed.

Theorem extend_dir_run : forall s,
  Base s -> DirCoherence.DirCoherent s -> 0 < lenN (dirs s) ->
  lenN (difat s) < NUM_DIFAT_HDR -> nsect s + 3 <= MAX_REGULAR_SECTOR ->
  exists s3, (do _ <- extend_chain (dir_start s) IDir; update_num_dir_sectors) s = (s3, Ok tt).
Proof.
  intros s B Hdir Hpos Hreg Hsize.
  destruct (PInv_DH s B Hdir) as (dids & HD).
  destruct (dir_start_not_eoc dids s HD Hpos) as [Hstart Hdne].
  pose proof HD as (Hids & Hgd & _).
  pose proof (b_fat s B) as Bf. pose proof Bf as [[Ci Cfull Ccoh Cnd Clt] Clen Cpos Ctight].
  pose proof (WalkProofs.chain_ids_path _ _ _ Hids) as Hpd.
  (* the walk to the last sector *)
  destruct (find_last_go_run (fat s) (dir_start s) dids Hpd Hstart (S (S (length (fat s)))) 0)
    as (lst & Hfl).
  { pose proof (WalkProofs.path_lt _ _ _ Hpd) as Hlt. destruct Hgd as (Hnd & _).
    pose proof (WalkProofs.bounded_nodup_length _ _ Hnd Hlt) as Hb.
    rewrite WalkProofs.lenN_length in Hb. lia. }
  { destruct Hgd as (Hnd & _). pose proof (WalkProofs.path_lt _ _ _ Hpd) as Hlt.
    pose proof (WalkProofs.bounded_nodup_length _ _ Hnd Hlt) as Hb.
    rewrite (WalkProofs.lenN_length dids). lia. }
  pose proof (DirCoherence.find_last_go_path _ _ _ _ _ _ Hpd Hstart Hfl) as Hlast.
  pose proof (path_last_eoc _ _ _ _ Hpd Hlast) as Hlast_eoc.
  assert (Hlast_lt : lst < lenN (fat s)) by (eapply nthN_Some_lt; exact Hlast_eoc).
  (* the allocation *)
  destruct (allocate_grow_run IDir s Bf (b_difat_ok s B) (b_free s B) Hreg) as (sa & nw & Ha).
  destruct (allocate_grow_coherent IDir s sa nw Bf (b_difat_ok s B) (b_free s B) Ha)
    as (Hinva & Hoka & Hfra & Hnw & Hnsa).
  pose proof Hinva as [[Cia Cfulla Ccoha Cnda Clta] Clena Cposa Ctighta].
  assert (Hlast_a : lst < lenN (fat sa)) by lia.
  destruct (set_fat_existing_coherent sa lst nw Ccoha Cnda ltac:(markers; lia) Hlast_a)
    as (f0 & _ & _ & _ & Eset & _ & _).
  set (s2 := set_fat_state sa lst nw f0) in *.
  assert (He : extend_chain (dir_start s) IDir s = (s2, Ok nw)).
  { unfold extend_chain. destruct (N.eqb_spec (dir_start s) END_OF_CHAIN); [contradiction|].
    rewrite bind_get, Hfl. rewrite (bind_exec _ _ _ _ _ (eq_refl : lift (Ok lst) s = (s, Ok lst))).
    rewrite (bind_exec _ _ _ _ _ Ha), (bind_exec _ _ _ _ _ Eset). reflexivity. }
  rewrite (bind_exec _ _ _ _ _ He).
  (* the chain after the extension *)
  assert (Hext : DirCoherence.chain_extended s s2 dids nw).
  { apply (DirCoherence.extend_chain_dir_extended s dids s2 nw); try assumption.
    - intros x Hx. split; [exact (chain_not_marked s _ _ x (b_marks s B) Hids Hx)|].
      rewrite (b_ids s B), (b_free s B). split; intros [].
    - intros x Hx. rewrite (b_free s B) in Hx. destruct Hx.
    - intros f Hf. rewrite Clen. apply Clt. exact Hf.
    - intros j Hj. destruct (coherent_backed s Ccoh j Hj) as (f & Hf & _).
      eapply nthN_Some_lt. exact Hf.
    - lia. }
  destruct Hext as (Ev2 & _ & Eds2 & Hids2 & _).
  unfold update_num_dir_sectors. rewrite bind_get.
  destruct (ver s2) eqn:Ever; [eexists; reflexivity|].
  pose proof (WalkProofs.chain_ids_path _ _ _ Hids2) as Hp2.
  assert (Hs2 : dir_start s2 <> END_OF_CHAIN) by (rewrite Eds2; exact Hstart).
  destruct (path_head_next _ _ _ Hp2 Hs2) as (nx & Hn).
  assert (Enx : next (dir_start s2) s2 = (s2, Ok nx)).
  { unfold next. rewrite bind_get, Hn. reflexivity. }
  rewrite (bind_exec _ _ _ _ _ Enx).
  rewrite (WalkProofs.count_dir_total _ _ _ _ Hids2 Hs2 Hn).
  rewrite (bind_exec _ _ _ _ _ (eq_refl : lift (Ok (lenN (dids ++ [nw]))) s2 = (s2, Ok _))).
  apply header_write_run. reflexivity.
Qed.

(* ================================================================== *)
(* 7. allocate_dir_entry and insert_dir_entry do not fail              *)
(* ================================================================== *)

Theorem allocate_dir_entry_run : forall s,
  Base s -> DirCoherence.DirCoherent s -> 0 < lenN (dirs s) ->
  lenN (difat s) < NUM_DIFAT_HDR -> nsect s + 3 <= MAX_REGULAR_SECTOR ->
  exists s1 id, allocate_dir_entry s = (s1, Ok id).
Proof.
  intros s B Hdir Hpos Hreg Hsize. unfold allocate_dir_entry. rewrite bind_get.
  destruct (first_unalloc (dirs s) 0) as [i|]; [eexists _, _; reflexivity|].
  destruct (lenN (dirs s) mod dir_per_sector (ver s) =? 0).
  - destruct (extend_dir_run s B Hdir Hpos Hreg Hsize) as (s3 & E3).
    rewrite (bind_exec _ _ _ _ _ E3). rewrite bind_get. eexists _, _. reflexivity.
  - rewrite bind_ret, bind_get. eexists _, _. reflexivity.
Qed.

Lemma name_ok_new : forall nm ty ts, lenN (utf16 nm) <= 31 -> name_ok (dirent_new nm ty ts).
Proof. intros nm ty ts H. exact H. Qed.

Lemma insert_rest_run : forall dids n s1 parent nm ty now id t1 p,
  DT dids n s1 -> id < n -> lenN (utf16 nm) <= 31 ->
  let ds1 := updN (dirs s1) id (dirent_new nm ty (if objtype_eqb ty TStorage then now else 0)) in
  nthN ds1 parent = Some p -> Rep ds1 (d_child p) t1 -> NoDup (ids t1) ->
  bst_find ds1 nm t1 = None ->
  exists s' a, insert_rest parent nm ty now id s1 = (s', Ok a) /\
    DT dids n s' /\ a = id /\ nthN (dirs s') id <> None.
Proof.
  intros dids n s1 parent nm ty now id t1 p HT Hid Hnm ds1 Hp HR ND HF.
  unfold insert_rest. cbv zeta.
  destruct (DT_get _ _ _ _ HT Hid) as (e0 & He0).
  destruct (sde_run dids n s1 id e0 (dirent_new nm ty (if objtype_eqb ty TStorage then now else 0))
              HT He0 (name_ok_new _ _ _ Hnm)) as [E1 HT1].
  fold ds1 in E1, HT1. set (s2 := w_dirs s1 ds1) in *.
  eapply run_bind; [exact E1|]. cbv beta.
  assert (Hd2 : dirs s2 = ds1) by reflexivity.
  eapply run_bind; [apply dir_entry_exec; rewrite Hd2; exact Hp|]. cbv beta.
  eapply run_bind; [apply get_exec|]. cbv beta. rewrite Hd2.
  rewrite (insert_descend_spec ds1 nm t1 (d_child p) (S (length ds1)) parent Eq HR HF)
    by (pose proof (rep_length _ _ _ HR ND); lia).
  eapply run_bind; [reflexivity|]. cbv beta.
  destruct (ins_point ds1 nm t1 parent Eq) as [prev ord] eqn:Eip. cbv iota.
  pose proof HT1 as (_ & Ln1 & _). rewrite Hd2 in Ln1.
  assert (Hpn : parent < n) by (rewrite <- Ln1; eapply nthN_Some_lt; exact Hp).
  assert (Hprev : prev < n).
  { destruct (btree_case t1) as [->|Hne].
    - cbn [ins_point] in Eip. injection Eip as <- _. exact Hpn.
    - pose proof (MutRefine.ins_point_in ds1 nm t1 parent Eq HF Hne) as Hin. rewrite Eip in Hin.
      cbn [fst] in Hin. rewrite <- Ln1. apply (rep_ids _ _ _ HR). exact Hin. }
  destruct (DT_get _ _ _ _ HT1 Hprev) as (pe & Hpe).
  eapply run_bind; [apply dir_entry_exec; exact Hpe|]. cbv beta.
  pose proof (DT_name _ _ _ _ _ HT1 Hpe) as Hpen.
  assert (Hlink : exists s3 u,
    (match ord with
     | Lt => set_dir_entry prev (set_left pe id) ;; write_in_dir_entry prev DE_OFF_LEFT (le_bytes 4 id)
     | Gt => set_dir_entry prev (set_right pe id) ;; write_in_dir_entry prev DE_OFF_RIGHT (le_bytes 4 id)
     | Eq => set_dir_entry parent (set_child pe id) ;; write_in_dir_entry parent DE_OFF_CHILD (le_bytes 4 id)
     end) s2 = (s3, Ok u) /\ DT dids n s3).
  { destruct ord.
    - destruct (DT_get _ _ _ _ HT1 Hpn) as (pp & Hpp).
      destruct (sde_run dids n s2 parent pp (set_child pe id) HT1 Hpp Hpen) as [E2 HT2].
      eapply run_bind; [exact E2|]. cbv beta.
      destruct (wide_run dids n _ parent DE_OFF_CHILD (le_bytes 4 id) HT2 Hpn) as (s3 & E3 & HT3 & _).
      { rewrite CodecProofs.lenN_le_bytes4. unfold DE_OFF_CHILD. lia. }
      exists s3, tt. split; assumption.
    - destruct (sde_run dids n s2 prev pe (set_left pe id) HT1 Hpe Hpen) as [E2 HT2].
      eapply run_bind; [exact E2|]. cbv beta.
      destruct (wide_run dids n _ prev DE_OFF_LEFT (le_bytes 4 id) HT2 Hprev) as (s3 & E3 & HT3 & _).
      { rewrite CodecProofs.lenN_le_bytes4. unfold DE_OFF_LEFT. lia. }
      exists s3, tt. split; assumption.
    - destruct (sde_run dids n s2 prev pe (set_right pe id) HT1 Hpe Hpen) as [E2 HT2].
      eapply run_bind; [exact E2|]. cbv beta.
      destruct (wide_run dids n _ prev DE_OFF_RIGHT (le_bytes 4 id) HT2 Hprev) as (s3 & E3 & HT3 & _).
      { rewrite CodecProofs.lenN_le_bytes4. unfold DE_OFF_RIGHT. lia. }
      exists s3, tt. split; assumption. }
  destruct Hlink as (s3 & [] & E3 & HT3).
  eapply run_bind; [exact E3|]. cbv beta.
  destruct (DT_get _ _ _ _ HT3 Hid) as (e3 & He3).
  destruct (wde_run dids n s3 id e3 HT3 He3) as (s4 & E4 & HT4 & D4).
  eapply run_bind; [exact E4|]. cbv beta.
  apply run_ret. split; [exact HT4|]. split; [reflexivity|]. rewrite D4, He3. discriminate.
Qed.

Theorem insert_dir_entry_run : forall s pid pe nm ty now t1,
  PInv s -> Regime s ->
  nthN (dirs s) pid = Some pe -> d_type pe <> TUnalloc ->
  Rep (dirs s) (d_child pe) t1 -> NoDup (ids t1) -> bst_find (dirs s) nm t1 = None ->
  (forall j, In j (ids t1) -> exists ej, nthN (dirs s) j = Some ej /\ d_type ej <> TUnalloc) ->
  lenN (utf16 nm) <= 31 ->
  exists s' id, insert_dir_entry pid nm ty now s = (s', Ok id) /\ nthN (dirs s') id <> None.
Proof.
  intros s pid pe nm ty now t1 HP (Hreg & Hsize & _) Hpe Hpt HR ND HF Hty Hnm.
  pose proof HP as [B Hdir Hents _ _].
  assert (Hpos : 0 < lenN (dirs s)) by (apply nthN_Some_lt in Hpe; lia).
  destruct (allocate_dir_entry_run s B Hdir Hpos Hreg Hsize) as (s1 & id0 & Ha).
  destruct (alloc_dir_base s s1 id0 B Hdir Hreg Hsize Ha) as (_ & _ & _ & (dids' & HD1) & _ & _).
  pose proof (alloc_proj _ _ _ Ha) as Hal.
  rewrite insert_dir_entry_split. rewrite (bind_exec _ _ _ _ _ Ha).
  (* the table after the allocation *)
  assert (Hnames1 : Forall name_ok (dirs s1)).
  { assert (Forall name_ok (dirs s)) as F0.
    { eapply Forall_impl; [|exact Hents]. intros e He. eapply ent_name_len. exact He. }
    unfold alloc_tbl in Hal. destruct (first_unalloc (dirs s) 0); injection Hal as -> _; [exact F0|].
    apply Forall_app. split; [exact F0|]. constructor; [unfold name_ok; cbn; lia|constructor]. }
  assert (HT1 : DT dids' (lenN (dirs s1)) s1) by (split; [exact HD1|split; [reflexivity|exact Hnames1]]).
  assert (Hid0 : id0 < lenN (dirs s1)).
  { unfold alloc_tbl in Hal. destruct (first_unalloc (dirs s) 0) as [i|] eqn:F; injection Hal as -> ->.
    - apply first_unalloc_spec in F. destruct F as (_ & e & He & _). rewrite N.sub_0_r in He.
      eapply nthN_Some_lt. exact He.
    - rewrite lenN_app. cbn [lenN]. lia. }
  (* entries of the old table that are allocated are not the new slot *)
  assert (Hold : forall j ej, nthN (dirs s) j = Some ej -> d_type ej <> TUnalloc ->
            j <> id0 /\ nthN (dirs s1) j = Some ej).
  { intros j ej Hj Htj. pose proof (nthN_Some_lt _ _ _ _ Hj) as Hlt. split.
    - intros ->. destruct (alloc_fresh _ _ _ Hal) as [(e & He & Te)|E]; [|lia].
      assert (e = ej) by congruence. subst e. contradiction.
    - rewrite (alloc_old _ _ _ Hal j Hlt). exact Hj. }
  set (ds1 := updN (dirs s1) id0 (dirent_new nm ty (if objtype_eqb ty TStorage then now else 0))).
  assert (Hsame : forall j ej, nthN (dirs s) j = Some ej -> d_type ej <> TUnalloc ->
            nthN ds1 j = nthN (dirs s) j).
  { intros j ej Hj Htj. destruct (Hold j ej Hj Htj) as [Hne Hj1].
    unfold ds1. rewrite nthN_updN_other by congruence. congruence. }
  assert (Hsame1 : forall j, In j (ids t1) -> nthN ds1 j = nthN (dirs s) j).
  { intros j Hj. destruct (Hty j Hj) as (ej & Hej & Tj). eapply Hsame; eassumption. }
  destruct (insert_rest_run dids' (lenN (dirs s1)) s1 pid nm ty now id0 t1 pe HT1 Hid0 Hnm)
    as (s' & a & E & _ & -> & Hin).
  - fold ds1. rewrite (Hsame pid pe Hpe Hpt). exact Hpe.
  - fold ds1. eapply rep_frame; [exact HR|exact Hsame1].
  - exact ND.
  - fold ds1. rewrite (bst_find_ext (dirs s) ds1); [exact HF|].
    intros j Hj. unfold nm_of. rewrite (Hsame1 j Hj). reflexivity.
  - exists s', id0. split; [exact E|exact Hin].
Qed.

(* ================================================================== *)
(* 8. create_storage / create_new_stream                               *)
(* ================================================================== *)

(* the common part: the path is absent, its parent is a storage *)
Lemma create_absent_facts : forall c s t names nm m ks,
  QueryRefine.TreeRep (dirs s) c t -> lastN names = Some nm ->
  lookup_chain (dirs s) names ROOT_STREAM_ID = Ok None ->
  Tree.get t (parent_of names) = Some (Dir m ks) ->
  exists pid pe t1,
    lookup_chain (dirs s) (pop_last names) ROOT_STREAM_ID = Ok (Some pid) /\
    nthN (dirs s) pid = Some pe /\ d_type pe <> TStream /\ d_type pe <> TUnalloc /\
    Rep (dirs s) (d_child pe) t1 /\ NoDup (ids t1) /\ bst_find (dirs s) nm t1 = None /\
    (forall j, In j (ids t1) -> exists ej, nthN (dirs s) j = Some ej /\ d_type ej <> TUnalloc).
Proof.
  intros c s t names nm m ks HT Hlast Hlk G. unfold parent_of in G.
  rewrite (TreeProofs.lastN_some _ _ _ Hlast), MutRefine.lookup_chain_app in Hlk.
  destruct (MutRefine.look c s t HT (pop_last names))
    as [(pid & pe & n & Hl & G' & Hpe & nm' & HN)|[Hl G']]; [|congruence].
  rewrite Hl in Hlk. cbn [rbind lookup_chain] in Hlk.
  assert (n = Dir m ks) by congruence. subst n.
  pose proof (MutRefine.dir_type c s _ _ _ _ _ _ HN Hpe) as Hty.
  apply QueryRefine.NodeRep_dir in HN.
  destruct HN as (_ & e0 & He0 & _ & _ & _ & _ & t1 & HR & HB & ND & HK).
  assert (e0 = pe) by congruence. subst e0.
  unfold dir_entry_of in Hlk. rewrite Hpe in Hlk. cbn [rbind] in Hlk.
  rewrite (find_in_siblings_total _ nm t1 _ HR ND) in Hlk. cbn [rbind] in Hlk.
  exists pid, pe, t1. split; [exact Hl|]. split; [exact Hpe|].
  split; [rewrite Hty; destruct (QueryRefine.is_nil (pop_last names)); discriminate|].
  split; [rewrite Hty; destruct (QueryRefine.is_nil (pop_last names)); discriminate|].
  split; [exact HR|]. split; [exact ND|]. split.
  - destruct (bst_find (dirs s) nm t1) as [i|]; [|reflexivity].
    destruct (lookup_chain (dirs s) [] i) eqn:E; cbn [lookup_chain] in E; congruence.
  - intros j Hj. destruct (QueryRefine.Forall2_in_l _ _ _ _ _ _ HK Hj) as (kc & _ & HKj).
    apply QueryRefine.NodeRep_entry in HKj. destruct HKj as (_ & ej & Hej & _ & Tj).
    exists ej. split; [exact Hej|]. rewrite Tj. destruct (snd kc); discriminate.
Qed.

Theorem create_storage_progress : forall c s t now p t' sv,
  PInv s -> Regime s -> QueryRefine.TreeRep (dirs s) c t ->
  spec_step t now (SCreateStorage p) = (t', Ok sv) ->
  exists s', api_create_storage p now s = (s', Ok tt).
Proof.
  intros c s t now p t' sv HP HRg HT H. cbn [spec_step] in H.
  destruct (with_names_ok _ _ _ _ _ H) as (names & En & H1). unfold create_storage_at in H1.
  unfold api_create_storage, create_storage_names. rewrite MutRefine.prefix_run, En.
  destruct (MutRefine.look c s t HT names) as [(id & e & n' & Hl & G' & He & _)|[Hl G']];
    rewrite G' in H1; [discriminate H1|].
  rewrite Hl.
  destruct (lastN names) as [nm|] eqn:Hlast; [|discriminate H1].
  destruct (validate_name nm) as [u| | |] eqn:Hv; try discriminate H1.
  destruct (Tree.get t (parent_of names)) as [[st bs|m ks]|] eqn:Gp; try discriminate H1.
  destruct (create_absent_facts c s t names nm m ks HT Hlast Hl Gp)
    as (pid & pe & t1 & Hlp & Hpe & Hps & Hpu & HR & ND & HF & Hty).
  rewrite QueryRefine.q_bind_eq. unfold lift at 1. cbv beta iota.
  rewrite MutRefine.lookup_run', Hlp. rewrite (MutRefine.dir_entry_run' _ _ _ _ _ Hpe).
  replace (objtype_eqb (d_type pe) TStream) with false
    by (destruct (d_type pe); try reflexivity; contradiction).
  destruct (insert_dir_entry_run s pid pe nm TStorage now t1 HP HRg Hpe Hpu HR ND HF Hty)
    as (s' & id & E & _).
  { pose proof (MutTotal.validate_name_len nm u Hv) as L. unfold MAX_NAME_LEN in L. exact L. }
  exists s'. unfold bind. rewrite E. reflexivity.
Qed.

(* create_stream / create_new_stream at a path that does not name a stream
   (create_new_stream: any path; create_stream: truncation of an existing stream
   goes through Handle / resize and is not covered here) *)
Theorem create_stream_progress : forall c s t now p ow mb t' sv,
  PInv s -> Regime s -> QueryRefine.TreeRep (dirs s) c t ->
  (ow = false \/
   forall names st bs, name_chain_from_path p = Ok names -> Tree.get t names <> Some (Leaf st bs)) ->
  spec_step t now (SCreateStream p ow) = (t', Ok sv) ->
  exists s' h, api_create_stream p ow mb now s = (s', Ok h).
Proof.
  intros c s t now p ow mb t' sv HP HRg HT Hnt H. cbn [spec_step] in H.
  destruct (with_names_ok _ _ _ _ _ H) as (names & En & H1).
  unfold api_create_stream. rewrite MutRefine.prefix_run, En.
  destruct (MutRefine.look c s t HT names) as [(id & e & n' & Hl & G' & He & _)|[Hl G']];
    rewrite G' in H1.
  { exfalso. destruct n' as [st bs|m ks]; [|discriminate H1].
    destruct Hnt as [->|Hnt]; [discriminate H1|]. exact (Hnt names st bs En G'). }
  rewrite Hl.
  destruct (lastN names) as [nm|] eqn:Hlast; [|discriminate H1].
  destruct (validate_name nm) as [u| | |] eqn:Hv; try discriminate H1.
  destruct (Tree.get t (parent_of names)) as [[st bs|m ks]|] eqn:Gp; try discriminate H1.
  destruct (create_absent_facts c s t names nm m ks HT Hlast Hl Gp)
    as (pid & pe & t1 & Hlp & Hpe & Hps & Hpu & HR & ND & HF & Hty).
  rewrite QueryRefine.q_bind_eq. unfold lift at 1. cbv beta iota.
  rewrite MutRefine.lookup_run', Hlp. rewrite (MutRefine.dir_entry_run' _ _ _ _ _ Hpe).
  replace (objtype_eqb (d_type pe) TStream) with false
    by (destruct (d_type pe); try reflexivity; contradiction).
  destruct (insert_dir_entry_run s pid pe nm TStream now t1 HP HRg Hpe Hpu HR ND HF Hty)
    as (s' & id & E & Hin).
  { pose proof (MutTotal.validate_name_len nm u Hv) as L. unfold MAX_NAME_LEN in L. exact L. }
  destruct (nthN (dirs s') id) as [ei|] eqn:Hei; [|contradiction].
  exists s'. eexists. unfold bind. rewrite E.
  apply (QueryRefine.q_handle_new_ok s' id mb ei). unfold dir_entry_of. rewrite Hei. reflexivity.
Qed.

Corollary create_new_stream_progress : forall c s t now p mb t' sv,
  PInv s -> Regime s -> QueryRefine.TreeRep (dirs s) c t ->
  spec_step t now (SCreateStream p false) = (t', Ok sv) ->
  exists s' h, api_create_stream p false mb now s = (s', Ok h).
Proof. intros. eapply create_stream_progress; eauto. Qed.


(* ================================================================== *)
(* 9. progress at the level of [step]                                  *)
(* ================================================================== *)

Import HistoryRefine.

Lemma with_cs_is_ok : forall A f (m : M A) (g : A -> value) s' a,
  m (cs f) = (s', Ok a) -> is_ok (snd (with_cs f m g)) = true.
Proof. intros A f m g s' a H. unfold with_cs. rewrite H. reflexivity. Qed.

Lemma with_new_handle_is_ok : forall f i (m : M handle) s' h,
  m (cs f) = (s', Ok h) -> is_ok (snd (with_new_handle f i m)) = true.
Proof. intros f i m s' h H. unfold with_new_handle. rewrite H. reflexivity. Qed.

Lemma is_ok_inv : forall A (x : node * res A), is_ok (snd x) = true -> exists t' v, x = (t', Ok v).
Proof. intros A [t' [v| | |]] H; try discriminate H. eauto. Qed.

Lemma HInv_Regime : forall k s, k <= 6000 -> HInv k s -> Regime s.
Proof. intros k s Hk (HP & _ & HS). eapply Sized_Regime; eassumption. Qed.

(* the specification accepts ==> the model returns Ok *)
Theorem step_progress : forall f t now o so k,
  Sim f t -> HInv k (cs f) -> k <= 6000 ->
  spec_of o = Some so -> no_truncate t o ->
  is_ok (snd (spec_step t now so)) = true -> is_ok (snd (step f now o)) = true.
Proof.
  intros f t now o so k [(c & HT & HU) Hlen] HI Hk Hs Hnt Hok.
  pose proof (HInv_Regime k _ Hk HI) as HRg. destruct HI as (HP & HE & _).
  destruct (spec_of_class o so Hs) as [Hns|Hq|i p -> ->|i p fresh_only -> ->].
  - destruct (is_ok_inv _ _ Hok) as (t' & sv & E).
    destruct o; cbn [MutRefine.ns_spec] in Hns; try discriminate Hns; injection Hns as <-; cbn [step].
    + destruct (create_storage_progress c _ t now p t' sv HP HRg HT E) as (s' & E').
      eapply with_cs_is_ok; exact E'.
    + destruct (remove_storage_progress c _ t now p t' sv HP HT E) as (s' & E').
      eapply with_cs_is_ok; exact E'.
    + destruct (remove_stream_progress c _ t now p t' sv HP HE HT E) as (s' & E').
      eapply with_cs_is_ok; exact E'.
    + destruct (set_clsid_progress c _ t now p g t' sv HP HT E) as (s' & E').
      eapply with_cs_is_ok; exact E'.
    + destruct (set_state_progress c _ t now p bits t' sv HP HT E) as (s' & E').
      eapply with_cs_is_ok; exact E'.
    + destruct (set_created_progress c _ t now p before secs nanos t' sv HP HT E) as (s' & E').
      eapply with_cs_is_ok; exact E'.
    + destruct (set_modified_progress c _ t now p before secs nanos t' sv HP HT E) as (s' & E').
      eapply with_cs_is_ok; exact E'.
  - destruct (QueryRefine.query_step_refines c f t HT now o so Hq (walk_size_from_unshared _ _ _ HU))
      as (r & r' & H1 & H2 & H3).
    rewrite H2 in Hok. rewrite H1. cbn [snd] in *.
    destruct r' as [sv| | |]; try discriminate Hok. destruct r; try contradiction. reflexivity.
  - destruct (QueryRefine.open_stream_step_refines c f t HT now i p) as (f1 & r & r' & H1 & H2 & H3 & _).
    rewrite H2 in Hok. rewrite H1. cbn [snd] in *.
    destruct r' as [sv| | |]; try discriminate Hok. destruct r; try contradiction. reflexivity.
  - destruct (is_ok_inv _ _ Hok) as (t' & sv & E). rewrite create_step_eq.
    destruct (create_stream_progress c _ t now p (negb fresh_only) (maxbuf f) t' sv HP HRg HT) as (s' & h & E');
      [|exact E|eapply with_new_handle_is_ok; exact E'].
    destruct fresh_only; [left; reflexivity|right]. exact Hnt.
Qed.

(* ================================================================== *)
(* 10. one step of a history: no late failure, fine, invariants kept   *)
(* ================================================================== *)

(* the class of calls: PersistProofs.covered (with its range conditions) and
   open_stream *)
Definition hcov (o : op) : Prop :=
  PersistProofs.covered o \/ exists i p, o = OOpenStream i p.

(* the range conditions alone *)
Definition ranged (o : op) : Prop :=
  match o with
  | OCreateStorage p | OCreateNewStream _ p => Forall CodecProofs.scalar p
  | OSetClsid _ g => g < 2 ^ 128
  | OSetState _ bits => bits <= u32_max
  | _ => True
  end.

Lemma hcov_of_history : forall o, HistoryRefine.covered o -> ranged o -> hcov o.
Proof.
  intros o [Hs Hc] Hr. destruct o; cbn [spec_of MutRefine.ns_spec QueryRefine.query_spec] in Hs;
    try (exfalso; apply Hs; reflexivity); try contradiction;
    try (left; exact Hr); try (left; exact I).
  right. eauto.
Qed.

Lemma hcov_of_persist : forall o, PersistProofs.covered o -> hcov o.
Proof. intros o H. left. exact H. Qed.

Lemma hcov_no_truncate : forall t o, hcov o -> no_truncate t o.
Proof.
  intros t o [H|(i & p & ->)]; [|exact I]. destruct o; try exact I. contradiction.
Qed.

(* the abstract tree after the call *)
Definition spec_next (t : node) (now : N) (o : op) : node :=
  match spec_of o with Some so => fst (spec_step t now so) | None => t end.

Theorem total_step : forall f t now o k,
  Sim f t -> HInv k (cs f) -> k < 6000 -> now <= u64_max -> hcov o ->
  (forall so, spec_of o = Some so ->
     is_ok (snd (spec_step t now so)) = true -> is_ok (snd (step f now o)) = true) /\
  (is_ok (snd (step f now o)) = true \/ cs (fst (step f now o)) = cs f) /\
  HInv (k + 1) (cs (fst (step f now o))) /\
  Sim (fst (step f now o)) (spec_next t now o).
Proof.
  intros f t now o k HS HI Hk Hnow Hc.
  pose proof (hcov_no_truncate t o Hc) as Hnt.
  assert (Hprog : forall so, spec_of o = Some so ->
            is_ok (snd (spec_step t now so)) = true -> is_ok (snd (step f now o)) = true).
  { intros so Hs. eapply step_progress; eauto. lia. }
  split; [exact Hprog|].
  assert (Hsame : cs (fst (step f now o)) = cs f -> HInv (k + 1) (cs (fst (step f now o)))).
  { intros ->. destruct HI as (HP & HE & (A & C)). split; [exact HP|]. split; [exact HE|].
    unfold Sized. lia. }
  assert (Hsim : forall f' t', TableRep f' t' -> HInv (k + 1) (cs f') -> Sim f' t').
  { intros f' t' HR (_ & _ & (_ & C)). split; [exact HR|]. unfold NO_STREAM. lia. }
  unfold spec_next.
  destruct (spec_of o) as [so|] eqn:Hs.
  - specialize (Hprog so eq_refl).
    destruct (step f now o) as [f1 r] eqn:E1. destruct (spec_step t now so) as [t1 r'] eqn:E2.
    cbn [fst snd] in *.
    destruct (spec_ok_or_err o so t now Hs) as [(t2 & sv & E)|(k0 & E)]; rewrite E in E2;
      injection E2 as <- <-.
    + (* accepted: the model returns Ok *)
      specialize (Hprog eq_refl). destruct r as [v| | |]; try discriminate Hprog.
      destruct (step_forward _ _ _ _ _ _ _ HS Hs Hnt E1) as (t3 & sv3 & E3 & _ & HR & _).
      rewrite E in E3. injection E3 as <- <-.
      assert (HI1 : HInv (k + 1) (cs f1)).
      { destruct Hc as [Hc|(i & p & ->)].
        - pose proof (step_covered f now o k Hc Hnow Hk HI) as Hsc. rewrite E1 in Hsc.
          cbn [fst snd] in Hsc. apply Hsc. left. reflexivity.
        - destruct HS as [(c & HT & _) _].
          destruct (QueryRefine.open_stream_step_refines c f t HT now i p)
            as (f2 & r2 & r2' & H1 & _ & _ & H4 & _).
          rewrite E1 in H1. injection H1 as Hf _. subst f2. apply Hsame. exact H4. }
      split; [left; reflexivity|]. split; [exact HI1|]. apply Hsim; assumption.
    + (* refused: nothing changes *)
      destruct (step_refusal _ _ _ _ _ _ _ HS Hs E) as [E3 _]. rewrite E3 in E1.
      injection E1 as <- <-.
      split; [right; reflexivity|]. split; [apply Hsame; reflexivity|].
      apply Hsim; [apply HS|apply Hsame; reflexivity].
  - (* flush / version *)
    assert (step f now o = (f, snd (step f now o)) /\ is_ok (snd (step f now o)) = true) as [E1 E2].
    { destruct Hc as [Hc|(i & p & ->)]; [|discriminate Hs].
      destruct o; cbn [PersistProofs.covered] in Hc; try contradiction;
        cbn [spec_of MutRefine.ns_spec QueryRefine.query_spec] in Hs; try discriminate Hs;
        cbn [step]; split; reflexivity. }
    rewrite E1 in *. cbn [fst snd] in *.
    split; [left; exact E2|]. split; [apply Hsame; reflexivity|].
    apply Hsim; [apply HS|apply Hsame; reflexivity].
Qed.


(* ================================================================== *)
(* 11. histories                                                       *)
(* ================================================================== *)

Notation run_ops := ReadonlyTotal.run_ops.

Definition hitem (x : N * op) : Prop := hcov (snd x) /\ fst x <= u64_max.

(* the abstract tree along a history (calls without a specification
   counterpart -- flush, version -- leave it alone) *)
Fixpoint spec_tree (t : node) (l : list (N * op)) : node :=
  match l with
  | [] => t
  | (now, o) :: rest => spec_tree (spec_next t now o) rest
  end.

Theorem total_run : forall l f t k,
  Sim f t -> HInv k (cs f) -> k + N.of_nat (length l) <= 6000 -> Forall hitem l ->
  run_fine f l /\
  (Forall (fun x => spec_of (snd x) <> None) l -> NoLateFailure f t l) /\
  HInv (k + N.of_nat (length l)) (cs (fst (run_ops f l))) /\
  Sim (fst (run_ops f l)) (spec_tree t l).
Proof.
  induction l as [|[now o] rest IH]; intros f t k HS HI Hlen Hall.
  - cbn [run_fine NoLateFailure length spec_tree ReadonlyTotal.run_ops fst].
    split; [exact I|]. split; [intros _; exact I|]. split; [|exact HS].
    replace (k + N.of_nat 0) with k by lia. exact HI.
  - inversion Hall as [|? ? [Hc Hnow] Hall']; subst. cbn [fst snd] in Hc, Hnow.
    cbn [length] in Hlen.
    destruct (total_step f t now o k HS HI ltac:(lia) Hnow Hc) as (Hprog & Hfine & HI1 & HS1).
    destruct (IH (fst (step f now o)) (spec_next t now o) (k + 1) HS1 HI1 ltac:(lia) Hall')
      as (R1 & R2 & R3 & R4).
    cbn [run_fine NoLateFailure spec_tree]. rewrite run_ops_cons.
    split; [split; [exact Hfine|exact R1]|]. split; [|split; [|exact R4]].
    + intros HF. inversion HF as [|? ? Hs HF']; subst. cbn [snd] in Hs.
      unfold spec_next in R2. destruct (spec_of o) as [so|] eqn:Es; [|contradiction].
      split; [apply Hprog; reflexivity|apply R2; exact HF'].
    + cbn [length]. replace (k + N.of_nat (S (length rest))) with (k + 1 + N.of_nat (length rest)) by lia.
      exact R3.
Qed.

Lemma fresh_hinv_sim : forall v mb nh,
  Sim (init_fstate v mb nh) empty_tree /\ HInv 0 (cs (init_fstate v mb nh)).
Proof. intros v mb nh. split; [apply fresh_sim|apply create_state_hinv]. Qed.

(* ---- C01: no late failure; the history theorem without that hypothesis ---- *)

Definition ranged_item (x : N * op) : Prop :=
  HistoryRefine.covered (snd x) /\ ranged (snd x) /\ fst x <= u64_max.

Lemma ranged_hitem : forall l, Forall ranged_item l -> Forall hitem l.
Proof.
  intros l H. eapply Forall_impl; [|exact H]. intros x (A & B & C).
  split; [apply hcov_of_history; assumption|exact C].
Qed.

Theorem no_late_failure_from : forall l f t k,
  Sim f t -> HInv k (cs f) -> k + N.of_nat (length l) <= 6000 -> Forall ranged_item l ->
  NoLateFailure f t l.
Proof.
  intros l f t k HS HI Hlen Hall.
  destruct (total_run l f t k HS HI Hlen (ranged_hitem _ Hall)) as (_ & H & _). apply H.
  eapply Forall_impl; [|exact Hall]. intros x ([A _] & _). exact A.
Qed.

Theorem no_late_failure_fresh : forall v mb nh (l : list (N * op)),
  Forall ranged_item l -> N.of_nat (length l) <= 6000 ->
  NoLateFailure (init_fstate v mb nh) empty_tree l.
Proof.
  intros v mb nh l Hall Hlen. destruct (fresh_hinv_sim v mb nh) as [HS HI].
  apply (no_late_failure_from l _ _ 0 HS HI); [lia|exact Hall].
Qed.

Theorem fresh_history_refines_total : forall v mb nh (l : list (N * op)),
  Forall ranged_item l -> N.of_nat (length l) <= 6000 ->
  Forall2 result_rel (snd (run_ops (init_fstate v mb nh) l)) (snd (spec_run empty_tree l)) /\
  Sim (fst (run_ops (init_fstate v mb nh) l)) (fst (spec_run empty_tree l)).
Proof.
  intros v mb nh l Hall Hlen. apply fresh_history_refines.
  - eapply Forall_impl; [|exact Hall]. intros x (A & _). exact A.
  - rewrite DirProofs.lenN_length. unfold NO_STREAM. lia.
  - apply no_late_failure_fresh; assumption.
Qed.

(* ---- C02 / C03: the history theorems without [run_fine] ---- *)

Lemma persist_hitem : forall l,
  Forall (fun p => PersistProofs.covered (snd p) /\ fst p <= u64_max) l -> Forall hitem l.
Proof.
  intros l H. eapply Forall_impl; [|exact H]. intros x [A B]. split; [left; exact A|exact B].
Qed.

Theorem run_fine_fresh : forall v mb nh (l : list (N * op)),
  Forall (fun p => PersistProofs.covered (snd p) /\ fst p <= u64_max) l ->
  N.of_nat (length l) <= 6000 ->
  run_fine (init_fstate v mb nh) l.
Proof.
  intros v mb nh l Hall Hlen. destruct (fresh_hinv_sim v mb nh) as [HS HI].
  exact (proj1 (total_run l _ _ 0 HS HI ltac:(lia) (persist_hitem _ Hall))).
Qed.

Theorem persist_history_total : forall v mb nh (l : list (N * op)),
  Forall (fun p => PersistProofs.covered (snd p) /\ fst p <= u64_max) l ->
  N.of_nat (length l) <= 6000 ->
  let f := fst (run_ops (init_fstate v mb nh) l) in
  forall strict, open_model strict (concat_img (img (cs f))) = Ok (reopened (cs f)).
Proof.
  intros v mb nh l Hall Hlen. apply persist_history; [exact Hall|exact Hlen|].
  apply run_fine_fresh; assumption.
Qed.


Theorem persist_every_prefix_total : forall v mb nh (l1 l2 : list (N * op)),
  Forall (fun p => PersistProofs.covered (snd p) /\ fst p <= u64_max) (l1 ++ l2) ->
  N.of_nat (length (l1 ++ l2)) <= 6000 ->
  let f := fst (run_ops (init_fstate v mb nh) l1) in
  forall strict, open_model strict (concat_img (img (cs f))) = Ok (reopened (cs f)).
Proof.
  intros v mb nh l1 l2 Hall Hlen. apply (persist_every_prefix v mb nh l1 l2 Hall Hlen).
  apply run_fine_fresh; assumption.
Qed.

Theorem wf_history_total : forall v mb nh (l : list (N * op)),
  Forall (fun p => PersistProofs.covered (snd p) /\ fst p <= u64_max) l ->
  N.of_nat (length l) <= 6000 ->
  WfImage.wf_check (concat_img (img (cs (fst (run_ops (init_fstate v mb nh) l))))) = 0.
Proof.
  intros v mb nh l Hall Hlen. apply WfPersist.wf_history; [exact Hall|exact Hlen|].
  apply run_fine_fresh; assumption.
Qed.

Theorem wf_every_prefix_total : forall v mb nh (l1 l2 : list (N * op)),
  Forall (fun p => PersistProofs.covered (snd p) /\ fst p <= u64_max) (l1 ++ l2) ->
  N.of_nat (length (l1 ++ l2)) <= 6000 ->
  WfImage.wf_check (concat_img (img (cs (fst (run_ops (init_fstate v mb nh) l1))))) = 0.
Proof.
  intros v mb nh l1 l2 Hall Hlen. apply (WfPersist.wf_every_prefix v mb nh l1 l2 Hall Hlen).
  apply run_fine_fresh; assumption.
Qed.

(* ================================================================== *)
(* 12. C15: net-zero cycles, with the hypothesis on the SPECIFICATION  *)
(* ================================================================== *)

Lemma item_ok_hitem : forall l, Forall NetZero.item_ok l -> Forall hitem l.
Proof.
  intros l H. eapply Forall_impl; [|exact H]. intros x [A B].
  split; [left; apply NetZero.ns_op_covered; exact A|exact B].
Qed.

(* if the specification accepts every call of the list, so does the model *)
Theorem srun_all_ok : forall l f k t t',
  Forall NetZero.item_ok l -> k + N.of_nat (length l) <= 6000 ->
  HInv k (cs f) -> Sim f t -> NetZero.srun t l = Some t' ->
  NetZero.AllOk f l /\ Sim (fst (run_ops f l)) t' /\
  HInv (k + N.of_nat (length l)) (cs (fst (run_ops f l))).
Proof.
  induction l as [|[now o] rest IH]; intros f k t t' Hall Hlen HI HS Hr.
  - cbn [NetZero.srun] in Hr. injection Hr as <-. cbn [ReadonlyTotal.run_ops fst length].
    split; [reflexivity|]. split; [exact HS|]. replace (k + N.of_nat 0) with k by lia. exact HI.
  - inversion Hall as [|? ? [Hc Hnow] Hall']; subst. cbn [fst snd] in Hc, Hnow.
    cbn [length] in Hlen. cbn [NetZero.srun] in Hr.
    destruct (spec_of o) as [so|] eqn:Es; [|discriminate Hr].
    destruct (spec_step t now so) as [t1 r1] eqn:E1. destruct r1 as [sv| | |]; try discriminate Hr.
    assert (Hh : hcov o) by (left; apply NetZero.ns_op_covered; exact Hc).
    destruct (total_step f t now o k HS HI ltac:(lia) Hnow Hh) as (Hprog & _ & HI1 & HS1).
    unfold spec_next in HS1. rewrite Es, E1 in HS1. cbn [fst] in HS1.
    specialize (Hprog so Es). rewrite E1 in Hprog. specialize (Hprog eq_refl).
    destruct (IH (fst (step f now o)) (k + 1) t1 t' Hall' ltac:(lia) HI1 HS1 Hr) as (A & B & C).
    rewrite run_ops_cons. split; [|split; [exact B|]].
    + unfold NetZero.AllOk in *. cbn [all_ok]. rewrite Hprog, A. reflexivity.
    + cbn [length]. replace (k + N.of_nat (S (length rest))) with (k + 1 + N.of_nat (length rest)) by lia.
      exact C.
Qed.

(* the form asked for: the only hypothesis about acceptance is that the
   SPECIFICATION accepts the cycle once, from the tree the file represents *)
Theorem netzero_cycle_stable_total : forall cyc f k t t',
  NetZero.net_zero_cycle cyc ->
  HInv k (cs f) -> k + 3 * N.of_nat (length cyc) <= 6000 -> TableRep f t ->
  NetZero.srun t cyc = Some t' ->
  let f1 := fst (run_ops f cyc) in
  let f2 := fst (run_ops f1 cyc) in
  let f3 := fst (run_ops f2 cyc) in
  t' = t /\
  (NetZero.AllOk f cyc /\ NetZero.AllOk f1 cyc /\ NetZero.AllOk f2 cyc) /\
  (TableRep f1 t /\ TableRep f2 t /\ TableRep f3 t) /\
  nsect (cs f2) = nsect (cs f1) /\ lenN (img (cs f2)) = lenN (img (cs f1)) /\
  nsect (cs f3) = nsect (cs f2) /\ lenN (img (cs f3)) = lenN (img (cs f2)).
Proof.
  intros cyc f k t t' Hnz HI Hlen HT Hr f1 f2 f3.
  pose proof Hnz as [Hall _].
  assert (Hns : Forall (fun x => NetZero.is_ns (snd x)) cyc).
  { eapply Forall_impl; [|exact Hall]. intros x [Hx _]. apply NetZero.ns_op_is_ns. exact Hx. }
  destruct (NetZero.TableRep_good _ _ HT) as [Hwf Hroot].
  pose proof (NetZero.matched_cycle_tree cyc t t' Hns (NetZero.net_zero_matched _ Hnz) Hwf Hroot Hr) as Et.
  subst t'. split; [reflexivity|].
  assert (Hsim : forall g j, j <= 6000 -> TableRep g t -> HInv j (cs g) -> Sim g t).
  { intros g j Hj HR (_ & _ & (_ & C)). split; [exact HR|]. unfold NO_STREAM. lia. }
  destruct (srun_all_ok cyc f k t t Hall ltac:(lia) HI (Hsim _ k ltac:(lia) HT HI) Hr) as (O1 & S1 & I1).
  fold f1 in S1, I1.
  destruct (srun_all_ok cyc f1 (k + N.of_nat (length cyc)) t t Hall ltac:(lia) I1 S1 Hr)
    as (O2 & S2 & I2).
  fold f2 in S2, I2.
  destruct (srun_all_ok cyc f2 (k + N.of_nat (length cyc) + N.of_nat (length cyc)) t t Hall
              ltac:(lia) I2 S2 Hr) as (O3 & _ & _).
  split; [split; [exact O1|split; [exact O2|exact O3]]|].
  exact (NetZero.netzero_cycle_stable cyc f k t Hnz HI Hlen HT O1 O2 O3).
Qed.

(* in particular: AllOk for the first repetition gives it for the next two *)
Corollary netzero_all_ok_repeats : forall cyc f k t,
  NetZero.net_zero_cycle cyc ->
  HInv k (cs f) -> k + 3 * N.of_nat (length cyc) <= 6000 -> TableRep f t ->
  NetZero.AllOk f cyc ->
  NetZero.AllOk (fst (run_ops f cyc)) cyc /\
  NetZero.AllOk (fst (run_ops (fst (run_ops f cyc)) cyc)) cyc.
Proof.
  intros cyc f k t Hnz HI Hlen HT O1. pose proof Hnz as [Hall _].
  destruct (NetZero.run_rep cyc f k t Hall ltac:(lia) HI O1 HT) as (t' & Hr & _).
  destruct (netzero_cycle_stable_total cyc f k t t' Hnz HI Hlen HT Hr) as (_ & (_ & A & B) & _).
  split; assumption.
Qed.

Theorem netzero_cycle_stable_once : forall cyc f k t,
  NetZero.net_zero_cycle cyc ->
  HInv k (cs f) -> k + 3 * N.of_nat (length cyc) <= 6000 -> TableRep f t ->
  let f1 := fst (run_ops f cyc) in
  let f2 := fst (run_ops f1 cyc) in
  let f3 := fst (run_ops f2 cyc) in
  NetZero.AllOk f cyc ->
  (TableRep f1 t /\ TableRep f2 t /\ TableRep f3 t) /\
  nsect (cs f2) = nsect (cs f1) /\ lenN (img (cs f2)) = lenN (img (cs f1)) /\
  nsect (cs f3) = nsect (cs f2) /\ lenN (img (cs f3)) = lenN (img (cs f2)).
Proof.
  intros cyc f k t Hnz HI Hlen HT f1 f2 f3 O1.
  destruct (netzero_all_ok_repeats cyc f k t Hnz HI Hlen HT O1) as [O2 O3].
  exact (NetZero.netzero_cycle_stable cyc f k t Hnz HI Hlen HT O1 O2 O3).
Qed.


(* after ANY history of covered calls on a new file (refused calls included:
   they leave the file alone), a net-zero cycle that the specification accepts
   once is accepted by the model three times, returns the tree each time and
   stops growing the file after its first repetition *)
Corollary netzero_after_history_total : forall v mb nh pre cyc t',
  Forall hitem pre -> NetZero.net_zero_cycle cyc ->
  N.of_nat (length pre) + 3 * N.of_nat (length cyc) <= 6000 ->
  let t := spec_tree empty_tree pre in
  NetZero.srun t cyc = Some t' ->
  let f := fst (run_ops (init_fstate v mb nh) pre) in
  let f1 := fst (run_ops f cyc) in
  let f2 := fst (run_ops f1 cyc) in
  let f3 := fst (run_ops f2 cyc) in
  TableRep f t /\
  (NetZero.AllOk f cyc /\ NetZero.AllOk f1 cyc /\ NetZero.AllOk f2 cyc) /\
  (TableRep f1 t /\ TableRep f2 t /\ TableRep f3 t) /\
  nsect (cs f2) = nsect (cs f1) /\ lenN (img (cs f2)) = lenN (img (cs f1)) /\
  nsect (cs f3) = nsect (cs f2) /\ lenN (img (cs f3)) = lenN (img (cs f2)).
Proof.
  intros v mb nh pre cyc t' Hpre Hcyc Hlen t Hr f f1 f2 f3.
  destruct (fresh_hinv_sim v mb nh) as [HS HI].
  destruct (total_run pre _ _ 0 HS HI ltac:(lia) Hpre) as (_ & _ & HI' & HS').
  fold f in HI', HS'. fold t in HS'. split; [apply HS'|].
  destruct (netzero_cycle_stable_total cyc f (0 + N.of_nat (length pre)) t t' Hcyc HI' ltac:(lia)
              (proj1 HS') Hr) as (_ & A & B).
  split; [exact A|exact B].
Qed.

(* ================================================================== *)
(* 13. one step, both directions, without the late-failure alternative *)
(* ================================================================== *)

Theorem step_agreement_total : forall f f' t t' now o so r r' k,
  Sim f t -> HInv k (cs f) -> k <= 6000 -> spec_of o = Some so -> no_truncate t o ->
  step f now o = (f', r) -> spec_step t now so = (t', r') ->
  result_rel r r' /\ TableRep f' t' /\ lenN (dirs (cs f')) <= lenN (dirs (cs f)) + 1.
Proof.
  intros f f' t t' now o so r r' k HS HI Hk Hs Hnt E1 E2.
  destruct (step_agreement _ _ _ _ _ _ _ _ _ HS Hs Hnt E1 E2) as [H|[L1 L2]]; [exact H|].
  pose proof (step_progress f t now o so k HS HI Hk Hs Hnt) as P.
  rewrite E1, E2 in P. cbn [snd] in P. rewrite (P L1) in L2. discriminate L2.
Qed.

(* ================================================================== *)
(* 13b. create_stream at a fresh path (HistoryRefine's state-dependent  *)
(*      class CoveredFrom)                                              *)
(* ================================================================== *)

(* without an entry at the path, the overwrite flag is not looked at *)
Lemma create_stream_fresh_eq : forall p mb now s,
  (forall names, name_chain_from_path p = Ok names ->
     lookup_chain (dirs s) names ROOT_STREAM_ID = Ok None) ->
  api_create_stream p true mb now s = api_create_stream p false mb now s.
Proof.
  intros p mb now s H. unfold api_create_stream. rewrite !MutRefine.prefix_run.
  destruct (name_chain_from_path p) as [names| | |]; try reflexivity.
  rewrite (H names eq_refl). reflexivity.
Qed.

Lemma create_stream_step_fresh : forall f now i p,
  (forall names, name_chain_from_path p = Ok names ->
     lookup_chain (dirs (cs f)) names ROOT_STREAM_ID = Ok None) ->
  step f now (OCreateStream i p) = step f now (OCreateNewStream i p).
Proof.
  intros f now i p H. rewrite (create_step_eq f now i p false), (create_step_eq f now i p true).
  cbn [negb]. unfold with_new_handle. rewrite (create_stream_fresh_eq p (maxbuf f) now (cs f) H).
  reflexivity.
Qed.

(* the class of calls, relative to the current tree *)
Definition hcov_at (t : node) (o : op) : Prop :=
  hcov o \/ exists i p, o = OCreateStream i p /\ Forall CodecProofs.scalar p /\ no_truncate t o.

Theorem total_step_at : forall f t now o k,
  Sim f t -> HInv k (cs f) -> k < 6000 -> now <= u64_max -> hcov_at t o ->
  (forall so, spec_of o = Some so ->
     is_ok (snd (spec_step t now so)) = true -> is_ok (snd (step f now o)) = true) /\
  (is_ok (snd (step f now o)) = true \/ cs (fst (step f now o)) = cs f) /\
  HInv (k + 1) (cs (fst (step f now o))) /\
  Sim (fst (step f now o)) (spec_next t now o).
Proof.
  intros f t now o k HS HI Hk Hnow [Hc|(i & p & -> & Hsc & Hnt)].
  { apply total_step; assumption. }
  set (o := OCreateStream i p) in *. set (so := SCreateStream p true).
  assert (Hs : spec_of o = Some so) by reflexivity.
  assert (Hprog : is_ok (snd (spec_step t now so)) = true -> is_ok (snd (step f now o)) = true).
  { eapply step_progress; eauto. lia. }
  split; [intros so' Hs'; rewrite Hs in Hs'; injection Hs' as <-; exact Hprog|].
  assert (Hsame : cs (fst (step f now o)) = cs f -> HInv (k + 1) (cs (fst (step f now o)))).
  { intros ->. destruct HI as (HP & HE & (A & C)). split; [exact HP|]. split; [exact HE|].
    unfold Sized. lia. }
  assert (Hsim : forall f' t', TableRep f' t' -> HInv (k + 1) (cs f') -> Sim f' t').
  { intros f' t' HR (_ & _ & (_ & C)). split; [exact HR|]. unfold NO_STREAM. lia. }
  unfold spec_next. rewrite Hs.
  destruct (spec_ok_or_err o so t now Hs) as [(t2 & sv & E)|(k0 & E)].
  - (* accepted: the path is absent, the call is create_new_stream *)
    assert (Habs : forall names, name_chain_from_path p = Ok names ->
              lookup_chain (dirs (cs f)) names ROOT_STREAM_ID = Ok None).
    { intros names En. pose proof E as E'. unfold so in E'. cbn [spec_step] in E'.
      unfold with_names in E'. rewrite En in E'.
      destruct HS as [(c & HT & _) _].
      destruct (MutRefine.look c (cs f) t HT names) as [(id & e & n' & Hl & G' & He & _)|[Hl G']];
        [|exact Hl].
      rewrite G' in E'. destruct n' as [st bs|m ks]; [|discriminate E'].
      exfalso. exact (Hnt names st bs En G'). }
    pose proof (create_stream_step_fresh f now i p Habs) as Eq. fold o in Eq.
    rewrite E in Hprog. specialize (Hprog eq_refl).
    assert (HI1 : HInv (k + 1) (cs (fst (step f now o)))).
    { rewrite Eq. apply (step_covered f now (OCreateNewStream i p) k Hsc Hnow Hk HI).
      left. rewrite <- Eq. exact Hprog. }
    destruct (step f now o) as [f1 r] eqn:E1. cbn [fst snd] in *.
    destruct r as [v| | |]; try discriminate Hprog.
    destruct (step_forward _ _ _ _ _ _ _ HS Hs Hnt E1) as (t3 & sv3 & E3 & _ & HR & _).
    rewrite E. cbn [fst]. rewrite E in E3. injection E3 as <- _.
    split; [left; reflexivity|]. split; [exact HI1|]. apply Hsim; assumption.
  - destruct (step_refusal _ _ _ _ _ _ _ HS Hs E) as [E3 _]. rewrite E3 in *. rewrite E.
    cbn [fst snd] in *.
    split; [right; reflexivity|]. split; [apply Hsame; reflexivity|].
    apply Hsim; [apply HS|apply Hsame; reflexivity].
Qed.

Fixpoint HCoveredFrom (t : node) (l : list (N * op)) : Prop :=
  match l with
  | [] => True
  | (now, o) :: rest =>
    hcov_at t o /\ spec_of o <> None /\ now <= u64_max /\ HCoveredFrom (spec_next t now o) rest
  end.

Lemma HCoveredFrom_CoveredFrom : forall l t, HCoveredFrom t l -> CoveredFrom t l.
Proof.
  induction l as [|[now o] rest IH]; intros t H; cbn [HCoveredFrom CoveredFrom] in *; [exact I|].
  destruct H as (Hc & Hs & _ & Hr). unfold spec_next in Hr.
  destruct (spec_of o) as [so|]; [|contradiction]. split; [|apply IH; exact Hr].
  destruct Hc as [Hc|(i & p & -> & _ & Hnt)]; [apply hcov_no_truncate; exact Hc|exact Hnt].
Qed.

Theorem no_late_failure_at : forall l f t k,
  Sim f t -> HInv k (cs f) -> k + N.of_nat (length l) <= 6000 -> HCoveredFrom t l ->
  NoLateFailure f t l /\ run_fine f l /\
  HInv (k + N.of_nat (length l)) (cs (fst (run_ops f l))).
Proof.
  induction l as [|[now o] rest IH]; intros f t k HS HI Hlen HC.
  - cbn [NoLateFailure run_fine length ReadonlyTotal.run_ops fst].
    split; [exact I|]. split; [exact I|]. replace (k + N.of_nat 0) with k by lia. exact HI.
  - cbn [HCoveredFrom] in HC. destruct HC as (Hc & Hs & Hnow & Hr). cbn [length] in Hlen.
    destruct (total_step_at f t now o k HS HI ltac:(lia) Hnow Hc) as (Hprog & Hfine & HI1 & HS1).
    destruct (IH (fst (step f now o)) (spec_next t now o) (k + 1) HS1 HI1 ltac:(lia) Hr)
      as (R1 & R2 & R3).
    cbn [NoLateFailure run_fine]. rewrite run_ops_cons. unfold spec_next in R1.
    destruct (spec_of o) as [so|] eqn:Es; [|contradiction].
    split; [split; [apply Hprog; reflexivity|exact R1]|]. split; [split; assumption|].
    cbn [length]. replace (k + N.of_nat (S (length rest))) with (k + 1 + N.of_nat (length rest)) by lia.
    exact R3.
Qed.

(* HistoryRefine.history_refines_from without NoLateFailure, from a new file *)
Theorem fresh_history_refines_from_total : forall v mb nh (l : list (N * op)),
  HCoveredFrom empty_tree l -> N.of_nat (length l) <= 6000 ->
  Forall2 result_rel (snd (run_ops (init_fstate v mb nh) l)) (snd (spec_run empty_tree l)) /\
  Sim (fst (run_ops (init_fstate v mb nh) l)) (fst (spec_run empty_tree l)).
Proof.
  intros v mb nh l HC Hlen. destruct (fresh_hinv_sim v mb nh) as [HS HI].
  apply history_refines_from.
  - exact HS.
  - apply HCoveredFrom_CoveredFrom. exact HC.
  - unfold budget. cbn [init_fstate cs create_state dirs lenN]. rewrite DirProofs.lenN_length.
    unfold NO_STREAM. lia.
  - exact (proj1 (no_late_failure_at l _ _ 0 HS HI ltac:(lia) HC)).
Qed.

(* ================================================================== *)
(* 14. non-vacuity                                                     *)
(* ================================================================== *)

Module Example.

(* HistoryRefine's 18 calls (5 refused): its conclusion, this time without
   computing NoLateFailure on the model *)
Lemma ex_ranged : Forall ranged_item HistoryRefine.Example.ex_ops.
Proof.
  pose proof HistoryRefine.Example.ex_covered as HC. revert HC.
  unfold HistoryRefine.Example.ex_ops. intros HC.
  repeat match goal with
  | H : Forall _ (_ :: _) |- _ => inversion H; subst; clear H
  end.
  repeat (constructor; [split; [assumption|split; [|cbn [fst]; unfold u64_max; lia]]|]);
    try exact I; try (cbn [snd ranged]; unfold u32_max; lia);
    try (cbn [snd ranged]; repeat (constructor; [left; reflexivity|]); constructor).
Qed.

Example ex_history_total : forall v,
  Forall2 result_rel (snd (run_ops (HistoryRefine.Example.f0 v) HistoryRefine.Example.ex_ops))
          (snd (spec_run empty_tree HistoryRefine.Example.ex_ops)) /\
  Sim (fst (run_ops (HistoryRefine.Example.f0 v) HistoryRefine.Example.ex_ops))
      (fst (spec_run empty_tree HistoryRefine.Example.ex_ops)).
Proof.
  intros v. apply fresh_history_refines_total; [exact ex_ranged|]. cbn. lia.
Qed.

(* hence: the 13 calls the specification accepts (ex_spec_results) all return
   Ok in the model, read off the theorem *)
Example ex_model_accepts : forall v,
  map (fun r : res value => is_ok r) (snd (run_ops (HistoryRefine.Example.f0 v) HistoryRefine.Example.ex_ops))
  = map (fun r : res svalue => is_ok r) (snd (spec_run empty_tree HistoryRefine.Example.ex_ops)).
Proof.
  intros v. destruct (ex_history_total v) as [H _]. revert H.
  generalize (snd (run_ops (HistoryRefine.Example.f0 v) HistoryRefine.Example.ex_ops))
             (snd (spec_run empty_tree HistoryRefine.Example.ex_ops)).
  induction 1 as [|r r' rs rs' Hr _ IH]; [reflexivity|]. cbn [map]. f_equal; [|exact IH].
  destruct r, r'; try contradiction; reflexivity.
Qed.

(* PersistProofs' history (16 calls, one refused, the directory chain grows
   by a sector in a version-3 file): persistence and well-formedness with no
   hypothesis about the model's results *)
Example hist_persists_total : forall v strict,
  let f := fst (run_ops (init_fstate v 1024 4) PersistProofs.Example.hist) in
  open_model strict (concat_img (img (cs f))) = Ok (reopened (cs f)).
Proof.
  intros v strict.
  exact (persist_history_total v 1024 4 _ PersistProofs.Example.hist_covered
           PersistProofs.Example.hist_len strict).
Qed.

Example hist_wf_total : forall v,
  WfImage.wf_check (concat_img (img (cs (fst (run_ops (init_fstate v 1024 4) PersistProofs.Example.hist))))) = 0.
Proof.
  intros v. exact (wf_history_total v 1024 4 _ PersistProofs.Example.hist_covered
                     PersistProofs.Example.hist_len).
Qed.

(* NetZero's cycle: only the SPECIFICATION is run (on the abstract tree) *)
Lemma pre_hitem : Forall hitem NetZero.Example.pre.
Proof. apply item_ok_hitem. exact NetZero.Example.pre_ok. Qed.

Example cycle_total :
  let t := spec_tree empty_tree NetZero.Example.pre in
  let f0 := fst (run_ops (init_fstate V3 1024 4) NetZero.Example.pre) in
  let f1 := fst (run_ops f0 NetZero.Example.cyc) in
  let f2 := fst (run_ops f1 NetZero.Example.cyc) in
  let f3 := fst (run_ops f2 NetZero.Example.cyc) in
  TableRep f0 t /\
  (NetZero.AllOk f0 NetZero.Example.cyc /\ NetZero.AllOk f1 NetZero.Example.cyc /\
   NetZero.AllOk f2 NetZero.Example.cyc) /\
  (TableRep f1 t /\ TableRep f2 t /\ TableRep f3 t) /\
  nsect (cs f2) = nsect (cs f1) /\ lenN (img (cs f2)) = lenN (img (cs f1)) /\
  nsect (cs f3) = nsect (cs f2) /\ lenN (img (cs f3)) = lenN (img (cs f2)).
Proof.
  apply (netzero_after_history_total V3 1024 4 NetZero.Example.pre NetZero.Example.cyc
           (spec_tree empty_tree NetZero.Example.pre) pre_hitem NetZero.Example.cyc_net_zero).
  - cbn. lia.
  - vm_compute. reflexivity.
Qed.

(* HistoryRefine's second history: create_stream (overwrite allowed) at a
   fresh path, and one refused because a storage is in the way *)
Ltac scal := repeat (constructor; [left; reflexivity|]); constructor.

Lemma ex2_covered : HCoveredFrom empty_tree HistoryRefine.Example.ex_ops2.
Proof.
  unfold HistoryRefine.Example.ex_ops2. cbn [HCoveredFrom].
  assert (U : forall n : N, n <= 3000 -> n <= u64_max) by (unfold u64_max; lia).
  repeat match goal with
  | |- _ /\ _ => split
  | |- spec_of _ <> None => discriminate
  | |- _ <= u64_max => apply U; lia
  | |- True => exact I
  | |- hcov_at _ (OCreateStream ?i ?p) =>
      right; exists i, p; split; [reflexivity|split; [scal|apply no_truncate_b_sound; vm_compute; reflexivity]]
  | |- hcov_at _ _ => left; left; cbn [PersistProofs.covered]; first [exact I|scal]
  end.
Qed.

Example ex_history2_total : forall v,
  Forall2 result_rel (snd (run_ops (HistoryRefine.Example.f0 v) HistoryRefine.Example.ex_ops2))
          (snd (spec_run empty_tree HistoryRefine.Example.ex_ops2)) /\
  Sim (fst (run_ops (HistoryRefine.Example.f0 v) HistoryRefine.Example.ex_ops2))
      (fst (spec_run empty_tree HistoryRefine.Example.ex_ops2)).
Proof.
  intros v. apply fresh_history_refines_from_total; [exact ex2_covered|]. cbn. lia.
Qed.

(* the progress theorem on a single state: the empty file accepts "/a" *)
Example fresh_create_ok : forall v mb nh,
  is_ok (snd (step (init_fstate v mb nh) 1000 (OCreateStorage HistoryRefine.Example.p_a))) = true.
Proof.
  intros v mb nh. destruct (fresh_hinv_sim v mb nh) as [HS HI].
  apply (step_progress _ empty_tree 1000 _ (SCreateStorage HistoryRefine.Example.p_a) 0 HS HI);
    [lia|reflexivity|exact I|vm_compute; reflexivity].
Qed.

End Example.

(* ------------------------------------------------------------------ *)
Check set_state_progress.
Check set_clsid_progress.
Check set_created_progress.
Check set_modified_progress.
Check remove_dir_entry_run.
Check remove_storage_progress.
Check remove_stream_progress.
Check allocate_grow_run.
Check extend_dir_run.
Check allocate_dir_entry_run.
Check insert_dir_entry_run.
Check create_storage_progress.
Check create_stream_progress.
Check create_new_stream_progress.
Check step_progress.
Check step_agreement_total.
Check total_step.
Check total_step_at.
Check no_late_failure_at.
Check fresh_history_refines_from_total.
Check total_run.
Check no_late_failure_from.
Check no_late_failure_fresh.
Check fresh_history_refines_total.
Check run_fine_fresh.
Check persist_history_total.
Check persist_every_prefix_total.
Check wf_history_total.
Check wf_every_prefix_total.
Check srun_all_ok.
Check netzero_cycle_stable_total.
Check netzero_all_ok_repeats.
Check netzero_cycle_stable_once.
Check netzero_after_history_total.
Print Assumptions set_state_progress.
Print Assumptions set_clsid_progress.
Print Assumptions set_created_progress.
Print Assumptions set_modified_progress.
Print Assumptions remove_storage_progress.
Print Assumptions remove_stream_progress.
Print Assumptions create_storage_progress.
Print Assumptions create_stream_progress.
Print Assumptions step_progress.
Print Assumptions step_agreement_total.
Print Assumptions total_run.
Print Assumptions no_late_failure_at.
Print Assumptions fresh_history_refines_from_total.
Print Assumptions no_late_failure_fresh.
Print Assumptions fresh_history_refines_total.
Print Assumptions persist_history_total.
Print Assumptions persist_every_prefix_total.
Print Assumptions wf_history_total.
Print Assumptions wf_every_prefix_total.
Print Assumptions netzero_cycle_stable_total.
Print Assumptions netzero_cycle_stable_once.
Print Assumptions netzero_after_history_total.
Print Assumptions Example.ex_history_total.
Print Assumptions Example.ex_model_accepts.
Print Assumptions Example.ex_history2_total.
Print Assumptions Example.hist_persists_total.
Print Assumptions Example.hist_wf_total.
Print Assumptions Example.cycle_total.
Print Assumptions Example.fresh_create_ok.
