(* OpenTotal.v — open_model never returns Panic or OutOfFuel, for every byte
   string: the decoders, the DIFAT / directory / DFS loops with the fuel that
   open_model passes, and the MiniFAT chain read. *)
From Coq Require Import List NArith Bool Lia ZifyN ZifyBool Arith.
From Cfb.model Require Import Base Names DirEnt State Alloc Dir Mini Open.
From Cfb.gen Require Import Consts.
From Cfb.proofs Require Import WalkProofs.
From Cfb.proofs Require CodecProofs.
Import ListNotations.
Open Scope N_scope.

Ltac Zify.zify_post_hook ::= Z.div_mod_to_equations.

(* ------------------------------------------------------------------ *)
(* lengths of the N-indexed list operations *)
Lemma lenN_takeN {A} (l : list A) : forall n, lenN (takeN n l) = N.min n (lenN l).
Proof.
  induction l as [|x t IH]; intros n; cbn [takeN lenN]; [lia|].
  destruct (N.eqb_spec n 0) as [->|Hn]; cbn [lenN]; [lia|]. rewrite IH. lia.
Qed.

Lemma lenN_dropN {A} (l : list A) : forall n, lenN (dropN n l) = lenN l - n.
Proof.
  induction l as [|x t IH]; intros n; cbn [dropN lenN]; [lia|].
  destruct (N.eqb_spec n 0) as [->|Hn]; cbn [lenN]; [lia|]. rewrite IH. lia.
Qed.

Lemma lenN_u32s_aux : forall (k : nat) (bs : list byte),
  (length bs <= k)%nat -> lenN (u32s bs) = lenN bs / 4.
Proof.
  induction k as [|k IH]; intros bs Hk.
  - destruct bs; [reflexivity|cbn in Hk; lia].
  - destruct bs as [|a [|b [|c [|d t]]]]; try reflexivity.
    cbn [u32s lenN]. rewrite IH by (cbn [length] in Hk; lia). lia.
Qed.
Lemma lenN_u32s bs : lenN (u32s bs) = lenN bs / 4.
Proof. apply (lenN_u32s_aux (length bs)). lia. Qed.

Lemma lenN_u16s_aux : forall (k : nat) (bs : list byte),
  (length bs <= k)%nat -> lenN (u16s bs) = lenN bs / 2.
Proof.
  induction k as [|k IH]; intros bs Hk.
  - destruct bs; [reflexivity|cbn in Hk; lia].
  - destruct bs as [|a [|b t]]; try reflexivity.
    cbn [u16s lenN]. rewrite IH by (cbn [length] in Hk; lia). lia.
Qed.
Lemma lenN_u16s bs : lenN (u16s bs) = lenN bs / 2.
Proof. apply (lenN_u16s_aux (length bs)). lia. Qed.

Lemma sector_len_cases v : sector_len v = 512 \/ sector_len v = 4096.
Proof. destruct v; [left|right]; reflexivity. Qed.

(* ------------------------------------------------------------------ *)
(* O4: the decoders *)
Lemma validate_name_fine nm : fine (validate_name nm).
Proof.
  unfold validate_name. cbv zeta.
  destruct (_ <? _); [exact I|]. destruct (existsb _ _); exact I.
Qed.

Ltac fine_if :=
  match goal with
  | |- fine (if ?c then _ else _) => destruct c eqn:?; [try exact I|try exact I]
  end.

Lemma dirent_decode_short_fine strict bs : lenN bs < DIR_ENTRY_LEN -> fine (dirent_decode_short strict bs).
Proof.
  intros Hshort. unfold dirent_decode_short. cbv zeta.
  set (pad := bs ++ repeatN 0 (DIR_ENTRY_LEN - lenN bs)).
  assert (Hpad : lenN pad = DIR_ENTRY_LEN).
  { unfold pad. rewrite CodecProofs.lenN_app, CodecProofs.lenN_repeatN. lia. }
  fine_if.
  destruct (N.ltb_spec 64 (le_val (takeN 2 (dropN 64 pad)))) as [|H64]; [exact I|].
  fine_if.
  match goal with |- fine (match nthN ?l ?i with _ => _ end) => destruct (nthN l i) as [term|] eqn:Hnth end.
  2:{ apply nthN_None_ge in Hnth. rewrite lenN_u16s, lenN_takeN in Hnth.
      unfold DIR_ENTRY_LEN in Hpad.
      destruct (0 <? le_val (takeN 2 (dropN 64 pad))); lia. }
  fine_if.
  destruct (from_utf16 _) as [nm0|]; [|exact I].
  fine_if.
  destruct (nthN pad 66) as [tb|]; [|exact I].
  destruct (objtype_of_byte tb) as [ty|]; [|exact I].
  match goal with |- fine (match ?x with _ => _ end) =>
    assert (Hx : fine x); [|destruct x; try exact I; try contradiction] end.
  { destruct (objtype_eqb ty TRoot).
    - destruct (list_eqb _ _ _); [exact I|]. destruct strict; exact I.
    - apply validate_name_fine. }
  fine_if.
  destruct (nthN pad 67) as [cb|]; [|exact I].
  destruct (color_of_byte cb) as [col|]; [|exact I].
  repeat fine_if.
Qed.

Theorem dirent_decode_fine v strict bs : fine (dirent_decode v strict bs).
Proof.
  unfold dirent_decode. cbv zeta.
  destruct (N.ltb_spec (lenN bs) DIR_ENTRY_LEN) as [Hs|Hlen]; [apply dirent_decode_short_fine; exact Hs|].
  destruct (N.ltb_spec 64 (le_val (takeN 2 (dropN 64 bs)))) as [|H64]; [exact I|].
  fine_if.
  match goal with |- fine (match nthN ?l ?i with _ => _ end) => destruct (nthN l i) as [term|] eqn:Hnth end.
  2:{ apply nthN_None_ge in Hnth. rewrite lenN_u16s, lenN_takeN in Hnth.
      unfold DIR_ENTRY_LEN in Hlen.
      destruct (0 <? le_val (takeN 2 (dropN 64 bs))); lia. }
  fine_if.
  destruct (from_utf16 _) as [nm0|]; [|exact I].
  destruct (nthN bs 66) as [tb|]; [|exact I].
  destruct (objtype_of_byte tb) as [ty|]; [|exact I].
  apply fine_rbind.
  { destruct (objtype_eqb ty TRoot).
    - destruct (list_eqb _ _ _); [exact I|]. destruct strict; exact I.
    - apply fine_rbind; [apply validate_name_fine|]. intros; exact I. }
  intros nm _.
  destruct (nthN bs 67) as [cb|]; [|exact I].
  destruct (color_of_byte cb) as [col|]; [|exact I].
  repeat fine_if.
Qed.

Lemma hdr_difat_go_fine cells : fine (hdr_difat_go cells).
Proof.
  induction cells as [|c t IH]; [exact I|]. cbn [hdr_difat_go].
  destruct (c =? FREE_SECTOR); [exact I|]. destruct (_ <? c); [exact I|].
  apply fine_rbind; [exact IH|]. intros; exact I.
Qed.

Theorem header_decode_fine strict bs : fine (header_decode strict bs).
Proof.
  unfold header_decode. cbv zeta.
  repeat fine_if.
  destruct (version_of_number _) as [v|]; [|exact I].
  repeat fine_if.
  apply fine_rbind; [apply hdr_difat_go_fine|]. intros; exact I.
Qed.

Theorem dirent_decode_total v strict bs :
  dirent_decode v strict bs <> OutOfFuel /\ (forall p, dirent_decode v strict bs <> Panic p).
Proof. apply fine_iff, dirent_decode_fine. Qed.

Theorem header_decode_total strict bs :
  header_decode strict bs <> OutOfFuel /\ (forall p, header_decode strict bs <> Panic p).
Proof. apply fine_iff, header_decode_fine. Qed.

(* ------------------------------------------------------------------ *)
(* reading a sector as u32 cells *)
Lemma lenN_img_read im idx off n : lenN (img_read im idx off n) <= n.
Proof. unfold img_read. destruct (nthN im idx); [rewrite lenN_takeN; lia|cbn; lia]. Qed.

Lemma read_sector_u32s_fine im sl sid count : fine (read_sector_u32s im sl sid count).
Proof. unfold read_sector_u32s. cbv zeta. destruct (_ <? _); exact I. Qed.

Lemma read_sector_u32s_len im sl sid count cells :
  read_sector_u32s im sl sid count = Ok cells -> lenN cells = count.
Proof.
  unfold read_sector_u32s. cbv zeta.
  pose proof (lenN_img_read im (sid + 1) 0 (4 * count)) as Hle.
  destruct (N.ltb_spec (lenN (img_read im (sid + 1) 0 (4 * count))) (4 * count)); [discriminate|].
  intros [= <-]. rewrite lenN_u32s. set (x := lenN _) in *. lia.
Qed.

Lemma check_difat_cells_fine cells : fine (check_difat_cells cells).
Proof.
  induction cells as [|c t IH]; [exact I|]. cbn [check_difat_cells].
  destruct (_ && _); [exact I|exact IH].
Qed.

Lemma read_difat_sector_fine im sl cur : fine (read_difat_sector im sl cur).
Proof.
  unfold read_difat_sector. cbv zeta. destruct (_ <? _).
  - apply fine_rbind; [apply check_difat_cells_fine|]. intros; exact I.
  - apply read_sector_u32s_fine.
Qed.

(* a successful read is a read of the whole sector *)
Lemma read_difat_sector_ok im sl cur cells :
  read_difat_sector im sl cur = Ok cells -> read_sector_u32s im sl cur (sl / 4) = Ok cells.
Proof.
  unfold read_difat_sector. cbv zeta. destruct (_ <? _); [|exact (fun H => H)].
  destruct (check_difat_cells _); discriminate.
Qed.

(* ------------------------------------------------------------------ *)
(* O1: the DIFAT chain walk.  [4 <= sl] is needed: with sl < 4 the model reads
   zero cells and Panic 801 is reached; sector_len is 512 or 4096. *)
Lemma difat_loop_fine strict im sl ns : 4 <= sl ->
  forall f cur seen ids d,
  NoDup seen -> Forall (fun x => x < ns) seen ->
  (N.to_nat ns + 1 <= length seen + f)%nat ->
  fine (difat_loop f strict im sl ns cur seen ids d).
Proof.
  intros Hsl. induction f as [|f IH]; intros cur seen ids d Hnd Hall Hf.
  - pose proof (bounded_nodup_length _ _ Hnd Hall). lia.
  - cbn [difat_loop].
    destruct (_ || _); [exact I|].
    destruct (_ <? cur); [exact I|].
    destruct (N.leb_spec ns cur); [exact I|].
    destruct (memN cur seen) eqn:Hmem; [exact I|]. apply memN_false in Hmem.
    apply fine_rbind; [apply read_difat_sector_fine|]. intros cells Hcells.
    apply read_difat_sector_ok in Hcells.
    apply read_sector_u32s_len in Hcells. cbv zeta.
    apply fine_rbind; [apply check_difat_cells_fine|]. intros _ _.
    destruct (nthN cells (sl / 4 - 1)) as [nx|] eqn:Hnth.
    2:{ apply nthN_None_ge in Hnth. lia. }
    destruct (_ && _); [exact I|].
    apply IH; [constructor; assumption|constructor; assumption|cbn [length]; lia].
Qed.

Theorem difat_loop_total strict im sl ns cur d : 4 <= sl ->
  difat_loop (S (S (N.to_nat ns))) strict im sl ns cur [] [] d <> OutOfFuel /\
  (forall p, difat_loop (S (S (N.to_nat ns))) strict im sl ns cur [] [] d <> Panic p).
Proof.
  intros Hsl. apply fine_iff. apply difat_loop_fine; [assumption|constructor|constructor|cbn; lia].
Qed.

(* ------------------------------------------------------------------ *)
(* O2: the directory chain walk *)
Lemma read_dirents_fine v strict : forall n bs, fine (read_dirents v strict n bs).
Proof.
  induction n as [|n IH]; intros bs; [exact I|]. cbn [read_dirents].
  apply fine_rbind; [apply dirent_decode_fine|]. intros e _.
  apply fine_rbind; [apply IH|]. intros; exact I.
Qed.

Lemma dir_loop_fine strict v num_dir im ns fat :
  forall f cur count seen acc,
  NoDup seen -> Forall (fun x => x < ns) seen ->
  (N.to_nat ns + 1 <= length seen + f)%nat ->
  fine (dir_loop f strict v num_dir im ns fat cur count seen acc).
Proof.
  induction f as [|f IH]; intros cur count seen acc Hnd Hall Hf.
  - pose proof (bounded_nodup_length _ _ Hnd Hall). lia.
  - cbn [dir_loop].
    destruct (cur =? END_OF_CHAIN); [exact I|].
    destruct (_ && _); [exact I|].
    destruct (_ <? cur); [exact I|].
    destruct (N.leb_spec ns cur); [exact I|].
    destruct (memN cur seen) eqn:Hmem; [exact I|]. apply memN_false in Hmem.
    cbv zeta.
    apply fine_rbind; [apply read_dirents_fine|]. intros es _.
    apply fine_rbind; [apply next_of_fine|]. intros nx _.
    apply IH; [constructor; assumption|constructor; assumption|cbn [length]; lia].
Qed.

Theorem dir_loop_total strict v num_dir im ns fat cur count :
  dir_loop (S (S (N.to_nat ns))) strict v num_dir im ns fat cur count [] [] <> OutOfFuel /\
  (forall p, dir_loop (S (S (N.to_nat ns))) strict v num_dir im ns fat cur count [] [] <> Panic p).
Proof.
  apply fine_iff. apply dir_loop_fine; [constructor|constructor|cbn; lia].
Qed.

(* ------------------------------------------------------------------ *)
(* O3: the red-black tree DFS *)
Definition stack_ok (ds : list dirent) (st : list (N * bool)) : Prop :=
  Forall (fun p => fst p < lenN ds) st.

Lemma dir_entry_of_lt ds id : id < lenN ds -> exists e, dir_entry_of ds id = Ok e.
Proof.
  intros H. unfold dir_entry_of. destruct (nthN_lt_Some ds id H) as [e ->]. eauto.
Qed.

Lemma dir_dfs_fine strict ds :
  forall f stack visited,
  stack_ok ds stack -> NoDup visited -> Forall (fun x => x < lenN ds) visited ->
  (length ds + 1 <= length visited + f)%nat ->
  fine (dir_dfs f strict ds stack visited).
Proof.
  induction f as [|f IH]; intros stack visited Hst Hnd Hall Hf.
  - pose proof (bounded_nodup_length _ _ Hnd Hall) as H. rewrite lenN_length in H. lia.
  - cbn [dir_dfs]. destruct stack as [|[id pr] rest]; [exact I|].
    inversion Hst as [|? ? Hid Hrest]; subst. cbn [fst] in Hid.
    destruct (memN id visited) eqn:Hmem; [exact I|]. apply memN_false in Hmem.
    destruct (dir_entry_of_lt ds id Hid) as [e ->]. cbn [rbind].
    match goal with |- fine (if ?c then _ else _) => destruct c end; [exact I|].
    cbv zeta.
    match goal with |- fine (if ?c then _ else _) => destruct c end; [exact I|].
    assert (Hv : NoDup (id :: visited)) by (constructor; assumption).
    assert (Hb : Forall (fun x => x < lenN ds) (id :: visited)) by (constructor; assumption).
    assert (Hfu : (length ds + 1 <= length (id :: visited) + f)%nat) by (cbn [length]; lia).
    (* left *)
    apply fine_rbind.
    { destruct (_ =? NO_STREAM); [exact I|]. destruct (N.leb_spec (lenN ds) (d_left e)); [exact I|].
      destruct (dir_entry_of_lt ds (d_left e)) as [le ->]; [assumption|]. cbn [rbind].
      destruct (cmp_names _ _); exact I. }
    intros st1 H1.
    assert (Hst1 : stack_ok ds st1).
    { revert H1. destruct (_ =? NO_STREAM); [intros [= <-]; exact Hrest|].
      destruct (N.leb_spec (lenN ds) (d_left e)); [discriminate|].
      destruct (dir_entry_of_lt ds (d_left e)) as [le ->]; [assumption|]. cbn [rbind].
      destruct (cmp_names _ _); try discriminate. intros [= <-]. constructor; assumption. }
    clear H1.
    (* right *)
    apply fine_rbind.
    { destruct (_ =? NO_STREAM); [exact I|]. destruct (N.leb_spec (lenN ds) (d_right e)); [exact I|].
      destruct (dir_entry_of_lt ds (d_right e)) as [re ->]; [assumption|]. cbn [rbind].
      destruct (cmp_names _ _); exact I. }
    intros st2 H2.
    assert (Hst2 : stack_ok ds st2).
    { revert H2. destruct (_ =? NO_STREAM); [intros [= <-]; exact Hst1|].
      destruct (N.leb_spec (lenN ds) (d_right e)); [discriminate|].
      destruct (dir_entry_of_lt ds (d_right e)) as [re ->]; [assumption|]. cbn [rbind].
      destruct (cmp_names _ _); try discriminate. intros [= <-]. constructor; assumption. }
    clear H2.
    (* child *)
    apply fine_rbind.
    { destruct (_ =? NO_STREAM); [exact I|]. destruct (_ <=? _); exact I. }
    intros st3 H3.
    assert (Hst3 : stack_ok ds st3).
    { revert H3. destruct (_ =? NO_STREAM); [intros [= <-]; exact Hst2|].
      destruct (N.leb_spec (lenN ds) (d_child e)); [discriminate|].
      intros [= <-]. constructor; assumption. }
    apply IH; assumption.
Qed.

Theorem dir_dfs_total strict ds : ds <> [] ->
  dir_dfs (S (S (length ds))) strict ds [(ROOT_STREAM_ID, false)] [] <> OutOfFuel /\
  (forall p, dir_dfs (S (S (length ds))) strict ds [(ROOT_STREAM_ID, false)] [] <> Panic p).
Proof.
  intros Hne. apply fine_iff. apply dir_dfs_fine; [|constructor|constructor|cbn; lia].
  constructor; [|constructor]. cbn [fst]. destruct ds; [contradiction|].
  cbn [lenN]. unfold ROOT_STREAM_ID. lia.
Qed.

Lemma dir_validate_fine strict ds : fine (dir_validate strict ds).
Proof.
  unfold dir_validate. destruct ds as [|root t] eqn:E; [exact I|].
  destruct (negb _); [exact I|]. rewrite <- E.
  apply fine_iff. apply dir_dfs_total. congruence.
Qed.

(* ------------------------------------------------------------------ *)
(* O5: the sector layer and Chain::read on the MiniFAT chain; composition *)
Lemma fine_run {A} (m : M A) s : fine (snd (m s)) -> fine (run m s).
Proof. unfold run. destruct (m s) as [s' r]. destruct r; cbn; auto. Qed.

Lemma seek_sector_spec sid off s : off <= slen s ->
  exists r, seek_sector sid off s = (s, r) /\ fine r.
Proof.
  intros H. unfold seek_sector, bind, get. cbv beta iota zeta.
  destruct (N.ltb_spec (slen s) off); [lia|].
  destruct (_ <=? _); unfold fail, ret; eexists; (split; [reflexivity|exact I]).
Qed.

Lemma sector_read_exact_spec sid off n s : off <= slen s ->
  exists r, sector_read_exact sid off n s = (s, r) /\ fine r.
Proof.
  intros H. unfold sector_read_exact, bind at 1.
  destruct (seek_sector_spec sid off s H) as (r & -> & Hr).
  destruct r; try contradiction; cbv beta iota zeta.
  - unfold bind, get. cbv beta iota zeta. destruct (_ <? _); unfold fail, ret; eexists; (split; [reflexivity|exact I]).
  - eexists; (split; [reflexivity|exact I]).
Qed.

Lemma chain_read_go_fine s : 0 < slen s ->
  forall f c n acc,
  (n = 0 \/ exists q, c_off c = slen s * q) ->
  c_off c <= chain_len (slen s) c ->
  (1 <= f)%nat -> (n <> 0 -> (N.to_nat (n / slen s) + 2 <= f)%nat) ->
  fine (snd (chain_read_go f c n acc s)).
Proof.
  intros Hsl. induction f as [|f IH]; intros c n acc Hal Hoff Hf1 Hf; [lia|].
  cbn [chain_read_go]. destruct (N.eqb_spec n 0) as [Hn|Hn]; [exact I|].
  destruct Hal as [?|[q Hq]]; [contradiction|]. specialize (Hf Hn).
  unfold bind at 1, get at 1. cbv beta iota zeta.
  unfold chain_len in *. set (sl := slen s) in *. set (L := lenN (c_ids c)) in *.
  assert (Hmod : c_off c mod sl = 0) by (rewrite Hq, N.mul_comm; apply N.mod_mul; lia).
  assert (Hdiv : c_off c / sl = q) by (rewrite Hq, N.mul_comm; apply N.div_mul; lia).
  rewrite Hmod, Hdiv.
  destruct (N.ltb_spec (sl * L) (c_off c)); [lia|].
  destruct (N.eqb_spec (N.min n (sl * L - c_off c)) 0) as [|Hmax]; [exact I|].
  assert (HqL : q < L) by (apply (N.mul_lt_mono_pos_l sl); lia).
  assert (Hroom : sl <= sl * L - c_off c).
  { assert (sl * (q + 1) <= sl * L) by (apply N.mul_le_mono_l; lia). lia. }
  destruct (nthN (c_ids c) q) as [sid|] eqn:Hnth.
  2:{ apply nthN_None_ge in Hnth. fold L in Hnth. lia. }
  set (k := N.min (N.min n (sl * L - c_off c)) (sl - 0)).
  unfold bind at 1.
  destruct (sector_read_exact_spec sid 0 k s) as (r & -> & Hr); [lia|].
  destruct r; try contradiction; cbv beta iota; [|exact I].
  assert (Hk : k = N.min n sl) by lia.
  clearbody k. clear Hmod Hdiv Hnth.
  apply IH; cbn [c_off c_ids].
  - destruct (N.le_gt_cases n sl); [left; lia|right]. exists (q + 1). lia.
  - fold L. clear Hf. lia.
  - set (d' := n / sl) in *. lia.
  - intros Hnk. assert (Hks : k = sl) by lia.
    assert (Hd : n / sl = 1 + (n - sl) / sl).
    { rewrite <- N.div_add_l by lia. f_equal. lia. }
    rewrite Hks. set (d := (n - sl) / sl) in *. set (d' := n / sl) in *. lia.
Qed.

Lemma chain_read_exact_fine c n s : 0 < slen s -> c_off c = 0 ->
  fine (run (chain_read_exact c n) s).
Proof.
  intros Hsl Hoff. apply fine_run. unfold chain_read_exact, bind at 1, get at 1. cbv beta iota.
  apply chain_read_go_fine; [assumption| | | |intros _]; try (generalize (N.to_nat (n / slen s)); intros; lia).
  right. exists 0. lia.
Qed.

Lemma mark_sectors_fine strict marker : forall ids fat, fine (mark_sectors strict marker ids fat).
Proof.
  induction ids as [|i t IH]; intros fat; [exact I|]. cbn [mark_sectors].
  destruct (nthN fat i); [|exact I]. destruct (_ && _); [exact I|apply IH].
Qed.

Lemma check_pointees_fine b : forall cells n seen, fine (check_pointees b cells n seen).
Proof.
  induction cells as [|c t IH]; intros n seen; [exact I|]. cbn [check_pointees].
  destruct (_ <=? _).
  - destruct (_ <=? _); [exact I|]. destruct (memN _ _); [exact I|apply IH].
  - destruct (_ && _); [exact I|apply IH].
Qed.

Lemma alloc_validate_fine strict ns ids difat fat : fine (alloc_validate strict ns ids difat fat).
Proof.
  unfold alloc_validate. destruct (_ <? _); [exact I|].
  apply fine_rbind; [apply mark_sectors_fine|]. intros fat1 _.
  apply fine_rbind; [apply mark_sectors_fine|]. intros fat2 _.
  apply fine_rbind; [apply check_pointees_fine|]. intros; exact I.
Qed.

Lemma alloc_validate_Ok strict ns ids difat fat fat' fr :
  alloc_validate strict ns ids difat fat = Ok (fat', fr) ->
  check_pointees false fat' (lenN fat') [] = Ok tt.
Proof.
  unfold alloc_validate. destruct (_ <? _); [discriminate|].
  destruct (mark_sectors strict DIFAT_SECTOR ids fat) as [fat1| | |]; try discriminate. cbn [rbind].
  destruct (mark_sectors strict FAT_SECTOR difat fat1) as [fat2| | |]; try discriminate. cbn [rbind].
  destruct (check_pointees false fat2 (lenN fat2) []) as [[]| | |] eqn:E; try discriminate. cbn [rbind].
  intros [= <- _]. exact E.
Qed.

Lemma mini_validate_fine strict rl mf : fine (mini_validate strict rl mf).
Proof.
  unfold mini_validate. cbv zeta.
  apply fine_rbind.
  { destruct (_ <? _); [|exact I]. destruct strict; exact I. }
  intros mf1 _. apply fine_rbind; [apply check_pointees_fine|]. intros; exact I.
Qed.

Lemma chain_new_run b s start i :
  check_pointees b (fat s) (lenN (fat s)) [] = Ok tt ->
  fine (run (chain_new start i) s) /\
  forall c s', run (chain_new start i) s = Ok (c, s') -> c_off c = 0.
Proof.
  intros H. unfold run, chain_new, bind, get, lift, ret. cbv beta iota.
  pose proof (chain_ids_fine b (fat s) H start) as Hf.
  destruct (chain_ids_of (fat s) start); try contradiction; split; try exact I; try discriminate.
  intros c s' [= <- _]. reflexivity.
Qed.

Theorem open_fine strict bytes : fine (open_model strict bytes).
Proof.
  unfold open_model. cbv zeta.
  destruct (_ <? HEADER_LEN); [exact I|].
  apply fine_rbind; [apply header_decode_fine|]. intros h _.
  set (sl := sector_len (h_ver h)).
  assert (Hsl : 4 <= sl) by (destruct (sector_len_cases (h_ver h)) as [E|E]; unfold sl; rewrite E; lia).
  destruct (_ <? lenN bytes); [exact I|].
  destruct (lenN bytes <? sl); [exact I|].
  set (ns := (lenN bytes + sl - 1) / sl - 1).
  set (im := chunks sl bytes).
  apply fine_rbind.
  { apply difat_loop_fine; [assumption|constructor|constructor|cbn; lia]. }
  intros [ids difat0] _. cbv beta iota.
  destruct (_ && _); [exact I|].
  destruct (strict && negb _); [exact I|].
  apply fine_rbind.
  { match goal with |- fine (_ ?L) => generalize L end.
    intros l. induction l as [|sid t IHl]; [exact I|].
    destruct (ns <=? sid); [exact I|].
    apply fine_rbind; [apply read_sector_u32s_fine|]. intros cells _.
    apply fine_rbind; [exact IHl|]. intros; exact I. }
  intros fat0 _.
  apply fine_rbind; [apply alloc_validate_fine|]. intros [fat4 fr] Hav. cbv beta iota.
  apply alloc_validate_Ok in Hav.
  apply fine_rbind; [apply dir_loop_fine; [constructor|constructor|cbn; lia]|]. intros ds _.
  apply fine_rbind; [apply dir_validate_fine|]. intros _ _.
  match goal with |- fine (rbind (run _ ?s) _) => set (s0 := s) end.
  destruct (chain_new_run false s0 (h_first_minifat h) IFat Hav) as [Hcf Hc0].
  apply fine_rbind; [exact Hcf|]. intros [c s1] Hc. cbv beta iota.
  apply Hc0 in Hc.
  destruct (_ && _); [exact I|].
  apply fine_rbind.
  { apply chain_read_exact_fine; [|exact Hc]. change (slen s0) with sl. lia. }
  intros [[c2 mbytes] s2] _. cbv beta iota.
  destruct ds as [|root t]; [exact I|].
  apply fine_rbind; [apply mini_validate_fine|]. intros [mf mfree] _. exact I.
Qed.

Theorem open_total strict bytes :
  match open_model strict bytes with Panic _ | OutOfFuel => False | _ => True end.
Proof. exact (open_fine strict bytes). Qed.

(* ------------------------------------------------------------------ *)
(* O6: every cached table is at most as long as the input *)
Lemma rbind_Ok {A B} (m : res A) (f : A -> res B) b :
  rbind m f = Ok b -> exists a, m = Ok a /\ f a = Ok b.
Proof. destruct m; cbn; try discriminate. eauto. Qed.

Lemma lenN_updN {A} (l : list A) : forall i v, lenN (updN l i v) = lenN l.
Proof.
  induction l as [|x t IH]; intros i v; [reflexivity|]. cbn [updN].
  destruct (i =? 0); cbn [lenN]; [reflexivity|]. rewrite IH. reflexivity.
Qed.

Lemma mark_sectors_len strict marker : forall ids fat fat',
  mark_sectors strict marker ids fat = Ok fat' -> lenN fat' = lenN fat.
Proof.
  induction ids as [|i t IH]; intros fat fat'; cbn [mark_sectors]; [intros [= <-]; reflexivity|].
  destruct (nthN fat i); [|discriminate]. destruct (_ && _); [discriminate|].
  intros H. apply IH in H. rewrite H. apply lenN_updN.
Qed.

Lemma pop_while_len p m : forall f r len, (length (pop_while f p m r len) <= length r)%nat.
Proof.
  induction f as [|f IH]; intros r len; cbn [pop_while]; [lia|].
  destruct r as [|x t]; [apply le_n|]. destruct (_ && _); [|apply le_n].
  specialize (IH t (len - 1)). cbn [length]. lia.
Qed.

Lemma strip_last_while_len p m l : lenN (strip_last_while p m l) <= lenN l.
Proof.
  unfold strip_last_while, rev'. rewrite <- !rev_alt. rewrite !lenN_length, rev_length.
  pose proof (pop_while_len p m (length l) (rev l) (lenN l)) as H.
  rewrite rev_length, lenN_length in H. lia.
Qed.

Lemma lenN_repeatN {A} (x : A) n : lenN (repeatN x n) = n.
Proof.
  unfold repeatN. induction n as [|n IH] using N.peano_ind; [reflexivity|].
  rewrite N.iter_succ. cbn [lenN]. rewrite IH. reflexivity.
Qed.

Lemma hdr_difat_go_len : forall cells r, hdr_difat_go cells = Ok r -> lenN r = lenN cells.
Proof.
  induction cells as [|c t IH]; intros r; cbn [hdr_difat_go]; [intros [= <-]; reflexivity|].
  destruct (c =? FREE_SECTOR); [intros [= <-]; apply lenN_repeatN|].
  destruct (_ <? c); [discriminate|]. intros H. apply rbind_Ok in H.
  destruct H as (r' & Hr' & [= <-]). cbn [lenN]. rewrite (IH _ Hr'). reflexivity.
Qed.

Lemma header_decode_difat_len strict bs h :
  header_decode strict bs = Ok h -> lenN (h_difat h) <= NUM_DIFAT_HDR.
Proof.
  unfold header_decode. cbv zeta.
  repeat (match goal with |- (if ?c then _ else _) = _ -> _ => destruct c; [discriminate|] end).
  destruct (version_of_number _) as [v|]; [|discriminate].
  repeat (match goal with |- (if ?c then _ else _) = _ -> _ => destruct c; [discriminate|] end).
  intros H. apply rbind_Ok in H. destruct H as (dif & Hd & [= <-]). cbn [h_difat].
  apply hdr_difat_go_len in Hd. rewrite Hd, lenN_u32s, lenN_takeN. unfold NUM_DIFAT_HDR. lia.
Qed.

Lemma read_dirents_len v strict : forall n bs es,
  read_dirents v strict n bs = Ok es -> lenN es = N.of_nat n.
Proof.
  induction n as [|n IH]; intros bs es; cbn [read_dirents]; [intros [= <-]; reflexivity|].
  intros H. apply rbind_Ok in H. destruct H as (e & _ & H).
  apply rbind_Ok in H. destruct H as (r & Hr & [= <-]). cbn [lenN]. rewrite (IH _ _ Hr). lia.
Qed.

Lemma lenN_le_bound seen ns : NoDup seen -> Forall (fun x => x < ns) seen -> lenN seen <= ns.
Proof. intros H1 H2. pose proof (bounded_nodup_length _ _ H1 H2). rewrite lenN_length. lia. Qed.

Lemma dir_loop_len strict v num_dir im ns fat : forall f cur count seen acc ds,
  NoDup seen -> Forall (fun x => x < ns) seen ->
  dir_loop f strict v num_dir im ns fat cur count seen acc = Ok ds ->
  lenN ds + lenN seen * dir_per_sector v <= lenN acc + ns * dir_per_sector v.
Proof.
  induction f as [|f IH]; intros cur count seen acc ds Hnd Hall; [discriminate|].
  cbn [dir_loop].
  destruct (cur =? END_OF_CHAIN).
  { intros [= <-]. pose proof (lenN_le_bound _ _ Hnd Hall).
    assert (lenN seen * dir_per_sector v <= ns * dir_per_sector v) by (apply N.mul_le_mono_r; assumption).
    lia. }
  destruct (_ && _); [discriminate|].
  destruct (_ <? cur); [discriminate|].
  destruct (N.leb_spec ns cur) as [|Hcur]; [discriminate|].
  destruct (memN cur seen) eqn:Hmem; [discriminate|]. apply memN_false in Hmem.
  cbv zeta. intros H. apply rbind_Ok in H. destruct H as (es & Hes & H).
  apply rbind_Ok in H. destruct H as (nx & _ & H).
  apply IH in H; [|constructor; assumption|constructor; assumption].
  apply read_dirents_len in Hes. rewrite lenN_app, Hes, N2Nat.id in H. cbn [lenN] in H.
  set (d := dir_per_sector v) in *. lia.
Qed.

Lemma difat_loop_len strict im sl ns : forall f cur seen ids d ids' d',
  NoDup seen -> Forall (fun x => x < ns) seen ->
  difat_loop f strict im sl ns cur seen ids d = Ok (ids', d') ->
  lenN d' + lenN seen * (sl / 4 - 1) <= lenN d + ns * (sl / 4 - 1) /\
  lenN ids' + lenN seen <= lenN ids + ns.
Proof.
  induction f as [|f IH]; intros cur seen ids d ids' d' Hnd Hall; [discriminate|].
  cbn [difat_loop].
  destruct (_ || _).
  { intros [= <- <-]. pose proof (lenN_le_bound _ _ Hnd Hall).
    assert (lenN seen * (sl / 4 - 1) <= ns * (sl / 4 - 1)) by (apply N.mul_le_mono_r; assumption).
    lia. }
  destruct (_ <? cur); [discriminate|].
  destruct (N.leb_spec ns cur) as [|Hcur]; [discriminate|].
  destruct (memN cur seen) eqn:Hmem; [discriminate|]. apply memN_false in Hmem.
  intros H. apply rbind_Ok in H. destruct H as (cells & _ & H). cbv zeta in H.
  apply rbind_Ok in H. destruct H as (_ & _ & H).
  destruct (nthN cells (sl / 4 - 1)); [|discriminate].
  destruct (_ && _); [discriminate|].
  apply IH in H; [|constructor; assumption|constructor; assumption].
  rewrite !lenN_app, lenN_takeN in H. cbn [lenN] in H.
  set (e := sl / 4 - 1) in *. lia.
Qed.

Lemma free_indices_len : forall cells i, lenN (free_indices cells i) <= lenN cells.
Proof.
  induction cells as [|c t IH]; intros i; cbn [free_indices lenN]; [lia|].
  specialize (IH (i + 1)). destruct (c =? FREE_SECTOR); cbn [lenN]; lia.
Qed.

Lemma alloc_validate_len strict ns ids difat fat fat' fr :
  alloc_validate strict ns ids difat fat = Ok (fat', fr) ->
  lenN fat' <= ns /\ lenN fr <= ns.
Proof.
  unfold alloc_validate. destruct (N.ltb_spec ns (lenN fat)) as [|Hns]; [discriminate|].
  intros H. apply rbind_Ok in H. destruct H as (fat1 & H1 & H).
  apply rbind_Ok in H. destruct H as (fat2 & H2 & H).
  apply rbind_Ok in H. destruct H as (_ & _ & [= <- <-]).
  apply mark_sectors_len in H1, H2. pose proof (free_indices_len fat2 0). lia.
Qed.

Lemma mini_validate_len strict rl mf mf' fr :
  mini_validate strict rl mf = Ok (mf', fr) -> lenN mf' <= lenN mf /\ lenN fr <= lenN mf.
Proof.
  unfold mini_validate. cbv zeta. intros H. apply rbind_Ok in H. destruct H as (mf1 & H1 & H).
  apply rbind_Ok in H. destruct H as (_ & _ & [= <- <-]).
  pose proof (free_indices_len mf1 0).
  assert (lenN mf1 <= lenN mf); [|lia].
  destruct (_ <? _); [|injection H1 as <-; lia]. destruct strict; [discriminate|].
  injection H1 as <-. rewrite lenN_takeN. lia.
Qed.

Lemma sector_read_exact_len sid off n s s' bs :
  sector_read_exact sid off n s = (s', Ok bs) -> s' = s /\ lenN bs = n.
Proof.
  unfold sector_read_exact, seek_sector, bind, get. cbv beta iota zeta.
  destruct (_ <? off); [unfold panic; discriminate|].
  destruct (_ <=? sid); [unfold fail; discriminate|]. unfold ret. cbv beta iota.
  pose proof (lenN_img_read (img s) (sid + 1) off n).
  destruct (N.ltb_spec (lenN (img_read (img s) (sid + 1) off n)) n); [unfold fail; discriminate|].
  intros [= <- <-]. split; [reflexivity|lia].
Qed.

Lemma chain_read_go_len : forall f c n acc s s' c' bs,
  chain_read_go f c n acc s = (s', Ok (c', bs)) -> lenN bs = lenN acc + n /\ c_ids c' = c_ids c.
Proof.
  induction f as [|f IH]; intros c n acc s s' c' bs; [discriminate|].
  cbn [chain_read_go]. destruct (N.eqb_spec n 0) as [->|Hn].
  { unfold ret. intros [= <- <- <-]. split; [lia|reflexivity]. }
  unfold bind at 1, get at 1. cbv beta iota zeta.
  destruct (_ <? c_off c); [unfold panic; discriminate|].
  destruct (N.eqb_spec (N.min n (chain_len (slen s) c - c_off c)) 0); [unfold fail; discriminate|].
  destruct (nthN (c_ids c) _) as [sid|]; [|unfold panic; discriminate].
  set (k := N.min _ (slen s - _)). unfold bind at 1.
  destruct (sector_read_exact sid (c_off c mod slen s) k s) as [s1 r] eqn:E.
  destruct r as [bs0| | |]; try discriminate.
  apply sector_read_exact_len in E. destruct E as [-> Hb].
  intros H. apply IH in H. cbn [c_ids] in H. destruct H as [H1 H2]. split; [|exact H2].
  rewrite H1, lenN_app, Hb. lia.
Qed.

Lemma run_Ok {A} (m : M A) s a s' : run m s = Ok (a, s') -> m s = (s', Ok a).
Proof. unfold run. destruct (m s) as [s1 r]. destruct r; try discriminate. intros [= <- <-]. reflexivity. Qed.

Lemma chunks_go_len sl : forall f bs, (length (chunks_go f sl bs) <= f)%nat.
Proof.
  induction f as [|f IH]; intros bs; cbn [chunks_go]; [cbn; lia|].
  destruct bs; [cbn; lia|]. cbn [length]. specialize (IH (dropN sl (b :: bs))). lia.
Qed.

Theorem open_size_bound strict bytes s :
  open_model strict bytes = Ok s ->
  lenN (fat s) <= lenN bytes /\ lenN (dirs s) <= lenN bytes /\
  lenN (minifat s) <= lenN bytes /\ lenN (difat s) <= lenN bytes /\
  lenN (difat_ids s) <= lenN bytes /\ lenN (free s) <= lenN bytes /\
  lenN (mfree s) <= lenN bytes /\ lenN (img s) <= lenN bytes.
Proof.
  unfold open_model. cbv zeta.
  destruct (N.ltb_spec (lenN bytes) HEADER_LEN) as [|Hlen]; [discriminate|].
  intros H. apply rbind_Ok in H. destruct H as (h & Hh & H).
  apply header_decode_difat_len in Hh.
  set (sl := sector_len (h_ver h)) in *.
  assert (Hsl : sl = 512 \/ sl = 4096) by apply sector_len_cases.
  destruct (_ <? lenN bytes); [discriminate|].
  destruct (N.ltb_spec (lenN bytes) sl) as [|Hlsl]; [discriminate|].
  set (ns := (lenN bytes + sl - 1) / sl - 1) in *.
  set (im := chunks sl bytes) in *.
  assert (Hns : ns * sl < lenN bytes).
  { unfold ns. clearbody sl. clear H. destruct Hsl; subst sl; lia. }
  apply rbind_Ok in H. destruct H as ([ids difat0] & Hdl & H). cbv beta iota in H.
  apply difat_loop_len in Hdl; [|constructor|constructor]. cbn [lenN] in Hdl.
  destruct (_ && _); [discriminate|].
  set (difat2 := strip_last_while _ 0 _) in *.
  assert (Hd2 : lenN difat2 <= lenN difat0).
  { unfold difat2. etransitivity; [apply strip_last_while_len|].
    destruct strict; [lia|apply strip_last_while_len]. }
  destruct (strict && negb _); [discriminate|].
  apply rbind_Ok in H. destruct H as (fat0 & _ & H).
  apply rbind_Ok in H. destruct H as ([fat4 fr] & Hav & H). cbv beta iota in H.
  pose proof (alloc_validate_Ok _ _ _ _ _ _ _ Hav) as Hcp.
  apply alloc_validate_len in Hav.
  apply rbind_Ok in H. destruct H as (ds & Hds & H).
  apply dir_loop_len in Hds; [|constructor|constructor]. cbn [lenN] in Hds.
  apply rbind_Ok in H. destruct H as (_ & _ & H).
  apply rbind_Ok in H. destruct H as ([c s1] & Hc & H). cbv beta iota in H.
  apply run_Ok in Hc. unfold chain_new, bind, get, lift, ret in Hc. cbv beta iota in Hc. cbn [fat] in Hc.
  destruct (chain_ids_of fat4 (h_first_minifat h)) as [cids| | |] eqn:Hci; try discriminate.
  injection Hc as <- <-.
  apply (chain_ids_nodup false fat4 Hcp) in Hci. destruct Hci as (_ & _ & Hcl).
  destruct (_ && _); [discriminate|].
  apply rbind_Ok in H. destruct H as ([[c2 mbytes] s2] & Hrd & H). cbv beta iota in H.
  apply run_Ok in Hrd. unfold chain_read_exact, bind at 1, get at 1 in Hrd. cbv beta iota in Hrd.
  apply chain_read_go_len in Hrd. destruct Hrd as [Hrd _]. cbn [lenN] in Hrd.
  destruct ds as [|root t] eqn:Eds; [discriminate|]. rewrite <- Eds in *.
  apply rbind_Ok in H. destruct H as ([mf mfr] & Hmv & [= <-]).
  apply mini_validate_len in Hmv.
  pose proof (strip_last_while_len (fun x => x =? FREE_SECTOR) 0 (u32s mbytes)) as Hmf0.
  rewrite lenN_u32s, Hrd in Hmf0.
  unfold chain_len in Hmf0. cbn [c_ids] in Hmf0.
  assert (Hcl' : lenN cids <= ns) by (rewrite !lenN_length in *; lia).
  cbn [fat dirs minifat difat difat_ids free mfree img].
  assert (Him : lenN im <= lenN bytes).
  { unfold im, chunks. rewrite lenN_length.
    pose proof (chunks_go_len sl (S (N.to_nat (lenN bytes / sl))) bytes) as Hch.
    clearbody sl. clear - Hch Hsl Hlsl. destruct Hsl; subst sl; lia. }
  unfold dir_per_sector in Hds. fold sl in Hds. unfold NUM_DIFAT_HDR, DIR_ENTRY_LEN, HEADER_LEN in *.
  clearbody sl ns difat2 im.
  assert (Hm : sl * lenN cids <= sl * ns) by (apply N.mul_le_mono_l; assumption).
  clear Hcp.
  clear Hrd.
  destruct Hsl; subst sl;
    [ change (512 / 128) with 4 in *; change (512 / 4 - 1) with 127 in *
    | change (4096 / 128) with 32 in *; change (4096 / 4 - 1) with 1023 in * ];
    repeat split; lia.
Qed.

(* ------------------------------------------------------------------ *)
(* what a successful open establishes for the walks that follow it *)
Lemma dir_loop_path strict v num_dir im ns fat : forall f cur count seen acc ds,
  dir_loop f strict v num_dir im ns fat cur count seen acc = Ok ds ->
  exists l, path fat cur l /\ NoDup l /\ (forall x, In x l -> ~ In x seen).
Proof.
  induction f as [|f IH]; intros cur count seen acc ds; [discriminate|].
  cbn [dir_loop]. destruct (N.eqb_spec cur END_OF_CHAIN) as [->|Hc].
  { intros _. exists []. split; [constructor|]. split; [constructor|]. intros x []. }
  destruct (_ && _); [discriminate|].
  destruct (_ <? cur); [discriminate|].
  destruct (_ <=? cur); [discriminate|].
  destruct (memN cur seen) eqn:Hmem; [discriminate|]. apply memN_false in Hmem.
  cbv zeta. intros H. apply rbind_Ok in H. destruct H as (es & _ & H).
  apply rbind_Ok in H. destruct H as (nx & Hnx & H).
  apply IH in H. destruct H as (l & Hp & Hnd & Hdis).
  exists (cur :: l). split; [econstructor; eauto|]. split.
  - constructor; [|exact Hnd]. intros Hin. apply (Hdis cur Hin). left; reflexivity.
  - intros x [<-|Hx]; [exact Hmem|]. intros Hs. apply (Hdis x Hx). right; exact Hs.
Qed.

Lemma mini_validate_Ok strict rl mf mf' fr :
  mini_validate strict rl mf = Ok (mf', fr) -> check_pointees true mf' (lenN mf') [] = Ok tt.
Proof.
  unfold mini_validate. cbv zeta. intros H. apply rbind_Ok in H. destruct H as (mf1 & _ & H).
  destruct (check_pointees true mf1 (lenN mf1) []) as [[]| | |] eqn:E; try discriminate.
  cbn [rbind] in H. injection H as <- _. exact E.
Qed.

Theorem open_post strict bytes s :
  open_model strict bytes = Ok s ->
  check_pointees false (fat s) (lenN (fat s)) [] = Ok tt /\
  check_pointees true (minifat s) (lenN (minifat s)) [] = Ok tt /\
  (exists ids, chain_ids_of (fat s) (dir_start s) = Ok ids) /\
  (exists ids, chain_ids_of (fat s) (minifat_start s) = Ok ids) /\
  dirs s <> [].
Proof.
  unfold open_model. cbv zeta.
  destruct (_ <? HEADER_LEN); [discriminate|].
  intros H. apply rbind_Ok in H. destruct H as (h & _ & H).
  destruct (_ <? lenN bytes); [discriminate|].
  destruct (lenN bytes <? _); [discriminate|].
  apply rbind_Ok in H. destruct H as ([ids difat0] & _ & H). cbv beta iota in H.
  destruct (_ && _); [discriminate|].
  destruct (strict && negb _); [discriminate|].
  apply rbind_Ok in H. destruct H as (fat0 & _ & H).
  apply rbind_Ok in H. destruct H as ([fat4 fr] & Hav & H). cbv beta iota in H.
  apply alloc_validate_Ok in Hav.
  apply rbind_Ok in H. destruct H as (ds & Hds & H).
  apply dir_loop_path in Hds. destruct Hds as (l & Hp & Hnd & _).
  apply rbind_Ok in H. destruct H as (_ & _ & H).
  apply rbind_Ok in H. destruct H as ([c s1] & Hc & H). cbv beta iota in H.
  apply run_Ok in Hc. unfold chain_new, bind, get, lift, ret in Hc. cbv beta iota in Hc. cbn [fat] in Hc.
  destruct (chain_ids_of fat4 (h_first_minifat h)) as [cids| | |] eqn:Hci; try discriminate.
  destruct (_ && _); [discriminate|].
  apply rbind_Ok in H. destruct H as ([[c2 mbytes] s2] & _ & H). cbv beta iota in H.
  destruct ds as [|root t] eqn:Eds; [discriminate|].
  apply rbind_Ok in H. destruct H as ([mf mfr] & Hmv & [= <-]).
  apply mini_validate_Ok in Hmv.
  cbn [fat minifat dir_start minifat_start dirs].
  repeat split; try assumption; try discriminate.
  - exists l. apply chain_ids_of_path; assumption.
  - exists cids. exact Hci.
Qed.

(* hence every chain walk on a freshly opened file terminates *)
Corollary open_then_walks_fine strict bytes s :
  open_model strict bytes = Ok s ->
  (forall start, fine (chain_ids_of (fat s) start)) /\
  (forall start, fine (chain_ids_of (minifat s) start)) /\
  (forall start, fine (find_last_go (S (S (length (fat s)))) (fat s) 0 start)).
Proof.
  intros H. apply open_post in H. destruct H as (H1 & H2 & _).
  split; [|split]; intros start.
  - eapply chain_ids_fine; eauto.
  - eapply chain_ids_fine; eauto.
  - apply find_last_fine.
Qed.

(* ------------------------------------------------------------------ *)
(* Chain::read_exact from any in-range offset: the first round may be partial,
   after it the offset is sector-aligned; fuel n / sl + 3 covers that. *)
Lemma slen_pos s : 0 < slen s.
Proof. unfold slen. destruct (sector_len_cases (ver s)) as [E|E]; rewrite E; lia. Qed.

Lemma chain_read_go_fine_gen s : forall f c n acc,
  c_off c <= chain_len (slen s) c ->
  (N.to_nat (n / slen s) + 3 <= f)%nat ->
  fine (snd (chain_read_go f c n acc s)).
Proof.
  pose proof (slen_pos s) as Hsl.
  intros f c n acc Hoff Hf.
  assert (Hf3 : (3 <= f)%nat) by (revert Hf; generalize (N.to_nat (n / slen s)); intros; lia).
  destruct (N.eq_dec (c_off c mod slen s) 0) as [Hal|Hal].
  { apply chain_read_go_fine; [assumption| |assumption| |].
    - right. exists (c_off c / slen s).
      pose proof (N.div_mod' (c_off c) (slen s)) as E. rewrite Hal, N.add_0_r in E. exact E.
    - generalize dependent (N.to_nat (n / slen s)). intros; lia.
    - intros _. generalize dependent (N.to_nat (n / slen s)). intros; lia. }
  destruct f as [|f]; [clear Hf; lia|].
  cbn [chain_read_go]. destruct (N.eqb_spec n 0) as [Hn|Hn]; [exact I|].
  unfold bind at 1, get at 1. cbv beta iota zeta.
  unfold chain_len in *. set (sl := slen s) in *. set (L := lenN (c_ids c)) in *.
  set (q := c_off c / sl). set (ow := c_off c mod sl) in *.
  assert (Hdm : c_off c = sl * q + ow) by apply N.div_mod'.
  assert (How : ow < sl) by (apply N.mod_lt; lia).
  assert (How0 : ow <> 0) by exact Hal.
  clearbody q ow. clear Hal.
  destruct (N.ltb_spec (sl * L) (c_off c)); [lia|].
  destruct (N.eqb_spec (N.min n (sl * L - c_off c)) 0) as [|Hmax]; [exact I|].
  assert (HqL : q < L).
  { destruct (N.lt_ge_cases q L) as [|Hge]; [assumption|exfalso].
    assert (sl * L <= sl * q) by (apply N.mul_le_mono_l; assumption). lia. }
  assert (Hroom : sl * (q + 1) <= sl * L) by (apply N.mul_le_mono_l; lia).
  destruct (nthN (c_ids c) q) as [sid|] eqn:Hnth.
  2:{ apply nthN_None_ge in Hnth. fold L in Hnth. lia. }
  set (k := N.min (N.min n (sl * L - c_off c)) (sl - ow)).
  unfold bind at 1.
  destruct (sector_read_exact_spec sid ow k s) as (r & -> & Hr); [fold sl; lia|].
  destruct r; try contradiction; cbv beta iota; [|exact I].
  assert (Hk : k = N.min (N.min n (sl * L - c_off c)) (sl - ow)) by reflexivity.
  clearbody k.
  assert (Hd : (n - k) / sl <= n / sl) by (apply N.div_le_mono; lia).
  apply chain_read_go_fine; [assumption| | | |]; unfold chain_len; cbn [c_off c_ids]; fold sl; fold L.
  - destruct (N.eq_dec k n); [left; lia|right].
    destruct (N.eq_dec k (sl - ow)); [exists (q + 1); lia|exists L; lia].
  - clear Hd Hf. lia.
  - lia.
  - intros _. set (d := (n - k) / sl) in *. set (d' := n / sl) in *. lia.
Qed.

Theorem chain_read_exact_fine_gen c n s :
  c_off c <= chain_len (slen s) c -> fine (snd (chain_read_exact c n s)).
Proof.
  intros H. unfold chain_read_exact, bind at 1, get at 1. cbv beta iota.
  apply chain_read_go_fine_gen; [assumption|].
  generalize (N.to_nat (n / slen s)). intros; lia.
Qed.

(* ------------------------------------------------------------------ *)
Check difat_loop_total.
Check dir_loop_total.
Check dir_dfs_total.
Check dirent_decode_total.
Check header_decode_total.
Check open_total.
Check open_size_bound.
Check open_post.
Check open_then_walks_fine.
Check chain_read_exact_fine_gen.
Print Assumptions difat_loop_total.
Print Assumptions dir_loop_total.
Print Assumptions dir_dfs_total.
Print Assumptions dirent_decode_total.
Print Assumptions header_decode_total.
Print Assumptions open_total.
Print Assumptions open_size_bound.
Print Assumptions open_post.
Print Assumptions open_then_walks_fine.
Print Assumptions chain_read_exact_fine_gen.
