(* OpenTotal.v — open_model never returns Panic or OutOfFuel, for every byte
   string: the decoders, the DIFAT / directory / DFS loops with the fuel that
   open_model passes, and the MiniFAT chain read. *)
From Coq Require Import List NArith Bool Lia ZifyN ZifyBool Arith.
From Cfb.model Require Import Base Names DirEnt State Alloc Dir Mini Open.
From Cfb.gen Require Import Consts.
From Cfb.proofs Require Import WalkProofs.
Import ListNotations.
Open Scope N_scope.

Ltac Zify.zify_post_hook ::= Z.div_mod_to_equations.

(* ------------------------------------------------------------------ *)
(* lengths of the N-indexed list operations *)
Lemma lenN_takeN {A} (l : list A) : forall n, lenN (takeN n l) = N.min n (lenN l).
Proof.
  induction l as [|x t IH]; intros n; cbn [takeN lenN]; [lia|].
  destruct (N.eqb_spec n 0) as [->|Hn]; cbn [lenN]; [lia|]. rewrite IH. lia.
Qed.

Lemma lenN_dropN {A} (l : list A) : forall n, lenN (dropN n l) = lenN l - n.
Proof.
  induction l as [|x t IH]; intros n; cbn [dropN lenN]; [lia|].
  destruct (N.eqb_spec n 0) as [->|Hn]; cbn [lenN]; [lia|]. rewrite IH. lia.
Qed.

Lemma lenN_u32s_aux : forall (k : nat) (bs : list byte),
  (length bs <= k)%nat -> lenN (u32s bs) = lenN bs / 4.
Proof.
  induction k as [|k IH]; intros bs Hk.
  - destruct bs; [reflexivity|cbn in Hk; lia].
  - destruct bs as [|a [|b [|c [|d t]]]]; try reflexivity.
    cbn [u32s lenN]. rewrite IH by (cbn [length] in Hk; lia). lia.
Qed.
Lemma lenN_u32s bs : lenN (u32s bs) = lenN bs / 4.
Proof. apply (lenN_u32s_aux (length bs)). lia. Qed.

Lemma lenN_u16s_aux : forall (k : nat) (bs : list byte),
  (length bs <= k)%nat -> lenN (u16s bs) = lenN bs / 2.
Proof.
  induction k as [|k IH]; intros bs Hk.
  - destruct bs; [reflexivity|cbn in Hk; lia].
  - destruct bs as [|a [|b t]]; try reflexivity.
    cbn [u16s lenN]. rewrite IH by (cbn [length] in Hk; lia). lia.
Qed.
Lemma lenN_u16s bs : lenN (u16s bs) = lenN bs / 2.
Proof. apply (lenN_u16s_aux (length bs)). lia. Qed.

Lemma sector_len_cases v : sector_len v = 512 \/ sector_len v = 4096.
Proof. destruct v; [left|right]; reflexivity. Qed.

(* ------------------------------------------------------------------ *)
(* O4: the decoders *)
Lemma validate_name_fine nm : fine (validate_name nm).
Proof.
  unfold validate_name. cbv zeta.
  destruct (_ <? _); [exact I|]. destruct (existsb _ _); exact I.
Qed.

Ltac fine_if :=
  match goal with
  | |- fine (if ?c then _ else _) => destruct c eqn:?; [try exact I|try exact I]
  end.

Theorem dirent_decode_fine v strict bs : fine (dirent_decode v strict bs).
Proof.
  unfold dirent_decode. cbv zeta.
  destruct (N.ltb_spec (lenN bs) DIR_ENTRY_LEN) as [|Hlen]; [exact I|].
  destruct (N.ltb_spec 64 (le_val (takeN 2 (dropN 64 bs)))) as [|H64]; [exact I|].
  fine_if.
  match goal with |- fine (match nthN ?l ?i with _ => _ end) => destruct (nthN l i) as [term|] eqn:Hnth end.
  2:{ apply nthN_None_ge in Hnth. rewrite lenN_u16s, lenN_takeN in Hnth.
      unfold DIR_ENTRY_LEN in Hlen.
      destruct (0 <? le_val (takeN 2 (dropN 64 bs))); lia. }
  fine_if.
  destruct (from_utf16 _) as [nm0|]; [|exact I].
  destruct (nthN bs 66) as [tb|]; [|exact I].
  destruct (objtype_of_byte tb) as [ty|]; [|exact I].
  apply fine_rbind.
  { destruct (objtype_eqb ty TRoot).
    - destruct (list_eqb _ _ _); [exact I|]. destruct strict; exact I.
    - apply fine_rbind; [apply validate_name_fine|]. intros; exact I. }
  intros nm _.
  destruct (nthN bs 67) as [cb|]; [|exact I].
  destruct (color_of_byte cb) as [col|]; [|exact I].
  repeat fine_if.
Qed.

Lemma hdr_difat_go_fine cells : fine (hdr_difat_go cells).
Proof.
  induction cells as [|c t IH]; [exact I|]. cbn [hdr_difat_go].
  destruct (c =? FREE_SECTOR); [exact I|]. destruct (_ <? c); [exact I|].
  apply fine_rbind; [exact IH|]. intros; exact I.
Qed.

Theorem header_decode_fine strict bs : fine (header_decode strict bs).
Proof.
  unfold header_decode. cbv zeta.
  repeat fine_if.
  destruct (version_of_number _) as [v|]; [|exact I].
  repeat fine_if.
  apply fine_rbind; [apply hdr_difat_go_fine|]. intros; exact I.
Qed.

Theorem dirent_decode_total v strict bs :
  dirent_decode v strict bs <> OutOfFuel /\ (forall p, dirent_decode v strict bs <> Panic p).
Proof. apply fine_iff, dirent_decode_fine. Qed.

Theorem header_decode_total strict bs :
  header_decode strict bs <> OutOfFuel /\ (forall p, header_decode strict bs <> Panic p).
Proof. apply fine_iff, header_decode_fine. Qed.

(* ------------------------------------------------------------------ *)
(* reading a sector as u32 cells *)
Lemma lenN_img_read im idx off n : lenN (img_read im idx off n) <= n.
Proof. unfold img_read. destruct (nthN im idx); [rewrite lenN_takeN; lia|cbn; lia]. Qed.

Lemma read_sector_u32s_fine im sl sid count : fine (read_sector_u32s im sl sid count).
Proof. unfold read_sector_u32s. cbv zeta. destruct (_ <? _); exact I. Qed.

Lemma read_sector_u32s_len im sl sid count cells :
  read_sector_u32s im sl sid count = Ok cells -> lenN cells = count.
Proof.
  unfold read_sector_u32s. cbv zeta.
  pose proof (lenN_img_read im (sid + 1) 0 (4 * count)) as Hle.
  destruct (N.ltb_spec (lenN (img_read im (sid + 1) 0 (4 * count))) (4 * count)); [discriminate|].
  intros [= <-]. rewrite lenN_u32s. set (x := lenN _) in *. lia.
Qed.

Lemma check_difat_cells_fine cells : fine (check_difat_cells cells).
Proof.
  induction cells as [|c t IH]; [exact I|]. cbn [check_difat_cells].
  destruct (_ && _); [exact I|exact IH].
Qed.

(* ------------------------------------------------------------------ *)
(* O1: the DIFAT chain walk.  [4 <= sl] is needed: with sl < 4 the model reads
   zero cells and Panic 801 is reached; sector_len is 512 or 4096. *)
Lemma difat_loop_fine strict im sl ns : 4 <= sl ->
  forall f cur seen ids d,
  NoDup seen -> Forall (fun x => x < ns) seen ->
  (N.to_nat ns + 1 <= length seen + f)%nat ->
  fine (difat_loop f strict im sl ns cur seen ids d).
Proof.
  intros Hsl. induction f as [|f IH]; intros cur seen ids d Hnd Hall Hf.
  - pose proof (bounded_nodup_length _ _ Hnd Hall). lia.
  - cbn [difat_loop].
    destruct (_ || _); [exact I|].
    destruct (_ <? cur); [exact I|].
    destruct (N.leb_spec ns cur); [exact I|].
    destruct (memN cur seen) eqn:Hmem; [exact I|]. apply memN_false in Hmem.
    apply fine_rbind; [apply read_sector_u32s_fine|]. intros cells Hcells.
    apply read_sector_u32s_len in Hcells. cbv zeta.
    apply fine_rbind; [apply check_difat_cells_fine|]. intros _ _.
    destruct (nthN cells (sl / 4 - 1)) as [nx|] eqn:Hnth.
    2:{ apply nthN_None_ge in Hnth. lia. }
    destruct (_ && _); [exact I|].
    apply IH; [constructor; assumption|constructor; assumption|cbn [length]; lia].
Qed.

Theorem difat_loop_total strict im sl ns cur d : 4 <= sl ->
  difat_loop (S (S (N.to_nat ns))) strict im sl ns cur [] [] d <> OutOfFuel /\
  (forall p, difat_loop (S (S (N.to_nat ns))) strict im sl ns cur [] [] d <> Panic p).
Proof.
  intros Hsl. apply fine_iff. apply difat_loop_fine; [assumption|constructor|constructor|cbn; lia].
Qed.

(* ------------------------------------------------------------------ *)
(* O2: the directory chain walk *)
Lemma read_dirents_fine v strict : forall n bs, fine (read_dirents v strict n bs).
Proof.
  induction n as [|n IH]; intros bs; [exact I|]. cbn [read_dirents].
  apply fine_rbind; [apply dirent_decode_fine|]. intros e _.
  apply fine_rbind; [apply IH|]. intros; exact I.
Qed.

Lemma dir_loop_fine strict v num_dir im ns fat :
  forall f cur count seen acc,
  NoDup seen -> Forall (fun x => x < ns) seen ->
  (N.to_nat ns + 1 <= length seen + f)%nat ->
  fine (dir_loop f strict v num_dir im ns fat cur count seen acc).
Proof.
  induction f as [|f IH]; intros cur count seen acc Hnd Hall Hf.
  - pose proof (bounded_nodup_length _ _ Hnd Hall). lia.
  - cbn [dir_loop].
    destruct (cur =? END_OF_CHAIN); [exact I|].
    destruct (_ && _); [exact I|].
    destruct (_ <? cur); [exact I|].
    destruct (N.leb_spec ns cur); [exact I|].
    destruct (memN cur seen) eqn:Hmem; [exact I|]. apply memN_false in Hmem.
    cbv zeta.
    apply fine_rbind; [apply read_dirents_fine|]. intros es _.
    apply fine_rbind; [apply next_of_fine|]. intros nx _.
    apply IH; [constructor; assumption|constructor; assumption|cbn [length]; lia].
Qed.

Theorem dir_loop_total strict v num_dir im ns fat cur count :
  dir_loop (S (S (N.to_nat ns))) strict v num_dir im ns fat cur count [] [] <> OutOfFuel /\
  (forall p, dir_loop (S (S (N.to_nat ns))) strict v num_dir im ns fat cur count [] [] <> Panic p).
Proof.
  apply fine_iff. apply dir_loop_fine; [constructor|constructor|cbn; lia].
Qed.

(* ------------------------------------------------------------------ *)
(* O3: the red-black tree DFS *)
Definition stack_ok (ds : list dirent) (st : list (N * bool)) : Prop :=
  Forall (fun p => fst p < lenN ds) st.

Lemma dir_entry_of_lt ds id : id < lenN ds -> exists e, dir_entry_of ds id = Ok e.
Proof.
  intros H. unfold dir_entry_of. destruct (nthN_lt_Some ds id H) as [e ->]. eauto.
Qed.

Lemma dir_dfs_fine strict ds :
  forall f stack visited,
  stack_ok ds stack -> NoDup visited -> Forall (fun x => x < lenN ds) visited ->
  (length ds + 1 <= length visited + f)%nat ->
  fine (dir_dfs f strict ds stack visited).
Proof.
  induction f as [|f IH]; intros stack visited Hst Hnd Hall Hf.
  - pose proof (bounded_nodup_length _ _ Hnd Hall) as H. rewrite lenN_length in H. lia.
  - cbn [dir_dfs]. destruct stack as [|[id pr] rest]; [exact I|].
    inversion Hst as [|? ? Hid Hrest]; subst. cbn [fst] in Hid.
    destruct (memN id visited) eqn:Hmem; [exact I|]. apply memN_false in Hmem.
    destruct (dir_entry_of_lt ds id Hid) as [e ->]. cbn [rbind].
    match goal with |- fine (if ?c then _ else _) => destruct c end; [exact I|].
    cbv zeta.
    match goal with |- fine (if ?c then _ else _) => destruct c end; [exact I|].
    assert (Hv : NoDup (id :: visited)) by (constructor; assumption).
    assert (Hb : Forall (fun x => x < lenN ds) (id :: visited)) by (constructor; assumption).
    assert (Hfu : (length ds + 1 <= length (id :: visited) + f)%nat) by (cbn [length]; lia).
    (* left *)
    apply fine_rbind.
    { destruct (_ =? NO_STREAM); [exact I|]. destruct (N.leb_spec (lenN ds) (d_left e)); [exact I|].
      destruct (dir_entry_of_lt ds (d_left e)) as [le ->]; [assumption|]. cbn [rbind].
      destruct (cmp_names _ _); exact I. }
    intros st1 H1.
    assert (Hst1 : stack_ok ds st1).
    { revert H1. destruct (_ =? NO_STREAM); [intros [= <-]; exact Hrest|].
      destruct (N.leb_spec (lenN ds) (d_left e)); [discriminate|].
      destruct (dir_entry_of_lt ds (d_left e)) as [le ->]; [assumption|]. cbn [rbind].
      destruct (cmp_names _ _); try discriminate. intros [= <-]. constructor; assumption. }
    clear H1.
    (* right *)
    apply fine_rbind.
    { destruct (_ =? NO_STREAM); [exact I|]. destruct (N.leb_spec (lenN ds) (d_right e)); [exact I|].
      destruct (dir_entry_of_lt ds (d_right e)) as [re ->]; [assumption|]. cbn [rbind].
      destruct (cmp_names _ _); exact I. }
    intros st2 H2.
    assert (Hst2 : stack_ok ds st2).
    { revert H2. destruct (_ =? NO_STREAM); [intros [= <-]; exact Hst1|].
      destruct (N.leb_spec (lenN ds) (d_right e)); [discriminate|].
      destruct (dir_entry_of_lt ds (d_right e)) as [re ->]; [assumption|]. cbn [rbind].
      destruct (cmp_names _ _); try discriminate. intros [= <-]. constructor; assumption. }
    clear H2.
    (* child *)
    apply fine_rbind.
    { destruct (_ =? NO_STREAM); [exact I|]. destruct (_ <=? _); exact I. }
    intros st3 H3.
    assert (Hst3 : stack_ok ds st3).
    { revert H3. destruct (_ =? NO_STREAM); [intros [= <-]; exact Hst2|].
      destruct (N.leb_spec (lenN ds) (d_child e)); [discriminate|].
      intros [= <-]. constructor; assumption. }
    apply IH; assumption.
Qed.

Theorem dir_dfs_total strict ds : ds <> [] ->
  dir_dfs (S (S (length ds))) strict ds [(ROOT_STREAM_ID, false)] [] <> OutOfFuel /\
  (forall p, dir_dfs (S (S (length ds))) strict ds [(ROOT_STREAM_ID, false)] [] <> Panic p).
Proof.
  intros Hne. apply fine_iff. apply dir_dfs_fine; [|constructor|constructor|cbn; lia].
  constructor; [|constructor]. cbn [fst]. destruct ds; [contradiction|].
  cbn [lenN]. unfold ROOT_STREAM_ID. lia.
Qed.

Lemma dir_validate_fine strict ds : fine (dir_validate strict ds).
Proof.
  unfold dir_validate. destruct ds as [|root t] eqn:E; [exact I|].
  destruct (negb _); [exact I|]. rewrite <- E.
  apply fine_iff. apply dir_dfs_total. congruence.
Qed.
