(* HandleFrame.v — property C07: an operation through a stream handle changes
   only that stream's bytes and length.

   Part A (unconditional, every outcome, every store case):
     the cached directory table after ANY handle operation on the handle of
     stream [id] differs from the table before at most in the entries [id] and
     ROOT (the root entry records the mini stream: start sector and size), and
     in those two entries at most in the start sector and the length; the
     other handles of the table of open handles are untouched.
   Part B (the store cases of StoreProofs / StoreMiniProofs): every other
     stream keeps its content, AllStreamsWf is preserved, the root entry is
     unchanged too.
   Part C: the abstract tree (TreeRep) after the operation is the tree before
     with the leaf of the stream replaced. *)
From Coq Require Import List NArith ZArith Lia Bool ZifyN ZifyBool.
From Cfb.model Require Import Base Names Time DirEnt State Alloc Dir Mini Store Handle Open Cfb.
From Cfb.gen Require Import Consts.
From Cfb.spec Require Tree.
From Cfb.proofs Require Import ChainProofs ReuseProofs DirProofs.
From Cfb.proofs Require StoreProofs StoreMiniProofs MiniChainProofs QueryRefine MutRefine.
Import ListNotations.
Open Scope N_scope.

(* ================================================================== *)
(* A.1  the relation between directory tables                          *)
(* ================================================================== *)

(* [e'] is [e] except possibly for start sector and length: name, type, colour,
   the three links, CLSID, state bits and both timestamps are the same *)
Definition same_meta_ent (e e' : dirent) : Prop :=
  e' = set_start_len e (d_start e') (d_len e').

Lemma same_meta_ent_fields : forall e e', same_meta_ent e e' ->
  d_name e' = d_name e /\ d_type e' = d_type e /\ d_color e' = d_color e /\
  d_left e' = d_left e /\ d_right e' = d_right e /\ d_child e' = d_child e /\
  d_clsid e' = d_clsid e /\ d_state e' = d_state e /\
  d_ctime e' = d_ctime e /\ d_mtime e' = d_mtime e.
Proof. intros e e' H. rewrite H. cbn. repeat split. Qed.

Lemma same_meta_ent_refl : forall e, same_meta_ent e e.
Proof. intros []. reflexivity. Qed.

Lemma same_meta_ent_trans : forall a b c,
  same_meta_ent a b -> same_meta_ent b c -> same_meta_ent a c.
Proof.
  intros a b c H1 H2. unfold same_meta_ent in *. rewrite H2 at 1. rewrite H1 at 1. reflexivity.
Qed.

Lemma same_meta_ent_set : forall e st ln, same_meta_ent e (set_start_len e st ln).
Proof. intros. reflexivity. Qed.

(* [DF P ds ds']: the tables have the same slots; a slot outside [P] holds the
   same entry, a slot inside [P] an entry with the same metadata *)
Definition DF (P : N -> bool) (ds ds' : list dirent) : Prop :=
  lenN ds' = lenN ds /\
  forall j e, nthN ds j = Some e ->
    exists e', nthN ds' j = Some e' /\
      if P j then same_meta_ent e e' else e' = e.

Lemma DF_refl : forall P ds, DF P ds ds.
Proof.
  intros P ds. split; [reflexivity|]. intros j e H. exists e. split; [exact H|].
  destruct (P j); [apply same_meta_ent_refl|reflexivity].
Qed.

Lemma DF_trans : forall P a b c, DF P a b -> DF P b c -> DF P a c.
Proof.
  intros P a b c [L1 H1] [L2 H2]. split; [congruence|].
  intros j e He. destruct (H1 j e He) as (e1 & He1 & R1).
  destruct (H2 j e1 He1) as (e2 & He2 & R2). exists e2. split; [exact He2|].
  destruct (P j); [eapply same_meta_ent_trans; eassumption|congruence].
Qed.

Lemma DF_other : forall P ds ds' j, DF P ds ds' -> P j = false -> nthN ds' j = nthN ds j.
Proof.
  intros P ds ds' j [L H] Hj. destruct (nthN ds j) as [e|] eqn:E.
  - destruct (H j e E) as (e' & He' & R). rewrite Hj in R. congruence.
  - apply nthN_None_ge in E. destruct (nthN ds' j) as [e'|] eqn:E'; [|reflexivity].
    apply nthN_Some_lt in E'. lia.
Qed.

Lemma DF_weaken : forall (P Q : N -> bool) ds ds',
  (forall j, P j = true -> Q j = true) -> DF P ds ds' -> DF Q ds ds'.
Proof.
  intros P Q ds ds' HPQ [L H]. split; [exact L|]. intros j e He.
  destruct (H j e He) as (e' & He' & R). exists e'. split; [exact He'|].
  destruct (P j) eqn:EP.
  - rewrite (HPQ j EP). exact R.
  - subst e'. destruct (Q j); [apply same_meta_ent_refl|reflexivity].
Qed.

Lemma DF_upd : forall (P : N -> bool) ds j e st ln,
  nthN ds j = Some e -> P j = true -> DF P ds (updN ds j (set_start_len e st ln)).
Proof.
  intros P ds j e st ln He Pj. split; [apply lenN_updN|].
  intros i ei Hi. destruct (N.eq_dec i j) as [->|Hne].
  - rewrite nthN_updN_same by (eapply nthN_Some_lt; exact He).
    eexists. split; [reflexivity|]. rewrite Pj. assert (ei = e) by congruence. subst ei.
    apply same_meta_ent_set.
  - rewrite nthN_updN_other by lia. exists ei. split; [exact Hi|].
    destruct (P i); [apply same_meta_ent_refl|reflexivity].
Qed.

(* ================================================================== *)
(* A.2  computations that keep the table within DF, in every outcome   *)
(* ================================================================== *)

Definition framesR {A} (P : N -> bool) (m : M A) : Prop :=
  forall s, DF P (dirs s) (dirs (fst (m s))).

Lemma framesR_run : forall A P (m : M A) s s' r,
  framesR P m -> m s = (s', r) -> DF P (dirs s) (dirs s').
Proof. intros A P m s s' r F H. specialize (F s). rewrite H in F. exact F. Qed.

Lemma framesR_of_frames : forall A P (m : M A), frames m -> framesR P m.
Proof. intros A P m F s. rewrite (F s). apply DF_refl. Qed.

Lemma framesR_bind : forall A B P (m : M A) (f : A -> M B),
  framesR P m -> (forall a, framesR P (f a)) -> framesR P (bind m f).
Proof.
  intros A B P m f Hm Hf s. unfold bind. specialize (Hm s). destruct (m s) as [s1 r].
  cbn [fst] in Hm. destruct r; cbn [fst]; try exact Hm.
  eapply DF_trans; [exact Hm|apply Hf].
Qed.

Lemma framesR_get_bind : forall B P (f : cstate -> M B),
  (forall s0, DF P (dirs s0) (dirs (fst (f s0 s0)))) -> framesR P (bind get f).
Proof. intros B P f H s0. unfold bind, get. apply H. Qed.

Lemma frames_get_bind : forall B (f : cstate -> M B),
  (forall s0, dirs (fst (f s0 s0)) = dirs s0) -> frames (bind get f).
Proof. intros B f H s0. unfold bind, get. apply H. Qed.

Lemma framesR_weaken : forall A (P Q : N -> bool) (m : M A),
  (forall j, P j = true -> Q j = true) -> framesR P m -> framesR Q m.
Proof. intros A P Q m H F s. eapply DF_weaken; [exact H|apply F]. Qed.

Create HintDb framesR.

Ltac frr_step :=
  match goal with
  | |- framesR _ (bind _ _) => apply framesR_bind; [|intros]
  | |- framesR _ (match ?x with _ => _ end) => destruct x
  | |- framesR _ _ => solve [auto with framesR]
  | |- framesR _ _ => apply framesR_of_frames; solve [fr]
  end.
Ltac frr := intros; repeat frr_step.

(* ---- the rest of Alloc.v / Mini.v: the table is not touched at all ---- *)
Lemma frames_free_sector : forall sid, frames (free_sector sid).
Proof. unfold free_sector. fr. Qed.
#[local] Hint Resolve frames_free_sector : frames.
Lemma frames_free_chain_go : forall fuel sid, frames (free_chain_go fuel sid).
Proof. induction fuel as [|f IH]; intros sid; cbn [free_chain_go]; fr. Qed.
#[local] Hint Resolve frames_free_chain_go : frames.
Lemma frames_free_chain : forall start, frames (free_chain start).
Proof. unfold free_chain. fr. Qed.
#[local] Hint Resolve frames_free_chain : frames.
Lemma frames_free_chain_after : forall sid, frames (free_chain_after sid).
Proof. unfold free_chain_after. fr. Qed.
#[local] Hint Resolve frames_free_chain_after : frames.
Lemma frames_chain_grow : forall n c, frames (chain_grow n c).
Proof. induction n as [|n IH]; intros c; cbn [chain_grow]; fr. Qed.
#[local] Hint Resolve frames_chain_grow : frames.
Lemma frames_chain_set_len : forall c n, frames (chain_set_len c n).
Proof. unfold chain_set_len. fr. Qed.
#[local] Hint Resolve frames_chain_set_len : frames.
Lemma frames_sector_read_exact : forall sid off n, frames (sector_read_exact sid off n).
Proof. unfold sector_read_exact. fr. Qed.
#[local] Hint Resolve frames_sector_read_exact : frames.
Lemma frames_chain_read_go : forall fuel c n acc, frames (chain_read_go fuel c n acc).
Proof. induction fuel as [|f IH]; intros c n acc; cbn [chain_read_go]; fr. Qed.
#[local] Hint Resolve frames_chain_read_go : frames.
Lemma frames_chain_read_exact : forall c n, frames (chain_read_exact c n).
Proof. unfold chain_read_exact. fr. Qed.
#[local] Hint Resolve frames_chain_read_exact : frames.
Lemma frames_zero_fill_chain : forall c a b, frames (zero_fill_chain c a b).
Proof. unfold zero_fill_chain. fr. Qed.
#[local] Hint Resolve frames_zero_fill_chain : frames.

Lemma frames_next_mini : forall ms, frames (next_mini ms).
Proof. unfold next_mini. fr. Qed.
#[local] Hint Resolve frames_next_mini : frames.
Lemma frames_mchain_new : forall st, frames (mchain_new st).
Proof. unfold mchain_new. fr. Qed.
#[local] Hint Resolve frames_mchain_new : frames.
Lemma frames_mchain_seek : forall c pos, frames (mchain_seek c pos).
Proof. unfold mchain_seek. fr. Qed.
#[local] Hint Resolve frames_mchain_seek : frames.
Lemma frames_root_entry : frames root_entry.
Proof. unfold root_entry. fr. Qed.
#[local] Hint Resolve frames_root_entry : frames.
Lemma frames_mini_locate : forall ms off, frames (mini_locate ms off).
Proof. unfold mini_locate. fr. Qed.
#[local] Hint Resolve frames_mini_locate : frames.
Lemma frames_set_minifat : forall i v, frames (set_minifat i v).
Proof. unfold set_minifat. fr. Qed.
#[local] Hint Resolve frames_set_minifat : frames.
Lemma frames_mchain_read_go : forall fuel c n acc, frames (mchain_read_go fuel c n acc).
Proof. induction fuel as [|f IH]; intros c n acc; cbn [mchain_read_go]; fr. Qed.
#[local] Hint Resolve frames_mchain_read_go : frames.
Lemma frames_mchain_read_exact : forall c n, frames (mchain_read_exact c n).
Proof. unfold mchain_read_exact. fr. Qed.
#[local] Hint Resolve frames_mchain_read_exact : frames.

Lemma frames_pop_free_mini : forall fuel, frames (pop_free_mini fuel).
Proof.
  induction fuel as [|f IH]; cbn [pop_free_mini]; [fr|].
  apply frames_get_bind. intros s0. destruct (lastN (mfree s0)) as [idx|]; [|reflexivity].
  unfold bind at 1, put at 1. cbv beta iota.
  destruct (nthN (minifat s0) idx) as [v|]; [|reflexivity].
  destruct (v =? FREE_SECTOR); [reflexivity|]. rewrite IH. reflexivity.
Qed.
#[local] Hint Resolve frames_pop_free_mini : frames.

Lemma frames_stream_entry : forall id, frames (stream_entry id).
Proof. unfold stream_entry. fr. Qed.
#[local] Hint Resolve frames_stream_entry : frames.
Lemma frames_stream_len_of : forall id, frames (stream_len_of id).
Proof. unfold stream_len_of. fr. Qed.
#[local] Hint Resolve frames_stream_len_of : frames.

(* the store reads nothing but the image: read_data changes no cached table *)
Theorem frames_read_data : forall id off n, frames (read_data id off n).
Proof. unfold read_data. fr. Qed.
#[local] Hint Resolve frames_read_data : frames.

(* ---- the two writers of the table ---- *)
Lemma framesR_wdem_inner : forall (P : N -> bool) j (g1 g2 : dirent -> N),
  P j = true ->
  framesR P (with_dir_entry_mut_inner j (fun e => set_start_len e (g1 e) (g2 e))).
Proof.
  intros P j g1 g2 Pj. unfold with_dir_entry_mut_inner.
  intros s. unfold bind at 1. unfold dir_entry at 1. unfold bind at 1, get at 1.
  destruct (nthN (dirs s) j) as [e|] eqn:He; [|apply DF_refl].
  unfold ret at 1. cbv beta iota.
  unfold bind at 1. unfold set_dir_entry at 1. unfold bind at 1, get at 1. rewrite He.
  unfold put at 1. cbv beta iota.
  pose proof (frames_write_dir_entry j
                (w_dirs s (updN (dirs s) j (set_start_len e (g1 e) (g2 e))))) as F.
  rewrite F. cbn [dirs w_dirs]. apply DF_upd; assumption.
Qed.

(* a failed call puts the table back *)
Lemma framesR_wdem : forall (P : N -> bool) j (g1 g2 : dirent -> N),
  P j = true ->
  framesR P (with_dir_entry_mut j (fun e => set_start_len e (g1 e) (g2 e))).
Proof.
  intros P j g1 g2 Pj s. pose proof (framesR_wdem_inner P j g1 g2 Pj s) as F.
  unfold with_dir_entry_mut.
  destruct (with_dir_entry_mut_inner j (fun e => set_start_len e (g1 e) (g2 e)) s) as [s1 [u| | |]];
    cbn [fst dirs w_dirs] in *; first [exact F | apply DF_refl].
Qed.

Definition PR (id : N) : N -> bool := fun j => (j =? id) || (j =? ROOT_STREAM_ID).
Lemma PR_root : forall id, PR id ROOT_STREAM_ID = true.
Proof. intros. unfold PR. rewrite N.eqb_refl. apply orb_true_r. Qed.
Lemma PR_id : forall id, PR id id = true.
Proof. intros. unfold PR. rewrite N.eqb_refl. reflexivity. Qed.

Section MiniFrames.
Variable P : N -> bool.
Hypothesis Proot : P ROOT_STREAM_ID = true.

Lemma framesR_append_mini_sector : framesR P append_mini_sector.
Proof.
  unfold append_mini_sector. frr.
  match goal with
  | |- framesR _ (with_dir_entry_mut _ (fun e => set_start_len e ?st _)) =>
    apply (framesR_wdem P ROOT_STREAM_ID (fun _ => st) (fun e => d_len e + MINI_SECTOR_LEN) Proot)
  end.
Qed.
Hint Resolve framesR_append_mini_sector : framesR.

Lemma framesR_allocate_mini_sector : forall v, framesR P (allocate_mini_sector v).
Proof. unfold allocate_mini_sector. frr. Qed.
Hint Resolve framesR_allocate_mini_sector : framesR.

Lemma framesR_extend_mini_chain : forall st, framesR P (extend_mini_chain st).
Proof. unfold extend_mini_chain, begin_mini_chain. frr. Qed.
Hint Resolve framesR_extend_mini_chain : framesR.

Lemma framesR_begin_mini_chain : framesR P begin_mini_chain.
Proof. unfold begin_mini_chain. frr. Qed.
Hint Resolve framesR_begin_mini_chain : framesR.

Lemma framesR_free_mini_sector : forall ms, framesR P (free_mini_sector ms).
Proof.
  intros ms. unfold free_mini_sector.
  apply framesR_bind; [frr|intros s1].
  destruct (nthN (minifat s1) ms) as [v|]; [|frr].
  destruct (v =? FREE_SECTOR); [frr|].
  apply framesR_bind; [frr|intros _].
  apply framesR_bind; [frr|intros _].
  apply framesR_bind; [frr|intros r].
  apply framesR_bind; [frr|intros _].
  apply framesR_get_bind. intros s0.
  destruct (strip_free (minifat s0) 0) as [mf' k].
  unfold bind at 1, put at 1. cbv beta iota.
  match goal with |- DF _ _ (dirs (fst (?m ?s))) =>
    assert (F : framesR P m); [|exact (F s)] end.
  destruct (negb (d_len r - k * MINI_SECTOR_LEN =? d_len r)).
  - apply (framesR_wdem P ROOT_STREAM_ID (fun e => d_start e)
             (fun _ => d_len r - k * MINI_SECTOR_LEN) Proot).
  - apply framesR_of_frames. fr.
Qed.
Hint Resolve framesR_free_mini_sector : framesR.

Lemma framesR_free_mini_chain_go : forall fuel ms, framesR P (free_mini_chain_go fuel ms).
Proof. induction fuel as [|f IH]; intros ms; cbn [free_mini_chain_go]; frr. Qed.
Hint Resolve framesR_free_mini_chain_go : framesR.
Lemma framesR_free_mini_chain : forall st, framesR P (free_mini_chain st).
Proof. unfold free_mini_chain. frr. Qed.
Hint Resolve framesR_free_mini_chain : framesR.
Lemma framesR_free_mini_chain_after : forall ms, framesR P (free_mini_chain_after ms).
Proof. unfold free_mini_chain_after. frr. Qed.
Hint Resolve framesR_free_mini_chain_after : framesR.
Lemma framesR_mchain_grow : forall n c, framesR P (mchain_grow n c).
Proof. induction n as [|n IH]; intros c; cbn [mchain_grow]; frr. Qed.
Hint Resolve framesR_mchain_grow : framesR.
Lemma framesR_mchain_set_len : forall c n, framesR P (mchain_set_len c n).
Proof. unfold mchain_set_len. frr. Qed.
Hint Resolve framesR_mchain_set_len : framesR.
Lemma framesR_mchain_write_go : forall fuel c bs, framesR P (mchain_write_go fuel c bs).
Proof. induction fuel as [|f IH]; intros c bs; cbn [mchain_write_go]; frr. Qed.
Hint Resolve framesR_mchain_write_go : framesR.
Lemma framesR_mchain_write_all : forall c bs, framesR P (mchain_write_all c bs).
Proof. unfold mchain_write_all. frr. Qed.
Hint Resolve framesR_mchain_write_all : framesR.
Lemma framesR_zero_fill_mchain : forall c a b, framesR P (zero_fill_mchain c a b).
Proof. unfold zero_fill_mchain. frr. Qed.
Hint Resolve framesR_zero_fill_mchain : framesR.

Variable id : N.
Hypothesis Pid : P id = true.

Lemma framesR_update_entry : forall st ln, framesR P (update_entry id st ln).
Proof.
  intros st ln. unfold update_entry.
  apply (framesR_wdem P id (fun _ => st) (fun _ => ln) Pid).
Qed.
Hint Resolve framesR_update_entry : framesR.

Lemma framesR_write_data_gen : forall off buf, framesR P (write_data id off buf).
Proof. unfold write_data. frr. Qed.

Lemma framesR_resize_gen : forall n, framesR P (resize id n).
Proof. unfold resize. frr. Qed.
End MiniFrames.

(* C07, the table, store level: whatever [write_data] / [resize] on stream [id]
   do and however they end (Ok, Err, Panic), the table afterwards differs at
   most in entries [id] and ROOT, and there at most in start sector / length *)
Theorem framesR_write_data : forall id off buf, framesR (PR id) (write_data id off buf).
Proof. intros. apply framesR_write_data_gen; [apply PR_root|apply PR_id]. Qed.
Theorem framesR_resize : forall id n, framesR (PR id) (resize id n).
Proof. intros. apply framesR_resize_gen; [apply PR_root|apply PR_id]. Qed.

(* ================================================================== *)
(* A.3  the handle only ever calls the store on its own stream id      *)
(* ================================================================== *)
(* Stated semantically over the abstract store of Handle.v: take any family
   of preorders [R id] on store states such that each of the four store
   operations called with stream id [id] stays inside [R id]; then every
   handle operation on handle [h] stays inside [R (h_id h)], and the handle it
   leaves behind still names the same stream.  ("Every store call made by a
   handle operation is on id = h_id h": were any call made on another id, the
   lemma would fail for the family R id := "only id may change".) *)
Section HandleLift.
Variable St : Type.
Variable rd : N -> N -> N -> St -> St * res (list byte).
Variable wr : N -> N -> list byte -> St -> St * res unit.
Variable rs : N -> N -> St -> St * res unit.
Variable sl : N -> St -> St * res N.
Variable R : N -> St -> St -> Prop.
Hypothesis R_refl : forall id s, R id s s.
Hypothesis R_trans : forall id a b c, R id a b -> R id b c -> R id a c.
Hypothesis R_rd : forall id off n s, R id s (fst (rd id off n s)).
Hypothesis R_wr : forall id off bs s, R id s (fst (wr id off bs s)).
Hypothesis R_rs : forall id n s, R id s (fst (rs id n s)).
Hypothesis R_sl : forall id s, R id s (fst (sl id s)).

Ltac use_store :=
  match goal with
  | |- context [wr ?i ?o ?b ?s] =>
    let H := fresh "Hwr" in let s1 := fresh "s" in let r := fresh "r" in
    pose proof (R_wr i o b s) as H; destruct (wr i o b s) as [s1 r]; cbn [fst snd] in H
  | |- context [rs ?i ?n ?s] =>
    let H := fresh "Hrs" in let s1 := fresh "s" in let r := fresh "r" in
    pose proof (R_rs i n s) as H; destruct (rs i n s) as [s1 r]; cbn [fst snd] in H
  | |- context [rd ?i ?o ?n ?s] =>
    let H := fresh "Hrd" in let s1 := fresh "s" in let r := fresh "r" in
    pose proof (R_rd i o n s) as H; destruct (rd i o n s) as [s1 r]; cbn [fst snd] in H
  | |- context [sl ?i ?s] =>
    let H := fresh "Hsl" in let s1 := fresh "s" in let r := fresh "r" in
    pose proof (R_sl i s) as H; destruct (sl i s) as [s1 r]; cbn [fst snd] in H
  end.

Lemma flush_changes_R : forall h s,
  R (h_id h) s (fst (flush_changes St wr sl h s)) /\
  forall h1, snd (flush_changes St wr sl h s) = Ok h1 -> h_id h1 = h_id h.
Proof.
  intros h s. unfold flush_changes. destruct (h_dirty h).
  - use_store. destruct r; cbn [fst snd]; try (split; [exact Hwr|discriminate]).
    use_store. destruct r; cbn [fst snd];
      (split; [eapply R_trans; eassumption|]); try discriminate.
    intros h1 E. injection E as <-. reflexivity.
  - cbn [fst snd]. split; [apply R_refl|]. intros h1 E. injection E as <-. reflexivity.
Qed.

Ltac use_flush h s :=
  let HR := fresh "Hfl" in let Hid := fresh "Hid" in
  let s1 := fresh "s" in let r := fresh "r" in
  destruct (flush_changes_R h s) as [HR Hid];
  destruct (flush_changes St wr sl h s) as [s1 r]; cbn [fst snd] in HR, Hid.

Definition HM_ok {A} (h : handle) (m : HM St A) : Prop :=
  forall s, R (h_id h) s (fst (m s)) /\ h_id (fst (snd (m s))) = h_id h.

Lemma h_fill_buf_R : forall h, HM_ok h (h_fill_buf St rd wr sl h).
Proof.
  intros h s. unfold h_fill_buf.
  destruct (negb (b_pos (h_buf h) <? b_cap (h_buf h)) && (h_position h <? h_total h));
    [|cbn [fst snd]; split; [apply R_refl|reflexivity]].
  use_flush h s. destruct r as [h1| | |]; cbn [fst snd]; try (split; [exact Hfl|reflexivity]).
  specialize (Hid h1 eq_refl). cbv zeta. rewrite Hid.
  use_store. destruct r as [got| | |]; cbn [fst snd];
    try (split; [eapply R_trans; eassumption|reflexivity]).
  match goal with |- context [if ?c then _ else _] => destruct c end; cbn [fst snd];
    (split; [eapply R_trans; eassumption|]); [exact Hid|reflexivity].
Qed.

Lemma h_consume_id : forall h k, h_id (fst (h_consume h k)) = h_id h.
Proof.
  intros h k. unfold h_consume.
  destruct (b_cap (h_buf h) <? b_pos (h_buf h) + k); reflexivity.
Qed.

Lemma h_read_R : forall h n, HM_ok h (h_read St rd wr sl h n).
Proof.
  intros h n s. unfold h_read. destruct (h_fill_buf_R h s) as [H1 H2].
  destruct (h_fill_buf St rd wr sl h s) as [s1 [h1 r]]. cbn [fst snd] in H1, H2.
  destruct r as [avail| | |]; cbn [fst snd]; try (split; assumption).
  pose proof (h_consume_id h1 (lenN (takeN n avail))) as Hc.
  destruct (h_consume h1 (lenN (takeN n avail))) as [h2 c]. cbn [fst snd] in *.
  split; [exact H1|congruence].
Qed.

Lemma h_seek_R : forall h w z, HM_ok h (h_seek St wr sl h w z).
Proof.
  intros h w z s. unfold h_seek.
  destruct (seek_target h w z) as [np| | |]; cbn [fst snd]; try (split; [apply R_refl|reflexivity]).
  destruct ((np <? h_off h) || (h_off h + b_cap (h_buf h) <? np)).
  - use_flush h s. destruct r as [h1| | |]; cbn [fst snd]; try (split; [exact Hfl|reflexivity]).
    split; [exact Hfl|exact (Hid h1 eq_refl)].
  - cbv zeta. destruct (lenN (b_data (h_buf h)) <? np - h_off h); cbn [fst snd];
      (split; [apply R_refl|reflexivity]).
Qed.

Lemma h_write_R : forall h inp, HM_ok h (h_write St wr sl h inp).
Proof.
  intros h inp s. unfold h_write. cbv zeta.
  destruct (buf_write_bytes (h_buf h) inp) as [[[bf k]|]| | |]; cbn [fst snd];
    try (split; [apply R_refl|reflexivity]).
  - destruct (0 <? k); cbn [fst snd]; (split; [apply R_refl|reflexivity]).
  - use_flush h s. destruct r as [h1| | |]; cbn [fst snd]; try (split; [exact Hfl|reflexivity]).
    specialize (Hid h1 eq_refl).
    match goal with |- context [buf_write_bytes ?b inp] =>
      destruct (buf_write_bytes b inp) as [[[bf k]|]| | |] end; cbn [fst snd];
      try (split; [exact Hfl|exact Hid]).
    destruct (0 <? k); cbn [fst snd]; (split; [exact Hfl|exact Hid]).
Qed.

Lemma h_set_len_R : forall h n, HM_ok h (h_set_len St wr rs sl h n).
Proof.
  intros h n s. unfold h_set_len.
  destruct (n =? h_total h); cbn [fst snd]; [split; [apply R_refl|reflexivity]|].
  cbv zeta. use_flush h s.
  destruct r as [h1| | |]; cbn [fst snd]; try (split; [exact Hfl|reflexivity]).
  specialize (Hid h1 eq_refl). rewrite Hid.
  use_store. destruct r; cbn [fst snd].
  - split; [eapply R_trans; eassumption|reflexivity].
  - use_store. destruct r; cbn [fst snd];
      (split; [eapply R_trans; [exact Hfl|eapply R_trans; eassumption]|]); try exact Hid; reflexivity.
  - use_store. destruct r; cbn [fst snd];
      (split; [eapply R_trans; [exact Hfl|eapply R_trans; eassumption]|]); try exact Hid; reflexivity.
  - use_store. destruct r; cbn [fst snd];
      (split; [eapply R_trans; [exact Hfl|eapply R_trans; eassumption]|]); try exact Hid; reflexivity.
Qed.

Lemma h_flush_R : forall h, HM_ok h (h_flush St wr sl h).
Proof.
  intros h s. unfold h_flush. use_flush h s.
  destruct r as [h1| | |]; cbn [fst snd]; try (split; [exact Hfl|reflexivity]).
  split; [exact Hfl|exact (Hid h1 eq_refl)].
Qed.

End HandleLift.

(* ---- the same fact, literally: log the stream id of every store call ----
   Over an ARBITRARY store (any state type, any behaviour of the four
   operations) wrap each operation so that it also records the id it was
   called with.  After any handle operation on [h] the log has grown by calls
   on [h_id h] only. *)
Section CallLog.
Variable St0 : Type.
Variable rd0 : N -> N -> N -> St0 -> St0 * res (list byte).
Variable wr0 : N -> N -> list byte -> St0 -> St0 * res unit.
Variable rs0 : N -> N -> St0 -> St0 * res unit.
Variable sl0 : N -> St0 -> St0 * res N.

Definition LSt : Type := (St0 * list N)%type.
Definition lrd (id off n : N) (s : LSt) : LSt * res (list byte) :=
  ((fst (rd0 id off n (fst s)), id :: snd s), snd (rd0 id off n (fst s))).
Definition lwr (id off : N) (bs : list byte) (s : LSt) : LSt * res unit :=
  ((fst (wr0 id off bs (fst s)), id :: snd s), snd (wr0 id off bs (fst s))).
Definition lrs (id n : N) (s : LSt) : LSt * res unit :=
  ((fst (rs0 id n (fst s)), id :: snd s), snd (rs0 id n (fst s))).
Definition lsl (id : N) (s : LSt) : LSt * res N :=
  ((fst (sl0 id (fst s)), id :: snd s), snd (sl0 id (fst s))).

(* the log grew by calls on [id] only *)
Definition logR (id : N) (s s' : LSt) : Prop :=
  exists k, snd s' = k ++ snd s /\ Forall (fun j => j = id) k.

Lemma logR_refl : forall id s, logR id s s.
Proof. intros id s. exists []. split; [reflexivity|constructor]. Qed.
Lemma logR_trans : forall id a b c, logR id a b -> logR id b c -> logR id a c.
Proof.
  intros id a b c (k1 & E1 & F1) (k2 & E2 & F2). exists (k2 ++ k1). split.
  - rewrite E2, E1. apply app_assoc.
  - apply Forall_app. split; assumption.
Qed.
Lemma logR_one : forall id (s : LSt) x, logR id s (x, id :: snd s).
Proof. intros id s x. exists [id]. split; [reflexivity|repeat constructor]. Qed.

Theorem handle_calls_own_id : forall h s,
  logR (h_id h) s (fst (flush_changes LSt lwr lsl h s)) /\
  logR (h_id h) s (fst (h_fill_buf LSt lrd lwr lsl h s)) /\
  (forall n, logR (h_id h) s (fst (h_read LSt lrd lwr lsl h n s))) /\
  (forall w z, logR (h_id h) s (fst (h_seek LSt lwr lsl h w z s))) /\
  (forall inp, logR (h_id h) s (fst (h_write LSt lwr lsl h inp s))) /\
  (forall n, logR (h_id h) s (fst (h_set_len LSt lwr lrs lsl h n s))) /\
  logR (h_id h) s (fst (h_flush LSt lwr lsl h s)).
Proof.
  intros h s.
  assert (Xrd : forall id off n s, logR id s (fst (lrd id off n s))) by (intros; apply logR_one).
  assert (Xwr : forall id off bs s, logR id s (fst (lwr id off bs s))) by (intros; apply logR_one).
  assert (Xrs : forall id n s, logR id s (fst (lrs id n s))) by (intros; apply logR_one).
  assert (Xsl : forall id s, logR id s (fst (lsl id s))) by (intros; apply logR_one).
  split; [exact (proj1 (flush_changes_R LSt lwr lsl logR logR_refl logR_trans Xwr Xsl h s))|].
  split; [exact (proj1 (h_fill_buf_R LSt lrd lwr lsl logR logR_refl logR_trans Xrd Xwr Xsl h s))|].
  split; [intros n; exact (proj1 (h_read_R LSt lrd lwr lsl logR logR_refl logR_trans Xrd Xwr Xsl h n s))|].
  split; [intros w z; exact (proj1 (h_seek_R LSt lwr lsl logR logR_refl logR_trans Xwr Xsl h w z s))|].
  split; [intros inp; exact (proj1 (h_write_R LSt lwr lsl logR logR_refl logR_trans Xwr Xsl h inp s))|].
  split; [intros n; exact (proj1 (h_set_len_R LSt lwr lrs lsl logR logR_refl logR_trans Xwr Xrs Xsl h n s))|].
  exact (proj1 (h_flush_R LSt lwr lsl logR logR_refl logR_trans Xwr Xsl h s)).
Qed.
End CallLog.

(* ================================================================== *)
(* A.4  the step function on a handle operation                        *)
(* ================================================================== *)
Definition handle_slot (o : op) : option N :=
  match o with
  | OHRead i _ | OHFill i | OHConsume i _ | OHWrite i _ | OHSeek i _ _
  | OHSetLen i _ | OHFlush i | OHLen i | OHPos i | OHDrop i => Some i
  | _ => None
  end.
Definition is_handle_op (o : op) (i : N) : Prop := handle_slot o = Some i.

(* what a handle operation does to the file and to its own handle *)
Definition hop_run (o : op) (h : handle) (s : cstate) : cstate * option handle :=
  match o with
  | OHRead _ n => let x := h_read' h n s in (fst x, Some (fst (snd x)))
  | OHFill _ => let x := h_fill_buf' h s in (fst x, Some (fst (snd x)))
  | OHConsume _ k => (s, Some (fst (h_consume h k)))
  | OHWrite _ bs => let x := h_write' h bs s in (fst x, Some (fst (snd x)))
  | OHSeek _ w z => let x := h_seek' h w z s in (fst x, Some (fst (snd x)))
  | OHSetLen _ n => let x := h_set_len' h n s in (fst x, Some (fst (snd x)))
  | OHFlush _ => let x := h_flush' h s in (fst x, Some (fst (snd x)))
  | OHDrop _ => (fst (flush_changes' h s), None)
  | _ => (s, Some h)
  end.

Lemma with_handle_shape : forall A (m : handle -> HM cstate A) (k : A -> value) f i h f' r,
  nthN (hs f) i = Some (Some h) -> with_handle f i m k = (f', r) ->
  cs f' = fst (m h (cs f)) /\
  hs f' = updN (hs f) i (Some (fst (snd (m h (cs f))))) /\ maxbuf f' = maxbuf f.
Proof.
  intros A m k f i h f' r Hh H. unfold with_handle in H. rewrite Hh in H.
  destruct (m h (cs f)) as [s' [h' r']]. injection H as <- _. cbn. auto.
Qed.

(* the table of open handles changes in slot [i] only; the file changes as
   [hop_run] says *)
Theorem step_handle_shape : forall f now o i h f' r,
  is_handle_op o i -> nthN (hs f) i = Some (Some h) -> step f now o = (f', r) ->
  cs f' = fst (hop_run o h (cs f)) /\
  hs f' = updN (hs f) i (snd (hop_run o h (cs f))) /\
  maxbuf f' = maxbuf f.
Proof.
  intros f now o i h f' r Ho Hh H. unfold is_handle_op in Ho.
  destruct o; cbn [handle_slot] in Ho; try discriminate Ho; injection Ho as ->;
    cbn [step] in H; cbn [hop_run]; cbv zeta;
    try (exact (with_handle_shape _ _ _ f i h f' r Hh H)).
  - (* drop *)
    injection H as <- _. unfold drop_handle. rewrite Hh.
    destruct (flush_changes' h (cs f)) as [s' rr]. cbn. auto.
Qed.

Corollary step_handle_others : forall f now o i h f' r,
  is_handle_op o i -> nthN (hs f) i = Some (Some h) -> step f now o = (f', r) ->
  forall j, j <> i -> nthN (hs f') j = nthN (hs f) j.
Proof.
  intros f now o i h f' r Ho Hh H j Hj.
  destruct (step_handle_shape f now o i h f' r Ho Hh H) as (_ & E & _).
  rewrite E. apply nthN_updN_other. congruence.
Qed.

(* a handle operation on an empty slot changes nothing at all *)
Theorem step_no_handle : forall f now o i,
  is_handle_op o i -> (forall h, nthN (hs f) i <> Some (Some h)) ->
  fst (step f now o) = f.
Proof.
  intros f now o i Ho Hh. unfold is_handle_op in Ho.
  destruct o; cbn [handle_slot] in Ho; try discriminate Ho; injection Ho as ->;
    cbn [step]; unfold with_handle, drop_handle;
    destruct (nthN (hs f) i) as [[h|]|] eqn:E; try reflexivity;
    exfalso; exact (Hh h eq_refl).
Qed.

(* ---- Part A at the level of step ---- *)
Definition tblR (id : N) (s s' : cstate) : Prop := DF (PR id) (dirs s) (dirs s').

Lemma tblR_refl : forall id s, tblR id s s.
Proof. intros. apply DF_refl. Qed.
Lemma tblR_trans : forall id a b c, tblR id a b -> tblR id b c -> tblR id a c.
Proof. intros id a b c. apply DF_trans. Qed.
Lemma tblR_rd : forall id off n s, tblR id s (fst (read_data id off n s)).
Proof. intros. unfold tblR. rewrite frames_read_data. apply DF_refl. Qed.
Lemma tblR_wr : forall id off bs s, tblR id s (fst (write_data id off bs s)).
Proof. intros. apply framesR_write_data. Qed.
Lemma tblR_rs : forall id n s, tblR id s (fst (resize id n s)).
Proof. intros. apply framesR_resize. Qed.
Lemma tblR_sl : forall id s, tblR id s (fst (stream_len_of id s)).
Proof. intros. unfold tblR. rewrite frames_stream_len_of. apply DF_refl. Qed.

Lemma hop_run_tbl : forall o h s,
  tblR (h_id h) s (fst (hop_run o h s)) /\
  forall h', snd (hop_run o h s) = Some h' -> h_id h' = h_id h.
Proof.
  intros o h s.
  pose proof (h_read_R cstate read_data write_data stream_len_of tblR tblR_refl tblR_trans
                tblR_rd tblR_wr tblR_sl) as Xread.
  pose proof (h_fill_buf_R cstate read_data write_data stream_len_of tblR tblR_refl tblR_trans
                tblR_rd tblR_wr tblR_sl) as Xfill.
  pose proof (h_write_R cstate write_data stream_len_of tblR tblR_refl tblR_trans
                tblR_wr tblR_sl) as Xwrite.
  pose proof (h_seek_R cstate write_data stream_len_of tblR tblR_refl tblR_trans
                tblR_wr tblR_sl) as Xseek.
  pose proof (h_set_len_R cstate write_data resize stream_len_of tblR tblR_refl tblR_trans
                tblR_wr tblR_rs tblR_sl) as Xsetlen.
  pose proof (h_flush_R cstate write_data stream_len_of tblR tblR_refl tblR_trans
                tblR_wr tblR_sl) as Xflush.
  pose proof (flush_changes_R cstate write_data stream_len_of tblR tblR_refl tblR_trans
                tblR_wr tblR_sl) as Xfc.
  destruct o; cbn [hop_run]; cbv zeta; cbn [fst snd];
    try (split; [apply tblR_refl|intros h' E; injection E as <-; reflexivity]).
  - destruct (Xread h n s) as [A B]. split; [exact A|]. intros h' E. injection E as <-. exact B.
  - destruct (Xfill h s) as [A B]. split; [exact A|]. intros h' E. injection E as <-. exact B.
  - split; [apply tblR_refl|]. intros h' E. injection E as <-. apply h_consume_id.
  - destruct (Xwrite h bs s) as [A B]. split; [exact A|]. intros h' E. injection E as <-. exact B.
  - destruct (Xseek h w z s) as [A B]. split; [exact A|]. intros h' E. injection E as <-. exact B.
  - destruct (Xsetlen h n s) as [A B]. split; [exact A|]. intros h' E. injection E as <-. exact B.
  - destruct (Xflush h s) as [A B]. split; [exact A|]. intros h' E. injection E as <-. exact B.
  - destruct (Xfc h s) as [A _]. split; [exact A|]. discriminate.
Qed.

(* C07, unconditional part.  An operation through the handle in slot [i], open
   on stream [h_id h], whatever it is and however it ends:
   - leaves every directory entry other than [h_id h] and the root exactly as
     it was; in those two entries only start sector and length may differ
     (name, type, colour, links, CLSID, state bits, timestamps are kept);
   - leaves every other slot of the handle table untouched;
   - leaves in slot [i] a handle on the same stream (or nothing, after Drop). *)
Theorem handle_op_table_frame : forall f now o i h f' r,
  is_handle_op o i -> nthN (hs f) i = Some (Some h) -> step f now o = (f', r) ->
  DF (PR (h_id h)) (dirs (cs f)) (dirs (cs f')) /\
  (forall j, j <> i -> nthN (hs f') j = nthN (hs f) j) /\
  (nthN (hs f') i = Some None \/
   exists h', nthN (hs f') i = Some (Some h') /\ h_id h' = h_id h) /\
  maxbuf f' = maxbuf f.
Proof.
  intros f now o i h f' r Ho Hh H.
  destruct (step_handle_shape f now o i h f' r Ho Hh H) as (E1 & E2 & E3).
  destruct (hop_run_tbl o h (cs f)) as [A B].
  split; [rewrite E1; exact A|]. split; [|split; [|exact E3]].
  - intros j Hj. rewrite E2. apply nthN_updN_other. congruence.
  - rewrite E2. rewrite nthN_updN_same by (eapply nthN_Some_lt; exact Hh).
    destruct (snd (hop_run o h (cs f))) as [h'|] eqn:E; [right|left; reflexivity].
    exists h'. split; [reflexivity|]. apply B. reflexivity.
Qed.

(* the same, spelled out entry by entry *)
Corollary handle_op_entries : forall f now o i h f' r,
  is_handle_op o i -> nthN (hs f) i = Some (Some h) -> step f now o = (f', r) ->
  lenN (dirs (cs f')) = lenN (dirs (cs f)) /\
  (forall j, j <> h_id h -> j <> ROOT_STREAM_ID ->
     nthN (dirs (cs f')) j = nthN (dirs (cs f)) j) /\
  (forall j e, nthN (dirs (cs f)) j = Some e ->
     exists e', nthN (dirs (cs f')) j = Some e' /\
       d_name e' = d_name e /\ d_type e' = d_type e /\ d_color e' = d_color e /\
       d_left e' = d_left e /\ d_right e' = d_right e /\ d_child e' = d_child e /\
       d_clsid e' = d_clsid e /\ d_state e' = d_state e /\
       d_ctime e' = d_ctime e /\ d_mtime e' = d_mtime e).
Proof.
  intros f now o i h f' r Ho Hh H.
  destruct (handle_op_table_frame f now o i h f' r Ho Hh H) as ([L D] & _).
  split; [exact L|]. split.
  - intros j H1 H2. apply (DF_other (PR (h_id h))); [split; assumption|].
    unfold PR. apply orb_false_iff. split; apply N.eqb_neq; assumption.
  - intros j e He. destruct (D j e He) as (e' & He' & Rel). exists e'. split; [exact He'|].
    destruct (PR (h_id h) j).
    + apply same_meta_ent_fields. exact Rel.
    + subst e'. repeat split.
Qed.

(* ================================================================== *)
(* B.  the store cases without allocation: every other stream is kept  *)
(* ================================================================== *)
Import MiniChainProofs StoreMiniProofs StoreProofs.

(* ---- B.1  "quiet" store operations on stream [id] -------------------
   Only the image and the entry of [id] (its length) change; no table, no
   free list, no sector count.  [W] bounds the sectors whose bytes change. *)
Definition Quiet (s s' : cstate) (id : N) (e : dirent) (ln : N) (W : list N) : Prop :=
  s' = w_img (w_dirs s (updN (dirs s) id (set_start_len e (d_start e) ln))) (img s') /\
  lenN (img s') = lenN (img s) /\
  (forall x, lenN (sector_bytes s' x) = lenN (sector_bytes s x)) /\
  (forall x, ~ In x W -> sector_bytes s' x = sector_bytes s x).

Lemma quiet_compose_eq : forall s s1 s' d,
  s1 = w_img s (img s1) -> s' = w_img (w_dirs s1 d) (img s') ->
  s' = w_img (w_dirs s d) (img s').
Proof.
  intros s s1 s' d. generalize (img s') (img s1). intros im' im1 -> ->. reflexivity.
Qed.

Lemma Quiet_fields : forall s s' id e ln W, Quiet s s' id e ln W ->
  ver s' = ver s /\ nsect s' = nsect s /\ difat_ids s' = difat_ids s /\
  difat s' = difat s /\ fat s' = fat s /\ free s' = free s /\
  dirs s' = updN (dirs s) id (set_start_len e (d_start e) ln) /\
  dir_start s' = dir_start s /\ minifat s' = minifat s /\
  minifat_start s' = minifat_start s /\ mfree s' = mfree s /\ slen s' = slen s.
Proof.
  intros s s' id e ln W (H & _). unfold slen. rewrite H. cbn. repeat split.
Qed.

Lemma Quiet_shape : forall s s' id e ln W, Quiet s s' id e ln W -> same_shape s s'.
Proof.
  intros s s' id e ln W Q.
  destruct (Quiet_fields _ _ _ _ _ _ Q) as (A1 & A2 & A3 & A4 & A5 & A6 & A7 & A8 & A9 & A10 & A11 & A12).
  destruct Q as (_ & Q2 & Q3 & _). unfold same_shape. csplit; assumption.
Qed.

(* the directory write-back of the entry, from the well-formed store *)
Lemma update_entry_quiet : forall s1 id e dids ln,
  nthN (dirs s1) id = Some e ->
  lenN (utf16 (d_name e)) <= MAX_NAME_LEN ->
  dir_ids s1 dids -> good_chain s1 dids ->
  DIR_ENTRY_LEN * (id + 1) <= slen s1 * lenN dids ->
  exists s',
    update_entry id (d_start e) ln s1 = (s', Ok tt) /\
    Quiet s1 s' id e ln dids.
Proof.
  intros s1 id e dids ln He Hname Hd Hg Hroom.
  destruct (update_entry_spec s1 id e dids (d_start e) ln He Hname Hd Hg Hroom)
    as (s' & Hu & Hs' & Himg' & Hfr' & Hlen' & _).
  exists s'. split; [exact Hu|]. unfold Quiet. csplit; assumption.
Qed.

Lemma Quiet_after : forall s s1 s' id e ln W dids,
  s1 = w_img s (img s1) -> lenN (img s1) = lenN (img s) ->
  (forall x, lenN (sector_bytes s1 x) = lenN (sector_bytes s x)) ->
  (forall x, ~ In x W -> sector_bytes s1 x = sector_bytes s x) ->
  Quiet s1 s' id e ln dids ->
  Quiet s s' id e ln (W ++ dids).
Proof.
  intros s s1 s' id e ln W dids Hm Hi Hl Hfr (Q1 & Q2 & Q3 & Q4).
  assert (Hd : dirs s1 = dirs s) by (rewrite Hm; reflexivity).
  unfold Quiet. csplit.
  - rewrite Hd in Q1. exact (quiet_compose_eq s s1 s' _ Hm Q1).
  - congruence.
  - intros x. rewrite Q3. apply Hl.
  - intros x Hx. rewrite Q4 by (intro; apply Hx; apply in_or_app; right; assumption).
    apply Hfr. intro. apply Hx. apply in_or_app. left. assumption.
Qed.

Lemma good_chain_same_meta : forall s s1 ids,
  good_chain s ids -> s1 = w_img s (img s1) -> lenN (img s1) = lenN (img s) ->
  (forall x, lenN (sector_bytes s1 x) = lenN (sector_bytes s x)) -> good_chain s1 ids.
Proof.
  intros s s1 ids Hg Hm Hi Hl. apply (good_chain_transfer s s1 ids Hg Hm Hi). intros x _. apply Hl.
Qed.

(* S2/S3 again, with the sector-level frame *)
Lemma write_big_quiet : forall s id V ids dids e off buf,
  big_content s id V -> stream_ids s id ids -> StoreWf s ->
  nthN (dirs s) id = Some e -> dir_ids s dids ->
  off <= lenN V -> off + lenN buf <= slen s * lenN ids ->
  N.max (lenN V) (off + lenN buf) <= N.min (MAX_REGULAR_SECTOR * slen s) (stream_len_mask (ver s)) ->
  exists s',
    write_data id off buf s = (s', Ok tt) /\
    Quiet s s' id e (N.max (d_len e) (off + lenN buf)) (ids ++ dids).
Proof.
  intros s id V ids dids e1 off buf HB (e0 & He0 & _ & Hc0) Hwf He1 Hdids Hoff Hfit Hbounds.
  pose proof HB as (e & ids' & He & Ht & Hcut & Hc & Hg & Hle & HV).
  rewrite He in He0. injection He0 as <-. rewrite Hc in Hc0. injection Hc0 as ->.
  rewrite He in He1. injection He1 as <-.
  pose proof (big_content_len _ _ _ _ HB He) as HlV. rewrite HlV in Hoff, Hbounds.
  destruct (chain_ids_head _ _ _ Hc (ids_nonempty s ids _ Hcut Hle)) as (Hst & t & Eids).
  set (new_len := N.max (d_len e) (off + lenN buf)).
  destruct (chain_write_spec s (mkChain IZero ids off) buf Hg)
    as (s1 & Hw & _ & _ & Hg1 & Hfr & Hl & Hi & Hm).
  { unfold chain_len. cbn [c_ids c_off]. exact Hfit. }
  cbn [c_init c_ids c_off] in *.
  destruct (same_meta_fields s s1 Hm)
    as (A1 & A2 & A3 & A4 & A5 & A6 & A7 & A8 & A9 & A10 & A11 & A12).
  destruct (sw_dir s Hwf) as (dids' & Hd & Hgd & Hroom).
  assert (dids' = dids) by (unfold dir_ids in *; congruence). subst dids'.
  destruct (update_entry_quiet s1 id e dids new_len) as (s' & Hu & HQ).
  { rewrite A7. exact He. }
  { eapply sw_names; eassumption. }
  { unfold dir_ids in *. rewrite A5, A8. exact Hd. }
  { eapply good_chain_same_meta; eassumption. }
  { rewrite A12. pose proof (ChainProofs.nthN_Some_lt _ _ _ _ He). rewrite DEL_val in *. nia. }
  exists s'. split.
  - unfold write_data.
    rewrite (bind_exec _ _ _ _ _ (stream_entry_exec s id e He Ht)).
    cbv beta iota zeta.
    destruct (d_len e <? off) eqn:E1; [lia|]. rewrite bind_ret.
    fold new_len. fold new_len in Hbounds.
    rewrite (bind_exec _ _ _ _ _ (eq_refl : get s = (s, Ok s))). cbv beta iota zeta.
    replace (N.min (MAX_REGULAR_SECTOR * slen s) (stream_len_mask (ver s)) <? new_len) with false
      by (symmetry; apply N.ltb_ge; exact Hbounds).
    rewrite (bind_exec _ _ _ _ _ (eq_refl : ret tt s = (s, Ok tt))).
    match goal with |- bind ?m _ s = _ => assert (E : m s = (s1, Ok (d_start e))) end.
    { destruct (d_start e =? END_OF_CHAIN) eqn:E2; [apply N.eqb_eq in E2; contradiction|].
      destruct (d_len e <? MINI_STREAM_CUTOFF) eqn:E3; [lia|].
      destruct (new_len <? MINI_STREAM_CUTOFF) eqn:E4; [unfold new_len in E4; lia|].
      rewrite bind_ret.
      rewrite (bind_exec _ _ _ _ _ (chain_new_exec s (d_start e) IZero ids Hc)).
      destruct (chain_seek_spec s (mkChain IZero ids 0) off) as [Hseek _].
      rewrite (bind_exec _ _ _ _ _ (Hseek ltac:(unfold chain_len; cbn [c_ids]; lia))).
      cbn [c_init c_ids].
      rewrite (bind_exec _ _ _ _ _ Hw).
      rewrite Eids, chain_start_head, N.eqb_refl. reflexivity. }
    rewrite (bind_exec _ _ _ _ _ E). exact Hu.
  - eapply Quiet_after; eassumption.
Qed.

Lemma zero_fill_chain_quiet : forall s c from to,
  good_chain s (c_ids c) -> to <= chain_len (slen s) c ->
  exists s1 c1,
    zero_fill_chain c from to s = (s1, Ok c1) /\ c_ids c1 = c_ids c /\
    s1 = w_img s (img s1) /\ lenN (img s1) = lenN (img s) /\
    (forall x, lenN (sector_bytes s1 x) = lenN (sector_bytes s x)) /\
    (forall x, ~ In x (c_ids c) -> sector_bytes s1 x = sector_bytes s x).
Proof.
  intros s c from to Hg Hto. unfold zero_fill_chain.
  destruct (from <? to) eqn:E.
  - destruct (chain_seek_spec s c from) as [Hseek _].
    rewrite (bind_exec _ _ _ _ _ (Hseek ltac:(lia))).
    destruct (chain_write_spec s (mkChain (c_init c) (c_ids c) from) (repeatN 0 (to - from)))
      as (s1 & Hw & _ & _ & _ & Hfr & Hl & Hi & Hm).
    { exact Hg. }
    { unfold chain_len in *. cbn [c_ids c_off]. rewrite lenN_repeatN. lia. }
    cbn [c_init c_ids c_off] in *.
    eexists s1, _. split; [exact Hw|]. cbn [c_ids]. csplit; try assumption; reflexivity.
  - exists s, c. unfold ret. csplit; try reflexivity. destruct s; reflexivity.
Qed.

(* S4/S5 (same number of sectors) again, with the sector-level frame *)
Lemma resize_big_quiet : forall s id V ids dids e new_len,
  big_content s id V -> stream_ids s id ids -> StoreWf s ->
  nthN (dirs s) id = Some e -> dir_ids s dids ->
  MINI_STREAM_CUTOFF <= new_len ->
  new_len <= slen s * lenN ids -> slen s * lenN ids < new_len + slen s ->
  new_len <= MAX_REGULAR_SECTOR * slen s ->
  new_len <= stream_len_mask (ver s) ->
  exists s',
    resize id new_len s = (s', Ok tt) /\
    Quiet s s' id e new_len (ids ++ dids).
Proof.
  intros s id V ids dids e1 new_len HB (e0 & He0 & _ & Hc0) Hwf He1 Hdids Hnl Hfit Htight Hmax Hmask.
  pose proof HB as (e & ids' & He & Ht & Hcut & Hc & Hg & Hle & HV).
  rewrite He in He0. injection He0 as <-. rewrite Hc in Hc0. injection Hc0 as ->.
  rewrite He in He1. injection He1 as <-.
  pose proof (slen_pos s) as Hsp.
  destruct (chain_ids_head _ _ _ Hc (ids_nonempty s ids _ Hcut Hle)) as (Hst & t & Eids).
  destruct (zero_fill_chain_quiet s (mkChain IZero ids 0) (d_len e) new_len Hg)
    as (s1 & c1 & Hz & Hids1 & Hm & Hi & Hl & Hfr).
  { unfold chain_len. cbn [c_ids]. exact Hfit. }
  cbn [c_ids] in *.
  destruct (same_meta_fields s s1 Hm)
    as (A1 & A2 & A3 & A4 & A5 & A6 & A7 & A8 & A9 & A10 & A11 & A12).
  destruct (sw_dir s Hwf) as (dids' & Hd & Hgd & Hroom).
  assert (dids' = dids) by (unfold dir_ids in *; congruence). subst dids'.
  destruct (update_entry_quiet s1 id e dids new_len) as (s' & Hu & HQ).
  { rewrite A7. exact He. }
  { eapply sw_names; eassumption. }
  { unfold dir_ids in *. rewrite A5, A8. exact Hd. }
  { eapply good_chain_same_meta; eassumption. }
  { rewrite A12. pose proof (ChainProofs.nthN_Some_lt _ _ _ _ He). rewrite DEL_val in *. nia. }
  exists s'. split.
  - unfold resize.
    rewrite (bind_exec _ _ _ _ _ (stream_entry_exec s id e He Ht)).
    cbv beta iota zeta.
    rewrite (bind_exec _ _ _ _ _ (eq_refl : get s = (s, Ok s))). cbv beta iota zeta.
    replace (MAX_REGULAR_SECTOR * slen s <? new_len) with false by (symmetry; apply N.ltb_ge; exact Hmax).
    rewrite (bind_exec _ _ _ _ _ (eq_refl : ret tt s = (s, Ok tt))).
    rewrite (mask_check_false s new_len Hmask).
    rewrite (bind_exec _ _ _ _ _ (eq_refl : ret tt s = (s, Ok tt))).
    match goal with |- bind ?m _ s = _ => assert (E : m s = (s1, Ok (d_start e))) end.
    { destruct (d_start e =? END_OF_CHAIN) eqn:E2; [apply N.eqb_eq in E2; contradiction|].
      destruct (d_len e <? MINI_STREAM_CUTOFF) eqn:E3; [lia|].
      destruct (new_len =? 0) eqn:E4; [rewrite CUTOFF_val in Hnl; lia|].
      destruct (new_len <? MINI_STREAM_CUTOFF) eqn:E5; [lia|].
      rewrite (bind_exec _ _ _ _ _ (chain_new_exec s (d_start e) IZero ids Hc)).
      rewrite bind_get.
      rewrite (bind_exec _ _ _ _ _ (chain_set_len_same s (mkChain IZero ids 0) new_len
                 ltac:(rewrite CUTOFF_val in Hnl; lia)
                 ltac:(pose proof (good_chain_count _ _ Hg); pose proof (wf_nsect_u32 s Hwf);
                       destruct (ReuseProofs.slen_cases s) as [Es|Es]; rewrite Es in *;
                       unfold u32_max in *; rewrite two64_val; nia)
                 ltac:(cbn [c_ids]; symmetry; apply (N.div_unique _ _ _
                         (slen s + new_len - 1 - slen s * lenN ids)); lia))).
      unfold chain_len at 1. cbn [c_ids].
      replace (N.min new_len (slen s * lenN ids)) with new_len by lia.
      rewrite (bind_exec _ _ _ _ _ Hz).
      unfold chain_start. rewrite Hids1, Eids, N.eqb_refl. reflexivity. }
    rewrite (bind_exec _ _ _ _ _ E). exact Hu.
  - eapply Quiet_after; eassumption.
Qed.

(* the small-stream engine of StoreMiniProofs, with the sector-level frame *)
Lemma small_write_update_quiet : forall s id e rids mids dids V off bs ln,
  small_at s id e rids mids V -> DirWritable s id -> dir_ids s dids ->
  off + lenN bs <= 64 * lenN mids ->
  0 < ln -> ln < MINI_STREAM_CUTOFF -> ln <= 64 * lenN mids ->
  exists s1 s',
    mchain_write_all (mkMChain mids off) bs s
      = (s1, Ok (mkMChain mids (off + lenN bs))) /\
    update_entry id (d_start e) ln s1 = (s', Ok tt) /\
    mini_frame s s' id rids mids /\
    Quiet s s' id e ln (rids ++ dids).
Proof.
  intros s id e rids mids dids V off bs ln Hsm Hdw Hdids Hfit H0 Hcut Hle.
  destruct (small_write_update s id e rids mids V off bs ln Hsm Hdw Hfit H0 Hcut Hle)
    as (s1 & s' & Hw & Hu & _ & _ & Hmf).
  exists s1, s'. split; [exact Hw|]. split; [exact Hu|]. split; [exact Hmf|].
  pose proof Hsm as (Hn & Ht & _ & _ & Hch & Hgm & _ & _).
  destruct Hdw as (e0 & dids' & Hn0 & Hname & Hdch & Hdgood & Hslot & Hdisj).
  rewrite Hn in Hn0. injection Hn0 as <-.
  assert (dids' = dids) by (unfold dir_ids in *; congruence). subst dids'.
  destruct (mchain_write_spec s rids (mkMChain mids off) bs) as (s1' & Hw' & _ & _ & _ & _ & Hfr & Hl & Hi & Hm).
  { exact Hgm. }
  { unfold mchain_len. cbn [mc_ids mc_off]. rewrite MSL_64. exact Hfit. }
  cbn [mc_ids mc_off] in *. rewrite Hw in Hw'. injection Hw' as <-.
  destruct (same_meta_fields s s1 Hm)
    as (A1 & A2 & A3 & A4 & A5 & A6 & A7 & A8 & A9 & A10 & A11 & A12).
  destruct (update_entry_quiet s1 id e dids ln) as (s'' & Hu' & HQ).
  { rewrite A7. exact Hn. }
  { exact Hname. }
  { unfold dir_ids in *. rewrite A5, A8. exact Hdch. }
  { eapply good_chain_same_meta; eassumption. }
  { rewrite A12. exact Hslot. }
  rewrite Hu in Hu'. injection Hu' as <-.
  eapply Quiet_after; eassumption.
Qed.

(* M2/M3 again *)
Lemma write_small_quiet : forall s id e rids mids dids V off buf,
  small_at s id e rids mids V -> DirWritable s id -> dir_ids s dids ->
  off <= lenN V -> off + lenN buf <= 64 * lenN mids ->
  off + lenN buf < MINI_STREAM_CUTOFF ->
  exists s',
    write_data id off buf s = (s', Ok tt) /\
    mini_frame s s' id rids mids /\
    Quiet s s' id e (N.max (d_len e) (off + lenN buf)) (rids ++ dids).
Proof.
  intros s id e ids mids dids V off buf Hsm Hdw Hdids Hoff Hfit Hcut2.
  pose proof (small_at_lenV _ _ _ _ _ _ Hsm) as HlenV. rewrite HlenV in *.
  destruct (small_at_start _ _ _ _ _ _ Hsm) as (Hne & Hst & Hk).
  pose proof Hsm as (Hnth & Ht & Hcut & Hpos & Hch & Hgm & Hle & HV).
  set (ln := N.max (d_len e) (off + lenN buf)).
  destruct (small_write_update_quiet s id e ids mids dids V off buf ln Hsm Hdw Hdids Hfit)
    as (s1 & s' & Hw & Hu & Hfr & HQ); try (unfold ln; lia).
  exists s'. split; [|split; [exact Hfr | exact HQ]].
  unfold write_data. sred.
  rewrite (stream_entry_ok s id e Hnth Ht). sred.
  assert (E1 : (d_len e <? off) = false) by lia. rewrite E1.
  rewrite (both_check_false_small s (N.max (d_len e) (off + lenN buf))) by lia.
  assert (E2 : (d_start e =? END_OF_CHAIN) = false) by lia. rewrite E2.
  assert (E3 : (d_len e <? MINI_STREAM_CUTOFF) = true) by lia. rewrite E3.
  fold ln.
  assert (E4 : (ln <? MINI_STREAM_CUTOFF) = true) by (unfold ln; lia). rewrite E4.
  rewrite (mchain_new_ok s _ mids Hch).
  rewrite (mchain_seek_ok s mids 0 off) by lia.
  rewrite Hw.
  assert (E5 : negb (mchain_start (mkMChain mids (off + lenN buf)) =? d_start e) = false).
  { unfold mchain_start in *. cbn [mc_ids] in *. rewrite Hst, N.eqb_refl. reflexivity. }
  rewrite E5. exact Hu.
Qed.

(* M4/M5 again *)
Lemma resize_small_quiet : forall s id e rids mids dids V new_len,
  small_at s id e rids mids V -> DirWritable s id -> dir_ids s dids ->
  0 < new_len -> (64 + new_len - 1) / 64 = lenN mids -> new_len < MINI_STREAM_CUTOFF ->
  exists s',
    resize id new_len s = (s', Ok tt) /\
    mini_frame s s' id rids mids /\
    Quiet s s' id e new_len (rids ++ dids).
Proof.
  intros s id e ids mids dids V new_len Hsm Hdw Hdids Hpos' Hceil Hcut'.
  pose proof (small_at_lenV _ _ _ _ _ _ Hsm) as HlenV.
  destruct (small_at_start _ _ _ _ _ _ Hsm) as (Hne & Hst & Hk).
  destruct (ceil_bounds _ _ Hceil Hpos') as [Hub Hlb].
  pose proof Hsm as (Hnth & Ht & Hcut & Hpos & Hch & Hgm & Hle & HV).
  set (zs := repeatN 0 (new_len - d_len e) : list byte).
  assert (Hzs : lenN zs = new_len - d_len e) by (unfold zs; apply lenN_repeatN).
  destruct (small_write_update_quiet s id e ids mids dids V (N.min (d_len e) new_len) zs new_len
              Hsm Hdw Hdids)
    as (s1 & s' & Hw & Hu & Hfr & HQ); try blia.
  exists s'. split; [|split; [exact Hfr | exact HQ]].
  unfold resize. sred.
  rewrite (stream_entry_ok s id e Hnth Ht). sred.
  assert (E0 : (MAX_REGULAR_SECTOR * slen s <? new_len) = false).
  { pose proof (ChainProofs.slen_pos s). apply N.ltb_ge. rewrite MAXREG_val. rewrite CUTOFF_val in *. nia. }
  rewrite E0. sred.
  rewrite (mask_check_false s new_len) by (apply small_fits_mask; lia). sred.
  assert (E2 : (d_start e =? END_OF_CHAIN) = false) by lia. rewrite E2.
  assert (E3 : (d_len e <? MINI_STREAM_CUTOFF) = true) by lia. rewrite E3.
  assert (E4 : (new_len =? 0) = false) by lia. rewrite E4.
  assert (E5 : (new_len <? MINI_STREAM_CUTOFF) = true) by lia. rewrite E5.
  rewrite (mchain_new_ok s _ mids Hch).
  rewrite (mchain_set_len_same s (mkMChain mids 0) new_len Hcut' Hpos' Hceil).
  unfold zero_fill_mchain.
  destruct (d_len e <? new_len) eqn:Egrow.
  + sred. rewrite (mchain_seek_ok s mids 0 (d_len e)) by lia.
    replace (N.min (d_len e) new_len) with (d_len e) in Hw by lia.
    fold zs. rewrite Hw.
    assert (E6 : negb (mchain_start (mkMChain mids (d_len e + lenN zs)) =? d_start e) = false).
    { unfold mchain_start in *. cbn [mc_ids] in *. rewrite Hst, N.eqb_refl. reflexivity. }
    rewrite E6. exact Hu.
  + sred.
    assert (E6 : negb (mchain_start (mkMChain mids 0) =? d_start e) = false).
    { rewrite Hst, N.eqb_refl. reflexivity. }
    rewrite E6.
    assert (Hs1 : s1 = s).
    { replace zs with (@nil byte) in Hw
        by (unfold zs; replace (new_len - d_len e) with 0 by lia; reflexivity).
      unfold mchain_write_all in Hw. cbn [mchain_write_go] in Hw.
      unfold ret in Hw. injection Hw as <- _. reflexivity. }
    rewrite <- Hs1. exact Hu.
Qed.

(* ---- B.2  all streams well-formed: the chains are pairwise disjoint ---- *)
Definition small_ids (s : cstate) (id : N) (mids : list N) : Prop :=
  exists e, nthN (dirs s) id = Some e /\ d_type e = TStream /\
            0 < d_len e /\ d_len e < MINI_STREAM_CUTOFF /\
            chain_ids_of (minifat s) (d_start e) = Ok mids.

(* the chain of MiniFAT sectors *)
Definition mfat_ids (s : cstate) (l : list N) : Prop :=
  chain_ids_of (fat s) (minifat_start s) = Ok l.

(* StoreWf: allocator shape, directory chain good and roomy, names fit, large
   streams / directory chain / free stack / FAT sectors pairwise disjoint.
   Added here: large streams pairwise disjoint; the mini stream (root chain)
   disjoint from the directory chain and from every large stream; the MiniFAT
   chain disjoint from those three; small streams pairwise disjoint in the
   MiniFAT. *)
Record AllStreamsWf (s : cstate) : Prop := mkASW {
  aw_store : StoreWf s;
  aw_big_disj : forall id id' ids ids', id <> id' ->
      big_ids s id ids -> big_ids s id' ids' -> disjoint ids ids';
  aw_root_dir : forall rids dids, root_ids s rids -> dir_ids s dids -> disjoint rids dids;
  aw_root_big : forall rids id ids, root_ids s rids -> big_ids s id ids -> disjoint ids rids;
  aw_mfat_dir : forall l dids, mfat_ids s l -> dir_ids s dids -> disjoint l dids;
  aw_mfat_root : forall l rids, mfat_ids s l -> root_ids s rids -> disjoint l rids;
  aw_mfat_big : forall l id ids, mfat_ids s l -> big_ids s id ids -> disjoint ids l;
  aw_small_disj : forall id id' m m', id <> id' ->
      small_ids s id m -> small_ids s id' m' -> disjoint m m'
}.

(* the content of a stream of any size *)
Definition empty_content (s : cstate) (id : N) (V : list byte) : Prop :=
  exists e, nthN (dirs s) id = Some e /\ d_type e = TStream /\ d_len e = 0 /\ V = [].
Definition stream_content (s : cstate) (id : N) (V : list byte) : Prop :=
  big_content s id V \/ small_content s id V \/ empty_content s id V.

(* a resize / write that keeps the stream on its side of the cutoff *)
Definition same_class (a b : N) : Prop :=
  (MINI_STREAM_CUTOFF <= a /\ MINI_STREAM_CUTOFF <= b) \/
  (0 < a /\ a < MINI_STREAM_CUTOFF /\ 0 < b /\ b < MINI_STREAM_CUTOFF).

Section QuietFacts.
Variables (s s' : cstate) (id : N) (e : dirent) (ln : N) (W : list N).
Hypothesis HQ : Quiet s s' id e ln W.
Hypothesis He : nthN (dirs s) id = Some e.
Hypothesis Ht : d_type e = TStream.
Hypothesis Hcl : same_class (d_len e) ln.

Let e' := set_start_len e (d_start e) ln.

Lemma q_dirs : dirs s' = updN (dirs s) id e'.
Proof. destruct (Quiet_fields _ _ _ _ _ _ HQ) as (_ & _ & _ & _ & _ & _ & A & _). exact A. Qed.
Lemma q_fat : fat s' = fat s.
Proof. destruct (Quiet_fields _ _ _ _ _ _ HQ) as (_ & _ & _ & _ & A & _). exact A. Qed.
Lemma q_minifat : minifat s' = minifat s.
Proof. destruct (Quiet_fields _ _ _ _ _ _ HQ) as (_ & _ & _ & _ & _ & _ & _ & _ & A & _). exact A. Qed.
Lemma q_slen : slen s' = slen s.
Proof. destruct (Quiet_fields _ _ _ _ _ _ HQ) as (_ & _ & _ & _ & _ & _ & _ & _ & _ & _ & _ & A). exact A. Qed.
Lemma q_id : nthN (dirs s') id = Some e'.
Proof. rewrite q_dirs. apply ChainProofs.nthN_updN_same. eapply ChainProofs.nthN_Some_lt. exact He. Qed.
Lemma q_other : forall j, j <> id -> nthN (dirs s') j = nthN (dirs s) j.
Proof. intros j Hj. rewrite q_dirs. apply ChainProofs.nthN_updN_other. congruence. Qed.

Lemma q_big_back : forall j l, big_ids s' j l -> big_ids s j l.
Proof.
  intros j l (e2 & He2 & Ht2 & Hc2 & Hch2). rewrite q_fat in Hch2.
  destruct (N.eq_dec j id) as [->|Hne].
  - rewrite q_id in He2. injection He2 as <-. cbn [e' set_start_len d_start d_len d_type] in *.
    exists e. csplit; try assumption. unfold same_class in Hcl. lia.
  - rewrite q_other in He2 by exact Hne. exists e2. csplit; assumption.
Qed.

Lemma q_small_back : forall j m, small_ids s' j m -> small_ids s j m.
Proof.
  intros j m (e2 & He2 & Ht2 & H0 & Hc2 & Hch2). rewrite q_minifat in Hch2.
  destruct (N.eq_dec j id) as [->|Hne].
  - rewrite q_id in He2. injection He2 as <-. cbn [e' set_start_len d_start d_len d_type] in *.
    exists e. unfold same_class in Hcl. csplit; try assumption; lia.
  - rewrite q_other in He2 by exact Hne. exists e2. csplit; assumption.
Qed.

Lemma q_root_back : forall l, root_ids s' l -> root_ids s l.
Proof.
  intros l (r & Hr & Hch). rewrite q_fat in Hch.
  destruct (N.eq_dec ROOT_STREAM_ID id) as [E|Hne].
  - rewrite E in Hr. rewrite q_id in Hr. injection Hr as <-. cbn [e' set_start_len d_start] in Hch.
    exists e. split; [rewrite E; exact He|exact Hch].
  - rewrite q_other in Hr by exact Hne. exists r. split; assumption.
Qed.

Lemma q_root_fwd : forall l, root_ids s l -> root_ids s' l.
Proof.
  intros l (r & Hr & Hch). rewrite <- q_fat in Hch.
  destruct (N.eq_dec ROOT_STREAM_ID id) as [E|Hne].
  - rewrite E in Hr. rewrite He in Hr. injection Hr as <-.
    exists e'. split; [rewrite E; exact q_id|exact Hch].
  - exists r. split; [rewrite q_other by exact Hne; exact Hr|exact Hch].
Qed.

Lemma q_dir_back : forall l, dir_ids s' l -> dir_ids s l.
Proof.
  intros l H. unfold dir_ids in *. rewrite q_fat in H.
  destruct (Quiet_fields _ _ _ _ _ _ HQ) as (_ & _ & _ & _ & _ & _ & _ & A & _). rewrite A in H. exact H.
Qed.

Lemma q_mfat_back : forall l, mfat_ids s' l -> mfat_ids s l.
Proof.
  intros l H. unfold mfat_ids in *. rewrite q_fat in H.
  destruct (Quiet_fields _ _ _ _ _ _ HQ) as (_ & _ & _ & _ & _ & _ & _ & _ & _ & A & _). rewrite A in H. exact H.
Qed.

Lemma StoreWf_quiet : StoreWf s -> StoreWf s'.
Proof.
  intros [Wa Wn Wd Wnm Wdd Wfn Wfd Wdf].
  pose proof (Quiet_shape _ _ _ _ _ _ HQ) as Hsh.
  pose proof (same_shape_slen _ _ Hsh) as Hsl.
  pose proof Hsh as (Hn & Hv & Hi & Hl & Hfat & Hfree & Hdifat & Hds & _).
  constructor.
  - eapply AllocWf_shape; eassumption.
  - rewrite Hn. exact Wn.
  - destruct Wd as (dids & D1 & D2 & D3). exists dids. split; [|split].
    + unfold dir_ids in *. rewrite Hfat, Hds. exact D1.
    + eapply good_chain_shape; eassumption.
    + rewrite q_dirs, ChainProofs.lenN_updN, Hsl. exact D3.
  - intros i e2 He2.
    destruct (N.eq_dec i id) as [->|Hne].
    + rewrite q_id in He2. injection He2 as <-. cbn [e' set_start_len d_name]. eapply Wnm. exact He.
    + rewrite q_other in He2 by exact Hne. eapply Wnm. exact He2.
  - intros i l dl Hb Hd. eapply Wdd; [apply q_big_back; exact Hb | apply q_dir_back; exact Hd].
  - rewrite Hfree. exact Wfn.
  - intros x Hx. rewrite Hfree in Hx. destruct (Wfd x Hx) as (F1 & F2 & F3).
    split; [|split].
    + intros i l Hb. eapply F1. apply q_big_back. exact Hb.
    + intros l Hd. apply F2. apply q_dir_back. exact Hd.
    + rewrite Hdifat. exact F3.
  - intros f Hf. rewrite Hdifat in Hf. destruct (Wdf f Hf) as (F1 & F2).
    split.
    + intros i l Hb. eapply F1. apply q_big_back. exact Hb.
    + intros l Hd. apply F2. apply q_dir_back. exact Hd.
Qed.

Theorem AllStreamsWf_quiet : AllStreamsWf s -> AllStreamsWf s'.
Proof.
  intros [A1 A2 A3 A4 A5 A6 A7 A8]. constructor.
  - apply StoreWf_quiet. exact A1.
  - intros i j l1 l2 Hij H1 H2. exact (A2 i j l1 l2 Hij (q_big_back _ _ H1) (q_big_back _ _ H2)).
  - intros r d H1 H2. exact (A3 r d (q_root_back _ H1) (q_dir_back _ H2)).
  - intros r i l H1 H2. exact (A4 r i l (q_root_back _ H1) (q_big_back _ _ H2)).
  - intros l d H1 H2. exact (A5 l d (q_mfat_back _ H1) (q_dir_back _ H2)).
  - intros l r H1 H2. exact (A6 l r (q_mfat_back _ H1) (q_root_back _ H2)).
  - intros l i l2 H1 H2. exact (A7 l i l2 (q_mfat_back _ H1) (q_big_back _ _ H2)).
  - intros i j m1 m2 Hij H1 H2. exact (A8 i j m1 m2 Hij (q_small_back _ _ H1) (q_small_back _ _ H2)).
Qed.

(* a large stream whose sectors are outside W keeps content and chain *)
Lemma q_big_kept : forall id' V',
  id' <> id -> big_content s id' V' ->
  (forall ids', big_ids s id' ids' -> disjoint ids' W) ->
  big_content s' id' V'.
Proof.
  intros id' V' Hne (e2 & ids2 & He2 & Ht2 & Hc2 & Hch2 & Hg2 & Hle2 & HV2) Hd.
  assert (Hb : big_ids s id' ids2) by (exists e2; csplit; assumption).
  exists e2, ids2. rewrite q_other by exact Hne. rewrite q_fat, q_slen.
  csplit; try assumption.
  - eapply good_chain_shape; [exact Hg2|]. exact (Quiet_shape _ _ _ _ _ _ HQ).
  - rewrite HV2. f_equal. symmetry. apply chain_content_ext. intros x Hx.
    destruct HQ as (_ & _ & _ & Q4). apply Q4. exact (Hd ids2 Hb x Hx).
Qed.

(* a small stream whose mini sectors keep their bytes keeps its content *)
Lemma q_small_kept : forall id' e2 rids mids' V',
  id' <> id -> small_at s id' e2 rids mids' V' ->
  good_chain s' rids ->
  (forall ms, In ms mids' -> mini_bytes s' rids ms = mini_bytes s rids ms) ->
  small_at s' id' e2 rids mids' V'.
Proof.
  intros id' e2 rids mids' V' Hne (Hn & Ht2 & Hcut & Hpos & Hch & Hgm & Hle & HV) Hgood' Hmb.
  destruct Hgm as (Hroot & _ & Hnd & HF).
  unfold small_at. csplit; try assumption.
  - rewrite q_other by exact Hne. exact Hn.
  - rewrite q_minifat. exact Hch.
  - split; [apply q_root_fwd; exact Hroot|]. split; [exact Hgood'|]. split; [exact Hnd|].
    rewrite q_slen. exact HF.
  - rewrite HV. f_equal. unfold mchain_content. f_equal.
    apply map_ext_in. intros x Hx. symmetry. apply Hmb. exact Hx.
Qed.

Lemma q_empty_kept : forall id' V', id' <> id -> empty_content s id' V' -> empty_content s' id' V'.
Proof.
  intros id' V' Hne (e2 & H1 & H2 & H3 & H4). exists e2. rewrite q_other by exact Hne. auto.
Qed.
End QuietFacts.

(* ---- B.3  the frame of a store operation on stream [id] ---- *)
Definition StoreFrame (id : N) (s s' : cstate) : Prop :=
  (forall j, j <> id -> nthN (dirs s') j = nthN (dirs s) j) /\
  (forall e, nthN (dirs s) id = Some e ->
     exists e', nthN (dirs s') id = Some e' /\ same_meta_ent e e') /\
  (forall id' V', id' <> id -> stream_content s id' V' -> stream_content s' id' V').

Lemma StoreFrame_refl : forall id s, StoreFrame id s s.
Proof.
  intros id s. split; [auto|]. split; [|auto].
  intros e He. exists e. split; [exact He|apply same_meta_ent_refl].
Qed.

Lemma StoreFrame_trans : forall id a b c, StoreFrame id a b -> StoreFrame id b c -> StoreFrame id a c.
Proof.
  intros id a b c (A1 & A2 & A3) (B1 & B2 & B3). split; [|split].
  - intros j Hj. rewrite B1, A1 by exact Hj. reflexivity.
  - intros e He. destruct (A2 e He) as (e1 & He1 & R1). destruct (B2 e1 He1) as (e2 & He2 & R2).
    exists e2. split; [exact He2|]. eapply same_meta_ent_trans; eassumption.
  - intros id' V' Hne H. apply B3; [exact Hne|]. apply A3; assumption.
Qed.

Lemma asw_dirwritable : forall s id e,
  AllStreamsWf s -> nthN (dirs s) id = Some e -> DirWritable s id.
Proof.
  intros s id e HA He. pose proof (aw_store s HA) as Hwf.
  destruct (sw_dir s Hwf) as (dids & Hd & Hgd & Hroom).
  exists e, dids. csplit; try assumption.
  - eapply sw_names; eassumption.
  - pose proof (ChainProofs.nthN_Some_lt _ _ _ _ He). rewrite DEL_val in *. nia.
  - intros rids Hr x Hx Hin. exact (aw_root_dir s HA rids dids Hr Hd x Hin Hx).
Qed.

Lemma not_in_app : forall (x : N) a b, ~ In x a -> ~ In x b -> ~ In x (a ++ b).
Proof. intros x a b H1 H2 H. apply in_app_or in H. tauto. Qed.

(* a quiet operation on a LARGE stream *)
Lemma big_op_frame : forall s s' id e ids dids ln,
  AllStreamsWf s -> nthN (dirs s) id = Some e -> big_ids s id ids -> dir_ids s dids ->
  MINI_STREAM_CUTOFF <= ln ->
  Quiet s s' id e ln (ids ++ dids) ->
  AllStreamsWf s' /\ StoreFrame id s s'.
Proof.
  intros s s' id e ids dids ln HA He Hbig Hd Hln HQ.
  pose proof Hbig as (e0 & He0 & Ht & Hcut & Hch). rewrite He in He0. injection He0 as <-.
  assert (Hcl : same_class (d_len e) ln) by (left; split; assumption).
  pose proof (aw_store s HA) as Hwf.
  split; [exact (AllStreamsWf_quiet s s' id e ln _ HQ He Hcl HA)|].
  split; [exact (q_other s s' id e ln _ HQ)|]. split.
  - intros e1 He1. rewrite He in He1. injection He1 as <-. eexists. split; [exact (q_id s s' id e ln _ HQ He)|].
    apply same_meta_ent_set.
  - intros id' V' Hne [HB|[HS|HE]].
    + left. apply (q_big_kept s s' id e ln _ HQ id' V' Hne HB).
      intros ids' Hb' x Hx. apply not_in_app.
      * intro Hin. exact (aw_big_disj s HA id id' ids ids' ltac:(congruence) Hbig Hb' x Hin Hx).
      * exact (sw_dir_disj s Hwf id' ids' dids Hb' Hd x Hx).
    + right; left. destruct HS as (e2 & rids & mids' & Hsm). exists e2, rids, mids'.
      pose proof Hsm as (_ & _ & _ & _ & _ & (Hroot & Hgood & _) & _).
      assert (Hsec : forall x, In x rids -> sector_bytes s' x = sector_bytes s x).
      { intros x Hx. destruct HQ as (_ & _ & _ & Q4). apply Q4. apply not_in_app.
        - intro Hin. exact (aw_root_big s HA rids id ids Hroot Hbig x Hin Hx).
        - exact (aw_root_dir s HA rids dids Hroot Hd x Hx). }
      apply (q_small_kept s s' id e ln _ HQ He id' e2 rids mids' V' Hne Hsm).
      * eapply good_chain_shape; [exact Hgood|exact (Quiet_shape _ _ _ _ _ _ HQ)].
      * intros ms _. unfold mini_bytes, mini_stream. rewrite (chain_content_ext s s' rids Hsec). reflexivity.
    + right; right. exact (q_empty_kept s s' id e ln _ HQ id' V' Hne HE).
Qed.

(* a quiet operation on a SMALL stream *)
Lemma small_op_frame : forall s s' id e rids mids dids V ln,
  AllStreamsWf s -> small_at s id e rids mids V -> dir_ids s dids ->
  0 < ln -> ln < MINI_STREAM_CUTOFF ->
  mini_frame s s' id rids mids ->
  Quiet s s' id e ln (rids ++ dids) ->
  AllStreamsWf s' /\ StoreFrame id s s'.
Proof.
  intros s s' id e rids mids dids V ln HA Hsm Hd H0 Hcutn Hmf HQ.
  pose proof Hsm as (He & Ht & Hcut & Hpos & Hch & (Hroot & Hgood & _) & _).
  assert (Hcl : same_class (d_len e) ln) by (right; csplit; assumption).
  assert (Hsid : small_ids s id mids) by (exists e; csplit; assumption).
  pose proof (aw_store s HA) as Hwf.
  split; [exact (AllStreamsWf_quiet s s' id e ln _ HQ He Hcl HA)|].
  split; [exact (q_other s s' id e ln _ HQ)|]. split.
  - intros e1 He1. rewrite He in He1. injection He1 as <-. eexists. split; [exact (q_id s s' id e ln _ HQ He)|].
    apply same_meta_ent_set.
  - intros id' V' Hne [HB|[HS|HE]].
    + left. apply (q_big_kept s s' id e ln _ HQ id' V' Hne HB).
      intros ids' Hb' x Hx. apply not_in_app.
      * exact (aw_root_big s HA rids id' ids' Hroot Hb' x Hx).
      * exact (sw_dir_disj s Hwf id' ids' dids Hb' Hd x Hx).
    + right; left. destruct HS as (e2 & rids' & mids' & Hsm').
      pose proof Hsm' as (He2 & Ht2 & Hcut2 & Hpos2 & Hch2 & (Hroot' & _) & _).
      rewrite (root_ids_fun s rids' rids Hroot' Hroot) in Hsm'.
      assert (Hsid' : small_ids s id' mids') by (exists e2; csplit; assumption).
      exists e2, rids, mids'.
      apply (mini_frame_small_at s s' id rids mids id' e2 mids' V' Hmf Hsm' Hne).
      exact (aw_small_disj s HA id id' mids mids' ltac:(congruence) Hsid Hsid').
    + right; right. exact (q_empty_kept s s' id e ln _ HQ id' V' Hne HE).
Qed.

(* ---- the covered store cases (no sector, no mini sector allocated or freed) ---- *)
Definition CoveredWrite (s : cstate) (id off : N) (buf : list byte) : Prop :=
  (* S2/S3: large stream, the write ends inside the capacity of its chain *)
  (exists V ids, big_content s id V /\ stream_ids s id ids /\
     off <= lenN V /\ off + lenN buf <= slen s * lenN ids /\
     N.max (lenN V) (off + lenN buf) <= N.min (MAX_REGULAR_SECTOR * slen s) (stream_len_mask (ver s))) \/
  (* M2/M3: small stream, the write ends inside its mini chain, below the cutoff *)
  (exists e rids mids V, small_at s id e rids mids V /\
     off <= lenN V /\ off + lenN buf <= 64 * lenN mids /\
     off + lenN buf < MINI_STREAM_CUTOFF).

Definition CoveredResize (s : cstate) (id n : N) : Prop :=
  (* S4/S5 with an unchanged number of sectors *)
  (exists V ids, big_content s id V /\ stream_ids s id ids /\
     MINI_STREAM_CUTOFF <= n /\ n <= slen s * lenN ids /\ slen s * lenN ids < n + slen s /\
     n <= MAX_REGULAR_SECTOR * slen s /\ n <= stream_len_mask (ver s)) \/
  (* M4/M5 with an unchanged number of mini sectors *)
  (exists e rids mids V, small_at s id e rids mids V /\
     0 < n /\ (64 + n - 1) / 64 = lenN mids /\ n < MINI_STREAM_CUTOFF).

Lemma big_content_ids : forall s id V ids,
  big_content s id V -> stream_ids s id ids ->
  exists e, nthN (dirs s) id = Some e /\ big_ids s id ids.
Proof.
  intros s id V ids (e & ids' & He & Ht & Hcut & Hc & _) (e0 & He0 & _ & Hc0).
  rewrite He in He0. injection He0 as <-. rewrite Hc in Hc0. injection Hc0 as ->.
  exists e. split; [exact He|]. exists e. csplit; assumption.
Qed.

(* C07 at the store level, write_data *)
Theorem write_data_frames_others : forall s id off buf,
  AllStreamsWf s -> CoveredWrite s id off buf ->
  exists s',
    write_data id off buf s = (s', Ok tt) /\ AllStreamsWf s' /\ StoreFrame id s s'.
Proof.
  intros s id off buf HA [(V & ids & HB & Hsi & Hoff & Hfit & Hbounds)|(e & rids & mids & V & Hsm & Hoff & Hfit & Hcut)].
  - destruct (big_content_ids s id V ids HB Hsi) as (e & He & Hbig).
    destruct (sw_dir s (aw_store s HA)) as (dids & Hd & _).
    destruct (write_big_quiet s id V ids dids e off buf HB Hsi (aw_store s HA) He Hd Hoff Hfit Hbounds)
      as (s' & Hrun & HQ).
    exists s'. split; [exact Hrun|].
    apply (big_op_frame s s' id e ids dids (N.max (d_len e) (off + lenN buf)) HA He Hbig Hd); [|exact HQ].
    destruct Hbig as (e0 & He0 & _ & Hc & _). rewrite He in He0. injection He0 as <-. lia.
  - pose proof Hsm as (He & _ & Hcute & Hpos & _).
    destruct (sw_dir s (aw_store s HA)) as (dids & Hd & _).
    pose proof (small_at_lenV _ _ _ _ _ _ Hsm) as HlenV.
    destruct (write_small_quiet s id e rids mids dids V off buf Hsm
                (asw_dirwritable s id e HA He) Hd Hoff Hfit Hcut) as (s' & Hrun & Hmf & HQ).
    exists s'. split; [exact Hrun|].
    apply (small_op_frame s s' id e rids mids dids V (N.max (d_len e) (off + lenN buf)) HA Hsm Hd);
      try assumption; lia.
Qed.

(* C07 at the store level, resize *)
Theorem resize_frames_others : forall s id n,
  AllStreamsWf s -> CoveredResize s id n ->
  exists s',
    resize id n s = (s', Ok tt) /\ AllStreamsWf s' /\ StoreFrame id s s'.
Proof.
  intros s id n HA [(V & ids & HB & Hsi & Hn & Hfit & Htight & Hmax & Hmask)|(e & rids & mids & V & Hsm & H0 & Hceil & Hcut)].
  - destruct (big_content_ids s id V ids HB Hsi) as (e & He & Hbig).
    destruct (sw_dir s (aw_store s HA)) as (dids & Hd & _).
    destruct (resize_big_quiet s id V ids dids e n HB Hsi (aw_store s HA) He Hd Hn Hfit Htight Hmax Hmask)
      as (s' & Hrun & HQ).
    exists s'. split; [exact Hrun|].
    exact (big_op_frame s s' id e ids dids _ HA He Hbig Hd Hn HQ).
  - pose proof Hsm as (He & _).
    destruct (sw_dir s (aw_store s HA)) as (dids & Hd & _).
    destruct (resize_small_quiet s id e rids mids dids V n Hsm
                (asw_dirwritable s id e HA He) Hd H0 Hceil Hcut) as (s' & Hrun & Hmf & HQ).
    exists s'. split; [exact Hrun|].
    exact (small_op_frame s s' id e rids mids dids V _ HA Hsm Hd H0 Hcut Hmf HQ).
Qed.

(* ---- reading never changes the state ---- *)
Definition pureM {A} (m : M A) : Prop := forall s, fst (m s) = s.
Lemma pure_bind : forall A B (m : M A) (f : A -> M B),
  pureM m -> (forall a, pureM (f a)) -> pureM (bind m f).
Proof.
  intros A B m f Hm Hf s. unfold bind. specialize (Hm s). destruct (m s) as [s1 r].
  cbn [fst] in Hm. subst s1. destruct r; cbn [fst]; try reflexivity. apply Hf.
Qed.
Create HintDb pureM.
Ltac pu_step :=
  match goal with
  | |- pureM (bind _ _) => apply pure_bind; [|intros]
  | |- pureM (ret _) => intros ?; reflexivity
  | |- pureM (fail _) => intros ?; reflexivity
  | |- pureM (panic _) => intros ?; reflexivity
  | |- pureM out_of_fuel => intros ?; reflexivity
  | |- pureM get => intros ?; reflexivity
  | |- pureM (lift _) => intros ?; reflexivity
  | |- pureM (match ?x with _ => _ end) => destruct x
  | |- pureM _ => solve [auto with pureM]
  end.
Ltac pu := intros; repeat pu_step.
Lemma pure_dir_entry : forall id, pureM (dir_entry id).
Proof. unfold dir_entry. pu. Qed.
#[local] Hint Resolve pure_dir_entry : pureM.
Lemma pure_stream_entry : forall id, pureM (stream_entry id).
Proof. unfold stream_entry. pu. Qed.
#[local] Hint Resolve pure_stream_entry : pureM.
Lemma pure_seek_sector : forall a b, pureM (seek_sector a b).
Proof. unfold seek_sector. pu. Qed.
#[local] Hint Resolve pure_seek_sector : pureM.
Lemma pure_sector_read_exact : forall a b c, pureM (sector_read_exact a b c).
Proof. unfold sector_read_exact. pu. Qed.
#[local] Hint Resolve pure_sector_read_exact : pureM.
Lemma pure_chain_new : forall a b, pureM (chain_new a b).
Proof. unfold chain_new. pu. Qed.
#[local] Hint Resolve pure_chain_new : pureM.
Lemma pure_chain_seek : forall a b, pureM (chain_seek a b).
Proof. unfold chain_seek. pu. Qed.
#[local] Hint Resolve pure_chain_seek : pureM.
Lemma pure_chain_read_go : forall f c n acc, pureM (chain_read_go f c n acc).
Proof. induction f as [|f IH]; intros c n acc; cbn [chain_read_go]; pu. Qed.
#[local] Hint Resolve pure_chain_read_go : pureM.
Lemma pure_chain_read_exact : forall c n, pureM (chain_read_exact c n).
Proof. unfold chain_read_exact. pu. Qed.
#[local] Hint Resolve pure_chain_read_exact : pureM.
Lemma pure_mchain_new : forall a, pureM (mchain_new a).
Proof. unfold mchain_new. pu. Qed.
#[local] Hint Resolve pure_mchain_new : pureM.
Lemma pure_mchain_seek : forall a b, pureM (mchain_seek a b).
Proof. unfold mchain_seek. pu. Qed.
#[local] Hint Resolve pure_mchain_seek : pureM.
Lemma pure_mini_locate : forall a b, pureM (mini_locate a b).
Proof. unfold mini_locate, root_entry. pu. Qed.
#[local] Hint Resolve pure_mini_locate : pureM.
Lemma pure_mchain_read_go : forall f c n acc, pureM (mchain_read_go f c n acc).
Proof. induction f as [|f IH]; intros c n acc; cbn [mchain_read_go]; pu. Qed.
#[local] Hint Resolve pure_mchain_read_go : pureM.
Lemma pure_mchain_read_exact : forall c n, pureM (mchain_read_exact c n).
Proof. unfold mchain_read_exact. pu. Qed.
#[local] Hint Resolve pure_mchain_read_exact : pureM.

Theorem read_data_pure : forall id off n, pureM (read_data id off n).
Proof. unfold read_data. pu. Qed.
Theorem stream_len_of_pure : forall id, pureM (stream_len_of id).
Proof. unfold stream_len_of. pu. Qed.

(* ================================================================== *)
(* B.4  conditional lift through the handle                            *)
(* ================================================================== *)
(* As A.3, but the store write and resize are only known to stay inside [R id]
   (and to keep the invariant [G]) when the call is "covered".  Again every
   store call made by a handle operation is made on [h_id h]. *)
Section HandleLiftC.
Variable St : Type.
Variable rd : N -> N -> N -> St -> St * res (list byte).
Variable wr : N -> N -> list byte -> St -> St * res unit.
Variable rs : N -> N -> St -> St * res unit.
Variable sl : N -> St -> St * res N.
Variable G : St -> Prop.
Variable R : N -> St -> St -> Prop.
Variable CW : N -> N -> list byte -> St -> Prop.
Variable CR : N -> N -> St -> Prop.
Hypothesis R_refl : forall id s, R id s s.
Hypothesis R_trans : forall id a b c, R id a b -> R id b c -> R id a c.
Hypothesis C_rd : forall id off n s, G s ->
  G (fst (rd id off n s)) /\ R id s (fst (rd id off n s)).
Hypothesis C_sl : forall id s, G s -> G (fst (sl id s)) /\ R id s (fst (sl id s)).
Hypothesis C_wr : forall id off bs s, G s -> CW id off bs s ->
  G (fst (wr id off bs s)) /\ R id s (fst (wr id off bs s)).
Hypothesis C_rs : forall id n s, G s -> CR id n s ->
  G (fst (rs id n s)) /\ R id s (fst (rs id n s)).

(* the write-back the handle would perform now is a covered store call *)
Definition covered_flush (h : handle) (s : St) : Prop :=
  h_dirty h = true -> CW (h_id h) (h_off h) (buf_filled (h_buf h)) s.

Definition okC (id : N) (s s' : St) : Prop := G s' /\ R id s s'.
Lemma okC_refl : forall id s, G s -> okC id s s.
Proof. intros id s H. split; [exact H|apply R_refl]. Qed.
Lemma okC_trans : forall id a b c, okC id a b -> okC id b c -> okC id a c.
Proof. intros id a b c [_ H1] [G2 H2]. split; [exact G2|eapply R_trans; eassumption]. Qed.

Lemma flush_changes_C : forall h s, G s -> covered_flush h s ->
  okC (h_id h) s (fst (flush_changes St wr sl h s)) /\
  forall h1, snd (flush_changes St wr sl h s) = Ok h1 -> h_id h1 = h_id h.
Proof.
  intros h s HG HC. unfold flush_changes, covered_flush in *. destruct (h_dirty h).
  - pose proof (C_wr _ _ _ _ HG (HC eq_refl)) as Hw.
    destruct (wr (h_id h) (h_off h) (buf_filled (h_buf h)) s) as [s1 r]. cbn [fst snd] in Hw.
    destruct r; cbn [fst snd]; try (split; [exact Hw|discriminate]).
    pose proof (C_sl (h_id h) s1 (proj1 Hw)) as Hs.
    destruct (sl (h_id h) s1) as [s2 r2]. cbn [fst snd] in Hs.
    destruct r2; cbn [fst snd]; (split; [exact (okC_trans _ _ _ _ Hw Hs)|]); try discriminate.
    intros h1 E. injection E as <-. reflexivity.
  - cbn [fst snd]. split; [apply okC_refl; exact HG|]. intros h1 E. injection E as <-. reflexivity.
Qed.

Ltac use_flushC h s HG HC :=
  let HR := fresh "Hfl" in let Hid := fresh "Hid" in
  let s1 := fresh "s" in let r := fresh "r" in
  destruct (flush_changes_C h s HG HC) as [HR Hid];
  destruct (flush_changes St wr sl h s) as [s1 r]; cbn [fst snd] in HR, Hid.

Definition HM_okC {A} (h : handle) (m : HM St A) (s : St) : Prop :=
  okC (h_id h) s (fst (m s)) /\ h_id (fst (snd (m s))) = h_id h.

Lemma h_fill_buf_C : forall h s, G s -> covered_flush h s ->
  HM_okC h (h_fill_buf St rd wr sl h) s.
Proof.
  intros h s HG HC. unfold HM_okC, h_fill_buf.
  destruct (negb (b_pos (h_buf h) <? b_cap (h_buf h)) && (h_position h <? h_total h));
    [|cbn [fst snd]; split; [apply okC_refl; exact HG|reflexivity]].
  use_flushC h s HG HC.
  destruct r as [h1| | |]; cbn [fst snd]; try (split; [exact Hfl|reflexivity]).
  specialize (Hid h1 eq_refl). cbv zeta. rewrite Hid.
  match goal with |- context [rd ?i ?o ?n ?st] =>
    pose proof (C_rd i o n st (proj1 Hfl)) as Hrd; destruct (rd i o n st) as [s2 r2] end.
  cbn [fst snd] in Hrd.
  destruct r2 as [got| | |]; cbn [fst snd];
    try (split; [exact (okC_trans _ _ _ _ Hfl Hrd)|reflexivity]).
  match goal with |- context [if ?c then _ else _] => destruct c end; cbn [fst snd];
    (split; [exact (okC_trans _ _ _ _ Hfl Hrd)|]); [exact Hid|reflexivity].
Qed.

Lemma h_read_C : forall h n s, G s -> covered_flush h s ->
  HM_okC h (h_read St rd wr sl h n) s.
Proof.
  intros h n s HG HC. unfold HM_okC, h_read. destruct (h_fill_buf_C h s HG HC) as [H1 H2].
  destruct (h_fill_buf St rd wr sl h s) as [s1 [h1 r]]. cbn [fst snd] in H1, H2.
  destruct r as [avail| | |]; cbn [fst snd]; try (split; assumption).
  pose proof (h_consume_id h1 (lenN (takeN n avail))) as Hc.
  destruct (h_consume h1 (lenN (takeN n avail))) as [h2 c]. cbn [fst snd] in *.
  split; [exact H1|congruence].
Qed.

Lemma h_seek_C : forall h w z s, G s -> covered_flush h s ->
  HM_okC h (h_seek St wr sl h w z) s.
Proof.
  intros h w z s HG HC. unfold HM_okC, h_seek.
  destruct (seek_target h w z) as [np| | |]; cbn [fst snd];
    try (split; [apply okC_refl; exact HG|reflexivity]).
  destruct ((np <? h_off h) || (h_off h + b_cap (h_buf h) <? np)).
  - use_flushC h s HG HC.
    destruct r as [h1| | |]; cbn [fst snd]; try (split; [exact Hfl|reflexivity]).
    split; [exact Hfl|exact (Hid h1 eq_refl)].
  - cbv zeta. destruct (lenN (b_data (h_buf h)) <? np - h_off h); cbn [fst snd];
      (split; [apply okC_refl; exact HG|reflexivity]).
Qed.

Lemma h_write_C : forall h inp s, G s -> covered_flush h s ->
  HM_okC h (h_write St wr sl h inp) s.
Proof.
  intros h inp s HG HC. unfold HM_okC, h_write. cbv zeta.
  destruct (buf_write_bytes (h_buf h) inp) as [[[bf k]|]| | |]; cbn [fst snd];
    try (split; [apply okC_refl; exact HG|reflexivity]).
  - destruct (0 <? k); cbn [fst snd]; (split; [apply okC_refl; exact HG|reflexivity]).
  - use_flushC h s HG HC.
    destruct r as [h1| | |]; cbn [fst snd]; try (split; [exact Hfl|reflexivity]).
    specialize (Hid h1 eq_refl).
    match goal with |- context [buf_write_bytes ?b inp] =>
      destruct (buf_write_bytes b inp) as [[[bf k]|]| | |] end; cbn [fst snd];
      try (split; [exact Hfl|exact Hid]).
    destruct (0 <? k); cbn [fst snd]; (split; [exact Hfl|exact Hid]).
Qed.

Lemma h_set_len_C : forall h n s, G s -> covered_flush h s ->
  (n <> h_total h -> CR (h_id h) n (fst (flush_changes St wr sl h s))) ->
  HM_okC h (h_set_len St wr rs sl h n) s.
Proof.
  intros h n s HG HC HCR. unfold HM_okC, h_set_len.
  destruct (n =? h_total h) eqn:En; cbn [fst snd]; [split; [apply okC_refl; exact HG|reflexivity]|].
  apply N.eqb_neq in En. specialize (HCR En).
  cbv zeta. use_flushC h s HG HC. cbn [fst] in HCR.
  destruct r as [h1| | |]; cbn [fst snd]; try (split; [exact Hfl|reflexivity]).
  specialize (Hid h1 eq_refl). rewrite Hid.
  pose proof (C_rs (h_id h) n s0 (proj1 Hfl) HCR) as Hrs.
  destruct (rs (h_id h) n s0) as [s2 r2]. cbn [fst snd] in Hrs.
  pose proof (okC_trans _ _ _ _ Hfl Hrs) as H2.
  destruct r2; cbn [fst snd]; [split; [exact H2|reflexivity]| | |];
    (pose proof (C_sl (h_id h) s2 (proj1 Hrs)) as Hsl;
     destruct (sl (h_id h) s2) as [s3 r3]; cbn [fst snd] in Hsl;
     pose proof (okC_trans _ _ _ _ H2 Hsl) as H3;
     destruct r3; cbn [fst snd]; (split; [exact H3|]); try exact Hid; reflexivity).
Qed.

Lemma h_flush_C : forall h s, G s -> covered_flush h s ->
  HM_okC h (h_flush St wr sl h) s.
Proof.
  intros h s HG HC. unfold HM_okC, h_flush. use_flushC h s HG HC.
  destruct r as [h1| | |]; cbn [fst snd]; try (split; [exact Hfl|reflexivity]).
  split; [exact Hfl|exact (Hid h1 eq_refl)].
Qed.

End HandleLiftC.

(* ================================================================== *)
(* B.5  the step function: a handle operation frames every other stream *)
(* ================================================================== *)
Definition cov_flush (h : handle) (s : cstate) : Prop :=
  h_dirty h = true -> CoveredWrite s (h_id h) (h_off h) (buf_filled (h_buf h)).

(* the case hypothesis: the write-back the operation may perform, and the
   resize of SetLen (in the state the write-back leaves), are covered store
   cases.  Consume / Len / Pos never reach the store. *)
Definition covered_op (o : op) (h : handle) (s : cstate) : Prop :=
  match o with
  | OHRead _ _ | OHFill _ | OHWrite _ _ | OHSeek _ _ _ | OHFlush _ | OHDrop _ => cov_flush h s
  | OHSetLen _ n =>
      cov_flush h s /\
      (n <> h_total h -> CoveredResize (fst (flush_changes' h s)) (h_id h) n)
  | _ => True
  end.

Lemma sf_rd : forall id off n s, AllStreamsWf s ->
  AllStreamsWf (fst (read_data id off n s)) /\ StoreFrame id s (fst (read_data id off n s)).
Proof. intros. rewrite read_data_pure. split; [assumption|apply StoreFrame_refl]. Qed.
Lemma sf_sl : forall id s, AllStreamsWf s ->
  AllStreamsWf (fst (stream_len_of id s)) /\ StoreFrame id s (fst (stream_len_of id s)).
Proof. intros. rewrite stream_len_of_pure. split; [assumption|apply StoreFrame_refl]. Qed.
Lemma sf_wr : forall id off bs s, AllStreamsWf s -> CoveredWrite s id off bs ->
  AllStreamsWf (fst (write_data id off bs s)) /\ StoreFrame id s (fst (write_data id off bs s)).
Proof.
  intros id off bs s HA HC. destruct (write_data_frames_others s id off bs HA HC) as (s' & E & H).
  rewrite E. exact H.
Qed.
Lemma sf_rs : forall id n s, AllStreamsWf s -> CoveredResize s id n ->
  AllStreamsWf (fst (resize id n s)) /\ StoreFrame id s (fst (resize id n s)).
Proof.
  intros id n s HA HC. destruct (resize_frames_others s id n HA HC) as (s' & E & H).
  rewrite E. exact H.
Qed.

Lemma hop_run_frames : forall o h s,
  AllStreamsWf s -> covered_op o h s ->
  AllStreamsWf (fst (hop_run o h s)) /\ StoreFrame (h_id h) s (fst (hop_run o h s)).
Proof.
  intros o h s HA HC.
  set (CW := fun id off bs s => CoveredWrite s id off bs).
  set (CR := fun id n s => CoveredResize s id n).
  pose proof (h_read_C cstate read_data write_data stream_len_of AllStreamsWf StoreFrame CW
                StoreFrame_refl StoreFrame_trans sf_rd sf_sl sf_wr) as Xread.
  pose proof (h_fill_buf_C cstate read_data write_data stream_len_of AllStreamsWf StoreFrame CW
                StoreFrame_refl StoreFrame_trans sf_rd sf_sl sf_wr) as Xfill.
  pose proof (h_write_C cstate write_data stream_len_of AllStreamsWf StoreFrame CW
                StoreFrame_refl StoreFrame_trans sf_sl sf_wr) as Xwrite.
  pose proof (h_seek_C cstate write_data stream_len_of AllStreamsWf StoreFrame CW
                StoreFrame_refl StoreFrame_trans sf_sl sf_wr) as Xseek.
  pose proof (h_set_len_C cstate write_data resize stream_len_of AllStreamsWf StoreFrame CW CR
                StoreFrame_refl StoreFrame_trans sf_sl sf_wr sf_rs) as Xsetlen.
  pose proof (h_flush_C cstate write_data stream_len_of AllStreamsWf StoreFrame CW
                StoreFrame_refl StoreFrame_trans sf_sl sf_wr) as Xflush.
  pose proof (flush_changes_C cstate write_data stream_len_of AllStreamsWf StoreFrame CW
                StoreFrame_refl StoreFrame_trans sf_sl sf_wr) as Xfc.
  destruct o; cbn [hop_run covered_op] in *; cbv zeta; cbn [fst snd];
    try (split; [exact HA|apply StoreFrame_refl]).
  - exact (proj1 (Xread h n s HA HC)).
  - exact (proj1 (Xfill h s HA HC)).
  - exact (proj1 (Xwrite h bs s HA HC)).
  - exact (proj1 (Xseek h w z s HA HC)).
  - destruct HC as [HC1 HC2]. exact (proj1 (Xsetlen h n s HA HC1 HC2)).
  - exact (proj1 (Xflush h s HA HC)).
  - exact (proj1 (Xfc h s HA HC)).
Qed.

(* C07, the covered store cases.  A handle operation on the handle in slot [i]
   (stream [h_id h]) whose write-back / resize falls in a store case without
   allocation:
   - changes no directory entry but [h_id h] (the root entry included);
   - changes in that entry at most start sector and length;
   - leaves the content of every other stream, of any size, as it was;
   - leaves every other open handle untouched;
   - keeps AllStreamsWf (so the statement composes along a run). *)
Theorem handle_op_frames_others : forall f now o i h f' r,
  is_handle_op o i -> nthN (hs f) i = Some (Some h) ->
  AllStreamsWf (cs f) -> covered_op o h (cs f) ->
  step f now o = (f', r) ->
  (forall j, j <> h_id h -> nthN (dirs (cs f')) j = nthN (dirs (cs f)) j) /\
  (forall e, nthN (dirs (cs f)) (h_id h) = Some e ->
     exists e', nthN (dirs (cs f')) (h_id h) = Some e' /\ same_meta_ent e e') /\
  (forall id' V', id' <> h_id h ->
     stream_content (cs f) id' V' -> stream_content (cs f') id' V') /\
  (forall j, j <> i -> nthN (hs f') j = nthN (hs f) j) /\
  AllStreamsWf (cs f').
Proof.
  intros f now o i h f' r Ho Hh HA HC H.
  destruct (step_handle_shape f now o i h f' r Ho Hh H) as (E1 & E2 & E3).
  destruct (hop_run_frames o h (cs f) HA HC) as (HA' & F1 & F2 & F3).
  rewrite E1. csplit; try assumption.
  intros j Hj. rewrite E2. apply ChainProofs.nthN_updN_other. congruence.
Qed.

(* ================================================================== *)
(* C.  the abstract tree: only the leaf of the stream changes          *)
(* ================================================================== *)
Import QueryRefine MutRefine.

(* only entry [id] changes (start / length), and it is the leaf at [names] *)
Lemma tree_leaf_change : forall ds ds1 (c c1 : N -> list byte -> Prop) t names id st bs bs' e e1,
  TreeRep ds c t -> Unshared ds t ->
  lookup_chain ds names ROOT_STREAM_ID = Ok (Some id) ->
  Tree.get t names = Some (Tree.Leaf st bs) ->
  nthN ds id = Some e -> nthN ds1 id = Some e1 -> same_meta_ent e e1 ->
  d_len e1 = lenN bs' -> c1 id bs' ->
  (forall j, j <> id -> nthN ds1 j = nthN ds j) ->
  (forall j b, j <> id -> c j b -> c1 j b) ->
  TreeRep ds1 c1 (Tree.update t names (fun _ => Tree.Leaf st bs')) /\
  Unshared ds1 (Tree.update t names (fun _ => Tree.Leaf st bs')).
Proof.
  intros ds ds1 c c1 t names id st bs bs' e e1 HT HU Hlk G He He1 Hm Hlen Hc1 Ho Hco.
  destruct (tree_NRU _ _ _ HT HU) as (U & HN & ND).
  destruct (path_focus _ _ names t true ROOT_STREAM_ID ROOT_DIR_NAME U _ HN ND G)
    as (tid & tnm & Ut & Hlk' & HTg & Hincl & NDUt & _ & Hcont).
  assert (tid = id) by congruence. subst tid.
  apply NRU_leaf in HTg.
  destruct HTg as (Hid & e0 & He0 & Hn & Hr & Hty & Hch & Hs & Hl & Hco0 & Z1 & Z2 & Z3 & HUt).
  assert (e0 = e) by congruence. subst e0 Ut.
  destruct (same_meta_ent_fields e e1 Hm) as (F1 & F2 & F3 & F4 & F5 & F6 & F7 & F8 & F9 & F10).
  assert (HTg' : NRU ds1 c1 (true && is_nil names) id tnm (Tree.Leaf st bs') [id]).
  { apply NRU_leaf. split; [exact Hid|]. exists e1. split; [exact He1|].
    repeat split; try congruence; assumption. }
  destruct (Hcont ds1 c1 (Tree.Leaf st bs') [id] HTg') as (U' & HN' & ND' & _).
  - intros e0 He0'. assert (e0 = e) by congruence. subst e0. exists e1. auto.
  - intros j _ Hj. apply Ho. intros ->. apply Hj. left. reflexivity.
  - intros j b _ Hj. apply Hco. intros ->. apply Hj. left. reflexivity.
  - exact NDUt.
  - intros j Hj. left. exact Hj.
  - exact (NRU_tree _ _ _ U' HN' ND').
Qed.

(* only the root entry changes, in start sector / length (the mini stream) *)
Lemma tree_root_change : forall ds ds' (c : N -> list byte -> Prop) t r r',
  TreeRep ds c t -> Unshared ds t ->
  nthN ds ROOT_STREAM_ID = Some r -> nthN ds' ROOT_STREAM_ID = Some r' -> same_meta_ent r r' ->
  (forall j, j <> ROOT_STREAM_ID -> nthN ds' j = nthN ds j) ->
  TreeRep ds' c t /\ Unshared ds' t.
Proof.
  intros ds ds' c t r r' HT HU Hr Hr' Hm Ho.
  destruct (tree_NRU _ _ _ HT HU) as (U & HN & ND).
  destruct (same_meta_ent_fields r r' Hm) as (F1 & F2 & F3 & F4 & F5 & F6 & F7 & F8 & F9 & F10).
  destruct t as [st bs|m ks].
  { apply NRU_leaf in HN. destruct HN as (_ & e0 & _ & _ & X & _). discriminate X. }
  pose proof HN as HN0. apply NRU_dir in HN0.
  destruct HN0 as (_ & e0 & He0 & _ & _ & Hmeta & _).
  assert (e0 = r) by congruence. subst e0.
  pose proof (NRU_entry_change ds ds' c c (Tree.Dir m ks) true ROOT_STREAM_ID ROOT_DIR_NAME U r r'
                HN ND Hr Hr') as X.
  cbn [renode] in X.
  assert (Em : meta_of r' = m) by (rewrite <- Hmeta; unfold meta_of; congruence).
  rewrite Em in X. apply (NRU_tree _ _ _ U); [|exact ND].
  apply X; auto.
  - discriminate.
  - cbn [Tree.is_leaf]. discriminate.
Qed.

(* C07, the tree.  If the table changes as Part A says (entries [id] and ROOT,
   start/length only), the other streams keep their content, and the new
   length of [id] is that of its new content, then the abstract tree after the
   operation is the tree before with the leaf of [id] replaced: same names,
   same kinds, same metadata, same other leaves. *)
Theorem tree_after_handle_op : forall ds ds' (c c' : N -> list byte -> Prop) t names id st bs bs',
  TreeRep ds c t -> Unshared ds t ->
  lookup_chain ds names ROOT_STREAM_ID = Ok (Some id) ->
  Tree.get t names = Some (Tree.Leaf st bs) ->
  DF (PR id) ds ds' ->
  (forall e', nthN ds' id = Some e' -> d_len e' = lenN bs') -> c' id bs' ->
  (forall j b, j <> id -> c j b -> c' j b) ->
  TreeRep ds' c' (Tree.update t names (fun _ => Tree.Leaf st bs')) /\
  Unshared ds' (Tree.update t names (fun _ => Tree.Leaf st bs')).
Proof.
  intros ds ds' c c' t names id st bs bs' HT HU Hlk G HDF Hlen Hc' Hco.
  (* the entry of id is a stream, the root entry is not *)
  pose proof (lookup_get _ _ _ _ _ HT Hlk) as Hg. rewrite G in Hg. destruct Hg as (nm & HNR).
  apply NodeRep_leaf in HNR.
  destruct HNR as (_ & e & He & _ & _ & Hty & _).
  assert (Hroot : exists r, nthN ds ROOT_STREAM_ID = Some r /\ d_type r = TRoot).
  { destruct (NodeRep_entry _ _ _ _ _ _ HT) as (_ & r & Hr & _ & Htr).
    exists r. split; [exact Hr|]. destruct t; [|exact Htr].
    apply NodeRep_leaf in HT. destruct HT as (_ & _ & _ & _ & X & _). discriminate X. }
  destruct Hroot as (r & Hr & Htr).
  assert (Hne : id <> ROOT_STREAM_ID) by (intros ->; rewrite Hr in He; injection He as <-; congruence).
  destruct HDF as [HL HD].
  destruct (HD id e He) as (e1 & He1 & R1). rewrite PR_id in R1.
  destruct (HD ROOT_STREAM_ID r Hr) as (r' & Hr' & R2). rewrite PR_root in R2.
  assert (Hoth : forall j, j <> id -> j <> ROOT_STREAM_ID -> nthN ds' j = nthN ds j).
  { intros j H1 H2. apply (DF_other (PR id)); [split; assumption|].
    unfold PR. apply orb_false_iff. split; apply N.eqb_neq; assumption. }
  set (ds1 := updN ds id e1).
  assert (H1id : nthN ds1 id = Some e1)
    by (apply ChainProofs.nthN_updN_same; eapply ChainProofs.nthN_Some_lt; exact He).
  assert (H1o : forall j, j <> id -> nthN ds1 j = nthN ds j)
    by (intros j Hj; apply ChainProofs.nthN_updN_other; congruence).
  destruct (tree_leaf_change ds ds1 c c' t names id st bs bs' e e1 HT HU Hlk G He H1id R1
              (Hlen e1 He1) Hc' H1o Hco) as [HT1 HU1].
  apply (tree_root_change ds1 ds' c' _ r r' HT1 HU1).
  - rewrite H1o by congruence. exact Hr.
  - exact Hr'.
  - exact R2.
  - intros j Hj. destruct (N.eq_dec j id) as [->|Hji].
    + rewrite H1id. exact He1.
    + rewrite H1o by exact Hji. apply Hoth; assumption.
Qed.

Lemma stream_content_len : forall s id V e,
  stream_content s id V -> nthN (dirs s) id = Some e -> d_len e = lenN V.
Proof.
  intros s id V e [HB|[(e2 & rids & mids & HS)|(e2 & He2 & _ & Hl & ->)]] He.
  - symmetry. eapply big_content_len; eassumption.
  - pose proof (small_at_lenV _ _ _ _ _ _ HS) as HL. destruct HS as (He2 & _). congruence.
  - assert (e2 = e) by congruence. subst e2. rewrite Hl. reflexivity.
Qed.

(* the tree after ANY handle operation, given what happened to the contents *)
Theorem handle_op_tree_general : forall f now o i h f' r (c c' : N -> list byte -> Prop) t names st bs bs',
  is_handle_op o i -> nthN (hs f) i = Some (Some h) -> step f now o = (f', r) ->
  TreeRep (dirs (cs f)) c t -> Unshared (dirs (cs f)) t ->
  lookup_chain (dirs (cs f)) names ROOT_STREAM_ID = Ok (Some (h_id h)) ->
  Tree.get t names = Some (Tree.Leaf st bs) ->
  (forall e', nthN (dirs (cs f')) (h_id h) = Some e' -> d_len e' = lenN bs') ->
  c' (h_id h) bs' ->
  (forall j b, j <> h_id h -> c j b -> c' j b) ->
  TreeRep (dirs (cs f')) c' (Tree.update t names (fun _ => Tree.Leaf st bs')) /\
  Unshared (dirs (cs f')) (Tree.update t names (fun _ => Tree.Leaf st bs')).
Proof.
  intros f now o i h f' r c c' t names st bs bs' Ho Hh H HT HU Hlk G Hlen Hc' Hco.
  destruct (handle_op_table_frame f now o i h f' r Ho Hh H) as (HDF & _).
  exact (tree_after_handle_op _ _ c c' t names (h_id h) st bs bs' HT HU Hlk G HDF Hlen Hc' Hco).
Qed.

(* the tree after a handle operation in the covered store cases: the content
   relation is the real one, [stream_content], before and after *)
Theorem handle_op_tree : forall f now o i h f' r t names st bs bs',
  is_handle_op o i -> nthN (hs f) i = Some (Some h) ->
  AllStreamsWf (cs f) -> covered_op o h (cs f) ->
  step f now o = (f', r) ->
  TreeRep (dirs (cs f)) (stream_content (cs f)) t -> Unshared (dirs (cs f)) t ->
  lookup_chain (dirs (cs f)) names ROOT_STREAM_ID = Ok (Some (h_id h)) ->
  Tree.get t names = Some (Tree.Leaf st bs) ->
  stream_content (cs f') (h_id h) bs' ->
  TreeRep (dirs (cs f')) (stream_content (cs f')) (Tree.update t names (fun _ => Tree.Leaf st bs')) /\
  Unshared (dirs (cs f')) (Tree.update t names (fun _ => Tree.Leaf st bs')).
Proof.
  intros f now o i h f' r t names st bs bs' Ho Hh HA HC H HT HU Hlk G Hc'.
  destruct (handle_op_frames_others f now o i h f' r Ho Hh HA HC H) as (_ & _ & F3 & _).
  apply (handle_op_tree_general f now o i h f' r (stream_content (cs f)) (stream_content (cs f'))
           t names st bs bs' Ho Hh H HT HU Hlk G); try assumption.
  intros e' He'. eapply stream_content_len; eassumption.
Qed.

(* ================================================================== *)
(* B.6  large-to-large operations never touch the root entry; the      *)
(*      FAT-changing resizes of StoreProofs keep every other large     *)
(*      stream                                                         *)
(* ================================================================== *)
Definition Ponly (id : N) : N -> bool := fun j => j =? id.

Lemma framesR_update_entry_only : forall id st ln, framesR (Ponly id) (update_entry id st ln).
Proof.
  intros id st ln. unfold update_entry.
  apply (framesR_wdem (Ponly id) id (fun _ => st) (fun _ => ln)). unfold Ponly. apply N.eqb_refl.
Qed.
#[local] Hint Resolve framesR_update_entry_only : framesR.

(* a stream that is large and stays large: whatever the outcome, the table
   changes in entry [id] only (start / length) *)
Theorem resize_big_table : forall s id n e,
  nthN (dirs s) id = Some e -> d_type e = TStream ->
  MINI_STREAM_CUTOFF <= d_len e -> MINI_STREAM_CUTOFF <= n ->
  DF (Ponly id) (dirs s) (dirs (fst (resize id n s))).
Proof.
  intros s id n e He Ht Hc Hn. unfold resize.
  rewrite (bind_exec _ _ _ _ _ (stream_entry_exec s id e He Ht)). cbv beta iota zeta.
  assert (E1 : (d_len e <? MINI_STREAM_CUTOFF) = false) by lia.
  assert (E2 : (n <? MINI_STREAM_CUTOFF) = false) by lia.
  assert (E3 : (n =? 0) = false) by (rewrite CUTOFF_val in Hn; lia).
  rewrite E1, E2, E3.
  match goal with |- DF _ _ (dirs (fst (?m s))) => assert (F : framesR (Ponly id) m); [|exact (F s)] end.
  frr.
Qed.

Theorem write_data_big_table : forall s id off buf e,
  nthN (dirs s) id = Some e -> d_type e = TStream ->
  MINI_STREAM_CUTOFF <= d_len e ->
  DF (Ponly id) (dirs s) (dirs (fst (write_data id off buf s))).
Proof.
  intros s id off buf e He Ht Hc. unfold write_data.
  rewrite (bind_exec _ _ _ _ _ (stream_entry_exec s id e He Ht)). cbv beta iota zeta.
  assert (E1 : (d_len e <? MINI_STREAM_CUTOFF) = false) by lia.
  assert (E2 : (N.max (d_len e) (off + lenN buf) <? MINI_STREAM_CUTOFF) = false) by lia.
  rewrite E1, E2.
  match goal with |- DF _ _ (dirs (fst (?m s))) => assert (F : framesR (Ponly id) m); [|exact (F s)] end.
  frr.
Qed.

(* the resizes of a large stream that change the FAT: shrink releasing sectors
   (S4), growth from the free stack (S6), growth by appending sectors (S6') *)
Definition FatResize (s : cstate) (id n : N) : Prop :=
  exists V ids, big_content s id V /\ stream_ids s id ids /\
    n <= MAX_REGULAR_SECTOR * slen s /\ n <= stream_len_mask (ver s) /\
    ((MINI_STREAM_CUTOFF <= n /\ n <= slen s * lenN ids) \/
     (exists base nw, slen s * lenN ids < n /\ free s = base ++ rev nw /\
        lenN ids + lenN nw = (slen s + n - 1) / slen s) \/
     (exists k, free s = [] /\ lenN (fat s) = nsect s /\
        (forall f, In f (difat s) -> f < nsect s) /\
        slen s * lenN ids < n /\
        lenN ids + N.of_nat k = (slen s + n - 1) / slen s /\
        nsect s + N.of_nat k <= MAX_REGULAR_SECTOR + 1 /\
        (forall j, j < N.of_nat k -> (nsect s + j) mod fat_per_sector s <> 0))).

(* C07 at the store level for those cases: the resize succeeds, changes the
   table in entry [id] only (start / length), and every other LARGE stream
   keeps content and chain *)
Theorem resize_fat_frames_big_others : forall s id n,
  AllStreamsWf s -> FatResize s id n ->
  exists s',
    resize id n s = (s', Ok tt) /\
    (forall j, j <> id -> nthN (dirs s') j = nthN (dirs s) j) /\
    (forall e, nthN (dirs s) id = Some e ->
       exists e', nthN (dirs s') id = Some e' /\ same_meta_ent e e') /\
    (forall id' V', id' <> id -> big_content s id' V' -> big_content s' id' V').
Proof.
  intros s id n HA (V & ids & HB & Hsi & Hmax & Hmask & Hcase).
  pose proof (aw_store s HA) as Hwf.
  destruct (big_content_ids s id V ids HB Hsi) as (e & He & Hbig).
  pose proof Hbig as (e0 & He0 & Ht & Hcut & Hch). rewrite He in He0. injection He0 as <-.
  pose proof HB as (e1 & ids1 & He1 & _ & _ & Hch1 & _ & Hle1 & _).
  rewrite He in He1. injection He1 as <-. rewrite Hch in Hch1. injection Hch1 as <-.
  assert (Hoth : forall s', (forall id' V' ids', id' <> id -> big_content s id' V' -> stream_ids s id' ids' ->
              disjoint ids ids' -> big_content s' id' V' /\ stream_ids s' id' ids') ->
            forall id' V', id' <> id -> big_content s id' V' -> big_content s' id' V').
  { intros s' H id' V' Hne HB'.
    pose proof HB' as (e2 & ids2 & He2 & Ht2 & Hc2 & Hch2 & _).
    assert (Hsi2 : stream_ids s id' ids2) by (exists e2; csplit; assumption).
    assert (Hb2 : big_ids s id' ids2) by (exists e2; csplit; assumption).
    apply (H id' V' ids2 Hne HB' Hsi2).
    exact (aw_big_disj s HA id id' ids ids2 ltac:(congruence) Hbig Hb2). }
  assert (Hn : MINI_STREAM_CUTOFF <= n).
  { destruct Hcase as [[H _]|[(base & nw & H & _)|(k & _ & _ & _ & H & _)]]; lia. }
  assert (Hrun : exists s', resize id n s = (s', Ok tt) /\
            (forall id' V', id' <> id -> big_content s id' V' -> big_content s' id' V')).
  { destruct Hcase as [[H1 H2]|[(base & nw & H1 & H2 & H3)|(k & K1 & K2 & K3 & K4 & K5 & K6 & K7)]].
    - destruct (resize_big_no_alloc s id V ids n HB Hsi Hwf H1 H2 Hmax Hmask) as (s' & R & _ & _ & _ & _ & _ & O).
      exists s'. split; [exact R|exact (Hoth s' O)].
    - destruct (resize_big_grow_zero_new_sectors s id V ids n base nw HB Hsi Hwf H1 H2 H3 Hmax Hmask)
        as (s' & R & _ & _ & _ & _ & _ & O).
      exists s'. split; [exact R|exact (Hoth s' O)].
    - destruct (resize_big_grow_zero_append s id V ids n k HB Hsi Hwf K1 K2 K3 K4 K5 K6 K7 Hmax Hmask)
        as (s' & R & _ & _ & _ & _ & _ & _ & O).
      exists s'. split; [exact R|exact (Hoth s' O)]. }
  destruct Hrun as (s' & R & O). exists s'. split; [exact R|].
  pose proof (resize_big_table s id n e He Ht Hcut Hn) as D. rewrite R in D. cbn [fst] in D.
  split; [|split; [|exact O]].
  - intros j Hj. apply (DF_other (Ponly id)); [exact D|]. unfold Ponly. apply N.eqb_neq. exact Hj.
  - intros e2 He2. destruct D as [_ D]. destruct (D id e2 He2) as (e' & He' & Rel).
    unfold Ponly in Rel. rewrite N.eqb_refl in Rel. exists e'. auto.
Qed.

(* ---- SetLen whose resize changes the FAT (shrink releasing sectors, growth
   from the free stack, growth by appending): every other LARGE stream ---- *)
Lemma stream_content_big : forall s id V e,
  stream_content s id V -> nthN (dirs s) id = Some e -> MINI_STREAM_CUTOFF <= d_len e ->
  big_content s id V.
Proof.
  intros s id V e [HB|[(e2 & rids & mids & HS)|(e2 & He2 & _ & Hl & _)]] He Hc.
  - exact HB.
  - destruct HS as (He2 & _ & Hlt & _). assert (e2 = e) by congruence. subst e2. lia.
  - assert (e2 = e) by congruence. subst e2. rewrite CUTOFF_val in Hc. lia.
Qed.

Lemma StoreFrame_big : forall id s s' id' V',
  StoreFrame id s s' -> id' <> id -> big_content s id' V' -> big_content s' id' V'.
Proof.
  intros id s s' id' V' (F1 & _ & F3) Hne HB.
  pose proof HB as (e & ids & He & _ & Hc & _).
  apply (stream_content_big s' id' V' e).
  - apply F3; [exact Hne|left; exact HB].
  - rewrite F1 by exact Hne. exact He.
  - exact Hc.
Qed.

Theorem setlen_fat_frames_big_others : forall f now i n h f' r,
  nthN (hs f) i = Some (Some h) ->
  AllStreamsWf (cs f) -> cov_flush h (cs f) ->
  FatResize (fst (flush_changes' h (cs f))) (h_id h) n ->
  step f now (OHSetLen i n) = (f', r) ->
  (forall j, j <> h_id h -> nthN (dirs (cs f')) j = nthN (dirs (cs f)) j) /\
  (forall e, nthN (dirs (cs f)) (h_id h) = Some e ->
     exists e', nthN (dirs (cs f')) (h_id h) = Some e' /\ same_meta_ent e e') /\
  (forall id' V', id' <> h_id h ->
     big_content (cs f) id' V' -> big_content (cs f') id' V') /\
  (forall j, j <> i -> nthN (hs f') j = nthN (hs f) j).
Proof.
  intros f now i n h f' r Hh HA HC HF H.
  destruct (step_handle_shape f now (OHSetLen i n) i h f' r eq_refl Hh H) as (E1 & E2 & _).
  split; [|split; [|split]];
    [| | |intros j Hj; rewrite E2; apply ChainProofs.nthN_updN_other; congruence].
  all: rewrite E1; cbn [hop_run]; cbv zeta; cbn [fst]; clear E1 E2 H.
  all: set (s := cs f) in *.
  all: set (CW := fun id off bs s => CoveredWrite s id off bs).
  all: pose proof (flush_changes_C cstate write_data stream_len_of AllStreamsWf StoreFrame CW
                StoreFrame_refl StoreFrame_trans sf_sl sf_wr h s HA HC) as [[HA1 F1] Hid].
  all: unfold flush_changes' in HF.
  all: unfold h_set_len', h_set_len.
  all: destruct (n =? h_total h);
    [cbn [fst]; first [ intros j Hj; reflexivity
                      | intros e He; exists e; split; [exact He|apply same_meta_ent_refl]
                      | intros id' V' _ HB; exact HB ]|].
  all: cbv zeta.
  all: destruct (flush_changes cstate write_data stream_len_of h s) as [s1 r1]; cbn [fst snd] in *.
  all: destruct r1 as [h1| | |]; cbn [fst].
  all: try (destruct F1 as (G1 & G2 & G3);
            first [ exact G1 | exact G2
                  | intros id' V' Hne HB; exact (StoreFrame_big (h_id h) s s1 id' V' (conj G1 (conj G2 G3)) Hne HB) ]).
  all: rewrite (Hid h1 eq_refl).
  all: destruct (resize_fat_frames_big_others s1 (h_id h) n HA1 HF) as (s2 & R & D1 & D2 & O).
  all: rewrite R; cbn [fst].
  - intros j Hj. rewrite D1 by exact Hj. destruct F1 as (G1 & _). apply G1. exact Hj.
  - intros e He. destruct F1 as (_ & G2 & _). destruct (G2 e He) as (e1 & He1 & R1).
    destruct (D2 e1 He1) as (e2 & He2 & R2). exists e2. split; [exact He2|].
    eapply same_meta_ent_trans; eassumption.
  - intros id' V' Hne HB. apply O; [exact Hne|]. exact (StoreFrame_big (h_id h) s s1 id' V' F1 Hne HB).
Qed.

(* ================================================================== *)
(* D.  AllStreamsWf is decidable on concrete states                    *)
(* ================================================================== *)
Definition is_small (e : dirent) : bool :=
  objtype_eqb (d_type e) TStream && (0 <? d_len e) && (d_len e <? MINI_STREAM_CUTOFF).

(* every large stream's chain is disjoint from [l] *)
Definition bigs_disjoint_b (s : cstate) (l : list N) : bool :=
  forallb (fun e => if is_big e then
                      match chain_ids_of (fat s) (d_start e) with
                      | Ok ids => disjoint_b ids l
                      | _ => true
                      end
                    else true) (dirs s).

Definition root_chain (s : cstate) : res (list N) :=
  match nthN (dirs s) ROOT_STREAM_ID with
  | Some r => chain_ids_of (fat s) (d_start r)
  | None => Err EInvalidData
  end.

Definition smalls_disjoint_b (s : cstate) : bool :=
  forallb (fun i => forallb (fun j =>
    if i =? j then true else
    match nthN (dirs s) i, nthN (dirs s) j with
    | Some ei, Some ej =>
      if is_small ei && is_small ej then
        match chain_ids_of (minifat s) (d_start ei), chain_ids_of (minifat s) (d_start ej) with
        | Ok li, Ok lj => disjoint_b li lj
        | _, _ => true
        end
      else true
    | _, _ => true
    end) (rangeN (lenN (dirs s)))) (rangeN (lenN (dirs s))).

Definition allwf_b (s : cstate) : bool :=
  storewf_b s && streams_ok_b s &&
  match chain_ids_of (fat s) (dir_start s) with
  | Ok dids =>
    match root_chain s with
    | Ok rids => disjoint_b rids dids && bigs_disjoint_b s rids
    | _ => true
    end &&
    match chain_ids_of (fat s) (minifat_start s) with
    | Ok l =>
      disjoint_b l dids && bigs_disjoint_b s l &&
      match root_chain s with Ok rids => disjoint_b l rids | _ => true end
    | _ => true
    end
  | _ => false
  end &&
  smalls_disjoint_b s.

Lemma bigs_disjoint_b_sound : forall s l, bigs_disjoint_b s l = true ->
  forall id ids, big_ids s id ids -> disjoint ids l.
Proof.
  intros s l H id ids (e & He & Ht & Hc & Hch). unfold bigs_disjoint_b in H.
  rewrite forallb_forall in H. specialize (H e (ChainProofs.nthN_In _ _ _ _ He)).
  rewrite (is_big_true e Ht Hc), Hch in H. exact (disjoint_b_sound _ _ H).
Qed.

Lemma root_chain_spec : forall s l, root_ids s l <-> root_chain s = Ok l.
Proof.
  intros s l. unfold root_ids, root_chain. split.
  - intros (r & Hr & Hc). rewrite Hr. exact Hc.
  - destruct (nthN (dirs s) ROOT_STREAM_ID) as [r|]; [|discriminate]. intros H. exists r. auto.
Qed.

Lemma is_small_true : forall e, d_type e = TStream -> 0 < d_len e -> d_len e < MINI_STREAM_CUTOFF ->
  is_small e = true.
Proof.
  intros e Ht H0 Hc. unfold is_small. rewrite Ht. cbn [objtype_eqb andb].
  apply andb_true_iff. split; apply N.ltb_lt; assumption.
Qed.

Theorem allwf_b_sound : forall s, allwf_b s = true -> AllStreamsWf s.
Proof.
  intros s H. unfold allwf_b in H.
  apply andb_true_iff in H. destruct H as [H Hsm].
  apply andb_true_iff in H. destruct H as [H Hmid].
  apply andb_true_iff in H. destruct H as [Hst Hok].
  apply storewf_b_sound in Hst. apply streams_ok_b_sound in Hok.
  destruct (chain_ids_of (fat s) (dir_start s)) as [dids| | |] eqn:Ed; try discriminate Hmid.
  apply andb_true_iff in Hmid. destruct Hmid as [Hroot Hmf].
  assert (Hdir : forall l, dir_ids s l -> l = dids).
  { intros l Hl. unfold dir_ids in Hl. rewrite Ed in Hl. injection Hl as <-. reflexivity. }
  constructor.
  - exact Hst.
  - intros i j li lj Hij Hi Hj. exact (proj2 Hok i j li lj Hij Hi Hj).
  - intros rids l Hr Hl. rewrite (Hdir l Hl). apply root_chain_spec in Hr. rewrite Hr in Hroot.
    apply andb_true_iff in Hroot. exact (disjoint_b_sound _ _ (proj1 Hroot)).
  - intros rids i l Hr Hb. apply root_chain_spec in Hr. rewrite Hr in Hroot.
    apply andb_true_iff in Hroot. exact (bigs_disjoint_b_sound s rids (proj2 Hroot) i l Hb).
  - intros l d Hl Hd. rewrite (Hdir d Hd). unfold mfat_ids in Hl. rewrite Hl in Hmf.
    apply andb_true_iff in Hmf. destruct Hmf as [Hmf _].
    apply andb_true_iff in Hmf. exact (disjoint_b_sound _ _ (proj1 Hmf)).
  - intros l rids Hl Hr. unfold mfat_ids in Hl. rewrite Hl in Hmf.
    apply andb_true_iff in Hmf. destruct Hmf as [_ Hmf].
    apply root_chain_spec in Hr. rewrite Hr in Hmf. exact (disjoint_b_sound _ _ Hmf).
  - intros l i ids Hl Hb. unfold mfat_ids in Hl. rewrite Hl in Hmf.
    apply andb_true_iff in Hmf. destruct Hmf as [Hmf _].
    apply andb_true_iff in Hmf. exact (bigs_disjoint_b_sound s l (proj2 Hmf) i ids Hb).
  - intros i j li lj Hij (ei & A1 & A2 & A3 & A4 & A5) (ej & B1 & B2 & B3 & B4 & B5).
    unfold smalls_disjoint_b in Hsm. rewrite forallb_forall in Hsm.
    specialize (Hsm i (In_rangeN _ _ (ChainProofs.nthN_Some_lt _ _ _ _ A1))).
    rewrite forallb_forall in Hsm.
    specialize (Hsm j (In_rangeN _ _ (ChainProofs.nthN_Some_lt _ _ _ _ B1))).
    destruct (i =? j) eqn:E; [lia|].
    rewrite A1, B1, (is_small_true ei A2 A3 A4), (is_small_true ej B2 B3 B4), A5, B5 in Hsm.
    cbn [andb] in Hsm. exact (disjoint_b_sound _ _ Hsm).
Qed.

(* ================================================================== *)
(* E.  non-vacuity: two streams, one small and one large               *)
(* ================================================================== *)
Module Example.
  Fixpoint run (f : fstate) (ops : list op) : fstate * list (res value) :=
    match ops with
    | [] => (f, [])
    | o :: t => let '(f1, r) := step f 0 o in let '(f2, rs) := run f1 t in (f2, r :: rs)
    end.

  Definition bytes100 : list byte := map (fun i => N.of_nat i + 1) (seq 0 100).
  (* "/a": 100 bytes (directory slot 1, two mini sectors), handle 0 stays open;
     "/b": 5000 bytes (slot 2, ten sectors 4..13), handle 1 stays open *)
  Definition ops0 : list op :=
    [OCreateStream 0 [47; 97]; OHWrite 0 bytes100; OHFlush 0;
     OCreateStream 1 [47; 98]; OHSetLen 1 5000; OHWrite 1 [1; 2; 3]; OHFlush 1].
  Definition runA := Eval vm_compute in run (init_fstate V3 4096 4) ops0.
  Definition fA : fstate := Eval vm_compute in fst runA.
  Example runA_ok : snd runA = [Ok VUnit; Ok (VNum 100); Ok VUnit; Ok VUnit; Ok VUnit; Ok (VNum 3); Ok VUnit].
  Proof. vm_compute. reflexivity. Qed.

  Definition dummy : handle := mkHandle 0 0 (buf_new 0) 0 false.
  Definition slot (f : fstate) (i : N) : handle :=
    match nthN (hs f) i with Some (Some h) => h | _ => dummy end.

  (* ---- 1. write + flush through the handle of the SMALL stream /a ---- *)
  Definition fB : fstate := Eval vm_compute in fst (step fA 0 (OHWrite 0 [9; 9; 9])).
  Definition hA0 : handle := Eval vm_compute in slot fA 0.
  Definition hB0 : handle := Eval vm_compute in slot fB 0.
  Definition fC : fstate := Eval vm_compute in fst (step fB 0 (OHFlush 0)).
  Definition Vb : list byte := [1; 2; 3] ++ repeatN 0 4997.
  Definition idsb : list N := [4; 5; 6; 7; 8; 9; 10; 11; 12; 13].
  Opaque fA fB fC hA0 hB0.

  Ltac decide_goal := vm_compute; first [reflexivity | discriminate | (intro; discriminate)].

  Example fA_wf : AllStreamsWf (cs fA).
  Proof. apply allwf_b_sound. vm_compute. reflexivity. Qed.
  Example fB_wf : AllStreamsWf (cs fB).
  Proof. apply allwf_b_sound. vm_compute. reflexivity. Qed.

  Lemma big_check : forall s V ids, AllStreamsWf s ->
    (match nthN (dirs s) 2 with
     | Some e => objtype_eqb (d_type e) TStream && (MINI_STREAM_CUTOFF <=? d_len e) &&
                 match chain_ids_of (fat s) (d_start e) with
                 | Ok l => list_eqb N.eqb l ids && nodup_b ids && forallb (fun x => x <? nsect s) ids &&
                           (d_len e <=? slen s * lenN ids) &&
                           list_eqb N.eqb V (takeN (d_len e) (chain_content s ids))
                 | _ => false end
     | None => false end) = true ->
    big_content s 2 V /\ stream_ids s 2 ids.
  Proof.
    intros s V ids HA H. destruct (nthN (dirs s) 2) as [e|] eqn:He; [|discriminate].
    repeat (apply andb_true_iff in H; destruct H as [H ?H]).
    destruct (chain_ids_of (fat s) (d_start e)) as [l| | |] eqn:Hc; try discriminate.
    repeat (apply andb_true_iff in H0; destruct H0 as [H0 ?H]).
    assert (Hleq : forall a b : list N, list_eqb N.eqb a b = true -> a = b).
    { induction a as [|x a IH]; destruct b as [|y b]; cbn [list_eqb]; intros E; try discriminate; [reflexivity|].
      apply andb_true_iff in E. destruct E as [E1 E2]. apply N.eqb_eq in E1. subst y. f_equal. auto. }
    apply Hleq in H0, H2. subst l.
    apply (StoreExamples.big_content_check s 2 V ids e (aw_store s HA) He); try assumption.
    destruct (d_type e); try discriminate H. reflexivity.
  Qed.

  (* /b holds Vb before ... *)
  Example fB_b_content : stream_content (cs fB) 2 Vb.
  Proof. left. apply (big_check (cs fB) Vb idsb fB_wf). vm_compute. reflexivity. Qed.

  Example step_write_ok : step fA 0 (OHWrite 0 [9; 9; 9]) = (fB, Ok (VNum 3)).
  Proof. vm_compute. reflexivity. Qed.
  Example step_flush_ok : step fB 0 (OHFlush 0) = (fC, Ok VUnit).
  Proof. vm_compute. reflexivity. Qed.

  (* the write only fills the buffer: trivially covered *)
  Example write_covered : covered_op (OHWrite 0 [9; 9; 9]) hA0 (cs fA).
  Proof. cbn [covered_op]. intros E. vm_compute in E. discriminate E. Qed.

  (* the flush writes 103 bytes at offset 0 into the two mini sectors of /a *)
  Ltac prove_good_root :=
    unfold good_chain; splits;
    [ repeat constructor; intros []
    | repeat constructor; decide_goal
    | decide_goal
    | decide_goal ].
  (* the small stream in slot 1: mini chain [0; 1] inside the root chain [3] *)
  Ltac prove_small :=
    eexists _, [3], [0; 1]; unfold small_at; splits;
    [ vm_compute; reflexivity
    | reflexivity
    | decide_goal
    | decide_goal
    | decide_goal
    | unfold good_mchain; splits;
      [ eexists; split; vm_compute; reflexivity
      | prove_good_root
      | repeat constructor; cbn; intuition discriminate
      | repeat constructor; decide_goal ]
    | decide_goal
    | vm_compute; reflexivity ].
  Example a_small : small_content (cs fB) 1 bytes100.
  Proof. prove_small. Qed.
  Example flush_covered : covered_op (OHFlush 0) hB0 (cs fB).
  Proof.
    cbn [covered_op]. intros _. right.
    destruct a_small as (e & rids & mids & Hsm).
    assert (Hm : mini_sectors (cs fB) 1 2) by (eexists _, [0; 1]; splits; vm_compute; reflexivity).
    pose proof (mini_sectors_small_at _ _ _ _ _ _ _ Hsm Hm) as Hk.
    pose proof (small_at_lenV _ _ _ _ _ _ Hsm) as HL.
    exists e, rids, mids, bytes100. split; [exact Hsm|]. rewrite Hk.
    splits; vm_compute; first [reflexivity | discriminate].
  Qed.

  (* ... and after the write + flush through the handle of /a: same bytes, same
     entry, the handle of /b untouched, well-formedness kept *)
  Example flush_a_keeps_b :
    stream_content (cs fC) 2 Vb /\
    nthN (dirs (cs fC)) 2 = nthN (dirs (cs fA)) 2 /\
    nthN (dirs (cs fC)) 0 = nthN (dirs (cs fA)) 0 /\
    nthN (hs fC) 1 = nthN (hs fA) 1 /\
    AllStreamsWf (cs fC).
  Proof.
    assert (H0 : nthN (hs fA) 0 = Some (Some hA0)) by (vm_compute; reflexivity).
    assert (H1 : nthN (hs fB) 0 = Some (Some hB0)) by (vm_compute; reflexivity).
    assert (I0 : h_id hA0 = 1) by (vm_compute; reflexivity).
    assert (I1 : h_id hB0 = 1) by (vm_compute; reflexivity).
    destruct (handle_op_frames_others fA 0 (OHWrite 0 [9; 9; 9]) 0 hA0 fB (Ok (VNum 3))
                eq_refl H0 fA_wf write_covered step_write_ok) as (A1 & _ & _ & A4 & _).
    destruct (handle_op_frames_others fB 0 (OHFlush 0) 0 hB0 fC (Ok VUnit)
                eq_refl H1 fB_wf flush_covered step_flush_ok) as (B1 & _ & B3 & B4 & B5).
    rewrite I0 in A1. rewrite I1 in B1, B3.
    split; [apply B3; [discriminate|exact fB_b_content]|].
    split; [rewrite B1, A1 by discriminate; reflexivity|].
    split; [rewrite B1, A1 by discriminate; reflexivity|].
    split; [rewrite B4, A4 by discriminate; reflexivity|exact B5].
  Qed.
  (* ---- 2. seek + write + flush through the handle of the LARGE stream /b ---- *)
  Definition fD : fstate := Eval vm_compute in fst (step fC 0 (OHSeek 1 WStart 100)).
  Definition fE : fstate := Eval vm_compute in fst (step fD 0 (OHWrite 1 [5; 5])).
  Definition fF : fstate := Eval vm_compute in fst (step fE 0 (OHFlush 1)).
  Definition hC1 : handle := Eval vm_compute in slot fC 1.
  Definition hD1 : handle := Eval vm_compute in slot fD 1.
  Definition hE1 : handle := Eval vm_compute in slot fE 1.
  Definition Va : list byte := bytes100 ++ [9; 9; 9].
  Opaque fD fE fF hC1 hD1 hE1.

  Example steps2_ok :
    step fC 0 (OHSeek 1 WStart 100) = (fD, Ok (VNum 100)) /\
    step fD 0 (OHWrite 1 [5; 5]) = (fE, Ok (VNum 2)) /\
    step fE 0 (OHFlush 1) = (fF, Ok VUnit).
  Proof. repeat split; vm_compute; reflexivity. Qed.

  Example fC_wf : AllStreamsWf (cs fC).
  Proof. apply allwf_b_sound. vm_compute. reflexivity. Qed.
  Example fD_wf : AllStreamsWf (cs fD).
  Proof. apply allwf_b_sound. vm_compute. reflexivity. Qed.
  Example fE_wf : AllStreamsWf (cs fE).
  Proof. apply allwf_b_sound. vm_compute. reflexivity. Qed.

  (* /a holds its 103 bytes before ... *)
  Example fC_a_content : stream_content (cs fC) 1 Va.
  Proof. right; left. prove_small. Qed.

  Example seek_covered : covered_op (OHSeek 1 WStart 100) hC1 (cs fC).
  Proof. cbn [covered_op]. intros E. vm_compute in E. discriminate E. Qed.
  Example write2_covered : covered_op (OHWrite 1 [5; 5]) hD1 (cs fD).
  Proof. cbn [covered_op]. intros E. vm_compute in E. discriminate E. Qed.
  (* the flush overwrites bytes 100..101 of /b in place *)
  Example flush2_covered : covered_op (OHFlush 1) hE1 (cs fE).
  Proof.
    cbn [covered_op]. intros _. left.
    destruct (big_check (cs fE) Vb idsb fE_wf) as [HB Hsi]; [vm_compute; reflexivity|].
    exists Vb, idsb. split; [exact HB|]. split; [exact Hsi|].
    split; [|split]; vm_compute; discriminate.
  Qed.

  (* ... and after the three operations through the handle of /b *)
  Example write_b_keeps_a :
    stream_content (cs fF) 1 Va /\
    nthN (dirs (cs fF)) 1 = nthN (dirs (cs fC)) 1 /\
    nthN (dirs (cs fF)) 0 = nthN (dirs (cs fC)) 0 /\
    nthN (hs fF) 0 = nthN (hs fC) 0 /\
    AllStreamsWf (cs fF).
  Proof.
    destruct steps2_ok as (S1 & S2 & S3).
    assert (H0 : nthN (hs fC) 1 = Some (Some hC1)) by (vm_compute; reflexivity).
    assert (H1 : nthN (hs fD) 1 = Some (Some hD1)) by (vm_compute; reflexivity).
    assert (H2 : nthN (hs fE) 1 = Some (Some hE1)) by (vm_compute; reflexivity).
    assert (I0 : h_id hC1 = 2) by (vm_compute; reflexivity).
    assert (I1 : h_id hD1 = 2) by (vm_compute; reflexivity).
    assert (I2 : h_id hE1 = 2) by (vm_compute; reflexivity).
    destruct (handle_op_frames_others fC 0 (OHSeek 1 WStart 100) 1 hC1 fD _ eq_refl H0 fC_wf seek_covered S1)
      as (A1 & _ & A3 & A4 & _).
    destruct (handle_op_frames_others fD 0 (OHWrite 1 [5; 5]) 1 hD1 fE _ eq_refl H1 fD_wf write2_covered S2)
      as (B1 & _ & B3 & B4 & _).
    destruct (handle_op_frames_others fE 0 (OHFlush 1) 1 hE1 fF _ eq_refl H2 fE_wf flush2_covered S3)
      as (C1 & _ & C3 & C4 & C5).
    rewrite I0 in A1, A3. rewrite I1 in B1, B3. rewrite I2 in C1, C3.
    split; [apply C3; [discriminate|]; apply B3; [discriminate|]; apply A3; [discriminate|exact fC_a_content]|].
    split; [rewrite C1, B1, A1 by discriminate; reflexivity|].
    split; [rewrite C1, B1, A1 by discriminate; reflexivity|].
    split; [rewrite C4, B4, A4 by discriminate; reflexivity|exact C5].
  Qed.
  (* ---- 3. the abstract tree across the flush of /a ---- *)
  Definition tree_with (va vb : list byte) : Tree.node :=
    Tree.Dir (Tree.mkMeta 0 0 0 0) [([97], Tree.Leaf 0 va); ([98], Tree.Leaf 0 vb)].
  Definition ent_at (ds : list dirent) (i : N) : dirent :=
    match nthN ds i with Some e => e | None => dirent_unallocated end.
  Ltac in_cases H := repeat (destruct H as [H|H]; [subst|]); try contradiction.
  Ltac vmr := vm_compute; reflexivity.

  Example fB_tree : TreeRep (dirs (cs fB)) (stream_content (cs fB)) (tree_with bytes100 Vb).
  Proof.
    unfold TreeRep, tree_with. apply NodeRep_dir. split; [reflexivity|].
    exists (ent_at (dirs (cs fB)) 0). split; [vmr|]. split; [vmr|].
    split; [vmr|]. split; [vmr|]. split; [discriminate|].
    exists (BN BL 1 (BN BL 2 BL)). split.
    { cbn [Rep]. split; [vmr|]. split; [vm_compute; discriminate|].
      exists (ent_at (dirs (cs fB)) 1). split; [vmr|]. split; [vmr|].
      split; [vmr|]. split; [vm_compute; discriminate|].
      exists (ent_at (dirs (cs fB)) 2). split; [vmr|]. split; vmr. }
    split.
    { cbn [bst ids app In]. repeat split; intros j Hj; in_cases Hj; vmr. }
    split.
    { cbn [ids app]. repeat constructor; cbn [In]; intuition discriminate. }
    cbn [ids app]. constructor; [|constructor; [|constructor]].
    - unfold KidRep. cbn [fst snd]. apply NodeRep_leaf. split; [reflexivity|].
      exists (ent_at (dirs (cs fB)) 1). split; [vmr|].
      split; [vmr|]. split; [reflexivity|]. split; [vmr|]. split; [vmr|]. split; [vmr|].
      split; [vmr|]. split; [right; left; exact a_small|]. repeat split; vmr.
    - unfold KidRep. cbn [fst snd]. apply NodeRep_leaf. split; [reflexivity|].
      exists (ent_at (dirs (cs fB)) 2). split; [vmr|].
      split; [vmr|]. split; [reflexivity|]. split; [vmr|]. split; [vmr|]. split; [vmr|].
      split; [vmr|]. split; [exact fB_b_content|]. repeat split; vmr.
  Qed.

  Example fB_unshared : Unshared (dirs (cs fB)) (tree_with bytes100 Vb).
  Proof.
    exists [0; 1; 2]. split.
    - unfold tree_with. cbn [AllIds].
      exists (ent_at (dirs (cs fB)) 0), (BN BL 1 (BN BL 2 BL)). split; [vmr|]. split.
      { cbn [Rep]. split; [vmr|]. split; [vm_compute; discriminate|].
        exists (ent_at (dirs (cs fB)) 1). split; [vmr|]. split; [vmr|].
        split; [vmr|]. split; [vm_compute; discriminate|].
        exists (ent_at (dirs (cs fB)) 2). split; [vmr|]. split; vmr. }
      exists [[1]; [2]]. split; [|reflexivity]. cbn [ids app]. split; [|split; [|exact I]].
      + split; [reflexivity|vmr].
      + split; [reflexivity|vmr].
    - repeat constructor; cbn [In]; intuition discriminate.
  Qed.

  (* after the flush the table represents the same tree with the leaf /a
     replaced by its new content; /b is the same leaf *)
  Example flush_a_tree :
    TreeRep (dirs (cs fC)) (stream_content (cs fC)) (tree_with Va Vb) /\
    Unshared (dirs (cs fC)) (tree_with Va Vb).
  Proof.
    assert (H1 : nthN (hs fB) 0 = Some (Some hB0)) by (vm_compute; reflexivity).
    assert (I1 : h_id hB0 = 1) by (vm_compute; reflexivity).
    pose proof (handle_op_tree fB 0 (OHFlush 0) 0 hB0 fC (Ok VUnit) (tree_with bytes100 Vb)
                  [[97]] 0 bytes100 Va eq_refl H1 fB_wf flush_covered step_flush_ok
                  fB_tree fB_unshared) as X.
    rewrite I1 in X. apply X.
    - vm_compute. reflexivity.
    - vm_compute. reflexivity.
    - exact fC_a_content.
  Qed.
  (* ---- 4. SetLen through the handle of /b releasing a sector (5000 -> 4200) ---- *)
  Definition hF1 : handle := Eval vm_compute in slot fF 1.
  Definition fG : fstate := Eval vm_compute in fst (step fF 0 (OHSetLen 1 4200)).
  Definition Vb' : list byte := takeN 100 Vb ++ [5; 5] ++ dropN 102 Vb.
  Opaque hF1 fG.
  Example fF_wf : AllStreamsWf (cs fF).
  Proof. apply allwf_b_sound. vm_compute. reflexivity. Qed.
  Example setlen_fat_hyp : FatResize (fst (flush_changes' hF1 (cs fF))) (h_id hF1) 4200.
  Proof.
    assert (E : fst (flush_changes' hF1 (cs fF)) = cs fF) by (vm_compute; reflexivity).
    assert (I : h_id hF1 = 2) by (vm_compute; reflexivity).
    rewrite E, I.
    destruct (big_check (cs fF) Vb' idsb fF_wf) as [HB Hsi]; [vm_compute; reflexivity|].
    exists Vb', idsb. split; [exact HB|]. split; [exact Hsi|].
    split; [vm_compute; discriminate|]. split; [vm_compute; discriminate|]. left. split; vm_compute; discriminate.
  Qed.
  Example setlen_b_keeps_a_entry :
    free (cs fF) = [] /\ free (cs fG) = [13] /\
    nthN (dirs (cs fG)) 1 = nthN (dirs (cs fF)) 1 /\
    nthN (dirs (cs fG)) 0 = nthN (dirs (cs fF)) 0 /\
    nthN (hs fG) 0 = nthN (hs fF) 0.
  Proof.
    assert (H0 : nthN (hs fF) 1 = Some (Some hF1)) by (vm_compute; reflexivity).
    assert (I : h_id hF1 = 2) by (vm_compute; reflexivity).
    assert (S : step fF 0 (OHSetLen 1 4200) = (fG, Ok VUnit)) by (vm_compute; reflexivity).
    assert (C : cov_flush hF1 (cs fF)) by (intros E; vm_compute in E; discriminate E).
    destruct (setlen_fat_frames_big_others fF 0 1 4200 hF1 fG _ H0 fF_wf C setlen_fat_hyp S)
      as (A1 & _ & _ & A4).
    rewrite I in A1.
    split; [vm_compute; reflexivity|]. split; [vm_compute; reflexivity|].
    split; [apply A1; discriminate|]. split; [apply A1; discriminate|apply A4; discriminate].
  Qed.
End Example.

(* ------------------------------------------------------------------ *)
Check framesR_write_data.
Check framesR_resize.
Check frames_read_data.
Check handle_calls_own_id.
Check step_handle_shape.
Check step_no_handle.
Check handle_op_table_frame.
Check handle_op_entries.
Check write_data_frames_others.
Check resize_frames_others.
Check resize_big_table.
Check write_data_big_table.
Check resize_fat_frames_big_others.
Check setlen_fat_frames_big_others.
Check AllStreamsWf_quiet.
Check handle_op_frames_others.
Check tree_after_handle_op.
Check handle_op_tree_general.
Check handle_op_tree.
Check allwf_b_sound.
Print Assumptions framesR_write_data.
Print Assumptions framesR_resize.
Print Assumptions handle_calls_own_id.
Print Assumptions handle_op_table_frame.
Print Assumptions handle_op_entries.
Print Assumptions write_data_frames_others.
Print Assumptions resize_frames_others.
Print Assumptions resize_fat_frames_big_others.
Print Assumptions setlen_fat_frames_big_others.
Print Assumptions handle_op_frames_others.
Print Assumptions tree_after_handle_op.
Print Assumptions handle_op_tree_general.
Print Assumptions handle_op_tree.
Print Assumptions allwf_b_sound.
Print Assumptions Example.flush_a_keeps_b.
Print Assumptions Example.write_b_keeps_a.
Print Assumptions Example.flush_a_tree.
Print Assumptions Example.setlen_b_keeps_a_entry.
