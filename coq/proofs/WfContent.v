(* WfContent.v -- property C04, last step: the abstract tree the model exposes after opening
   an image accepted by the independent checker [wf_check] is a function of the image's
   LOGICAL content only -- whatever the sector placement, chain order, shape and colouring of
   the sibling trees, directory-slot assignment, sector size or producer.

   The logical content is computed by [logical : list byte -> option node], a small total
   specification function over the checker's own quantities (WfOpen.v section 0: [ck_difat],
   [ck_fat] = the FAT, [ck_sec] = the sector accessor, [es_of_ids] = the parsed entry table,
   [mf_full_of] = the MiniFAT words) and WfImage's [chain_of], [parse_entry]/[wentry],
   [scalars]:
     - root metadata from entry 0;
     - the children of a storage are the entries of its sibling tree IN ORDER (left, self,
       right; fuel = table length); for the search trees the checker accepts this is the
       strictly increasing order of [cmp_names] ([lg_sibs_sorted], [logical_wf_node]);
     - a storage child is [Dir (clsid, state bits, ctime, mtime) kids], recursively;
     - a stream child is [Leaf state bytes] with bytes = the first [len] bytes of the
       concatenation of its sectors in chain order: the FAT chain of whole sectors when
       len >= 4096, otherwise the MiniFAT chain of 64-byte mini sectors, mini sector m being
       bytes [64 m, 64 m + 64) of the concatenation of the root entry's chain.

   Main results (no hypotheses other than those shown; [bytes_ok]: every list element < 256)
     wf_abs_logical              wf_check b = 0 -> bytes_ok b = true ->
                                 exists st t, open_model true b = Ok st /\ abs_state st = Ok t /\
                                              logical b = Some t
     wf_abs_logical_permissive   the same for open_model false
     abs_open_logical            abs_open strict b = logical b  (and is not None)
     same_logical_same_abs       two accepted images with equal [logical] open to states with
                                 equal [abs_state]; same_logical_same_abs_any_mode
     wf_tree_rep_cert            the opened directory table REPRESENTS the logical tree
                                 (QueryRefine.TreeRep, content = what read_data returns)
     wf_api_logical              hence every read-only API call (exists, is_stream, is_storage,
                                 entry, root_entry, read_storage, read_root, walk, walk_storage)
                                 returns what Tree.spec_step returns on [logical b]; open_stream
                                 by path finds the logical stream and the store reads its bytes
     same_logical_same_answers   two accepted images with equal [logical] give the same answers
   Stages (each a closed theorem)
     (a) NAMESPACE   sibs_agree: abs_sibs on the decoded table = lg_sibs on the entries, by
                     induction over the certificate tree NT of WfOpen (fuel S (length dirs)
                     suffices: nheight <= number of nodes <= table length); wf_abs_namespace:
                     the tree without stream bytes ([shape]) is computed from the directory
                     entries alone ([logical_shape])
     (b) LARGE       big_stream_bytes   (StoreProofs.read_data_big, ChainProofs.chain_read_spec)
     (c) SMALL       small_stream_bytes (StoreMiniProofs.read_data_small; a chain of the
                     checker's MiniFAT is a chain of the trimmed MiniFAT the model keeps:
                     mf0_chain / path_prefix); empty_stream_bytes
     (d) COMPOSITION reached_stream_reads (every reached stream entry, from the ownership fold
                     of rule 42), wf_abs_logical_cert
   Non-vacuity (LayoutExample): six different images with the same logical content -- three
   producers (operation orders, temporary streams: a FAT chain running backwards, FREE holes
   in the MiniFAT, a mini-stream container longer than needed), 512- and 4096-byte sectors, a
   re-coloured node, a re-linked sibling tree -- all accepted, pairwise different, equal
   [logical]; the theorems applied to them.
   No accepted image is misread by the model: the theorems are universal.
   Stdlib only; no axioms; every proof is complete. *)
From Coq Require Import List NArith Lia Bool ZifyN ZifyBool Permutation.
From Cfb.model Require Import Base Names Time DirEnt State Alloc Dir Mini Store Handle Open Cfb.
From Cfb.gen Require Import Consts.
From Cfb.spec Require Import Tree Abs WfImage.
From Cfb.proofs Require Import DirProofs ChainProofs.
From Cfb.proofs Require CodecProofs WalkProofs OpenTotal StrictProofs ReuseProofs
                        CoherenceProofs DirCoherence ReopenProofs WfPersist
                        MiniChainProofs StoreProofs StoreMiniProofs WfProofs NamesProofs TreeProofs QueryRefine.
From Cfb.proofs Require Import WfOpen.
Import ListNotations.
Open Scope N_scope.

Ltac Zify.zify_post_hook ::= Z.div_mod_to_equations.

Import ReopenProofs WfPersist.

(* ================================================================== *)
(* 1. the logical content of an image                                   *)
(* ================================================================== *)

(* CLSID field (offset 80, 16 bytes: u32 LE, u16 LE, u16 LE, 8 bytes big-endian) *)
Definition lg_clsid (raw : list byte) : N :=
  u32_at raw 80 * 2 ^ 96 + u16_at raw 84 * 2 ^ 80 + u16_at raw 86 * 2 ^ 64
  + le_val (rev (takeN 8 (dropN 88 raw))).

Definition lg_meta (e : wentry) : meta :=
  mkMeta (lg_clsid (w_raw e)) (w_state e) (w_ctime e) (w_mtime e).

(* the bytes of a chain of fixed-size cells, cut to the recorded length *)
Definition lg_cut (len : N) (cells : list (list byte)) : list byte := takeN len (concat cells).

(* mini sector m of the mini stream [mini] *)
Definition lg_mini_sector (mini : list byte) (m : N) : list byte :=
  takeN MINI_SECTOR_LEN (dropN (MINI_SECTOR_LEN * m) mini).

(* the bytes of a stream entry *)
Definition lg_stream (sec : N -> list byte) (fat mf : list N) (mini : list byte) (e : wentry)
  : option (list byte) :=
  if w_len e <? MINI_STREAM_CUTOFF then
    match chain_of mf (w_start e) with
    | Some ids => Some (lg_cut (w_len e) (map (lg_mini_sector mini) ids))
    | None => None
    end
  else
    match chain_of fat (w_start e) with
    | Some ids => Some (lg_cut (w_len e) (map sec ids))
    | None => None
    end.

(* children of a storage: the entries of its sibling tree in order (left, self, right) *)
Fixpoint lg_sibs (fuel : nat) (es : list wentry) (content : wentry -> option (list byte)) (id : N)
  : option (list (name * node)) :=
  match fuel with
  | O => None
  | S f =>
    if id =? NO_STREAM then Some [] else
    match nthN es id with
    | None => None
    | Some e =>
      match lg_sibs f es content (w_left e), scalars (w_name e),
            (if w_type e =? OBJ_TYPE_STREAM
             then match content e with Some bs => Some (Leaf (w_state e) bs) | None => None end
             else match lg_sibs f es content (w_child e) with
                  | Some kids => Some (Dir (lg_meta e) kids) | None => None end),
            lg_sibs f es content (w_right e) with
      | Some l, Some nm, Some n, Some r => Some (l ++ (nm, n) :: r)
      | _, _, _, _ => None
      end
    end
  end.

Definition logical (bytes : list byte) : option node :=
  match ck_difat bytes with
  | None => None
  | Some (_, difat_all) =>
    let fat := ck_fat bytes difat_all in
    match chain_of fat (u32_at bytes 48) with
    | None => None
    | Some dir_ids =>
      let es := es_of_ids bytes dir_ids in
      match es with
      | [] => None
      | root :: _ =>
        match chain_of fat (u32_at bytes 60), chain_of fat (w_start root) with
        | Some mf_ids, Some ms_ids =>
          let mf := takeN (w_len root / MINI_SECTOR_LEN) (mf_full_of bytes mf_ids) in
          let mini := concat (map (ck_sec bytes) ms_ids) in
          match lg_sibs (S (length es)) es (lg_stream (ck_sec bytes) fat mf mini) (w_child root) with
          | Some kids => Some (Dir (lg_meta root) kids)
          | None => None
          end
        | _, _ => None
        end
      end
    end
  end.

(* ================================================================== *)
(* 2. the tables of the opened state                                    *)
(* ================================================================== *)

Lemma opened_fat : forall b c ds, fat (opened b c ds) = wc_fat b c. Proof. reflexivity. Qed.
Lemma opened_dirs : forall b c ds, dirs (opened b c ds) = ds. Proof. reflexivity. Qed.
Lemma opened_img : forall b c ds, img (opened b c ds) = ck_secs b. Proof. reflexivity. Qed.
Lemma opened_nsect : forall b c ds, nsect (opened b c ds) = ck_ns b. Proof. reflexivity. Qed.
Lemma opened_ver : forall b c ds, ver (opened b c ds) = ver_of b. Proof. reflexivity. Qed.
Lemma opened_minifat : forall b c ds, minifat (opened b c ds) = ck_mf0 b c. Proof. reflexivity. Qed.
Lemma opened_slen : forall b c ds, slen (opened b c ds) = ck_sl b.
Proof. intros. unfold slen. rewrite opened_ver. symmetry. apply ck_sl_ver. Qed.
Lemma opened_sector : forall b c ds x, sector_bytes (opened b c ds) x = ck_sec b x.
Proof. intros. unfold sector_bytes, ck_sec. rewrite opened_img. reflexivity. Qed.

(* the CLSID of the specification is the CLSID the decoder computes *)
Lemma lg_clsid_decode : forall raw, clsid_decode (takeN 16 (dropN 80 raw)) = lg_clsid raw.
Proof.
  intro raw. unfold clsid_decode, lg_clsid, u32_at, u16_at. cbv zeta.
  rewrite StoreProofs.takeN_takeN. change (N.min 4 16) with 4.
  rewrite (MiniChainProofs.takeN_dropN_takeN _ (dropN 80 raw) 4 2 16) by lia.
  rewrite (MiniChainProofs.takeN_dropN_takeN _ (dropN 80 raw) 6 2 16) by lia.
  rewrite (MiniChainProofs.takeN_dropN_takeN _ (dropN 80 raw) 8 8 16) by lia.
  rewrite !ChainProofs.dropN_dropN. reflexivity.
Qed.

(* ================================================================== *)
(* 3. NAMESPACE: abs_sibs on the decoded table = lg_sibs on the entries  *)
(* ================================================================== *)

Fixpoint nheight (t : ntree) : nat :=
  match t with NL => 0 | NN _ l r c => S (Nat.max (nheight l) (Nat.max (nheight r) (nheight c))) end.

Lemma nheight_le : forall t, (nheight t <= length (nids t))%nat.
Proof.
  induction t as [|i l IHl r IHr c IHc]; [reflexivity|].
  cbn [nheight nids length]. rewrite !app_length. lia.
Qed.

Lemma dec_left : forall e, d_left (dec e) = w_left e. Proof. reflexivity. Qed.
Lemma dec_right : forall e, d_right (dec e) = w_right e. Proof. reflexivity. Qed.
Lemma dec_child : forall e, d_child (dec e) = w_child e. Proof. reflexivity. Qed.
Lemma dec_state : forall e, d_state (dec e) = w_state e. Proof. reflexivity. Qed.
Lemma dec_name : forall e, d_name (dec e) = lab_name e. Proof. reflexivity. Qed.
Lemma dec_type : forall e, d_type (dec e) = lab_type e. Proof. reflexivity. Qed.
Lemma dec_len : forall e, d_len (dec e) = if objtype_eqb (lab_type e) TStorage then 0 else w_len e.
Proof. reflexivity. Qed.
Lemma dec_start : forall e, d_start (dec e) = if objtype_eqb (lab_type e) TStorage then 0 else w_start e.
Proof. reflexivity. Qed.
Lemma dec_meta_nonstream : forall e, lab_type e <> TStream ->
  mkMeta (d_clsid (dec e)) (d_state (dec e)) (d_ctime (dec e)) (d_mtime (dec e)) = lg_meta e.
Proof.
  intros e H. unfold lg_meta. rewrite <- lg_clsid_decode. unfold dec, decoded.
  cbn [d_clsid d_state d_ctime d_mtime]. destruct (lab_type e); try reflexivity. congruence.
Qed.

Section Namespace.
Variable es : list wentry.
Variable st : cstate.
Hypothesis Hdirs : dirs st = map dec es.
Variable content : wentry -> option (list byte).

(* what the content stages deliver for one stream entry *)
Definition reads_as (x : N) (e : wentry) : Prop :=
  exists bs, stream_bytes st x (w_len e) = Ok bs /\ content e = Some bs /\ lenN bs = w_len e.

Lemma abs_sibs_S : forall f id, abs_sibs (S f) st id =
    if id =? NO_STREAM then Ok [] else
    rbind (dir_entry_of (dirs st) id) (fun e =>
    rbind (abs_sibs f st (d_left e)) (fun l =>
    rbind (match d_type e with
           | TStream => rbind (stream_bytes st id (d_len e)) (fun bs => Ok (Leaf (d_state e) bs))
           | _ => rbind (abs_sibs f st (d_child e)) (fun kids =>
                  Ok (Dir (mkMeta (d_clsid e) (d_state e) (d_ctime e) (d_mtime e)) kids))
           end) (fun n =>
    rbind (abs_sibs f st (d_right e)) (fun r =>
    Ok (l ++ (d_name e, n) :: r))))).
Proof. reflexivity. Qed.

Lemma lg_sibs_S : forall f id, lg_sibs (S f) es content id =
    if id =? NO_STREAM then Some [] else
    match nthN es id with
    | None => None
    | Some e =>
      match lg_sibs f es content (w_left e), scalars (w_name e),
            (if w_type e =? OBJ_TYPE_STREAM
             then match content e with Some bs => Some (Leaf (w_state e) bs) | None => None end
             else match lg_sibs f es content (w_child e) with
                  | Some kids => Some (Dir (lg_meta e) kids) | None => None end),
            lg_sibs f es content (w_right e) with
      | Some l, Some nm, Some n, Some r => Some (l ++ (nm, n) :: r)
      | _, _, _, _ => None
      end
    end.
Proof. reflexivity. Qed.

Theorem sibs_agree : forall t id lo hi pr, NT es id lo hi pr t ->
  (forall x e, In x (nids t) -> nthN es x = Some e -> w_type e = OBJ_TYPE_STREAM -> reads_as x e) ->
  forall f1 f2, (nheight t < f1)%nat -> (nheight t < f2)%nat ->
  exists L, abs_sibs f1 st id = Ok L /\ lg_sibs f2 es content id = Some L.
Proof.
  induction t as [|i l IHl r IHr c IHc]; intros id lo hi pr HNT Hrd f1 f2 H1 H2.
  - inversion HNT; subst. destruct f1 as [|f1]; [lia|]. destruct f2 as [|f2]; [lia|].
    exists []. rewrite abs_sibs_S, lg_sibs_S, N.eqb_refl. split; reflexivity.
  - inversion HNT as [|? ? ? ? e nm ? ? ? Hn Hm He Hty Hcol Hrr Hnm Hlo Hhi HL HR HC HC']; subst.
    destruct f1 as [|f1]; [lia|]. destruct f2 as [|f2]; [lia|].
    cbn [nheight] in H1, H2.
    rewrite abs_sibs_S, lg_sibs_S.
    replace (i =? NO_STREAM) with false by lia.
    rewrite Hdirs. unfold dir_entry_of. rewrite (ds_nth _ _ _ He), He. cbn [rbind].
    rewrite dec_left, dec_right, dec_child, dec_name, dec_type.
    destruct (IHl _ _ _ _ HL) with (f1 := f1) (f2 := f2) as (Ll & El1 & El2); [|lia|lia|].
    { intros x e' Hx. apply Hrd. cbn [nids In]. right. apply in_or_app. left. exact Hx. }
    destruct (IHr _ _ _ _ HR) with (f1 := f1) (f2 := f2) as (Lr & Er1 & Er2); [|lia|lia|].
    { intros x e' Hx. apply Hrd. cbn [nids In]. right. apply in_or_app. right. apply in_or_app. left. exact Hx. }
    rewrite El1, El2, Er1, Er2. cbn [rbind].
    destruct (name_ok_facts e nm Hnm) as (_ & _ & _ & _ & Hsc & _).
    rewrite Hsc, (lab_name_ok e nm Hnm).
    destruct (lab_type_node e Hty) as [[Elt Ewt]|[Elt Ewt]]; rewrite Elt.
    + (* storage *)
      replace (w_type e =? OBJ_TYPE_STREAM) with false by (rewrite Ewt; reflexivity).
      destruct (IHc _ _ _ _ (HC Ewt)) with (f1 := f1) (f2 := f2) as (Lc & Ec1 & Ec2); [|lia|lia|].
      { intros x e' Hx. apply Hrd. cbn [nids In]. right. apply in_or_app. right. apply in_or_app. right. exact Hx. }
      rewrite Ec1, Ec2. cbn [rbind].
      rewrite (dec_meta_nonstream e) by (rewrite Elt; discriminate).
      eexists. split; reflexivity.
    + (* stream *)
      replace (w_type e =? OBJ_TYPE_STREAM) with true by (rewrite Ewt; reflexivity).
      destruct (Hrd i e (or_introl eq_refl) He Ewt) as (bs & Eb1 & Eb2 & _).
      rewrite dec_len, dec_state, Elt. cbn [objtype_eqb]. rewrite Eb1, Eb2. cbn [rbind].
      eexists. split; reflexivity.
Qed.
End Namespace.
(* ================================================================== *)
(* 4. what the checker's ownership fold says about one stream           *)
(* ================================================================== *)

Definition stream_ok (sl : N) (fat mf : list N) (e : wentry) : Prop :=
  (w_len e = 0 /\ w_start e = END_OF_CHAIN) \/
  (0 < w_len e /\ w_len e < MINI_STREAM_CUTOFF /\
     exists ids, chain_of mf (w_start e) = Some ids /\ lenN ids = ceil_div (w_len e) MINI_SECTOR_LEN) \/
  (MINI_STREAM_CUTOFF <= w_len e /\
     exists ids, chain_of fat (w_start e) = Some ids /\ lenN ids = ceil_div (w_len e) sl).

Lemma streams_step_ok : forall sl fat mf a ie r,
  streams_step sl fat mf (Some a) ie = Some r -> stream_ok sl fat mf (snd ie).
Proof.
  intros sl fat mf [own mown] ie r H. unfold streams_step in H. cbv zeta in H. unfold stream_ok.
  destruct (N.eqb_spec (w_len (snd ie)) 0) as [E0|E0].
  - destruct (N.eqb_spec (w_start (snd ie)) END_OF_CHAIN) as [E1|E1]; [|discriminate]. left. split; assumption.
  - destruct (N.ltb_spec (w_len (snd ie)) MINI_STREAM_CUTOFF) as [Ec|Ec].
    + destruct (chain_of mf (w_start (snd ie))) as [ids|]; [|discriminate].
      destruct (N.eqb_spec (lenN ids) (ceil_div (w_len (snd ie)) MINI_SECTOR_LEN)) as [El|El];
        cbn [negb] in H; [|discriminate].
      right. left. split; [lia|]. split; [exact Ec|]. exists ids. split; [reflexivity|exact El].
    + destruct (chain_of fat (w_start (snd ie))) as [ids|]; [|discriminate].
      destruct (N.eqb_spec (lenN ids) (ceil_div (w_len (snd ie)) sl)) as [El|El];
        cbn [negb] in H; [|discriminate].
      right. right. split; [exact Ec|]. exists ids. split; [reflexivity|exact El].
Qed.

Lemma fold_streams_each : forall sl fat mf l a r,
  fold_left (streams_step sl fat mf) l (Some a) = Some r ->
  forall ie, In ie l -> stream_ok sl fat mf (snd ie).
Proof.
  intros sl fat mf. induction l as [|x t IH]; intros a r H ie Hin; [destruct Hin|].
  cbn [fold_left] in H.
  destruct (streams_step sl fat mf (Some a) x) as [a'|] eqn:E;
    [|rewrite fold_streams_None in H; discriminate].
  destruct Hin as [<-|Hin].
  - eapply streams_step_ok. exact E.
  - eapply IH; eauto.
Qed.

Lemma index_from_In' : forall A (l : list A) k i v,
  nthN l i = Some v -> In (k + i, v) (index_from l k).
Proof.
  intros A l. induction l as [|a t IH]; intros k i v H; [discriminate H|].
  cbn [index_from]. destruct (N.eq_dec i 0) as [->|Hi].
  - cbn in H. injection H as <-. left. rewrite N.add_0_r. reflexivity.
  - rewrite ChainProofs.nthN_cons_pos in H by lia. right.
    replace (k + i) with (k + 1 + N.pred i) by lia. apply IH. exact H.
Qed.

(* ---- walks in a table and in a prefix of it ---- *)
Lemma path_nodes_next : forall tbl st l, WalkProofs.path tbl st l ->
  forall x, In x l -> exists nx, next_of tbl x = Ok nx.
Proof.
  intros tbl st l H. induction H as [|cur nx l Hc Hn Hp IH]; intros x Hx; [destruct Hx|].
  destruct Hx as [<-|Hx]; [exists nx; exact Hn|apply IH; exact Hx].
Qed.

Lemma path_head : forall tbl st l, WalkProofs.path tbl st l -> st <> END_OF_CHAIN -> exists t, l = st :: t.
Proof. intros tbl st l H Hs. inversion H; subst; [contradiction|]. eexists. reflexivity. Qed.

Lemma next_of_value : forall tbl x nx, next_of tbl x = Ok nx ->
  nthN tbl x = Some nx /\ (nx = END_OF_CHAIN \/ nx <= MAX_REGULAR_SECTOR /\ nx < lenN tbl).
Proof.
  intros tbl x nx H. unfold next_of in H. destruct (nthN tbl x) as [v|]; [|discriminate].
  destruct (N.eqb_spec v END_OF_CHAIN) as [E|E]; cbn [negb andb] in H.
  - injection H as <-. split; [reflexivity|left; exact E].
  - destruct (N.ltb_spec MAX_REGULAR_SECTOR v); cbn [orb] in H; [discriminate|].
    destruct (N.leb_spec (lenN tbl) v); [discriminate|]. injection H as <-.
    split; [reflexivity|right; split; assumption].
Qed.

Lemma path_prefix : forall a R st l, WalkProofs.path (a ++ R) st l ->
  (forall x, In x l -> x < lenN a) -> WalkProofs.path a st l.
Proof.
  intros a R st l H. induction H as [|cur nx l Hc Hn Hp IH]; intro Hlt; [constructor|].
  apply WalkProofs.path_cons with (nx := nx); [exact Hc| |apply IH; intros x Hx; apply Hlt; right; exact Hx].
  destruct (next_of_value _ _ _ Hn) as [Hv Hr].
  rewrite ReuseProofs.nthN_app_l in Hv by (apply Hlt; left; reflexivity).
  unfold next_of. rewrite Hv.
  destruct (N.eqb_spec nx END_OF_CHAIN) as [E|E]; cbn [negb andb]; [reflexivity|].
  destruct Hr as [Hr|[Hr1 Hr2]]; [contradiction|].
  destruct (path_head _ _ _ Hp E) as [t ->].
  assert (Hnx : nx < lenN a) by (apply Hlt; right; left; reflexivity).
  replace (MAX_REGULAR_SECTOR <? nx) with false by lia.
  replace (lenN a <=? nx) with false by lia. reflexivity.
Qed.

Lemma ceil_div_cover : forall a b, 0 < b -> a <= b * ceil_div a b.
Proof. intros a b Hb. unfold ceil_div. nia. Qed.

(* ================================================================== *)
(* 5. LARGE and SMALL STREAM CONTENT in the opened state                *)
(* ================================================================== *)

Section Content.
Variable bytes : list byte.
Variable c : wf_cert.
Hypothesis Hok : wf_cert_ok bytes c.

Let es := wc_es bytes c.
Let st := opened bytes c (map dec es).
Let fatc := wc_fat bytes c.
Let mfc := wc_mf bytes c.
Let mini := concat (map (ck_sec bytes) (wc_ms_ids c)).

Lemma sl_pos : 0 < ck_sl bytes.
Proof. destruct (ck_sl_cases bytes) as [E|E]; rewrite E; lia. Qed.

(* every chain of the checker's FAT is a chain the model walks, over whole sectors *)
Lemma fat_chain_good : forall start ids, chain_of fatc start = Some ids ->
  chain_ids_of (fat st) start = Ok ids /\ good_chain st ids.
Proof.
  intros start ids H. destruct (chain_of_J _ _ _ H) as (_ & _ & Hnd & _ & Hp).
  split; [apply WalkProofs.chain_ids_of_path; assumption|].
  pose proof (WalkProofs.path_lt _ _ _ Hp) as Hlt. unfold fatc in Hlt. rewrite (fat_len bytes c Hok) in Hlt.
  split; [exact Hnd|]. split; [|split].
  - apply Forall_forall. intros x Hx. rewrite Forall_forall in Hlt. specialize (Hlt x Hx).
    unfold st. rewrite opened_nsect, opened_sector, opened_slen. split; [exact Hlt|].
    apply ck_sec_len; [exact (co_mod _ _ Hok)|exact (co_len _ _ Hok)|exact Hlt].
  - unfold st. rewrite opened_img, opened_nsect. apply (ck_secs_len bytes c Hok).
  - unfold st. rewrite opened_slen. exact sl_pos.
Qed.

Lemma chain_content_sec : forall ids, chain_content st ids = concat (map (ck_sec bytes) ids).
Proof.
  intro ids. unfold chain_content. f_equal; try (apply map_ext; intro x; apply opened_sector).
Qed.

Lemma st_nth : forall x e, nthN es x = Some e -> nthN (dirs st) x = Some (dec e).
Proof. intros x e H. unfold st. rewrite opened_dirs. apply ds_nth. exact H. Qed.

(* (b) a large stream reads as the first len bytes of its sectors in chain order *)
Theorem big_stream_bytes : forall x e ids,
  nthN es x = Some e -> w_type e = OBJ_TYPE_STREAM -> MINI_STREAM_CUTOFF <= w_len e ->
  chain_of fatc (w_start e) = Some ids -> lenN ids = ceil_div (w_len e) (ck_sl bytes) ->
  stream_bytes st x (w_len e) = Ok (lg_cut (w_len e) (map (ck_sec bytes) ids)) /\
  lenN (lg_cut (w_len e) (map (ck_sec bytes) ids)) = w_len e.
Proof.
  intros x e ids He Hty Hcut Hch Hlen.
  destruct (fat_chain_good _ _ Hch) as [Hids Hg].
  assert (Hlt : lab_type e = TStream) by (unfold lab_type; rewrite Hty; reflexivity).
  assert (Hdl : d_len (dec e) = w_len e) by (rewrite dec_len, Hlt; reflexivity).
  assert (Hds : d_start (dec e) = w_start e) by (rewrite dec_start, Hlt; reflexivity).
  assert (HB : StoreProofs.big_content st x (lg_cut (w_len e) (map (ck_sec bytes) ids))).
  { exists (dec e), ids. split; [apply st_nth; exact He|]. split; [rewrite dec_type; exact Hlt|].
    rewrite Hdl, Hds. split; [exact Hcut|]. split; [exact Hids|]. split; [exact Hg|]. split.
    - unfold st. rewrite opened_slen, Hlen. apply ceil_div_cover. exact sl_pos.
    - unfold lg_cut. rewrite chain_content_sec. reflexivity. }
  pose proof (StoreProofs.big_content_len _ _ _ _ HB (st_nth _ _ He)) as HlV. rewrite Hdl in HlV.
  assert (Hpos : 0 < w_len e) by (change MINI_STREAM_CUTOFF with 4096 in Hcut; lia).
  split; [|exact HlV].
  unfold stream_bytes.
  rewrite (StoreProofs.read_data_big st x _ 0 (w_len e) HB) by lia.
  rewrite HlV, N.sub_0_r, N.min_id, ChainProofs.dropN_0.
  rewrite ChainProofs.takeN_all by lia. reflexivity.
Qed.
(* ---- the mini stream ---- *)
Lemma root_entry0 : nthN es 0 = Some (wc_root c).
Proof. unfold es. rewrite (co_es _ _ Hok). reflexivity. Qed.

Lemma root_lab : lab_type (wc_root c) = TRoot.
Proof. unfold lab_type. rewrite (tf_root_type _ _ _ (co_tree _ _ Hok)). reflexivity. Qed.

Lemma root_chain : MiniChainProofs.root_ids st (wc_ms_ids c) /\ good_chain st (wc_ms_ids c).
Proof.
  pose proof (mn_ms _ _ _ _ _ _ _ (co_mini _ _ Hok)) as Hms.
  destruct (fat_chain_good _ _ Hms) as [Hids Hg]. split; [|exact Hg].
  exists (dec (wc_root c)). split; [apply st_nth; exact root_entry0|].
  rewrite dec_start, root_lab. cbn [objtype_eqb]. exact Hids.
Qed.

Lemma mfc_len : lenN mfc = w_len (wc_root c) / MINI_SECTOR_LEN.
Proof.
  unfold mfc, wc_mf. rewrite StrictProofs.lenN_takeN.
  pose proof (mn_enough _ _ _ _ _ _ _ (co_mini _ _ Hok)). lia.
Qed.

(* a chain of the checker's MiniFAT is a chain of the (trimmed) MiniFAT the model keeps *)
Lemma mf0_chain : forall start mids, chain_of mfc start = Some mids ->
  chain_ids_of (minifat st) start = Ok mids /\ NoDup mids /\ (forall x, In x mids -> x < lenN mfc).
Proof.
  intros start mids H. destruct (chain_of_J _ _ _ H) as (_ & _ & Hnd & _ & Hp).
  pose proof (WalkProofs.path_lt _ _ _ Hp) as Hlt. rewrite Forall_forall in Hlt.
  split; [|split; [exact Hnd|exact Hlt]].
  apply WalkProofs.chain_ids_of_path; [|exact Hnd].
  destruct (mf0_split bytes c Hok) as (R & HR & HFR). fold mfc in HR.
  unfold st. rewrite opened_minifat. unfold ck_mf0.
  set (mf0 := strip_last_while (fun x => x =? FREE_SECTOR) 0 (mf_full_of bytes (wc_mf_ids c))) in *.
  rewrite HR in Hp. apply (path_prefix mf0 R); [exact Hp|].
  intros x Hx. destruct (path_nodes_next _ _ _ Hp x Hx) as [nx Hnx].
  destruct (next_of_value _ _ _ Hnx) as [Hv Hr].
  destruct (N.lt_ge_cases x (lenN mf0)) as [Hl|Hge]; [exact Hl|exfalso].
  rewrite ReuseProofs.nthN_app_r in Hv by exact Hge.
  apply WalkProofs.nthN_In in Hv. rewrite Forall_forall in HFR. specialize (HFR nx Hv).
  mk. rewrite CodecProofs.lenN_app in Hr. lia.
Qed.

Lemma mini_bytes_lg : forall ids m, ids = wc_ms_ids c ->
  MiniChainProofs.mini_bytes st ids m = lg_mini_sector mini m.
Proof.
  intros ids m ->. unfold MiniChainProofs.mini_bytes, MiniChainProofs.mini_stream, lg_mini_sector.
  rewrite chain_content_sec. fold mini. change MINI_SECTOR_LEN with 64. rewrite (N.mul_comm m 64). reflexivity.
Qed.

(* (c) a small stream reads as the first len bytes of its mini sectors in chain order, each
   mini sector being 64 bytes of the concatenation of the root entry's chain *)
Theorem small_stream_bytes : forall x e mids,
  nthN es x = Some e -> w_type e = OBJ_TYPE_STREAM -> 0 < w_len e -> w_len e < MINI_STREAM_CUTOFF ->
  chain_of mfc (w_start e) = Some mids -> lenN mids = ceil_div (w_len e) MINI_SECTOR_LEN ->
  stream_bytes st x (w_len e) = Ok (lg_cut (w_len e) (map (lg_mini_sector mini) mids)) /\
  lenN (lg_cut (w_len e) (map (lg_mini_sector mini) mids)) = w_len e.
Proof.
  intros x e mids He Hty Hpos Hcut Hch Hlen.
  destruct (mf0_chain _ _ Hch) as (Hids & Hnd & Hlt).
  destruct root_chain as [Hroot Hg].
  assert (Hlt' : lab_type e = TStream) by (unfold lab_type; rewrite Hty; reflexivity).
  assert (Hdl : d_len (dec e) = w_len e) by (rewrite dec_len, Hlt'; reflexivity).
  assert (Hds : d_start (dec e) = w_start e) by (rewrite dec_start, Hlt'; reflexivity).
  pose proof (co_mini _ _ Hok) as HM.
  assert (HS : StoreMiniProofs.small_content st x (lg_cut (w_len e) (map (lg_mini_sector mini) mids))).
  { exists (dec e), (wc_ms_ids c), mids. unfold StoreMiniProofs.small_at.
    split; [apply st_nth; exact He|]. split; [rewrite dec_type; exact Hlt'|].
    rewrite Hdl, Hds. split; [exact Hcut|]. split; [exact Hpos|]. split; [exact Hids|]. split; [|split].
    - split; [exact Hroot|]. split; [exact Hg|]. split; [exact Hnd|].
      apply Forall_forall. intros m Hm. specialize (Hlt m Hm). rewrite mfc_len in Hlt.
      unfold st. rewrite opened_slen.
      pose proof (mn_len64 _ _ _ _ _ _ _ HM) as H64. pose proof (mn_ms_cap _ _ _ _ _ _ _ HM) as Hcap.
      change MINI_SECTOR_LEN with 64 in *. lia.
    - rewrite Hlen. change MINI_SECTOR_LEN with 64. apply ceil_div_cover. lia.
    - unfold lg_cut, MiniChainProofs.mchain_content. f_equal. f_equal.
      apply map_ext. intro m. symmetry. apply mini_bytes_lg. reflexivity. }
  destruct HS as (e' & ids' & mids' & HS).
  pose proof (StoreMiniProofs.small_at_lenV _ _ _ _ _ _ HS) as HlV.
  assert (Ee : e' = dec e).
  { destruct HS as (Hn & _). rewrite (st_nth _ _ He) in Hn. injection Hn as <-. reflexivity. }
  rewrite Ee, Hdl in HlV.
  split; [|exact HlV].
  unfold stream_bytes.
  rewrite (StoreMiniProofs.read_data_small st x _ 0 (w_len e)) by (try (eexists; eexists; eexists; exact HS); lia).
  rewrite HlV, N.sub_0_r, N.min_id, ChainProofs.dropN_0.
  rewrite ChainProofs.takeN_all by lia. reflexivity.
Qed.

(* an empty stream reads as no bytes *)
Theorem empty_stream_bytes : forall x e,
  nthN es x = Some e -> w_type e = OBJ_TYPE_STREAM -> w_len e = 0 ->
  stream_bytes st x (w_len e) = Ok [].
Proof.
  intros x e He Hty H0.
  assert (Hlt' : lab_type e = TStream) by (unfold lab_type; rewrite Hty; reflexivity).
  unfold stream_bytes, read_data.
  rewrite (ReuseProofs.bind_exec _ _ _ _ _ (StoreProofs.stream_entry_exec st x (dec e) (st_nth _ _ He) ltac:(rewrite dec_type; exact Hlt'))).
  rewrite dec_len, Hlt'. cbn [objtype_eqb]. rewrite H0. reflexivity.
Qed.
End Content.
(* ================================================================== *)
(* 6. COMPOSITION                                                       *)
(* ================================================================== *)

(* the content function of [logical], with the checker's tables named by the certificate *)
Definition lg_content (bytes : list byte) (c : wf_cert) : wentry -> option (list byte) :=
  lg_stream (ck_sec bytes) (wc_fat bytes c) (wc_mf bytes c) (concat (map (ck_sec bytes) (wc_ms_ids c))).

Lemma logical_cert : forall bytes c, wf_cert_ok bytes c ->
  logical bytes =
  match lg_sibs (S (length (wc_es bytes c))) (wc_es bytes c) (lg_content bytes c) (w_child (wc_root c)) with
  | Some kids => Some (Dir (lg_meta (wc_root c)) kids)
  | None => None
  end.
Proof.
  intros bytes c Hok. unfold logical. rewrite (co_difat _ _ Hok).
  change (ck_fat bytes (wc_difat_all c)) with (wc_fat bytes c).
  rewrite (co_dir_chain _ _ Hok). change (es_of_ids bytes (wc_dir_ids c)) with (wc_es bytes c).
  cbv zeta. pose proof (co_es _ _ Hok) as Ees.
  destruct (wc_es bytes c) as [|r0 rest0] eqn:E; [discriminate|]. injection Ees as -> ->.
  rewrite (mn_chain _ _ _ _ _ _ _ (co_mini _ _ Hok)), (mn_ms _ _ _ _ _ _ _ (co_mini _ _ Hok)).
  reflexivity.
Qed.

(* every reached stream entry is read by the model as the specification says *)
Theorem reached_stream_reads : forall bytes c, wf_cert_ok bytes c ->
  forall x e, nthN (wc_es bytes c) x = Some e -> w_type e = OBJ_TYPE_STREAM ->
  memN x (wc_reach c) = true ->
  reads_as (opened bytes c (map dec (wc_es bytes c))) (lg_content bytes c) x e.
Proof.
  intros bytes c Hok x e He Hty Hreach.
  assert (Hin : In (x, e) (filter (fun '(i, e) => (w_type e =? OBJ_TYPE_STREAM) && memN i (wc_reach c))
                                  (index_from (wc_es bytes c) 0))).
  { apply filter_In. split.
    - pose proof (index_from_In' _ _ 0 _ _ He) as H. rewrite N.add_0_l in H. exact H.
    - rewrite Hty, Hreach. reflexivity. }
  pose proof (fold_streams_each _ _ _ _ _ _ (co_fold _ _ Hok) (x, e) Hin) as Hs. cbn [snd] in Hs.
  unfold reads_as, lg_content, lg_stream.
  destruct Hs as [[H0 Hst]|[(Hpos & Hcut & ids & Hch & Hlen)|(Hcut & ids & Hch & Hlen)]].
  - exists []. split; [apply (empty_stream_bytes bytes c x e He Hty H0)|].
    rewrite H0, Hst. split; reflexivity.
  - exists (lg_cut (w_len e) (map (lg_mini_sector (concat (map (ck_sec bytes) (wc_ms_ids c)))) ids)).
    destruct (small_stream_bytes bytes c Hok x e ids He Hty Hpos Hcut Hch Hlen) as [Hr Hl].
    split; [exact Hr|]. split; [|exact Hl].
    replace (w_len e <? MINI_STREAM_CUTOFF) with true by lia. rewrite Hch. reflexivity.
  - exists (lg_cut (w_len e) (map (ck_sec bytes) ids)).
    destruct (big_stream_bytes bytes c Hok x e ids He Hty Hcut Hch Hlen) as [Hr Hl].
    split; [exact Hr|]. split; [|exact Hl].
    replace (w_len e <? MINI_STREAM_CUTOFF) with false by lia. rewrite Hch. reflexivity.
Qed.

Theorem wf_abs_logical_cert : forall bytes c, wf_cert_ok bytes c ->
  exists t, abs_state (opened bytes c (ck_dirents bytes c)) = Ok t /\ logical bytes = Some t.
Proof.
  intros bytes c Hok. rewrite ck_dirents_map, (logical_cert bytes c Hok).
  pose proof (co_tree _ _ Hok) as TF. pose proof (co_es _ _ Hok) as Ees.
  set (es := wc_es bytes c) in *. set (st := opened bytes c (map dec es)).
  destruct (tree_walk_inv es _ _ _ _ (tf_walk _ _ _ TF)) as (ts & Hts & ND & Dis & Hreach).
  inversion Hts as [|k t ? ts0 HK Hnil]; subst ts. inversion Hnil; subst. clear Hts Hnil.
  cbn [map concat] in ND, Dis, Hreach. rewrite app_nil_r in ND, Dis, Hreach.
  assert (Hlen : (length (nids t) <= length es)%nat).
  { assert (HF : Forall (fun x => x < lenN es) (nids t)).
    { apply Forall_forall. intros x Hx.
      destruct (NT_nodes _ _ _ _ _ _ HK x Hx) as (e & nm & He & _). eapply WalkProofs.nthN_Some_lt; exact He. }
    pose proof (WalkProofs.bounded_nodup_length _ _ ND HF) as Hb.
    rewrite CodecProofs.lenN_length in Hb. lia. }
  pose proof (nheight_le t) as Hh.
  destruct (sibs_agree es st eq_refl (lg_content bytes c) t _ _ _ _ HK) with
      (f1 := S (length (dirs st))) (f2 := S (length es)) as (L & E1 & E2).
  - intros x e Hx He Hty. apply (reached_stream_reads bytes c Hok x e He Hty).
    apply WalkProofs.memN_In. apply Hreach. left. exact Hx.
  - unfold st. rewrite opened_dirs, map_length. lia.
  - lia.
  - exists (Dir (lg_meta (wc_root c)) L). split; [|rewrite E2; reflexivity].
    unfold abs_state. unfold dir_entry_of.
    assert (H0 : nthN (dirs st) ROOT_STREAM_ID = Some (dec (wc_root c))).
    { unfold st. rewrite opened_dirs. apply ds_nth. rewrite Ees. reflexivity. }
    rewrite H0. cbn [rbind]. rewrite dec_child, E1. cbn [rbind].
    rewrite dec_meta_nonstream; [reflexivity|].
    unfold lab_type. rewrite (tf_root_type _ _ _ TF). discriminate.
Qed.

(* ---- the main theorem ---- *)
Theorem wf_abs_logical : forall bytes, wf_check bytes = 0 -> bytes_ok bytes = true ->
  exists st t, open_model true bytes = Ok st /\ abs_state st = Ok t /\ logical bytes = Some t.
Proof.
  intros bytes H Hb. destruct (wf_open_opened bytes H Hb) as (c & Hok & E).
  destruct (wf_abs_logical_cert bytes c Hok) as (t & Ha & Hl).
  exists (opened bytes c (ck_dirents bytes c)), t. repeat split; assumption.
Qed.

Corollary wf_abs_logical_permissive : forall bytes, wf_check bytes = 0 -> bytes_ok bytes = true ->
  exists st t, open_model false bytes = Ok st /\ abs_state st = Ok t /\ logical bytes = Some t.
Proof.
  intros bytes H Hb. destruct (wf_open_opened_permissive bytes H Hb) as (c & Hok & E).
  destruct (wf_abs_logical_cert bytes c Hok) as (t & Ha & Hl).
  exists (opened bytes c (ck_dirents bytes c)), t. repeat split; assumption.
Qed.

(* the abstract tree after opening, as an option *)
Definition abs_open (strict : bool) (bytes : list byte) : option node :=
  match open_model strict bytes with
  | Ok st => match abs_state st with Ok t => Some t | _ => None end
  | _ => None
  end.

Corollary abs_open_logical : forall strict bytes, wf_check bytes = 0 -> bytes_ok bytes = true ->
  abs_open strict bytes = logical bytes /\ logical bytes <> None.
Proof.
  intros strict bytes H Hb. unfold abs_open. destruct strict.
  - destruct (wf_abs_logical bytes H Hb) as (st & t & -> & -> & ->). split; [reflexivity|discriminate].
  - destruct (wf_abs_logical_permissive bytes H Hb) as (st & t & -> & -> & ->). split; [reflexivity|discriminate].
Qed.

(* ---- layout independence ---- *)
Corollary same_logical_same_abs : forall b1 b2,
  wf_check b1 = 0 -> wf_check b2 = 0 -> bytes_ok b1 = true -> bytes_ok b2 = true ->
  logical b1 = logical b2 ->
  exists st1 st2 t, open_model true b1 = Ok st1 /\ open_model true b2 = Ok st2 /\
                    abs_state st1 = Ok t /\ abs_state st2 = Ok t.
Proof.
  intros b1 b2 H1 H2 Hb1 Hb2 HL.
  destruct (wf_abs_logical b1 H1 Hb1) as (st1 & t1 & E1 & A1 & L1).
  destruct (wf_abs_logical b2 H2 Hb2) as (st2 & t2 & E2 & A2 & L2).
  rewrite L1, L2 in HL. injection HL as <-.
  exists st1, st2, t1. repeat split; assumption.
Qed.

Corollary same_logical_same_abs_any_mode : forall m1 m2 b1 b2,
  wf_check b1 = 0 -> wf_check b2 = 0 -> bytes_ok b1 = true -> bytes_ok b2 = true ->
  logical b1 = logical b2 -> abs_open m1 b1 = abs_open m2 b2 /\ abs_open m1 b1 <> None.
Proof.
  intros m1 m2 b1 b2 H1 H2 Hb1 Hb2 HL.
  destruct (abs_open_logical m1 b1 H1 Hb1) as [E1 N1]. destruct (abs_open_logical m2 b2 H2 Hb2) as [E2 _].
  rewrite E1, E2. split; [exact HL|exact N1].
Qed.
(* ================================================================== *)
(* 7. the in-order list of a sibling tree is the sorted order            *)
(* ================================================================== *)

Lemma sorted_kids_app : forall a b, TreeProofs.sorted_kids a -> TreeProofs.sorted_kids b ->
  (forall x y, In x a -> In y b -> cmp_names (fst x) (fst y) = Lt) -> TreeProofs.sorted_kids (a ++ b).
Proof.
  induction a as [|[k n] t IH]; intros b Ha Hb Hab; [exact Hb|].
  cbn [app TreeProofs.sorted_kids] in *. destruct Ha as [Hlt Hs]. split.
  - unfold TreeProofs.lt_all in *. apply Forall_app. split; [exact Hlt|].
    apply Forall_forall. intros y Hy. apply (Hab (k, n) y); [left; reflexivity|exact Hy].
  - apply IH; [exact Hs|exact Hb|]. intros x y Hx Hy. apply Hab; [right; exact Hx|exact Hy].
Qed.

Lemma cmp_lt_name : forall a b, cmp_names a b = Lt -> lt_name a b = true.
Proof. intros a b H. unfold lt_name. rewrite H. reflexivity. Qed.

Definition in_bounds (lo hi : option (list N)) (nm : list N) : Prop := opt_lo lo nm /\ opt_hi hi nm.

Section Sorted.
Variable es : list wentry.
Variable content : wentry -> option (list byte).

(* the in-order list of a sibling tree the checker accepted (search tree with bounds) is
   strictly increasing in the CFB name order, whatever the tree's shape and colours *)
Theorem lg_sibs_sorted : forall t id lo hi pr, NT es id lo hi pr t ->
  forall f L, lg_sibs f es content id = Some L ->
  TreeProofs.sorted_kids L /\ Forall (fun kc => TreeProofs.wf_node (snd kc)) L /\
  Forall (fun kc => in_bounds lo hi (fst kc)) L.
Proof.
  induction t as [|i l IHl r IHr c IHc]; intros id lo hi pr HNT f L HL.
  - inversion HNT; subst. destruct f as [|f]; [discriminate|].
    rewrite lg_sibs_S, N.eqb_refl in HL. injection HL as <-.
    split; [exact I|]. split; constructor.
  - inversion HNT as [|? ? ? ? e nm ? ? ? Hn Hm He Hty Hcol Hrr Hnm Hlo Hhi HLt HRt HC HC']; subst.
    destruct f as [|f]; [discriminate|]. rewrite lg_sibs_S in HL.
    replace (i =? NO_STREAM) with false in HL by lia. rewrite He in HL.
    destruct (lg_sibs f es content (w_left e)) as [Ll|] eqn:El; [|discriminate].
    destruct (name_ok_facts e nm Hnm) as (_ & _ & _ & _ & Hsc & _). rewrite Hsc in HL.
    match type of HL with match ?n with _ => _ end = _ => destruct n as [nd|] eqn:En; [|discriminate] end.
    destruct (lg_sibs f es content (w_right e)) as [Lr|] eqn:Er; [|discriminate].
    injection HL as <-.
    destruct (IHl _ _ _ _ HLt _ _ El) as (Sl & Wl & Bl).
    destruct (IHr _ _ _ _ HRt _ _ Er) as (Sr & Wr & Br).
    rewrite Forall_forall in Bl, Br.
    assert (Hl_lt : forall x, In x Ll -> cmp_names (fst x) nm = Lt).
    { intros x Hx. destruct (Bl x Hx) as [_ Hh]. apply lt_name_cmp. exact Hh. }
    assert (Hr_gt : forall y, In y Lr -> cmp_names nm (fst y) = Lt).
    { intros y Hy. destruct (Br y Hy) as [Hl _]. apply lt_name_cmp. exact Hl. }
    assert (Wn : TreeProofs.wf_node nd).
    { destruct (w_type e =? OBJ_TYPE_STREAM) eqn:Ets.
      - destruct (content e); [|discriminate]. injection En as <-. constructor.
      - destruct (lg_sibs f es content (w_child e)) as [Lc|] eqn:Ec; [|discriminate]. injection En as <-.
        assert (Hsto : w_type e = OBJ_TYPE_STORAGE).
        { destruct Hty as [Hs|Hs]; [exact Hs|]. rewrite Hs in Ets. discriminate. }
        destruct (IHc _ _ _ _ (HC Hsto) _ _ Ec) as (Sc & Wc & _). constructor; assumption. }
    split; [|split].
    + apply sorted_kids_app; [exact Sl| |].
      * cbn [TreeProofs.sorted_kids]. split; [|exact Sr].
        unfold TreeProofs.lt_all. apply Forall_forall. exact Hr_gt.
      * intros x y Hx [<-|Hy]; cbn [fst]; [apply Hl_lt; exact Hx|].
        eapply NamesProofs.cmp_names_trans_lt; [apply Hl_lt; exact Hx|apply Hr_gt; exact Hy].
    + apply Forall_app. split; [exact Wl|]. constructor; [exact Wn|exact Wr].
    + apply Forall_forall. intros x Hx. apply in_app_or in Hx. unfold in_bounds.
      destruct Hx as [Hx|[<-|Hx]].
      * destruct (Bl x Hx) as [Hl _]. split; [exact Hl|].
        destruct hi as [h|]; [|exact I]. cbn [opt_hi] in *. apply cmp_lt_name.
        exact (NamesProofs.cmp_names_trans_lt _ _ _ (Hl_lt x Hx) (lt_name_cmp _ _ Hhi)).
      * cbn [fst]. split; assumption.
      * destruct (Br x Hx) as [_ Hh]. split; [|exact Hh].
        destruct lo as [lw|]; [|exact I]. cbn [opt_lo] in *. apply cmp_lt_name.
        exact (NamesProofs.cmp_names_trans_lt _ _ _ (lt_name_cmp _ _ Hlo) (Hr_gt x Hx)).
Qed.
End Sorted.

(* the logical content of an accepted image is a well-formed abstract tree: every storage's
   children are strictly increasing in the CFB name order *)
Theorem logical_wf_node : forall bytes t, wf_check bytes = 0 -> logical bytes = Some t -> TreeProofs.wf_node t.
Proof.
  intros bytes t H HL. destruct (wf_certificate bytes H) as [c Hok].
  rewrite (logical_cert bytes c Hok) in HL.
  pose proof (co_tree _ _ Hok) as TF.
  destruct (tree_walk_inv _ _ _ _ _ (tf_walk _ _ _ TF)) as (ts & Hts & _).
  inversion Hts as [|k t0 ? ts0 HK Hnil]; subst ts. inversion Hnil; subst.
  destruct (lg_sibs (S (length (wc_es bytes c))) (wc_es bytes c) (lg_content bytes c) (w_child (wc_root c)))
    as [kids|] eqn:E; [|discriminate]. injection HL as <-.
  destruct (lg_sibs_sorted _ _ _ _ _ _ _ HK _ _ E) as (S & W & _). constructor; assumption.
Qed.

(* ================================================================== *)
(* 8. NAMESPACE alone: the tree without its stream bytes is a function   *)
(*    of the directory entries                                           *)
(* ================================================================== *)

Fixpoint shape (n : node) : node :=
  match n with
  | Leaf s _ => Leaf s []
  | Dir m kids => Dir m (map (fun kc => (fst kc, shape (snd kc))) kids)
  end.
Definition shape_kids (L : list (name * node)) : list (name * node) :=
  map (fun kc => (fst kc, shape (snd kc))) L.

Lemma lg_sibs_shape : forall es content f id L, lg_sibs f es content id = Some L ->
  lg_sibs f es (fun _ => Some []) id = Some (shape_kids L).
Proof.
  intros es content. induction f as [|f IH]; intros id L H; [discriminate|].
  rewrite lg_sibs_S in H |- *. destruct (id =? NO_STREAM); [injection H as <-; reflexivity|].
  destruct (nthN es id) as [e|]; [|discriminate].
  destruct (lg_sibs f es content (w_left e)) as [Ll|] eqn:El; [|discriminate].
  destruct (scalars (w_name e)) as [nm|]; [|discriminate].
  rewrite (IH _ _ El).
  match type of H with match ?n with _ => _ end = _ => destruct n as [nd|] eqn:En; [|discriminate] end.
  destruct (lg_sibs f es content (w_right e)) as [Lr|] eqn:Er; [|discriminate].
  rewrite (IH _ _ Er). injection H as <-.
  unfold shape_kids. rewrite map_app. cbn [map fst snd].
  destruct (w_type e =? OBJ_TYPE_STREAM).
  - destruct (content e); [|discriminate]. injection En as <-. reflexivity.
  - destruct (lg_sibs f es content (w_child e)) as [Lc|] eqn:Ec; [|discriminate]. injection En as <-.
    rewrite (IH _ _ Ec). reflexivity.
Qed.

(* the namespace of the opened file (names, kinds, metadata, state bits, child order) is
   computed from the directory entries alone: no FAT chain of a stream, no MiniFAT, no
   stream sector is consulted *)
Definition logical_shape (bytes : list byte) : option node :=
  match ck_difat bytes with
  | None => None
  | Some (_, difat_all) =>
    match chain_of (ck_fat bytes difat_all) (u32_at bytes 48) with
    | None => None
    | Some dir_ids =>
      let es := es_of_ids bytes dir_ids in
      match es with
      | [] => None
      | root :: _ =>
        match lg_sibs (S (length es)) es (fun _ => Some []) (w_child root) with
        | Some kids => Some (Dir (lg_meta root) kids)
        | None => None
        end
      end
    end
  end.

Theorem wf_abs_namespace : forall bytes, wf_check bytes = 0 -> bytes_ok bytes = true ->
  exists st t, open_model true bytes = Ok st /\ abs_state st = Ok t /\
               logical_shape bytes = Some (shape t).
Proof.
  intros bytes H Hb. destruct (wf_open_opened bytes H Hb) as (c & Hok & E).
  destruct (wf_abs_logical_cert bytes c Hok) as (t & Ha & Hl).
  exists (opened bytes c (ck_dirents bytes c)), t. split; [exact E|]. split; [exact Ha|].
  rewrite (logical_cert bytes c Hok) in Hl.
  unfold logical_shape. rewrite (co_difat _ _ Hok).
  change (ck_fat bytes (wc_difat_all c)) with (wc_fat bytes c).
  rewrite (co_dir_chain _ _ Hok). change (es_of_ids bytes (wc_dir_ids c)) with (wc_es bytes c).
  cbv zeta. pose proof (co_es _ _ Hok) as Ees.
  destruct (wc_es bytes c) as [|r0 rest0] eqn:Ew; [discriminate|]. injection Ees as -> ->.
  destruct (lg_sibs (S (length (wc_root c :: wc_rest c))) (wc_root c :: wc_rest c) (lg_content bytes c)
                    (w_child (wc_root c))) as [kids|] eqn:Ek; [|discriminate].
  injection Hl as <-. rewrite (lg_sibs_shape _ _ _ _ _ Ek). reflexivity.
Qed.
(* ================================================================== *)
(* 9. the opened table REPRESENTS the logical tree (QueryRefine.TreeRep) *)
(*    -- hence every query of the public API answers from the logical    *)
(*    content alone                                                       *)
(* ================================================================== *)

Fixpoint bt (t : ntree) : btree :=
  match t with NL => BL | NN i l r _ => BN (bt l) i (bt r) end.

Lemma bt_ids_incl : forall t j, In j (ids (bt t)) -> In j (nids t).
Proof.
  induction t as [|i l IHl r IHr c IHc]; intros j H; [destruct H|].
  cbn [bt ids] in H. cbn [nids]. apply in_app_or in H. destruct H as [H|[<-|H]].
  - right. apply in_or_app. left. apply IHl. exact H.
  - left. reflexivity.
  - right. apply in_or_app. right. apply in_or_app. left. apply IHr. exact H.
Qed.

Lemma nids_nodup_inv : forall i l r c, NoDup (nids (NN i l r c)) ->
  NoDup (nids l) /\ NoDup (nids r) /\ NoDup (nids c) /\
  ~ In i (nids l) /\ ~ In i (nids r) /\ (forall x, In x (nids l) -> ~ In x (nids r)).
Proof.
  intros i l r c H. cbn [nids] in H. inversion H as [|? ? Hi Hrest]; subst.
  destruct (NoDup_app_inv _ _ _ Hrest) as (Nl & Nrc & Dl).
  destruct (NoDup_app_inv _ _ _ Nrc) as (Nr & Nc & _).
  repeat split; try assumption.
  - intro Hc. apply Hi. apply in_or_app. left. exact Hc.
  - intro Hc. apply Hi. apply in_or_app. right. apply in_or_app. left. exact Hc.
  - intros x Hx Hc. apply (Dl x Hx). apply in_or_app. left. exact Hc.
Qed.

Lemma bt_ids_nodup : forall t, NoDup (nids t) -> NoDup (ids (bt t)).
Proof.
  induction t as [|i l IHl r IHr c IHc]; intro H; [constructor|].
  destruct (nids_nodup_inv _ _ _ _ H) as (Nl & Nr & _ & Il & Ir & D).
  cbn [bt ids]. apply NoDup_app_intro; [apply IHl; exact Nl| |].
  - constructor; [|apply IHr; exact Nr]. intro Hc. apply Ir. apply bt_ids_incl. exact Hc.
  - intros x Hx [<-|Hc].
    + apply Il. apply bt_ids_incl. exact Hx.
    + apply (D x); apply bt_ids_incl; assumption.
Qed.

Lemma MAXID_lt : MAX_REGULAR_STREAM_ID < NO_STREAM. Proof. reflexivity. Qed.

Definition st_content (st : cstate) (id : N) (bs : list byte) : Prop :=
  stream_bytes st id (lenN bs) = Ok bs.

Section Represents.
Variable es : list wentry.
Variable st : cstate.
Variable content : wentry -> option (list byte).
Let ds := map dec es.

Lemma nm_of_ds : forall i e, nthN es i = Some e -> nm_of ds i = lab_name e.
Proof. intros i e H. unfold nm_of, ds. rewrite (ds_nth _ _ _ H). reflexivity. Qed.

Theorem sibs_rep : forall t id lo hi pr, NT es id lo hi pr t -> NoDup (nids t) ->
  (forall x e, In x (nids t) -> nthN es x = Some e -> w_type e = OBJ_TYPE_STREAM ->
     reads_as st content x e /\ w_child e = NO_STREAM) ->
  forall f L, lg_sibs f es content id = Some L ->
  Rep ds id (bt t) /\ bst ds (bt t) /\
  (forall j, In j (ids (bt t)) -> in_bounds lo hi (nm_of ds j)) /\
  QueryRefine.KidsRep ds (st_content st) (ids (bt t)) L /\
  QueryRefine.kids_count L = length (nids t).
Proof.
  induction t as [|i l IHl r IHr c IHc]; intros id lo hi pr HNT ND Hrd f L HL.
  - inversion HNT; subst. destruct f as [|f]; [discriminate|].
    rewrite lg_sibs_S, N.eqb_refl in HL. injection HL as <-.
    cbn [bt Rep bst ids nids length]. split; [reflexivity|]. split; [exact I|].
    split; [intros j []|]. split; [constructor|reflexivity].
  - inversion HNT as [|? ? ? ? e nm ? ? ? Hn Hm He Hty Hcol Hrr Hnm Hlo Hhi HLt HRt HC HC']; subst.
    destruct (nids_nodup_inv _ _ _ _ ND) as (Nl & Nr & Nc & _).
    destruct f as [|f]; [discriminate|]. rewrite lg_sibs_S in HL.
    replace (i =? NO_STREAM) with false in HL by lia. rewrite He in HL.
    destruct (lg_sibs f es content (w_left e)) as [Ll|] eqn:El; [|discriminate].
    destruct (name_ok_facts e nm Hnm) as (_ & _ & _ & _ & Hsc & _). rewrite Hsc in HL.
    match type of HL with match ?n with _ => _ end = _ => destruct n as [nd|] eqn:En; [|discriminate] end.
    destruct (lg_sibs f es content (w_right e)) as [Lr|] eqn:Er; [|discriminate].
    injection HL as <-.
    destruct (IHl _ _ _ _ HLt Nl) with (f := f) (L := Ll) as (Rl & Bl & bl & Kl & Cl); [|exact El|].
    { intros x e' Hx. apply Hrd. cbn [nids In]. right. apply in_or_app. left. exact Hx. }
    destruct (IHr _ _ _ _ HRt Nr) with (f := f) (L := Lr) as (Rr & Br & br & Kr & Cr); [|exact Er|].
    { intros x e' Hx. apply Hrd. cbn [nids In]. right. apply in_or_app. right. apply in_or_app. left. exact Hx. }
    assert (Hds : nthN ds i = Some (dec e)) by (apply ds_nth; exact He).
    assert (Hnmi : nm_of ds i = nm) by (rewrite (nm_of_ds _ _ He); apply lab_name_ok; exact Hnm).
    assert (Hl_lt : forall j, In j (ids (bt l)) -> cmp_names (nm_of ds j) nm = Lt).
    { intros j Hj. destruct (bl j Hj) as [_ Hh]. apply lt_name_cmp. exact Hh. }
    assert (Hr_gt : forall j, In j (ids (bt r)) -> cmp_names nm (nm_of ds j) = Lt).
    { intros j Hj. destruct (br j Hj) as [Hlw _]. apply lt_name_cmp. exact Hlw. }
    (* the node itself *)
    assert (HN : QueryRefine.NodeRep ds (st_content st) false i nm nd /\
                 QueryRefine.node_count nd = S (length (nids c))).
    { destruct (lab_type_node e Hty) as [[Elt Ewt]|[Elt Ewt]].
      - (* storage *)
        replace (w_type e =? OBJ_TYPE_STREAM) with false in En by (rewrite Ewt; reflexivity).
        destruct (lg_sibs f es content (w_child e)) as [Lc|] eqn:Ec; [|discriminate]. injection En as <-.
        destruct (IHc _ _ _ _ (HC Ewt) Nc) with (f := f) (L := Lc) as (Rc & Bc & _ & Kc & Cc); [|exact Ec|].
        { intros x e' Hx. apply Hrd. cbn [nids In]. right. apply in_or_app. right. apply in_or_app. right. exact Hx. }
        split; [|rewrite QueryRefine.node_count_dir, Cc; reflexivity].
        apply QueryRefine.NodeRep_dir. split; [pose proof MAXID_lt; lia|].
        exists (dec e). split; [exact Hds|]. split; [rewrite dec_name; apply lab_name_ok; exact Hnm|].
        split; [rewrite dec_type; exact Elt|].
        split; [unfold QueryRefine.meta_of; apply dec_meta_nonstream; rewrite Elt; discriminate|].
        split; [intros _; rewrite dec_len, Elt; reflexivity|].
        exists (bt c). rewrite dec_child. split; [exact Rc|]. split; [exact Bc|].
        split; [apply bt_ids_nodup; exact Nc|exact Kc].
      - (* stream *)
        replace (w_type e =? OBJ_TYPE_STREAM) with true in En by (rewrite Ewt; reflexivity).
        destruct (Hrd i e (or_introl eq_refl) He Ewt) as [(bs & Eb1 & Eb2 & Eb3) Hch].
        rewrite Eb2 in En. injection En as <-.
        assert (Ecn : c = NL) by (apply HC'; rewrite Ewt; discriminate). subst c.
        split; [|reflexivity].
        apply QueryRefine.NodeRep_leaf. split; [pose proof MAXID_lt; lia|].
        exists (dec e). split; [exact Hds|]. split; [rewrite dec_name; apply lab_name_ok; exact Hnm|].
        split; [reflexivity|]. split; [rewrite dec_type; exact Elt|].
        split; [rewrite dec_child; exact Hch|]. split; [apply dec_state|].
        split; [rewrite dec_len, Elt; cbn [objtype_eqb]; symmetry; exact Eb3|].
        split; [unfold st_content; rewrite Eb3; exact Eb1|].
        unfold dec, decoded. cbn [d_clsid d_ctime d_mtime]. rewrite Elt. cbn [objtype_eqb].
        repeat split; reflexivity. }
    destruct HN as [HN HNc].
    split; [|split; [|split; [|split]]].
    + cbn [bt Rep]. split; [reflexivity|]. split; [exact Hn|].
      exists (dec e). split; [exact Hds|]. rewrite dec_left, dec_right. split; assumption.
    + cbn [bt bst]. split; [exact Bl|]. split; [exact Br|]. rewrite Hnmi. split.
      * exact Hl_lt.
      * intros j Hj. rewrite NamesProofs.cmp_names_antisym, (Hr_gt j Hj). reflexivity.
    + intros j Hj. cbn [bt ids] in Hj. apply in_app_or in Hj. unfold in_bounds.
      destruct Hj as [Hj|[<-|Hj]].
      * destruct (bl j Hj) as [Hlw _]. split; [exact Hlw|].
        destruct hi as [h|]; [|exact I]. cbn [opt_hi] in *. apply cmp_lt_name.
        exact (NamesProofs.cmp_names_trans_lt _ _ _ (Hl_lt j Hj) (lt_name_cmp _ _ Hhi)).
      * rewrite Hnmi. split; assumption.
      * destruct (br j Hj) as [_ Hh]. split; [|exact Hh].
        destruct lo as [lw|]; [|exact I]. cbn [opt_lo] in *. apply cmp_lt_name.
        exact (NamesProofs.cmp_names_trans_lt _ _ _ (lt_name_cmp _ _ Hlo) (Hr_gt j Hj)).
    + cbn [bt ids]. unfold QueryRefine.KidsRep. apply Forall2_app; [exact Kl|].
      constructor; [exact HN|exact Kr].
    + rewrite QueryRefine.kids_count_app, QueryRefine.kids_count_cons, Cl, Cr, HNc.
      cbn [nids length]. rewrite !app_length. lia.
Qed.
End Represents.

Theorem wf_tree_rep_cert : forall bytes c, wf_cert_ok bytes c ->
  exists t, logical bytes = Some t /\
    QueryRefine.TreeRep (dirs (opened bytes c (ck_dirents bytes c)))
                        (st_content (opened bytes c (ck_dirents bytes c))) t /\
    (QueryRefine.node_count t <= S (length (dirs (opened bytes c (ck_dirents bytes c)))))%nat.
Proof.
  intros bytes c Hok. rewrite ck_dirents_map, (logical_cert bytes c Hok).
  pose proof (co_tree _ _ Hok) as TF. pose proof (co_es _ _ Hok) as Ees.
  set (es := wc_es bytes c) in *. set (st := opened bytes c (map dec es)).
  destruct (tree_walk_inv es _ _ _ _ (tf_walk _ _ _ TF)) as (ts & Hts & ND & Dis & Hreach).
  inversion Hts as [|k t ? ts0 HK Hnil]; subst ts. inversion Hnil; subst. clear Hts Hnil.
  cbn [map concat] in ND, Dis, Hreach. rewrite app_nil_r in ND, Dis, Hreach.
  assert (Hlen : (length (nids t) <= length es)%nat).
  { assert (HF : Forall (fun x => x < lenN es) (nids t)).
    { apply Forall_forall. intros x Hx.
      destruct (NT_nodes _ _ _ _ _ _ HK x Hx) as (e & nm & He & _). eapply WalkProofs.nthN_Some_lt; exact He. }
    pose proof (WalkProofs.bounded_nodup_length _ _ ND HF) as Hb.
    rewrite CodecProofs.lenN_length in Hb. lia. }
  assert (Hrd : forall x e, In x (nids t) -> nthN es x = Some e -> w_type e = OBJ_TYPE_STREAM ->
                reads_as st (lg_content bytes c) x e /\ w_child e = NO_STREAM).
  { intros x e Hx He Hty.
    assert (Hm : memN x (wc_reach c) = true) by (apply WalkProofs.memN_In; apply Hreach; left; exact Hx).
    split; [exact (reached_stream_reads bytes c Hok x e He Hty Hm)|].
    destruct (tf_stream _ _ _ TF x e He Hty Hm) as (_ & _ & _ & Hc). exact Hc. }
  pose proof (nheight_le t) as Hh.
  destruct (sibs_agree es st eq_refl (lg_content bytes c) t _ _ _ _ HK) with
      (f1 := S (length es)) (f2 := S (length es)) as (L & _ & E2); [|lia|lia|].
  { intros x e Hx He Hty. exact (proj1 (Hrd x e Hx He Hty)). }
  rewrite E2.
  destruct (sibs_rep es st (lg_content bytes c) t _ _ _ _ HK ND Hrd _ _ E2) as (Rt & Bt & _ & Kt & Ct).
  exists (Dir (lg_meta (wc_root c)) L). split; [reflexivity|].
  unfold st at 1 3. rewrite !opened_dirs. split.
  - unfold QueryRefine.TreeRep. apply QueryRefine.NodeRep_dir. split; [reflexivity|].
    exists (dec (wc_root c)). split; [apply ds_nth; rewrite Ees; reflexivity|].
    split.
    { rewrite dec_name. destruct (tf_root_name _ _ _ TF) as (n & Hs & ->). unfold lab_name. rewrite Hs. reflexivity. }
    assert (Hrt : lab_type (wc_root c) = TRoot) by (unfold lab_type; rewrite (tf_root_type _ _ _ TF); reflexivity).
    split; [rewrite dec_type; exact Hrt|].
    split; [unfold QueryRefine.meta_of; apply dec_meta_nonstream; rewrite Hrt; discriminate|].
    split; [discriminate|].
    exists (bt t). rewrite dec_child. split; [exact Rt|]. split; [exact Bt|].
    split; [apply bt_ids_nodup; exact ND|exact Kt].
  - rewrite QueryRefine.node_count_dir, Ct, map_length. lia.
Qed.

(* ---- API level: every read-only call answers from the logical content ---- *)
Definition answers_from (st : cstate) (t : node) : Prop :=
  forall f now o so, cs f = st -> QueryRefine.query_spec o = Some so ->
  exists r r', step f now o = (f, r) /\ spec_step t now so = (t, r') /\
               QueryRefine.res_rel QueryRefine.val_rel r r'.

(* opening a stream by path finds the logical stream; the handle's length is the logical
   length and reading the whole stream through the store returns the logical bytes *)
Definition opens_from (st : cstate) (t : node) : Prop :=
  forall f now i p, cs f = st ->
  exists f' r r', step f now (OOpenStream i p) = (f', r) /\
    spec_step t now (SOpenStream p) = (t, r') /\ QueryRefine.res_rel QueryRefine.val_rel r r' /\
    cs f' = cs f /\
    match r with
    | Ok _ => exists h names s bs,
        hs f' = updN (hs f) i (Some h) /\ name_chain_from_path p = Ok names /\
        Tree.get t names = Some (Leaf s bs) /\ h_total h = lenN bs /\
        stream_bytes st (h_id h) (lenN bs) = Ok bs
    | _ => f' = f
    end.

Lemma tree_rep_answers : forall st t,
  QueryRefine.TreeRep (dirs st) (st_content st) t ->
  (QueryRefine.node_count t <= S (length (dirs st)))%nat ->
  answers_from st t /\ opens_from st t.
Proof.
  intros st t HT Hn. split.
  - intros f now o so Hf Hq. subst st.
    apply (QueryRefine.query_step_refines (st_content (cs f)) f t HT now o so Hq).
    destruct o; try exact I; cbn [QueryRefine.walk_size_ok]; lia.
  - intros f now i p Hf. subst st.
    destruct (QueryRefine.open_stream_step_refines (st_content (cs f)) f t HT now i p)
      as (f' & r & r' & E1 & E2 & E3 & E4 & _ & E5).
    exists f', r, r'. repeat (split; [assumption|]).
    destruct r as [v|k|n|]; try exact E5.
    destruct E5 as (h & names & s & bs & H1 & H2 & H3 & H4 & H5).
    exists h, names, s, bs. repeat (split; [assumption|]).
    split; [rewrite H5; reflexivity|].
    apply QueryRefine.NodeRep_leaf in H4. destruct H4 as (_ & e & _ & _ & _ & _ & _ & _ & _ & Hc & _).
    exact Hc.
Qed.

Theorem wf_api_logical : forall strict bytes, wf_check bytes = 0 -> bytes_ok bytes = true ->
  exists st t, open_model strict bytes = Ok st /\ logical bytes = Some t /\
               answers_from st t /\ opens_from st t.
Proof.
  intros strict bytes H Hb.
  assert (HO : exists c, wf_cert_ok bytes c /\ open_model strict bytes = Ok (opened bytes c (ck_dirents bytes c))).
  { destruct strict; [apply wf_open_opened|apply wf_open_opened_permissive]; assumption. }
  destruct HO as (c & Hok & E).
  destruct (wf_tree_rep_cert bytes c Hok) as (t & HL & HT & Hn).
  exists (opened bytes c (ck_dirents bytes c)), t. split; [exact E|]. split; [exact HL|].
  apply tree_rep_answers; assumption.
Qed.

(* two accepted images with the same logical content give the same answers *)
Corollary same_logical_same_answers : forall m1 m2 b1 b2,
  wf_check b1 = 0 -> wf_check b2 = 0 -> bytes_ok b1 = true -> bytes_ok b2 = true ->
  logical b1 = logical b2 ->
  exists st1 st2 t, open_model m1 b1 = Ok st1 /\ open_model m2 b2 = Ok st2 /\
    answers_from st1 t /\ answers_from st2 t /\ opens_from st1 t /\ opens_from st2 t.
Proof.
  intros m1 m2 b1 b2 H1 H2 Hb1 Hb2 HL.
  destruct (wf_api_logical m1 b1 H1 Hb1) as (st1 & t1 & E1 & L1 & A1 & O1).
  destruct (wf_api_logical m2 b2 H2 Hb2) as (st2 & t2 & E2 & L2 & A2 & O2).
  rewrite L1, L2 in HL. injection HL as <-.
  exists st1, st2, t1. repeat split; assumption.
Qed.
(* ================================================================== *)
(* 10. non-vacuity: different images, same logical content              *)
(* ================================================================== *)

Lemma list_eqb_refl : forall l, list_eqb N.eqb l l = true.
Proof. induction l as [|x t IH]; [reflexivity|]. cbn [list_eqb]. rewrite N.eqb_refl, IH. reflexivity. Qed.

Lemma list_eqb_false_neq : forall a b, list_eqb N.eqb a b = false -> a <> b.
Proof. intros a b H E. rewrite E, list_eqb_refl in H. discriminate. Qed.

Module LayoutExample.
  Import WfProofs.
  Definition A := 97. Definition B := 98. Definition C := 99. Definition D := 100.
  Definition small : list byte := map (fun i => N.of_nat i mod 251) (seq 0 100).
  Definition large : list byte := map (fun i => (N.of_nat i * 7) mod 253) (seq 0 5000).
  Definition other : list byte := map (fun i => (N.of_nat i * 3) mod 239) (seq 0 200).

  (* a write may store fewer bytes than offered (Write contract), so the scripts use the
     write_all loop: offer the rest until everything is stored *)
  Definition now := 132000000000000000.
  Inductive cmd := Op (o : op) | WriteAll (h : N) (bs : list byte).
  Fixpoint write_all (fuel : nat) (f : fstate) (h : N) (bs : list byte) : fstate * bool :=
    match fuel with
    | O => (f, false)
    | S n =>
      match bs with
      | [] => (f, true)
      | _ => match step f now (OHWrite h bs) with
             | (f', Ok (VNum k)) => if k =? 0 then (f', false) else write_all n f' h (dropN k bs)
             | (f', _) => (f', false)
             end
      end
    end.
  (* runs a script; the flag says that every call succeeded *)
  Fixpoint run (f : fstate) (cs : list cmd) : fstate * bool :=
    match cs with
    | [] => (f, true)
    | Op o :: t => let '(f', r) := step f now o in
                   let '(f'', ok) := run f' t in (f'', is_ok r && ok)
    | WriteAll h bs :: t => let '(f', ok1) := write_all 64 f h bs in
                            let '(f'', ok) := run f' t in (f'', ok1 && ok)
    end.

  (* /d, /a (100 bytes), /d/b (5000 bytes), /c (200 bytes), /e (empty) -- in this order *)
  Definition script_a : list cmd :=
    [ Op (OCreateStorage [SL; D]);
      Op (OCreateNewStream 0 [SL; A]); WriteAll 0 small; Op (OHDrop 0);
      Op (OCreateNewStream 0 [SL; D; SL; B]); WriteAll 0 large; Op (OHDrop 0);
      Op (OCreateNewStream 0 [SL; C]); WriteAll 0 other; Op (OHDrop 0);
      Op (OCreateNewStream 0 [SL; 101]); Op (OHDrop 0) ].
  (* the same content produced in another order, with a temporary stream that is removed
     again: other directory slots, other sectors and mini sectors, another tree shape *)
  Definition script_b : list cmd :=
    [ Op (OCreateNewStream 0 [SL; 101]); Op (OHDrop 0);
      Op (OCreateNewStream 0 [SL; 120]); WriteAll 0 (repeatN 5 700); Op (OHDrop 0);
      Op (OCreateNewStream 0 [SL; C]); WriteAll 0 other; Op (OHDrop 0);
      Op (OCreateStorage [SL; D]);
      Op (OCreateNewStream 0 [SL; D; SL; B]); WriteAll 0 large; Op (OHDrop 0);
      Op (ORemoveStream [SL; 120]);
      Op (OCreateNewStream 0 [SL; A]); WriteAll 0 small; Op (OHDrop 0) ].

  (* a third producer: a large and a small temporary stream are written first and removed, so
     that the sectors of /d/b come off the free stack (its chain runs backwards through the file,
     then jumps), the MiniFAT keeps FREE holes between the chains of /a and /c, and the chain
     that holds the mini stream keeps the sectors of a removed 3000-byte stream *)
  Definition script_c : list cmd :=
    [ Op (OCreateNewStream 0 [SL; 121]); WriteAll 0 (repeatN 6 3000 ++ repeatN 4 3000); Op (OHDrop 0);
      Op (OCreateNewStream 0 [SL; C]); WriteAll 0 other; Op (OHDrop 0);
      Op (OCreateNewStream 0 [SL; 120]); WriteAll 0 (repeatN 5 700); Op (OHDrop 0);
      Op (OCreateNewStream 0 [SL; A]); WriteAll 0 small; Op (OHDrop 0);
      Op (OCreateStorage [SL; D]);
      Op (ORemoveStream [SL; 121]);
      Op (OCreateNewStream 0 [SL; D; SL; B]); WriteAll 0 large; Op (OHDrop 0);
      Op (ORemoveStream [SL; 120]);
      Op (OCreateNewStream 0 [SL; 101]); Op (OHDrop 0);
      Op (OCreateNewStream 0 [SL; 122]); WriteAll 0 (repeatN 3 3000); Op (OHDrop 0);
      Op (ORemoveStream [SL; 122]) ].

  Example scripts_succeed : forall v,
    snd (run (init_fstate v 4096 4) script_a) = true /\ snd (run (init_fstate v 4096 4) script_b) = true /\
    snd (run (init_fstate v 4096 4) script_c) = true.
  Proof. intros [|]; vm_compute; repeat split; reflexivity. Qed.

  Definition image (v : version) (sc : list cmd) : list byte :=
    concat_img (img (cs (fst (run (init_fstate v 4096 4) sc)))).
  Definition b1 := image V3 script_a.
  Definition b2 := image V3 script_b.
  Definition b3 := image V4 script_a.   (* 4096-byte sectors *)
  Definition b4 := image V3 script_c.

  Example accepted : wf_check b1 = 0 /\ wf_check b2 = 0 /\ wf_check b3 = 0 /\
                     bytes_ok b1 = true /\ bytes_ok b2 = true /\ bytes_ok b3 = true.
  Proof. vm_compute. repeat split; reflexivity. Qed.
  Example accepted4 : wf_check b4 = 0 /\ bytes_ok b4 = true.
  Proof. vm_compute. repeat split; reflexivity. Qed.

  Example different_images : b1 <> b2 /\ b1 <> b3 /\ b2 <> b3 /\ b1 <> b4 /\ b2 <> b4.
  Proof. repeat split; apply list_eqb_false_neq; vm_compute; reflexivity. Qed.

  Example same_logical : logical b1 = logical b2 /\ logical b1 = logical b3.
  Proof. vm_compute. split; reflexivity. Qed.
  Example same_logical4 : logical b1 = logical b4.
  Proof. vm_compute. reflexivity. Qed.

  (* the content is what was written *)
  Example logical_content :
    match logical b1 with
    | Some t => Tree.get t [[A]] = Some (Leaf 0 small) /\
                Tree.get t [[D]; [B]] = Some (Leaf 0 large) /\
                Tree.get t [[C]] = Some (Leaf 0 other) /\
                Tree.get t [[101]] = Some (Leaf 0 [])
    | None => False
    end.
  Proof. vm_compute. repeat split; reflexivity. Qed.

  (* the layouts really differ: directory slots and start sectors of the same streams *)
  Definition slots (b : list byte) : list (list N * N * N) :=
    match open_model true b with
    | Ok st => map (fun e => (d_name e, d_start e, d_len e)) (dirs st)
    | _ => []
    end.
  Example different_slots : slots b1 <> slots b2.
  Proof. vm_compute. discriminate. Qed.

  (* the FAT chain of /d/b, the mini chains of /a and /c, and the MiniFAT *)
  Definition chain_named (b : list byte) (nm : list N) : list N :=
    match open_model true b with
    | Ok st =>
      match find (fun e => list_eqb N.eqb (d_name e) nm) (dirs st) with
      | Some e => match chain_ids_of (if d_len e <? 4096 then minifat st else fat st) (d_start e) with
                  | Ok ids => ids | _ => [] end
      | None => []
      end
    | _ => []
    end.
  Definition minifat_of (b : list byte) : list N :=
    match open_model true b with Ok st => minifat st | _ => [] end.
  Definition colours (b : list byte) : list (list N * color) :=
    match open_model true b with
    | Ok st => map (fun e => (d_name e, d_color e)) (filter (fun e => negb (objtype_eqb (d_type e) TUnalloc)) (dirs st))
    | _ => []
    end.
  Example chains_1 : chain_named b1 [B] = [4; 5; 6; 7; 8; 9; 10; 11; 12; 13] /\ chain_named b1 [A] = [0; 1].
  Proof. vm_compute. split; reflexivity. Qed.
  (* in b4 the chain of /d/b is not monotone and the MiniFAT has FREE holes *)
  Example chains_4 : chain_named b4 [B] <> chain_named b1 [B] /\
                     existsb (fun x => x =? FREE_SECTOR) (minifat_of b4) = true /\
                     existsb (fun x => x =? FREE_SECTOR) (minifat_of b1) = false.
  Proof. vm_compute. repeat split; try reflexivity. discriminate. Qed.
  Example chains_4_values : chain_named b4 [B] = [13; 12; 11; 10; 9; 8; 7; 6; 5; 4] /\
                            chain_named b4 [A] = [15; 16] /\ chain_named b4 [C] = [0; 1; 2; 3].
  Proof. vm_compute. repeat split; reflexivity. Qed.
  (* the chain holding the mini stream is longer than the recorded mini-stream length needs *)
  Definition container (b : list byte) : N * N :=
    match open_model true b with
    | Ok st => match dirs st with
               | r :: _ => (d_len r, match chain_ids_of (fat st) (d_start r) with Ok ids => lenN ids | _ => 0 end)
               | [] => (0, 0)
               end
    | _ => (0, 0)
    end.
  Example container_longer_4 : let '(len, n) := container b4 in (len + 3 * 512 <=? n * 512) = true.
  Proof. vm_compute. reflexivity. Qed.

  (* a fifth image: b1 with the colour byte of directory slot 1 (the storage /d) set to red;
     colours are layout, not content *)
  Definition b5 := spliceN b1 (1024 + 128 + 67) [0].
  Example recoloured : wf_check b5 = 0 /\ bytes_ok b5 = true /\ b5 <> b1 /\ logical b5 = logical b1 /\
                       colours b1 <> colours b5.
  Proof.
    split; [vm_compute; reflexivity|]. split; [vm_compute; reflexivity|].
    split; [apply list_eqb_false_neq; vm_compute; reflexivity|].
    split; [vm_compute; reflexivity|]. vm_compute. discriminate.
  Qed.

  (* a sixth image: b1 with the sibling tree of the root storage re-linked into another search
     tree over the same entries (in b1: d(a(-,c),e); here: c(a,d(-,e))), as a producer that
     balances differently would write it.  Slot 4 lies in the second directory sector (sector 14) *)
  Definition links (b : list byte) : list (list N * N * N * N) :=
    match open_model true b with
    | Ok st => map (fun e => (d_name e, d_left e, d_right e, d_child e)) (firstn 6 (dirs st))
    | _ => []
    end.
  Definition NONE := NO_STREAM.
  Example links_1 : links b1 =
    [(ROOT_DIR_NAME, NONE, NONE, 1); ([D], 2, 5, 3); ([A], NONE, 4, NONE); ([B], NONE, NONE, NONE);
     ([C], NONE, NONE, NONE); ([101], NONE, NONE, NONE)].
  Proof. vm_compute. reflexivity. Qed.
  Definition b6 :=
    spliceN (spliceN (spliceN (spliceN b1
      (1024 + 76) (le_bytes 4 4))                                   (* root.child := c *)
      (15 * 512 + 68) (le_bytes 4 2 ++ le_bytes 4 1))               (* c.left := a, c.right := d *)
      (1024 + 128 + 68) (le_bytes 4 NONE))                          (* d.left := none *)
      (1024 + 256 + 72) (le_bytes 4 NONE).                          (* a.right := none *)
  Example links_6 : links b6 =
    [(ROOT_DIR_NAME, NONE, NONE, 4); ([D], NONE, 5, 3); ([A], NONE, NONE, NONE); ([B], NONE, NONE, NONE);
     ([C], 2, 1, NONE); ([101], NONE, NONE, NONE)].
  Proof. vm_compute. reflexivity. Qed.
  Example relinked : wf_check b6 = 0 /\ bytes_ok b6 = true /\ b6 <> b1 /\ logical b6 = logical b1.
  Proof.
    split; [vm_compute; reflexivity|]. split; [vm_compute; reflexivity|].
    split; [apply list_eqb_false_neq; vm_compute; reflexivity|]. vm_compute. reflexivity.
  Qed.

  (* by the theorem (no evaluation of open / abs_state involved) *)
  Theorem same_abs_12 : exists st1 st2 t, open_model true b1 = Ok st1 /\ open_model true b2 = Ok st2 /\
                                          abs_state st1 = Ok t /\ abs_state st2 = Ok t.
  Proof.
    destruct accepted as (W1 & W2 & _ & O1 & O2 & _).
    exact (same_logical_same_abs b1 b2 W1 W2 O1 O2 (proj1 same_logical)).
  Qed.
  Theorem same_abs_13 : exists st1 st3 t, open_model true b1 = Ok st1 /\ open_model true b3 = Ok st3 /\
                                          abs_state st1 = Ok t /\ abs_state st3 = Ok t.
  Proof.
    destruct accepted as (W1 & _ & W3 & O1 & _ & O3).
    exact (same_logical_same_abs b1 b3 W1 W3 O1 O3 (proj2 same_logical)).
  Qed.
  Theorem same_abs_14 : exists st1 st4 t, open_model true b1 = Ok st1 /\ open_model true b4 = Ok st4 /\
                                          abs_state st1 = Ok t /\ abs_state st4 = Ok t.
  Proof.
    destruct accepted as (W1 & _ & _ & O1 & _). destruct accepted4 as [W4 O4].
    exact (same_logical_same_abs b1 b4 W1 W4 O1 O4 same_logical4).
  Qed.
  Theorem same_abs_15 : exists st1 st5 t, open_model true b1 = Ok st1 /\ open_model true b5 = Ok st5 /\
                                          abs_state st1 = Ok t /\ abs_state st5 = Ok t.
  Proof.
    destruct accepted as (W1 & _ & _ & O1 & _). destruct recoloured as (W5 & O5 & _ & L5 & _).
    exact (same_logical_same_abs b1 b5 W1 W5 O1 O5 (eq_sym L5)).
  Qed.
  Theorem same_abs_16 : exists st1 st6 t, open_model true b1 = Ok st1 /\ open_model true b6 = Ok st6 /\
                                          abs_state st1 = Ok t /\ abs_state st6 = Ok t.
  Proof.
    destruct accepted as (W1 & _ & _ & O1 & _). destruct relinked as (W6 & O6 & _ & L6).
    exact (same_logical_same_abs b1 b6 W1 W6 O1 O6 (eq_sym L6)).
  Qed.
  (* API level: every pair among the six images gives the same answers to every query *)
  Definition good (z : list byte) : Prop := wf_check z = 0 /\ bytes_ok z = true /\ logical z = logical b1.
  Lemma good_all : Forall good [b1; b2; b3; b4; b5; b6].
  Proof.
    destruct accepted as (W1 & W2 & W3 & O1 & O2 & O3). destruct accepted4 as [W4 O4].
    destruct recoloured as (W5 & O5 & _ & L5 & _). destruct relinked as (W6 & O6 & _ & L6).
    destruct same_logical as [L2 L3]. pose proof same_logical4 as L4.
    constructor; [exact (conj W1 (conj O1 eq_refl))|].
    constructor; [exact (conj W2 (conj O2 (eq_sym L2)))|].
    constructor; [exact (conj W3 (conj O3 (eq_sym L3)))|].
    constructor; [exact (conj W4 (conj O4 (eq_sym L4)))|].
    constructor; [exact (conj W5 (conj O5 L5))|].
    constructor; [exact (conj W6 (conj O6 L6))|]. constructor.
  Qed.
  Theorem same_answers_all : forall m1 m2 x y, In x [b1; b2; b3; b4; b5; b6] -> In y [b1; b2; b3; b4; b5; b6] ->
    exists st1 st2 t, open_model m1 x = Ok st1 /\ open_model m2 y = Ok st2 /\
      answers_from st1 t /\ answers_from st2 t /\ opens_from st1 t /\ opens_from st2 t.
  Proof.
    intros m1 m2 x y Hx Hy. pose proof good_all as HA. rewrite Forall_forall in HA.
    destruct (HA x Hx) as (Wx & Ox & Lx). destruct (HA y Hy) as (Wy & Oy & Ly).
    exact (same_logical_same_answers m1 m2 x y Wx Wy Ox Oy (eq_trans Lx (eq_sym Ly))).
  Qed.
  (* cross-check by evaluation *)
  Example same_abs_by_evaluation :
    abs_open true b1 = abs_open true b2 /\ abs_open true b1 = abs_open false b3 /\ abs_open true b1 = logical b1.
  Proof. vm_compute. repeat split; reflexivity. Qed.
End LayoutExample.

Check wf_abs_logical.
Check wf_abs_logical_permissive.
Check abs_open_logical.
Check same_logical_same_abs.
Check same_logical_same_abs_any_mode.
Check wf_abs_namespace.
Check sibs_agree.
Check big_stream_bytes.
Check small_stream_bytes.
Check empty_stream_bytes.
Check reached_stream_reads.
Check lg_sibs_sorted.
Check sibs_rep.
Check wf_tree_rep_cert.
Check wf_api_logical.
Check same_logical_same_answers.
Check logical_wf_node.
Print Assumptions wf_abs_logical.
Print Assumptions wf_abs_logical_permissive.
Print Assumptions abs_open_logical.
Print Assumptions same_logical_same_abs.
Print Assumptions same_logical_same_abs_any_mode.
Print Assumptions wf_abs_namespace.
Print Assumptions sibs_agree.
Print Assumptions big_stream_bytes.
Print Assumptions small_stream_bytes.
Print Assumptions reached_stream_reads.
Print Assumptions lg_sibs_sorted.
Print Assumptions sibs_rep.
Print Assumptions wf_tree_rep_cert.
Print Assumptions wf_api_logical.
Print Assumptions same_logical_same_answers.
Print Assumptions logical_wf_node.
Print Assumptions LayoutExample.same_abs_12.
Print Assumptions LayoutExample.same_abs_13.
Print Assumptions LayoutExample.same_abs_14.
Print Assumptions LayoutExample.same_abs_15.
Print Assumptions LayoutExample.same_abs_16.
Print Assumptions LayoutExample.same_answers_all.
Print Assumptions LayoutExample.different_images.
