(* HandleProofs.v — the buffered stream handle of model/Handle.v refines the
   Vec + cursor contract of spec/VecSpec.v, over every store that satisfies
   store_contract, for every buffer size and every operation sequence. *)
From Coq Require Import List NArith ZArith Bool Lia ZifyBool ZifyN.
From Cfb.model Require Import Base Handle.
From Cfb.gen Require Import Consts.
From Cfb.spec Require Import VecSpec.
Import ListNotations.
Open Scope N_scope.

(* ========================================================================= *)
(* 1. Lists measured by N                                                     *)
(* ========================================================================= *)
Section ListN.
Context {A : Type}.
Implicit Types (l : list A) (n i : N).

Lemma lenN_nil : lenN (@nil A) = 0.
Proof. reflexivity. Qed.

Lemma lenN_cons x l : lenN (x :: l) = lenN l + 1.
Proof. cbn [lenN]. lia. Qed.

Lemma lenN_app l1 l2 : lenN (l1 ++ l2) = lenN l1 + lenN l2.
Proof.
  induction l1 as [|x t IH]; cbn [app lenN]; [lia|]. rewrite IH. lia.
Qed.

Lemma lenN_takeN n l : lenN (takeN n l) = N.min n (lenN l).
Proof.
  revert n. induction l as [|x t IH]; intro n; cbn [takeN lenN]; [lia|].
  destruct (n =? 0) eqn:E; cbn [lenN]; [lia|]. rewrite IH. lia.
Qed.

Lemma lenN_dropN n l : lenN (dropN n l) = lenN l - n.
Proof.
  revert n. induction l as [|x t IH]; intro n; cbn [dropN lenN]; [lia|].
  destruct (n =? 0) eqn:E; cbn [lenN]; [lia|]. rewrite IH. lia.
Qed.

Lemma repeatN_succ (x : A) n : repeatN x (N.succ n) = x :: repeatN x n.
Proof. unfold repeatN. rewrite N.iter_succ. reflexivity. Qed.

Lemma lenN_repeatN (x : A) n : lenN (repeatN x n) = n.
Proof.
  induction n as [|n IH] using N.peano_ind; [reflexivity|].
  rewrite repeatN_succ. cbn [lenN]. rewrite IH. reflexivity.
Qed.

Lemma lenN_0_nil l : lenN l = 0 -> l = [].
Proof. destruct l; [reflexivity|]. cbn [lenN]. lia. Qed.

Lemma nthN_nil i : nthN (@nil A) i = None.
Proof. reflexivity. Qed.

Lemma nthN_ge l i : lenN l <= i -> nthN l i = None.
Proof.
  revert i. induction l as [|x t IH]; intros i H; cbn [nthN]; [reflexivity|].
  cbn [lenN] in H. destruct (i =? 0) eqn:E; [lia|]. apply IH. lia.
Qed.

Lemma nthN_app l1 l2 i :
  nthN (l1 ++ l2) i = if i <? lenN l1 then nthN l1 i else nthN l2 (i - lenN l1).
Proof.
  revert i. induction l1 as [|x t IH]; intro i; cbn [app lenN nthN].
  - destruct (i <? 0) eqn:E; [lia|]. f_equal. lia.
  - destruct (i =? 0) eqn:E0.
    + destruct (i <? N.succ (lenN t)) eqn:E; [reflexivity|lia].
    + rewrite IH.
      replace (N.pred i <? lenN t) with (i <? N.succ (lenN t)) by lia.
      destruct (i <? N.succ (lenN t)); [reflexivity|]. f_equal. lia.
Qed.

Lemma nthN_takeN n l i : nthN (takeN n l) i = if i <? n then nthN l i else None.
Proof.
  revert n i. induction l as [|x t IH]; intros n i; cbn [takeN nthN].
  - destruct (i <? n); reflexivity.
  - destruct (n =? 0) eqn:En.
    + cbn [nthN]. destruct (i <? n) eqn:E; [lia|reflexivity].
    + cbn [nthN]. destruct (i =? 0) eqn:Ei.
      * destruct (i <? n) eqn:E; [reflexivity|lia].
      * rewrite IH. replace (N.pred i <? N.pred n) with (i <? n) by lia. reflexivity.
Qed.

Lemma nthN_dropN n l i : nthN (dropN n l) i = nthN l (n + i).
Proof.
  revert n i. induction l as [|x t IH]; intros n i; cbn [dropN nthN]; [reflexivity|].
  destruct (n =? 0) eqn:En.
  - cbn [nthN]. replace (n + i) with i by lia. reflexivity.
  - rewrite IH. destruct (n + i =? 0) eqn:E; [lia|]. f_equal. lia.
Qed.

Lemma nthN_repeatN (x : A) n i : nthN (repeatN x n) i = if i <? n then Some x else None.
Proof.
  revert i. induction n as [|n IH] using N.peano_ind; intro i.
  - cbn. destruct (i <? 0) eqn:E; [lia|reflexivity].
  - rewrite repeatN_succ. cbn [nthN]. destruct (i =? 0) eqn:Ei.
    + destruct (i <? N.succ n) eqn:E; [reflexivity|lia].
    + rewrite IH. replace (N.pred i <? n) with (i <? N.succ n) by lia. reflexivity.
Qed.

Lemma nthN_ext l1 l2 : (forall i, nthN l1 i = nthN l2 i) -> l1 = l2.
Proof.
  revert l2. induction l1 as [|x t IH]; intros [|y u] H.
  - reflexivity.
  - specialize (H 0). cbn in H. discriminate.
  - specialize (H 0). cbn in H. discriminate.
  - f_equal.
    + specialize (H 0). cbn in H. congruence.
    + apply IH. intro i. specialize (H (N.succ i)). cbn [nthN] in H.
      destruct (N.succ i =? 0) eqn:E; [lia|]. rewrite N.pred_succ in H. exact H.
Qed.

End ListN.

(* Extensional equality of list expressions built from ++, takeN, dropN,
   repeatN, spliceN: compare the i-th elements, split on every comparison. *)
Ltac nth_rw :=
  repeat first
    [ rewrite nthN_app | rewrite nthN_takeN | rewrite nthN_dropN | rewrite nthN_repeatN
    | rewrite nthN_nil
    | rewrite lenN_app | rewrite lenN_takeN | rewrite lenN_dropN | rewrite lenN_repeatN
    | progress cbn [lenN] ].
Ltac nth_close :=
  first [ reflexivity
        | (f_equal; lia)
        | (symmetry; apply nthN_ge; nth_rw; lia)
        | (apply nthN_ge; nth_rw; lia)
        | match goal with
          | |- @nthN ?T ?l ?x = nthN ?l ?y =>
            destruct (N.le_gt_cases (lenN l) y);
            [ transitivity (@None T); [apply nthN_ge; lia | symmetry; apply nthN_ge; lia]
            | f_equal; lia ]
          end
        | (exfalso; lia) ].
Ltac case_ltb :=
  repeat match goal with
         | |- context [if ?a <? ?b then _ else _] =>
           destruct (a <? b) eqn:?; cbv iota
         end.
Ltac list_ext := timeout 120
  apply nthN_ext; intro; unfold spliceN; nth_rw; case_ltb; nth_close.

Section ListFacts.

Lemma takeN_0 {A} (l : list A) : takeN 0 l = [].
Proof. destruct l; reflexivity. Qed.

Lemma dropN_0 {A} (l : list A) : dropN 0 l = l.
Proof. destruct l; reflexivity. Qed.

Lemma takeN_all {A} n (l : list A) : lenN l <= n -> takeN n l = l.
Proof. intro H. list_ext. Qed.

Lemma dropN_all {A} n (l : list A) : lenN l <= n -> dropN n l = [].
Proof. intro H. list_ext. Qed.

Lemma takeN_min_len {A} n (l : list A) : takeN (N.min n (lenN l)) l = takeN n l.
Proof. list_ext. Qed.

Lemma takeN_app_exact {A} (l1 l2 : list A) n : lenN l1 = n -> takeN n (l1 ++ l2) = l1.
Proof. intro H. list_ext. Qed.

Lemma takeN_takeN {A} a b (l : list A) : takeN a (takeN b l) = takeN (N.min a b) l.
Proof. list_ext. Qed.

Lemma dropN_dropN {A} a b (l : list A) : dropN a (dropN b l) = dropN (b + a) l.
Proof. list_ext. Qed.

Lemma dropN_takeN {A} a b (l : list A) : dropN a (takeN b l) = takeN (b - a) (dropN a l).
Proof. list_ext. Qed.

Lemma takeN_app {A} n (l1 l2 : list A) :
  takeN n (l1 ++ l2) = takeN n l1 ++ takeN (n - lenN l1) l2.
Proof. list_ext. Qed.

Lemma dropN_app {A} n (l1 l2 : list A) :
  dropN n (l1 ++ l2) = dropN n l1 ++ dropN (n - lenN l1) l2.
Proof. list_ext. Qed.

Lemma lenN_spliceN l off bs : lenN (spliceN l off bs) = N.max (lenN l) (off + lenN bs).
Proof. unfold spliceN. nth_rw. lia. Qed.

Lemma spliceN_le l off bs :
  off <= lenN l -> spliceN l off bs = takeN off l ++ bs ++ dropN (off + lenN bs) l.
Proof. intro H. list_ext. Qed.

Lemma spliceN_nil_r l off : off <= lenN l -> spliceN l off [] = l.
Proof. intro H. list_ext. Qed.

Lemma spliceN_nil_l bs : spliceN [] 0 bs = bs.
Proof. list_ext. Qed.

(* writing back what is already there *)
Lemma spliceN_same l off n : off + n <= lenN l -> spliceN l off (takeN n (dropN off l)) = l.
Proof. intro H. list_ext. Qed.

(* the window of a spliced vector *)
Lemma spliceN_window l off bs :
  off <= lenN l -> takeN (lenN bs) (dropN off (spliceN l off bs)) = bs.
Proof. intro H. list_ext. Qed.

(* a write inside / adjacent to a pending window can be merged into the window *)
Lemma spliceN_spliceN l off F pos W :
  off <= lenN l -> pos <= lenN F ->
  spliceN (spliceN l off F) (off + pos) W = spliceN l off (spliceN F pos W).
Proof.
  intros H1 H2.
  rewrite (spliceN_le (spliceN l off F)) by (rewrite lenN_spliceN; lia).
  rewrite (spliceN_le l off (spliceN F pos W)) by lia.
  rewrite lenN_spliceN.
  rewrite (spliceN_le F pos W) by lia.
  rewrite (spliceN_le l off F) by lia.
  assert (HP : lenN (takeN off l) = off) by (rewrite lenN_takeN; lia).
  rewrite takeN_app, HP. rewrite (takeN_all (off + pos)) by lia.
  replace (off + pos - off) with pos by lia.
  rewrite takeN_app. replace (pos - lenN F) with 0 by lia.
  rewrite ?takeN_0, ?app_nil_r.
  rewrite dropN_app, HP. rewrite (dropN_all (off + pos + lenN W) (takeN off l)) by lia.
  cbn [app]. rewrite dropN_app, dropN_dropN.
  rewrite <- !app_assoc. do 3 f_equal. f_equal; f_equal; lia.
Qed.

Lemma dropN_spliceN l off F pos :
  off <= lenN l -> pos <= lenN F ->
  dropN pos F = takeN (lenN F - pos) (dropN (off + pos) (spliceN l off F)).
Proof. intros H1 H2. list_ext. Qed.

(* a torn write is invisible under the pending window *)
Lemma spliceN_agree l l' off bs :
  takeN off l' = takeN off l ->
  dropN (off + lenN bs) l' = dropN (off + lenN bs) l ->
  spliceN l' off bs = spliceN l off bs.
Proof. intros H1 H2. unfold spliceN. rewrite H1, H2. reflexivity. Qed.

Lemma agree_len (l l' : list byte) off n :
  takeN off l' = takeN off l -> dropN (off + n) l' = dropN (off + n) l ->
  off <= lenN l ->
  off <= lenN l' /\ N.max (lenN l') (off + n) = N.max (lenN l) (off + n).
Proof.
  intros H1 H2 H.
  apply (f_equal lenN) in H1. apply (f_equal lenN) in H2.
  rewrite !lenN_takeN in H1. rewrite !lenN_dropN in H2. lia.
Qed.

End ListFacts.

(* ========================================================================= *)
(* 2. Buffer-level facts                                                      *)
(* ========================================================================= *)
Lemma SBM_pos : 1 <= STREAM_BUFFER_MIN.
Proof. unfold STREAM_BUFFER_MIN. lia. Qed.

Ltac projs := cbn [h_id h_total h_buf h_off h_dirty b_data b_pos b_cap b_max].
Ltac projs_in H := cbn [h_id h_total h_buf h_off h_dirty b_data b_pos b_cap b_max] in H.
Ltac projs_all := cbn [h_id h_total h_buf h_off h_dirty b_data b_pos b_cap b_max] in *.

Definition buf_ok (b : sbuf) : Prop :=
  b_pos b <= b_cap b /\ b_cap b <= lenN (b_data b) /\
  STREAM_BUFFER_MIN <= lenN (b_data b) /\ lenN (b_data b) <= b_max b.

Lemma lenN_buf_resize d n : lenN (buf_resize d n) = n.
Proof. unfold buf_resize. nth_rw. lia. Qed.

Lemma takeN_buf_resize d n c :
  c <= lenN d -> c <= n -> takeN c (buf_resize d n) = takeN c d.
Proof. intros H1 H2. unfold buf_resize. list_ext. Qed.

Lemma lenN_buf_filled b : b_cap b <= lenN (b_data b) -> lenN (buf_filled b) = b_cap b.
Proof. unfold buf_filled. rewrite lenN_takeN. lia. Qed.

Lemma takeN_lenN_takeN {A} m (X : list A) : takeN (lenN (takeN m X)) X = takeN m X.
Proof. list_ext. Qed.

Lemma grow_for_read_spec b r :
  STREAM_BUFFER_MIN <= lenN (b_data b) -> lenN (b_data b) <= b_max b ->
  let b1 := buf_grow_for_read b r in
  b_pos b1 = b_pos b /\ b_cap b1 = b_cap b /\ b_max b1 = b_max b /\
  STREAM_BUFFER_MIN <= lenN (b_data b1) /\ lenN (b_data b1) <= b_max b.
Proof.
  intros H1 H2. unfold buf_grow_for_read.
  destruct (r <=? lenN (b_data b)) eqn:E; projs; rewrite ?lenN_buf_resize; lia.
Qed.

(* the core of write_bytes once there is room at pos *)
Lemma buf_write_core data pos cap mx (inp : list byte) :
  pos <= cap -> cap <= lenN data -> pos < lenN data ->
  STREAM_BUFFER_MIN <= lenN data -> lenN data <= mx ->
  let w := N.min (lenN inp) (lenN data - pos) in
  let bf := mkBuf (takeN pos data ++ takeN w inp ++ dropN (pos + w) data)
                  (pos + w) (N.max cap (pos + w)) mx in
  buf_ok bf /\ w <= lenN inp /\ (w = 0 <-> inp = []) /\
  buf_filled bf = spliceN (takeN cap data) pos (takeN w inp).
Proof.
  intros H1 H2 H3 H4 H5 w bf.
  assert (Hw1 : w <= lenN inp) by (subst w; lia).
  assert (Hw2 : pos + w <= lenN data) by (subst w; lia).
  assert (Hw3 : w = 0 <-> inp = []).
  { subst w. split; intro H.
    - apply lenN_0_nil. lia.
    - subst inp. cbn [lenN]. lia. }
  clearbody w. subst bf. unfold buf_ok, buf_filled. projs.
  assert (HL : lenN (takeN pos data ++ takeN w inp ++ dropN (pos + w) data) = lenN data)
    by (nth_rw; lia).
  rewrite HL. repeat split; try lia; try tauto.
  list_ext.
Qed.

Lemma buf_write_spec b inp :
  buf_ok b ->
  (buf_write_bytes b inp = Ok None /\ b_pos b = lenN (b_data b)) \/
  (exists bf k, buf_write_bytes b inp = Ok (Some (bf, k)) /\ buf_ok bf /\
     k <= lenN inp /\ (k = 0 <-> inp = []) /\
     b_pos bf = b_pos b + k /\ b_cap bf = N.max (b_cap b) (b_pos b + k) /\
     b_max bf = b_max b /\
     buf_filled bf = spliceN (buf_filled b) (b_pos b) (takeN k inp)).
Proof.
  intros (H1 & H2 & H3 & H4). unfold buf_write_bytes.
  destruct (lenN (b_data b) <? b_pos b) eqn:E1; [lia|].
  destruct (lenN (b_data b) <=? b_pos b) eqn:E2.
  - unfold buf_grow. destruct (b_max b <=? lenN (b_data b)) eqn:E3.
    + left. split; [reflexivity|lia].
    + right. unfold STREAM_BUFFER_GROWTH_FACTOR.
      set (nl := N.min (lenN (b_data b) * 4) (b_max b)).
      assert (Hnl : lenN (b_data b) < nl /\ nl <= b_max b) by (pose proof SBM_pos; subst nl; lia).
      clearbody nl. projs.
      pose proof (buf_write_core (buf_resize (b_data b) nl) (b_pos b) (b_cap b) (b_max b) inp) as HC.
      rewrite lenN_buf_resize in HC.
      destruct HC as (K1 & K2 & K3 & K4); try lia.
      eexists _, _. split; [reflexivity|]. projs. rewrite !lenN_buf_resize.
      split; [exact K1|]. split; [exact K2|]. split; [exact K3|].
      split; [reflexivity|]. split; [reflexivity|]. split; [reflexivity|].
      rewrite K4. unfold buf_filled. rewrite takeN_buf_resize by lia. reflexivity.
  - right.
    destruct (buf_write_core (b_data b) (b_pos b) (b_cap b) (b_max b) inp)
      as (K1 & K2 & K3 & K4); try lia.
    eexists _, _. split; [reflexivity|]. projs.
    split; [exact K1|]. split; [exact K2|]. split; [exact K3|].
    split; [reflexivity|]. split; [reflexivity|]. split; [reflexivity|].
    exact K4.
Qed.

(* ========================================================================= *)
(* 3. The invariant                                                           *)
(* ========================================================================= *)
Ltac hfacts H :=
  pose proof (hi_pos_cap _ _ H); pose proof (hi_cap_len _ _ H); pose proof (hi_min _ _ H);
  pose proof (hi_max _ _ H); pose proof (hi_off _ _ H); pose proof (hi_len _ _ H);
  pose proof (hi_win _ _ H).

Lemma HInv_clean V id tot data pos cap mx off :
  pos <= cap -> cap <= lenN data -> STREAM_BUFFER_MIN <= lenN data -> lenN data <= mx ->
  lenN V = tot -> off + cap <= tot ->
  takeN cap data = takeN cap (dropN off V) ->
  HInv V (mkHandle id tot (mkBuf data pos cap mx) off false).
Proof.
  intros. constructor; projs;
    [lia|lia|lia|lia|lia|lia|lia| intros _; split; [lia|assumption] | discriminate].
Qed.

Lemma HInv_clean0 V id tot data mx off :
  STREAM_BUFFER_MIN <= lenN data -> lenN data <= mx -> lenN V = tot -> off <= tot ->
  HInv V (mkHandle id tot (mkBuf data 0 0 mx) off false).
Proof. intros. apply HInv_clean; try lia. rewrite !takeN_0. reflexivity. Qed.

Lemma HInv_dirty V id tot data pos cap mx off :
  pos <= cap -> cap <= lenN data -> STREAM_BUFFER_MIN <= lenN data -> lenN data <= mx ->
  off <= lenN V -> tot = N.max (lenN V) (off + cap) ->
  HInv V (mkHandle id tot (mkBuf data pos cap mx) off true).
Proof.
  intros. constructor; projs;
    [lia|lia|lia|lia|lia|lia|lia| discriminate | intros _; assumption].
Qed.

(* in both states the abstract vector is the store content with the window laid over it *)
Lemma HInv_splice V h : HInv V h -> spliceN V (h_off h) (buf_filled (h_buf h)) = absV h V.
Proof.
  intros HI. unfold absV. destruct (h_dirty h) eqn:Ed; [reflexivity|].
  destruct (hi_clean _ _ HI Ed) as [HL HW]. hfacts HI.
  unfold buf_filled. rewrite HW. apply spliceN_same. lia.
Qed.

Theorem len_is_abs_len V h : HInv V h -> h_total h = lenN (absV h V).
Proof.
  intro HI. hfacts HI. unfold absV. destruct (h_dirty h) eqn:Ed.
  - rewrite lenN_spliceN, lenN_buf_filled by lia. apply (hi_dirty _ _ HI Ed).
  - symmetry. apply (hi_clean _ _ HI Ed).
Qed.

Lemma HInv_buf_ok V h : HInv V h -> buf_ok (h_buf h).
Proof. intro HI. hfacts HI. unfold buf_ok. lia. Qed.

Lemma absV_clean h V : h_dirty h = false -> absV h V = V.
Proof. intro H. unfold absV. rewrite H. reflexivity. Qed.


(* ========================================================================= *)
(* 4. Refinement of every operation                                           *)
(* ========================================================================= *)
Section HandleRefinement.
Variable St : Type.
Variable read_data : N -> N -> N -> St -> St * res (list byte).
Variable write_data : N -> N -> list byte -> St -> St * res unit.
Variable resize : N -> N -> St -> St * res unit.
Variable stream_len : N -> St -> St * res N.
Variable content : St -> N -> list byte -> Prop.
Hypothesis SC : store_contract St read_data write_data resize stream_len content.

Let SClen := sc_len _ _ _ _ _ _ SC.
Let SCread := sc_read _ _ _ _ _ _ SC.
Let SCwrite := sc_write _ _ _ _ _ _ SC.
Let SCresize := sc_resize _ _ _ _ _ _ SC.

Local Notation Mnew := (handle_new St stream_len).
Local Notation Mflushc := (flush_changes St write_data stream_len).
Local Notation Mfill := (h_fill_buf St read_data write_data stream_len).
Local Notation Mread := (h_read St read_data write_data stream_len).
Local Notation Mwrite := (h_write St write_data stream_len).
Local Notation Mseek := (h_seek St write_data stream_len).
Local Notation Msetlen := (h_set_len St write_data resize stream_len).
Local Notation Mflush := (h_flush St write_data stream_len).
Local Notation refines := (op_refines St content).

(* ---- 4.1 handle_new ---- *)
Theorem hinv_new s id V m :
  content s id V ->
  exists h, Mnew id m s = (s, Ok h) /\ HInv V h /\ absV h V = V /\
            h_position h = 0 /\ h_dirty h = false /\ h_id h = id /\
            b_max (h_buf h) = N.max m STREAM_BUFFER_MIN.
Proof.
  intro HC. unfold handle_new. rewrite (SClen s id V HC).
  eexists. split; [reflexivity|]. unfold buf_new.
  split; [|repeat split].
  apply HInv_clean0; rewrite ?lenN_repeatN; lia.
Qed.

(* ---- 4.2 flush_changes ---- *)
Lemma flush_changes_spec s id V h :
  content s id V -> h_id h = id -> HInv V h ->
  exists s1 r, Mflushc h s = (s1, r) /\
    match r with
    | Ok h1 => h1 = mkHandle (h_id h) (h_total h) (h_buf h) (h_off h) false /\
               content s1 id (absV h V) /\ HInv (absV h V) h1
    | Err k => exists V', content s1 id V' /\ HInv V' h /\ absV h V' = absV h V
    | Panic _ => False
    | OutOfFuel => False
    end.
Proof.
  intros HC Hid HI. hfacts HI. unfold flush_changes.
  destruct (h_dirty h) eqn:Ed.
  - pose proof (hi_dirty _ _ HI Ed) as Htot.
    assert (HF : lenN (buf_filled (h_buf h)) = b_cap (h_buf h)) by (apply lenN_buf_filled; lia).
    rewrite Hid.
    destruct (SCwrite s id V (h_off h) (buf_filled (h_buf h)) HC) as (s1 & r & EW & HW); [lia|].
    rewrite EW. destruct HW as [[-> HC1] | (k & V' & -> & HC1 & Ht & Hd)].
    + rewrite (SClen _ _ _ HC1).
      assert (HL : lenN (spliceN V (h_off h) (buf_filled (h_buf h))) = h_total h)
        by (rewrite lenN_spliceN; lia).
      rewrite HL, N.max_id.
      eexists _, _. split; [reflexivity|]. cbv beta iota.
      split; [congruence|]. unfold absV. rewrite Ed. split; [exact HC1|].
      destruct h as [hid tot [data pos cap mx] off dirty]. projs_all.
      apply HInv_clean; try lia.
      rewrite <- HF at 2. rewrite spliceN_window by lia. reflexivity.
    + eexists _, _. split; [reflexivity|]. cbv beta iota.
      exists V'. split; [exact HC1|].
      destruct (agree_len V V' (h_off h) (lenN (buf_filled (h_buf h))) Ht Hd) as [Ha Hb]; [lia|].
      split.
      * constructor; lia.
      * unfold absV. rewrite Ed. apply spliceN_agree; assumption.
  - eexists _, _. split; [reflexivity|]. cbv beta iota.
    rewrite (absV_clean h V Ed). split; [|split; assumption].
    destruct h; projs_all; subst; reflexivity.
Qed.

Theorem flush_changes_refines s id V h :
  content s id V -> h_id h = id -> HInv V h ->
  let '(s', r) := Mflushc h s in
  match r with
  | Ok h' => h_id h' = id /\ exists V', content s' id V' /\ HInv V' h' /\
             absV h' V' = absV h V /\ h_position h' = h_position h /\
             h_dirty h' = false /\ V' = absV h V
  | Err k => exists V', content s' id V' /\ HInv V' h /\ absV h V' = absV h V
  | Panic _ => False
  | OutOfFuel => False
  end.
Proof.
  intros HC Hid HI.
  destruct (flush_changes_spec s id V h HC Hid HI) as (s1 & r & EF & HF). rewrite EF.
  destruct r as [h1|k|p|]; try assumption.
  destruct HF as (-> & HC1 & HI1). projs. split; [assumption|].
  exists (absV h V). split; [exact HC1|]. split; [exact HI1|]. repeat split.
Qed.

(* ---- 4.3 flush ---- *)
Theorem h_flush_refines s id V h :
  content s id V -> h_id h = id -> HInv V h ->
  refines id flush_post V h (Mflush h s).
Proof.
  intros HC Hid HI. unfold h_flush.
  destruct (flush_changes_spec s id V h HC Hid HI) as (s1 & r & EF & HF). rewrite EF.
  destruct r as [h1|k|p|]; unfold op_refines; cbv beta iota; try contradiction.
  - destruct HF as (-> & HC1 & HI1). projs. split; [assumption|].
    exists (absV h V). split; [exact HC1|]. split; [exact HI1|]. split; reflexivity.
  - split; [assumption|]. destruct HF as (V' & HC1 & HI1 & HA).
    exists V'. split; [exact HC1|]. split; [exact HI1|]. split; [exact HA|reflexivity].
Qed.

(* a successful flush makes everything written so far durable, whatever
   happened to earlier flush attempts (HInv is preserved by failed calls) *)
Theorem flush_ok_durable s id V h s' h' :
  content s id V -> h_id h = id -> HInv V h ->
  Mflush h s = (s', (h', Ok tt)) ->
  content s' id (absV h V) /\ h_dirty h' = false /\ HInv (absV h V) h'.
Proof.
  intros HC Hid HI. unfold h_flush.
  destruct (flush_changes_spec s id V h HC Hid HI) as (s1 & r & EF & HF). rewrite EF.
  destruct r as [h1|k|p|]; try contradiction; intros [= <- <-].
  destruct HF as (-> & HC1 & HI1). split; [exact HC1|]. split; [reflexivity|exact HI1].
Qed.

(* ---- 4.4 consume ---- *)
Lemma h_consume_spec V h k :
  HInv V h -> b_pos (h_buf h) + k <= b_cap (h_buf h) ->
  exists h', h_consume h k = (h', Ok tt) /\ HInv V h' /\ absV h' V = absV h V /\
             h_position h' = h_position h + k /\ h_id h' = h_id h.
Proof.
  intros HI Hk. hfacts HI. unfold h_consume.
  destruct (b_cap (h_buf h) <? b_pos (h_buf h) + k) eqn:E; [lia|].
  eexists. split; [reflexivity|]. unfold h_with_buf. split; [|repeat split].
  - constructor; projs; try lia.
    + apply (hi_clean _ _ HI).
    + apply (hi_dirty _ _ HI).
  - unfold h_position. projs. lia.
Qed.

Theorem h_consume_refines s id V h k :
  content s id V -> h_id h = id -> HInv V h ->
  b_pos (h_buf h) + k <= b_cap (h_buf h) ->
  refines id (consume_post k) V h (s, h_consume h k).
Proof.
  intros HC Hid HI Hk.
  destruct (h_consume_spec V h k HI Hk) as (h' & E & HI' & HA & HP & Hid').
  rewrite E. unfold op_refines. split; [congruence|].
  exists V. split; [assumption|]. split; [assumption|]. split; assumption.
Qed.

(* ---- 4.5 fill_buf ---- *)
Lemma fill_buf_is_remaining h s s1 h1 avail :
  Mfill h s = (s1, (h1, Ok avail)) -> avail = buf_remaining (h_buf h1).
Proof.
  unfold h_fill_buf.
  destruct (negb _ && _).
  - destruct (Mflushc h s) as [s' [h'|k|p|]]; try (intros [= ]; fail).
    destruct (read_data _ _ _ s') as [s2 [got|k|p|]]; try (intros [= ]; fail).
    destruct (_ <? _); intros [= <- <- <-]. reflexivity.
  - intros [= <- <- <-]. reflexivity.
Qed.

Theorem h_fill_buf_refines s id V h :
  content s id V -> h_id h = id -> HInv V h ->
  refines id fill_post V h (Mfill h s).
Proof.
  intros HC Hid HI. hfacts HI. unfold h_fill_buf.
  pose proof (len_is_abs_len V h HI) as HLA.
  destruct (negb (b_pos (h_buf h) <? b_cap (h_buf h)) && (h_position h <? h_total h)) eqn:EC.
  - (* the buffer is exhausted and the stream is not: write back, then refill *)
    unfold h_position in EC.
    destruct (flush_changes_spec s id V h HC Hid HI) as (s1 & r & EF & HF). rewrite EF.
    destruct r as [h1|k|p|]; unfold op_refines; cbv beta iota; try contradiction.
    2:{ split; [assumption|]. destruct HF as (V' & HC1 & HI1 & HA).
        exists V'. split; [exact HC1|]. split; [exact HI1|]. split; [exact HA|reflexivity]. }
    destruct HF as (-> & HC1 & HI1). projs.
    set (A := absV h V) in *.
    set (off := h_off h + b_pos (h_buf h)) in *.
    set (b0 := mkBuf (b_data (h_buf h)) 0 (b_cap (h_buf h)) (b_max (h_buf h))).
    destruct (grow_for_read_spec b0 (h_total h - off)) as (G1 & G2 & G3 & G4 & G5);
      [subst b0; projs; lia | subst b0; projs; lia |].
    set (b1 := buf_grow_for_read b0 (h_total h - off)) in *. clearbody b1.
    subst b0. projs_all.
    set (limit := N.min (h_total h - off) (lenN (b_data b1))).
    destruct (SCread s1 id A off limit HC1) as (s2 & r & ER & HC2 & HR);
      [lia | subst limit; pose proof SBM_pos; lia |].
    rewrite Hid, ER.
    replace (N.min limit (lenN A - off)) with (N.min (lenN (b_data b1)) (lenN A - off)) in HR
      by (subst limit; lia).
    destruct HR as [-> | (k & ->)].
    + set (got := takeN (N.min (lenN (b_data b1)) (lenN A - off)) (dropN off A)).
      assert (HG : lenN got = N.min (lenN (b_data b1)) (lenN A - off))
        by (subst got; rewrite lenN_takeN, lenN_dropN; lia).
      destruct (limit <? lenN got) eqn:E3; [subst limit; lia|].
      cbv beta iota. projs. split; [reflexivity|].
      exists A. split; [exact HC2|]. rewrite G3. split.
      * apply HInv_clean; rewrite ?lenN_app, ?lenN_dropN; try (pose proof SBM_pos; lia).
        rewrite takeN_app_exact by reflexivity.
        unfold got. symmetry. apply takeN_lenN_takeN.
      * unfold fill_post, h_position, buf_remaining. projs.
        split; [reflexivity|]. split; [fold off; lia|].
        rewrite dropN_0, takeN_app_exact by reflexivity.
        split; [unfold got; symmetry; apply takeN_lenN_takeN|].
        fold off. split; intro HX; exfalso.
        -- rewrite HX in HG. cbn [lenN] in HG. pose proof SBM_pos. lia.
        -- lia.
    + (* the refill failed: the window is emptied at the new offset *)
      cbv beta iota. unfold buf_clear. projs. split; [reflexivity|].
      exists A. split; [exact HC2|]. rewrite G3. split.
      * apply HInv_clean0; lia.
      * unfold h_position. projs. fold off. split; [reflexivity|lia].
  - (* serve from the buffer *)
    unfold op_refines. split; [assumption|].
    exists V. split; [assumption|]. split; [assumption|].
    unfold fill_post. split; [reflexivity|]. split; [reflexivity|].
    set (F := buf_filled (h_buf h)).
    assert (HF : lenN F = b_cap (h_buf h)) by (apply lenN_buf_filled; lia).
    assert (HR : lenN (buf_remaining (h_buf h)) = b_cap (h_buf h) - b_pos (h_buf h))
      by (unfold buf_remaining; rewrite lenN_dropN, lenN_takeN; lia).
    split.
    + rewrite HR. unfold buf_remaining, h_position. fold (buf_filled (h_buf h)). fold F.
      rewrite <- (HInv_splice V h HI). fold F. rewrite <- HF.
      apply dropN_spliceN; lia.
    + rewrite <- HLA. unfold h_position in *. split; intro HX.
      * rewrite HX in HR. cbn [lenN] in HR. lia.
      * apply lenN_0_nil. lia.
Qed.

(* ---- 4.6 read ---- *)
Theorem h_read_refines s id V h n :
  content s id V -> h_id h = id -> HInv V h ->
  refines id (read_post n) V h (Mread h n s).
Proof.
  intros HC Hid HI. unfold h_read.
  pose proof (h_fill_buf_refines s id V h HC Hid HI) as HR.
  destruct (Mfill h s) as [s1 [h1 r]] eqn:EF.
  destruct r as [avail|k|p|]; try exact HR.
  pose proof (fill_buf_is_remaining _ _ _ _ _ EF) as Hav.
  unfold op_refines in HR. destruct HR as (Hid1 & V1 & HC1 & HI1 & HA & HP & HB & HE).
  hfacts HI1.
  assert (HLav : lenN avail = b_cap (h_buf h1) - b_pos (h_buf h1))
    by (subst avail; unfold buf_remaining; rewrite lenN_dropN, lenN_takeN; lia).
  set (r := takeN n avail).
  assert (HLr : lenN r = N.min n (lenN avail)) by (subst r; apply lenN_takeN).
  destruct (h_consume_spec V1 h1 (lenN r) HI1) as (h2 & EC & HI2 & HA2 & HP2 & Hid2); [lia|].
  rewrite EC. unfold op_refines. split; [congruence|].
  exists V1. split; [assumption|]. split; [assumption|].
  unfold read_post. split; [congruence|]. split; [lia|]. split; [|split; [|lia]].
  - rewrite HLr. rewrite <- takeN_takeN. rewrite <- HB. reflexivity.
  - rewrite HLr. destruct HE as [HE1 HE2]. split.
    + intro HX. destruct (N.eq_dec n 0) as [|Hn]; [left; assumption|right].
      apply HE1. apply lenN_0_nil. lia.
    + intros [Hn|Hc]; [lia|]. rewrite (HE2 Hc). cbn [lenN]. lia.
Qed.

(* ---- 4.7 seek ---- *)
Lemma seek_target_spec h w z :
  h_position h <= h_total h ->
  seek_target h w z =
  match seek_spec (h_total h) (h_position h) w z with
  | Some p => Ok p
  | None => Err EInvalidInput
  end.
Proof.
  intro Hp. unfold seek_target, seek_spec. destruct w; cbv zeta;
  repeat match goal with |- context [if ?c then _ else _] => destruct c eqn:? end;
  try reflexivity; try (exfalso; lia); try (f_equal; lia).
Qed.

Lemma seek_spec_range len c w z p : seek_spec len c w z = Some p -> p <= len.
Proof.
  unfold seek_spec. cbv zeta.
  match goal with |- context [if ?c then _ else _] => destruct c eqn:E end;
  intros [= <-]; lia.
Qed.

Theorem h_seek_refines s id V h w z :
  content s id V -> h_id h = id -> HInv V h ->
  refines id (seek_post w z) V h (Mseek h w z s).
Proof.
  intros HC Hid HI. hfacts HI. unfold h_seek.
  pose proof (len_is_abs_len V h HI) as HLA.
  assert (Hp : h_position h <= h_total h) by (unfold h_position; lia).
  rewrite (seek_target_spec h w z Hp).
  destruct (seek_spec (h_total h) (h_position h) w z) as [np|] eqn:ES.
  - pose proof (seek_spec_range _ _ _ _ _ ES) as Hnp.
    destruct ((np <? h_off h) || (h_off h + b_cap (h_buf h) <? np)) eqn:EW.
    + destruct (flush_changes_spec s id V h HC Hid HI) as (s1 & r & EF & HF). rewrite EF.
      destruct r as [h1|k|p|]; unfold op_refines; cbv beta iota; try contradiction.
      * destruct HF as (-> & HC1 & HI1). unfold buf_clear. projs. split; [assumption|].
        exists (absV h V). split; [exact HC1|]. split.
        -- apply HInv_clean0; lia.
        -- split; [rewrite <- HLA; exact ES|]. split; [reflexivity|]. unfold h_position. projs. lia.
      * split; [assumption|]. destruct HF as (V' & HC1 & HI1 & HA).
        exists V'. split; [exact HC1|]. split; [exact HI1|]. split; [exact HA|reflexivity].
    + destruct (lenN (b_data (h_buf h)) <? np - h_off h) eqn:E6; [lia|].
      unfold op_refines, h_with_buf. projs. split; [assumption|].
      exists V. split; [assumption|].
      assert (Hmx : N.max (b_cap (h_buf h)) (np - h_off h) = b_cap (h_buf h)) by lia.
      rewrite Hmx. split.
      * constructor; projs; try lia.
        -- apply (hi_clean _ _ HI).
        -- apply (hi_dirty _ _ HI).
      * split; [rewrite <- HLA; exact ES|]. split; [reflexivity|]. unfold h_position. projs. lia.
  - unfold op_refines. split; [assumption|].
    exists V. split; [assumption|]. split; [assumption|]. split; reflexivity.
Qed.

(* an out-of-range seek is refused with InvalidInput before anything is touched *)
Theorem h_seek_invalid s V h w z :
  HInv V h ->
  seek_spec (lenN (absV h V)) (h_position h) w z = None ->
  Mseek h w z s = (s, (h, Err EInvalidInput)).
Proof.
  intros HI HN. hfacts HI. unfold h_seek.
  assert (Hp : h_position h <= h_total h) by (unfold h_position; lia).
  rewrite (seek_target_spec h w z Hp), (len_is_abs_len V h HI), HN. reflexivity.
Qed.

(* ---- 4.8 set_len ---- *)
Lemma resize_same (l : list byte) n : n = lenN l -> takeN n l ++ repeatN 0 (n - lenN l) = l.
Proof. intro H. list_ext. Qed.

Lemma lenN_resize (l : list byte) n : lenN (takeN n l ++ repeatN 0 (n - lenN l)) = n.
Proof. nth_rw. lia. Qed.

Theorem h_set_len_refines s id V h n :
  content s id V -> h_id h = id -> HInv V h ->
  refines id (set_len_post n) V h (Msetlen h n s).
Proof.
  intros HC Hid HI. subst id. hfacts HI. unfold h_set_len.
  pose proof (len_is_abs_len V h HI) as HLA.
  destruct (n =? h_total h) eqn:En.
  - unfold op_refines. split; [reflexivity|].
    exists V. split; [assumption|]. split; [assumption|].
    unfold set_len_post. split.
    + symmetry. apply resize_same. lia.
    + unfold h_position. lia.
  - destruct (flush_changes_spec s _ V h HC eq_refl HI) as (s1 & r & EF & HF). rewrite EF.
    destruct r as [h1|k|p|]; unfold op_refines; cbv beta iota; try contradiction.
    2:{ split; [reflexivity|]. destruct HF as (V' & HC1 & HI1 & HA).
        exists V'. split; [exact HC1|]. split; [exact HI1|]. split; [exact HA|reflexivity]. }
    destruct HF as (-> & HC1 & HI1). projs.
    destruct (SCresize s1 _ (absV h V) n HC1) as (s2 & r & ER & HR).
    rewrite ER. destruct HR as [[-> HC2] | (k & -> & HC2)]; cbv beta iota.
    + unfold buf_clear. projs. split; [reflexivity|].
      eexists. split; [exact HC2|]. split.
      * apply HInv_clean0; rewrite ?lenN_resize; lia.
      * unfold set_len_post, h_position. projs. split; [reflexivity|lia].
    + (* the resize failed (atomically): the handle re-reads the length, which is
         still lenN (absV h V) = h_total h, and restarts with an empty window at
         the old cursor *)
      rewrite (SClen s2 _ _ HC2). cbv beta iota zeta. unfold buf_clear. projs.
      split; [reflexivity|].
      exists (absV h V). split; [exact HC2|]. split.
      * apply HInv_clean0; unfold h_position; lia.
      * unfold h_position. projs. split; [reflexivity|lia].
Qed.

(* ---- 4.9 write ---- *)
Lemma write_finish V h inp bf k :
  HInv V h -> buf_write_bytes (h_buf h) inp = Ok (Some (bf, k)) ->
  let h' := if 0 <? k
            then mkHandle (h_id h) (N.max (h_total h) (h_off h + b_cap bf)) bf (h_off h) true
            else h_with_buf h bf in
  h_id h' = h_id h /\ HInv V h' /\
  write_post inp (absV h V) (h_position h) (absV h' V) (h_position h') k.
Proof.
  intros HI EB. hfacts HI.
  destruct (buf_write_spec (h_buf h) inp (HInv_buf_ok _ _ HI))
    as [[E1 _] | (bf' & k' & E1 & K1 & K2 & K3 & K4 & K5 & K6 & K7)];
    rewrite E1 in EB; [discriminate|].
  injection EB as <- <-.
  destruct K1 as (B1 & B2 & B3 & B4).
  pose proof (HInv_splice V h HI) as HS.
  pose proof (len_is_abs_len V h HI) as HLA.
  set (F := buf_filled (h_buf h)) in *.
  assert (HF : lenN F = b_cap (h_buf h)) by (apply lenN_buf_filled; lia).
  unfold write_post, h_position.
  destruct (0 <? k') eqn:Ek; cbv zeta; projs.
  - split; [reflexivity|]. split.
    + destruct bf' as [d' p' c' m']. projs_all. apply HInv_dirty; try lia.
      destruct (h_dirty h) eqn:Ed.
      * pose proof (hi_dirty _ _ HI Ed). lia.
      * pose proof (hi_clean _ _ HI Ed). lia.
    + split; [exact K3|]. split; [exact K2|]. split; [|lia].
      unfold absV at 1. projs. rewrite K7.
      rewrite <- spliceN_spliceN by lia. rewrite HS. reflexivity.
  - assert (Hk : k' = 0) by lia. assert (Hinp : inp = []) by (apply K3; exact Hk).
    assert (HFF : buf_filled bf' = F).
    { rewrite K7, Hk, Hinp. cbn [takeN]. apply spliceN_nil_r. lia. }
    assert (Hcap : b_cap bf' = b_cap (h_buf h)) by lia.
    unfold h_with_buf. projs. split; [reflexivity|]. split.
    + constructor; projs; try lia.
      * intro Ed. destruct (hi_clean _ _ HI Ed) as [Hc1 Hc2]. split; [exact Hc1|].
        change (takeN (b_cap bf') (b_data bf')) with (buf_filled bf').
        rewrite HFF, Hcap. exact Hc2.
      * intro Ed. rewrite Hcap. apply (hi_dirty _ _ HI Ed).
    + split; [exact K3|]. split; [exact K2|]. split; [|lia].
      rewrite Hk, Hinp. cbn [takeN]. rewrite spliceN_nil_r by lia.
      unfold absV. projs. rewrite HFF. reflexivity.
Qed.

Theorem h_write_refines s id V h inp :
  content s id V -> h_id h = id -> HInv V h ->
  refines id (write_post inp) V h (Mwrite h inp s).
Proof.
  intros HC Hid HI. hfacts HI. unfold h_write. cbv beta zeta.
  destruct (buf_write_spec (h_buf h) inp (HInv_buf_ok _ _ HI))
    as [[E1 Hfull] | (bf & k & E1 & _)]; rewrite E1.
  - (* the buffer is full and cannot grow: write it back and restart it at the cursor *)
    destruct (flush_changes_spec s id V h HC Hid HI) as (s1 & r & EF & HF). rewrite EF.
    destruct r as [h1|k|p|].
    3,4: contradiction.
    2:{ unfold op_refines. split; [assumption|]. destruct HF as (V' & HC1 & HI1 & HA).
        exists V'. split; [exact HC1|]. split; [exact HI1|]. split; [exact HA|reflexivity]. }
    destruct HF as (Eh1 & HC1 & HI1).
    set (h2 := mkHandle (h_id h1) (h_total h1) (buf_clear (h_buf h1))
                        (h_off h1 + b_pos (h_buf h1)) (h_dirty h1)).
    pose proof (len_is_abs_len V h HI) as HLA.
    assert (HI2 : HInv (absV h V) h2).
    { unfold h2. rewrite Eh1. unfold buf_clear. projs. apply HInv_clean0; lia. }
    assert (HA2 : absV h2 (absV h V) = absV h V) by (unfold h2; rewrite Eh1; reflexivity).
    assert (HP2 : h_position h2 = h_position h)
      by (unfold h2, h_position; rewrite Eh1; unfold buf_clear; projs; lia).
    assert (Hid2 : h_id h2 = id) by (unfold h2; rewrite Eh1; projs; assumption).
    destruct (buf_write_spec (h_buf h2) inp (HInv_buf_ok _ _ HI2))
      as [[E2 Hfull2] | (bf & k & E2 & _)].
    { exfalso. unfold h2 in Hfull2. rewrite Eh1 in Hfull2. unfold buf_clear in Hfull2.
      projs_in Hfull2. pose proof SBM_pos. lia. }
    rewrite E2.
    pose proof (write_finish (absV h V) h2 inp bf k HI2 E2) as WF. cbv zeta in WF.
    rewrite HA2, HP2 in WF.
    destruct (0 <? k); destruct WF as (W1 & W2 & W3); unfold op_refines;
      (split; [congruence|]); exists (absV h V); (split; [exact HC1|]); split; assumption.
  - pose proof (write_finish V h inp bf k HI E1) as WF. cbv zeta in WF.
    destruct (0 <? k); destruct WF as (W1 & W2 & W3); unfold op_refines;
      (split; [congruence|]); exists V; (split; [exact HC|]); split; assumption.
Qed.

(* ---- 4.10 progress ---- *)
Theorem h_read_progress s id V h n s' h' bs :
  content s id V -> h_id h = id -> HInv V h ->
  0 < n -> h_position h < lenN (absV h V) ->
  Mread h n s = (s', (h', Ok bs)) -> 0 < lenN bs.
Proof.
  intros HC Hid HI Hn Hc E.
  pose proof (h_read_refines s id V h n HC Hid HI) as HR. rewrite E in HR.
  destruct HR as (_ & V' & _ & _ & _ & _ & _ & HZ & _). lia.
Qed.

Theorem h_write_progress s id V h inp s' h' k :
  content s id V -> h_id h = id -> HInv V h ->
  inp <> [] ->
  Mwrite h inp s = (s', (h', Ok k)) -> 0 < k.
Proof.
  intros HC Hid HI Hn E.
  pose proof (h_write_refines s id V h inp HC Hid HI) as HR. rewrite E in HR.
  destruct HR as (_ & V' & _ & _ & HZ & _). 
  destruct (N.eq_dec k 0) as [Hk|Hk]; [|lia]. exfalso. apply Hn. apply HZ. exact Hk.
Qed.

(* ========================================================================= *)
(* 5. Traces                                                                  *)
(* ========================================================================= *)
Local Notation Mrun_op := (run_op St read_data write_data resize stream_len).
Local Notation Mrun_ops := (run_ops St read_data write_data resize stream_len).
Local Notation rel := (handle_rel St content).

(* from a per-operation refinement to a contract step *)
Lemma refines_step {X} id (post : list byte -> N -> list byte -> N -> X -> Prop)
      V h s1 h1 (r1 : res X) (f : X -> hout) o A c :
  refines id post V h (s1, (h1, r1)) ->
  absV h V = A -> h_position h = c ->
  fallible o = true ->
  (forall k w z, r1 = Err k -> o = HSeek w z -> seek_spec (lenN A) c w z = None ->
                 k = EInvalidInput) ->
  (forall x A' c', post A c A' c' x -> cstep (A, c) o (f x) (A', c')) ->
  exists A' c', cstep (A, c) o (out_of f r1) (A', c') /\ rel id s1 h1 (A', c').
Proof.
  intros HR HA HP Hf Hseek Hstep. unfold op_refines in HR. destruct HR as (Hid1 & HR).
  destruct r1 as [x|k|p|]; try contradiction; cbn [out_of].
  - destruct HR as (V' & HC' & HI' & Hpost). rewrite HA, HP in Hpost.
    exists (absV h1 V'), (h_position h1). split; [apply Hstep; exact Hpost|].
    split; [exact Hid1|]. exists V'. repeat (split; [assumption|]). split; reflexivity.
  - destruct HR as (V' & HC' & HI' & HA' & HP').
    exists A, c. split.
    + apply cs_err; [exact Hf|]. intros w z Ho Hn. exact (Hseek k w z eq_refl Ho Hn).
    + split; [exact Hid1|]. exists V'. split; [assumption|]. split; [assumption|].
      cbn [fst snd]. split; congruence.
Qed.

Lemma run_op_refines id s h A c o s' h' r :
  rel id s h (A, c) -> Mrun_op h o s = (s', (h', r)) ->
  exists A' c', cstep (A, c) o r (A', c') /\ rel id s' h' (A', c').
Proof.
  intros (Hid & V & HC & HI & HA & HP). cbn [fst snd] in HA, HP.
  destruct o as [n| |k|bs|w z|n| | |]; unfold run_op.
  - pose proof (h_read_refines s id V h n HC Hid HI) as HR.
    destruct (Mread h n s) as [s1 [h1 r1]]. intros [= <- <- <-].
    eapply refines_step; eauto; try discriminate. intros x A' c'. apply cs_read.
  - pose proof (h_fill_buf_refines s id V h HC Hid HI) as HR.
    destruct (Mfill h s) as [s1 [h1 r1]]. intros [= <- <- <-].
    eapply refines_step; eauto; try discriminate. intros x A' c'. apply cs_fill.
  - hfacts HI. pose proof (len_is_abs_len V h HI) as HLA.
    destruct (b_pos (h_buf h) + k <=? b_cap (h_buf h)) eqn:Ek.
    + destruct (h_consume_spec V h k HI) as (h1 & E & HI' & HA' & HP' & Hid'); [lia|].
      rewrite E. intros [= <- <- <-]. cbn [out_of].
      exists A, (c + k). split.
      * apply cs_consume. unfold h_position in HP. subst A. lia.
      * split; [congruence|]. exists V. split; [assumption|]. split; [assumption|].
        cbn [fst snd]. split; congruence.
    + intros [= <- <- <-]. exists A, c. split; [apply cs_consume_skip|].
      split; [assumption|]. exists V. repeat (split; [assumption|]). assumption.
  - pose proof (h_write_refines s id V h bs HC Hid HI) as HR.
    destruct (Mwrite h bs s) as [s1 [h1 r1]]. intros [= <- <- <-].
    eapply refines_step; eauto; try discriminate. intros x A' c'. apply cs_write.
  - pose proof (h_seek_refines s id V h w z HC Hid HI) as HR.
    destruct (Mseek h w z s) as [s1 [h1 r1]] eqn:ES. intros [= <- <- <-].
    eapply refines_step; eauto.
    + intros k w' z' -> [= <- <-] HN. subst A c.
      rewrite (h_seek_invalid s V h w z HI HN) in ES. congruence.
    + intros x A' c'. apply cs_seek.
  - pose proof (h_set_len_refines s id V h n HC Hid HI) as HR.
    destruct (Msetlen h n s) as [s1 [h1 r1]]. intros [= <- <- <-].
    eapply refines_step; eauto; try discriminate.
    intros [] A' c'. apply cs_set_len.
  - pose proof (h_flush_refines s id V h HC Hid HI) as HR.
    destruct (Mflush h s) as [s1 [h1 r1]]. intros [= <- <- <-].
    eapply refines_step; eauto; try discriminate.
    intros [] A' c' [-> ->]. apply cs_flush.
  - intros [= <- <- <-]. exists A, c. rewrite (len_is_abs_len V h HI), HA.
    split; [apply cs_len|]. split; [assumption|]. exists V. repeat (split; [assumption|]). assumption.
  - intros [= <- <- <-]. exists A, c. rewrite HP.
    split; [apply cs_pos|]. split; [assumption|]. exists V. repeat (split; [assumption|]). assumption.
Qed.

Lemma run_ops_refines id ops : forall s h A c s' h' outs,
  rel id s h (A, c) -> Mrun_ops h ops s = (s', (h', outs)) ->
  exists A' c', cruns (A, c) ops outs (A', c') /\ rel id s' h' (A', c').
Proof.
  induction ops as [|o ops IH]; intros s h A c s' h' outs HR; cbn [run_ops].
  - intros [= <- <- <-]. exists A, c. split; [constructor|assumption].
  - destruct (Mrun_op h o s) as [s1 [h1 r]] eqn:E1.
    destruct (Mrun_ops h1 ops s1) as [s2 [h2 rs]] eqn:E2. intros [= <- <- <-].
    destruct (run_op_refines id s h A c o s1 h1 r HR E1) as (A1 & c1 & HS & HR1).
    destruct (IH s1 h1 A1 c1 s2 h2 rs HR1 E2) as (A2 & c2 & HRs & HR2).
    exists A2, c2. split; [econstructor; eassumption|assumption].
Qed.

Lemma cstep_not_bad st o r st' : cstep st o r st' -> r <> OBad.
Proof. intros H; inversion H; discriminate. Qed.

Lemma cruns_not_bad st os rs st' : cruns st os rs st' -> ~ In OBad rs.
Proof.
  induction 1 as [|st o r st1 os rs st2 HS _ IH]; cbn [In]; [tauto|].
  intros [E|E]; [exact (cstep_not_bad _ _ _ _ HS E)|exact (IH E)].
Qed.

(* Every run of every operation sequence on a freshly opened handle, for every
   configured maximum buffer size m (values below STREAM_BUFFER_MIN included)
   and every fault pattern the store contract allows, is a run of the Vec +
   cursor contract from (V, 0); no step panics or runs out of fuel. *)
Theorem handle_trace_refines m id s V ops :
  content s id V ->
  exists h, Mnew id m s = (s, Ok h) /\
    b_max (h_buf h) = N.max m STREAM_BUFFER_MIN /\
    forall s' h' outs, Mrun_ops h ops s = (s', (h', outs)) ->
    exists A' c', cruns (V, 0) ops outs (A', c') /\ rel id s' h' (A', c') /\
                  h_total h' = lenN A' /\ ~ In OBad outs.
Proof.
  intro HC. destruct (hinv_new s id V m HC) as (h & E & HI & HA & HP & Hd & Hid & Hm).
  exists h. split; [exact E|]. split; [exact Hm|]. intros s' h' outs ER.
  assert (HR : rel id s h (V, 0)).
  { split; [exact Hid|]. exists V. repeat (split; [assumption|]). assumption. }
  destruct (run_ops_refines id ops s h V 0 s' h' outs HR ER) as (A' & c' & HRs & HR').
  exists A', c'. split; [exact HRs|]. split; [exact HR'|]. split.
  - destruct HR' as (_ & V' & _ & HI' & HA' & _). cbn [fst] in HA'. rewrite <- HA'.
    apply len_is_abs_len. exact HI'.
  - eapply cruns_not_bad. exact HRs.
Qed.

(* ========================================================================= *)
(* 6. The looping forms and independence of the buffer size                   *)
(* ========================================================================= *)
Local Notation Mread_exact := (read_exact_f St read_data write_data stream_len).
Local Notation Mread_to_end := (read_to_end_f St read_data write_data stream_len).
Local Notation Mwrite_all := (write_all_f St write_data stream_len).

Lemma takeN_split {A} a n (X : list A) :
  a <= n -> takeN a X ++ takeN (n - a) (dropN a X) = takeN n X.
Proof. intro H. list_ext. Qed.

Lemma takeN_dropN_id {A} a (X : list A) : takeN a X ++ dropN a X = X.
Proof.
  destruct (a <=? lenN X) eqn:E.
  - list_ext.
  - rewrite takeN_all, dropN_all by lia. apply app_nil_r.
Qed.

Lemma rel_intro id s h V :
  content s id V -> h_id h = id -> HInv V h -> rel id s h (absV h V, h_position h).
Proof. intros. split; [assumption|]. exists V. repeat (split; [assumption|]). split; reflexivity. Qed.

(* read_exact returns exactly the next n bytes of the abstract vector, or fails;
   it never panics and n units of fuel suffice (each round reads >= 1 byte) *)
Theorem read_exact_refines id fuel : forall s h A c n acc s' h' r,
  rel id s h (A, c) -> Mread_exact fuel h n acc s = (s', (h', r)) ->
  match r with
  | Ok bs => n <= lenN A - c /\ bs = acc ++ takeN n (dropN c A) /\ rel id s' h' (A, c + n)
  | Err k => exists c', rel id s' h' (A, c')
  | Panic _ => False
  | OutOfFuel => (fuel < N.to_nat n)%nat
  end.
Proof.
  induction fuel as [|f IH]; intros s h A c n acc s' h' r HR; cbn [read_exact_f];
    destruct (n =? 0) eqn:En.
  1,3: intros [= <- <- <-]; assert (n = 0) as -> by lia;
       (split; [lia|]); (split; [rewrite takeN_0, app_nil_r; reflexivity|]);
       replace (c + 0) with c by lia; exact HR.
  - intros [= <- <- <-]. lia.
  - destruct HR as (Hid & V & HC & HI & HA & HP). cbn [fst snd] in HA, HP.
    pose proof (h_read_refines s id V h n HC Hid HI) as HRd.
    destruct (Mread h n s) as [s1 [h1 r1]]. unfold op_refines in HRd.
    destruct HRd as (Hid1 & HRd).
    destruct r1 as [bs|k|p|]; try contradiction.
    + destruct HRd as (V1 & HC1 & HI1 & HA1 & HP1 & HB & HZ & HLe).
      rewrite HA in HA1, HB, HZ. rewrite HP in HP1, HB, HZ.
      assert (HR1 : rel id s1 h1 (A, c + lenN bs)).
      { split; [exact Hid1|]. exists V1. repeat (split; [assumption|]). assumption. }
      destruct (lenN bs =? 0) eqn:Eb.
      * intros [= <- <- <-]. eexists. exact HR1.
      * intro ER. specialize (IH s1 h1 A (c + lenN bs) (n - lenN bs) (acc ++ bs) s' h' r HR1 ER).
        assert (HLb : lenN bs <= lenN A - c).
        { rewrite HB. rewrite lenN_takeN, lenN_dropN. lia. }
        assert (Hc : c <= lenN A).
        { pose proof (len_is_abs_len V h HI). hfacts HI. unfold h_position in HP. rewrite HA in *. lia. }
        destruct r as [out|k|p|]; try assumption.
        -- destruct IH as (I1 & I2 & I3). split; [lia|]. split.
           ++ rewrite I2, <- app_assoc. f_equal. rewrite HB at 1.
              rewrite <- dropN_dropN. apply takeN_split. exact HLe.
           ++ replace (c + n) with (c + lenN bs + (n - lenN bs)) by lia. exact I3.
        -- lia.
    + intros [= <- <- <-]. destruct HRd as (V1 & HC1 & HI1 & HA1 & HP1).
      exists c. split; [exact Hid1|]. exists V1. repeat (split; [assumption|]).
      cbn [fst snd]. split; congruence.
Qed.

(* read_to_end (chunked) returns the rest of the abstract vector *)
Theorem read_to_end_refines id chunk fuel : 0 < chunk -> forall s h A c acc s' h' r,
  rel id s h (A, c) -> Mread_to_end fuel chunk h acc s = (s', (h', r)) ->
  match r with
  | Ok bs => bs = acc ++ dropN c A /\ rel id s' h' (A, N.max c (lenN A))
  | Err k => exists c', rel id s' h' (A, c')
  | Panic _ => False
  | OutOfFuel => (fuel <= N.to_nat (lenN A - c))%nat
  end.
Proof.
  intro Hch. induction fuel as [|f IH]; intros s h A c acc s' h' r HR; cbn [read_to_end_f].
  - intros [= <- <- <-]. lia.
  - destruct HR as (Hid & V & HC & HI & HA & HP). cbn [fst snd] in HA, HP.
    pose proof (h_read_refines s id V h chunk HC Hid HI) as HRd.
    destruct (Mread h chunk s) as [s1 [h1 r1]]. unfold op_refines in HRd.
    destruct HRd as (Hid1 & HRd).
    destruct r1 as [bs|k|p|]; try contradiction.
    + destruct HRd as (V1 & HC1 & HI1 & HA1 & HP1 & HB & HZ & HLe).
      rewrite HA in HA1, HB, HZ. rewrite HP in HP1, HB, HZ.
      assert (HR1 : rel id s1 h1 (A, c + lenN bs)).
      { split; [exact Hid1|]. exists V1. repeat (split; [assumption|]). assumption. }
      assert (Hc : c <= lenN A).
      { pose proof (len_is_abs_len V h HI). hfacts HI. unfold h_position in HP. rewrite HA in *. lia. }
      assert (HLb : lenN bs <= lenN A - c).
      { rewrite HB. rewrite lenN_takeN, lenN_dropN. lia. }
      destruct (lenN bs =? 0) eqn:Eb.
      * intros [= <- <- <-]. assert (Hend : c = lenN A) by lia.
        split.
        -- rewrite dropN_all by lia. rewrite app_nil_r. reflexivity.
        -- replace (N.max c (lenN A)) with (c + lenN bs) by lia. exact HR1.
      * intro ER. specialize (IH s1 h1 A (c + lenN bs) (acc ++ bs) s' h' r HR1 ER).
        destruct r as [out|k|p|]; try assumption.
        -- destruct IH as (I2 & I3). split.
           ++ rewrite I2, <- app_assoc. f_equal. rewrite HB at 1.
              rewrite <- dropN_dropN. apply takeN_dropN_id.
           ++ replace (N.max c (lenN A)) with (N.max (c + lenN bs) (lenN A)) by lia. exact I3.
        -- lia.
    + intros [= <- <- <-]. destruct HRd as (V1 & HC1 & HI1 & HA1 & HP1).
      exists c. split; [exact Hid1|]. exists V1. repeat (split; [assumption|]).
      cbn [fst snd]. split; congruence.
Qed.

Lemma spliceN_chunks (l : list byte) c k bs :
  c <= lenN l -> k <= lenN bs ->
  spliceN (spliceN l c (takeN k bs)) (c + k) (dropN k bs) = spliceN l c bs.
Proof.
  intros H1 H2.
  assert (HK : lenN (takeN k bs) = k) by (rewrite lenN_takeN; lia).
  rewrite <- HK at 2. rewrite spliceN_spliceN by lia. f_equal.
  rewrite HK. list_ext.
Qed.

(* write_all writes the whole buffer at the cursor, or fails having written a
   prefix of it; lenN bs units of fuel suffice (each round accepts >= 1 byte) *)
Theorem write_all_refines id fuel : forall s h A c bs s' h' r,
  rel id s h (A, c) -> Mwrite_all fuel h bs s = (s', (h', r)) ->
  match r with
  | Ok _ => rel id s' h' (spliceN A c bs, c + lenN bs)
  | Err k => exists j, j <= lenN bs /\ rel id s' h' (spliceN A c (takeN j bs), c + j)
  | Panic _ => False
  | OutOfFuel => (fuel < N.to_nat (lenN bs))%nat
  end.
Proof.
  induction fuel as [|f IH]; intros s h A c bs s' h' r HR.
  - destruct bs as [|b bs]; cbn [write_all_f]; intros [= <- <- <-].
    + destruct HR as (Hid & V & HC & HI & HA & HP). cbn [fst snd] in HA, HP.
      assert (Hc : c <= lenN A).
      { pose proof (len_is_abs_len V h HI). hfacts HI. unfold h_position in HP. rewrite HA in *. lia. }
      rewrite spliceN_nil_r by lia. cbn [lenN]. replace (c + 0) with c by lia.
      split; [exact Hid|]. exists V. repeat (split; [assumption|]). assumption.
    + cbn [lenN]. lia.
  - assert (HR0 := HR).
    destruct HR as (Hid & V & HC & HI & HA & HP). cbn [fst snd] in HA, HP.
    assert (Hc : c <= lenN A).
    { pose proof (len_is_abs_len V h HI). hfacts HI. unfold h_position in HP. rewrite HA in *. lia. }
    destruct bs as [|b bs0]; cbn [write_all_f].
    + intros [= <- <- <-]. rewrite spliceN_nil_r by lia. cbn [lenN].
      replace (c + 0) with c by lia. exact HR0.
    + set (bs := b :: bs0) in *.
      pose proof (h_write_refines s id V h bs HC Hid HI) as HW.
      destruct (Mwrite h bs s) as [s1 [h1 r1]]. unfold op_refines in HW.
      destruct HW as (Hid1 & HW).
      destruct r1 as [k|e|p|]; try contradiction.
      * destruct HW as (V1 & HC1 & HI1 & HZ & HLe & HA1 & HP1).
        rewrite HA, HP in HA1. rewrite HP in HP1.
        assert (HR1 : rel id s1 h1 (spliceN A c (takeN k bs), c + k)).
        { split; [exact Hid1|]. exists V1. repeat (split; [assumption|]). assumption. }
        destruct (k =? 0) eqn:Ek.
        -- intros [= <- <- <-]. exists k. split; [exact HLe|exact HR1].
        -- intro ER.
           specialize (IH s1 h1 _ _ (dropN k bs) s' h' r HR1 ER).
           destruct r as [u|e|p|]; try assumption.
           ++ rewrite spliceN_chunks in IH by lia. rewrite lenN_dropN in IH.
              replace (c + k + (lenN bs - k)) with (c + lenN bs) in IH by lia. exact IH.
           ++ destruct IH as (j & Hj & IH). rewrite lenN_dropN in Hj.
              exists (k + j). split; [lia|].
              assert (E1 : takeN k (takeN (k + j) bs) = takeN k bs) by (rewrite takeN_takeN; f_equal; lia).
              assert (E2 : dropN k (takeN (k + j) bs) = takeN j (dropN k bs))
                by (rewrite dropN_takeN; f_equal; lia).
              rewrite <- (spliceN_chunks A c k (takeN (k + j) bs)); [|lia|rewrite lenN_takeN; lia].
              rewrite E1, E2. replace (c + (k + j)) with (c + k + j) by lia. exact IH.
           ++ rewrite lenN_dropN in IH. lia.
      * intros [= <- <- <-]. destruct HW as (V1 & HC1 & HI1 & HA1 & HP1).
        exists 0. split; [lia|]. rewrite takeN_0, spliceN_nil_r by lia.
        replace (c + 0) with c by lia.
        split; [exact Hid1|]. exists V1. repeat (split; [assumption|]).
        cbn [fst snd]. split; congruence.
Qed.

(* What the looping forms return, and the abstract state they leave, is a
   function of the abstract state alone.  In particular two handles with
   different maximum buffer sizes (and arbitrarily different buffer contents,
   window offsets and dirty markers, even over different store states) that
   represent the same (A, c) cannot be told apart. *)
Theorem buffer_size_irrelevant_read_exact id1 id2 f1 f2 s1 s2 h1 h2 A c n s1' s2' h1' h2' bs1 bs2 :
  rel id1 s1 h1 (A, c) -> rel id2 s2 h2 (A, c) ->
  Mread_exact f1 h1 n [] s1 = (s1', (h1', Ok bs1)) ->
  Mread_exact f2 h2 n [] s2 = (s2', (h2', Ok bs2)) ->
  bs1 = bs2 /\ bs1 = takeN n (dropN c A) /\
  rel id1 s1' h1' (A, c + n) /\ rel id2 s2' h2' (A, c + n).
Proof.
  intros R1 R2 E1 E2.
  pose proof (read_exact_refines id1 f1 _ _ _ _ _ _ _ _ _ R1 E1) as (_ & B1 & Q1).
  pose proof (read_exact_refines id2 f2 _ _ _ _ _ _ _ _ _ R2 E2) as (_ & B2 & Q2).
  cbn [app] in B1, B2. split; [congruence|]. split; [exact B1|]. split; assumption.
Qed.

Theorem buffer_size_irrelevant_read_to_end id1 id2 k1 k2 f1 f2 s1 s2 h1 h2 A c s1' s2' h1' h2' bs1 bs2 :
  0 < k1 -> 0 < k2 ->
  rel id1 s1 h1 (A, c) -> rel id2 s2 h2 (A, c) ->
  Mread_to_end f1 k1 h1 [] s1 = (s1', (h1', Ok bs1)) ->
  Mread_to_end f2 k2 h2 [] s2 = (s2', (h2', Ok bs2)) ->
  bs1 = bs2 /\ bs1 = dropN c A /\
  rel id1 s1' h1' (A, N.max c (lenN A)) /\ rel id2 s2' h2' (A, N.max c (lenN A)).
Proof.
  intros K1 K2 R1 R2 E1 E2.
  pose proof (read_to_end_refines id1 k1 f1 K1 _ _ _ _ _ _ _ _ R1 E1) as (B1 & Q1).
  pose proof (read_to_end_refines id2 k2 f2 K2 _ _ _ _ _ _ _ _ R2 E2) as (B2 & Q2).
  cbn [app] in B1, B2. split; [congruence|]. split; [exact B1|]. split; assumption.
Qed.

Theorem buffer_size_irrelevant_write_all id1 id2 f1 f2 s1 s2 h1 h2 A c bs s1' s2' h1' h2' :
  rel id1 s1 h1 (A, c) -> rel id2 s2 h2 (A, c) ->
  Mwrite_all f1 h1 bs s1 = (s1', (h1', Ok tt)) ->
  Mwrite_all f2 h2 bs s2 = (s2', (h2', Ok tt)) ->
  rel id1 s1' h1' (spliceN A c bs, c + lenN bs) /\
  rel id2 s2' h2' (spliceN A c bs, c + lenN bs).
Proof.
  intros R1 R2 E1 E2.
  pose proof (write_all_refines id1 f1 _ _ _ _ _ _ _ _ R1 E1) as Q1.
  pose proof (write_all_refines id2 f2 _ _ _ _ _ _ _ _ R2 E2) as Q2.
  split; assumption.
Qed.

End HandleRefinement.

(* ========================================================================= *)
(* 7. The store contract is satisfiable (the Section above is not vacuous)    *)
(* ========================================================================= *)

(* 7.1 a fault-free store: one stream, the state is its byte vector *)
Module VecStore.
Definition St := list byte.
Definition rd (id off n : N) (s : St) : St * res (list byte) := (s, Ok (takeN n (dropN off s))).
Definition wr (id off : N) (buf : list byte) (s : St) : St * res unit := (spliceN s off buf, Ok tt).
Definition rs (id n : N) (s : St) : St * res unit := (takeN n s ++ repeatN 0 (n - lenN s), Ok tt).
Definition sl (id : N) (s : St) : St * res N := (s, Ok (lenN s)).
Definition content (s : St) (id : N) (V : list byte) : Prop := s = V.

Example vec_store_contract : store_contract St rd wr rs sl content.
Proof.
  constructor.
  - intros s id V ->. reflexivity.
  - intros s id V off n -> Ho Hn. eexists _, _. split; [reflexivity|]. split; [reflexivity|].
    left. rewrite <- (lenN_dropN off V), takeN_min_len. reflexivity.
  - intros s id V off buf -> Ho. eexists _, _. split; [reflexivity|]. left. split; reflexivity.
  - intros s id V n ->. eexists _, _. split; [reflexivity|]. left. split; reflexivity.
Qed.

Definition vec_trace_refines := handle_trace_refines St rd wr rs sl content vec_store_contract.
End VecStore.

(* 7.2 a faulty store: the state carries a schedule; entry None lets the next
   access succeed, entry Some j makes it fail, a failing write being torn after
   the first j bytes of the buffer *)
Module FaultStore.
Definition St := (list byte * list (option N))%type.
Definition next (s : St) : option N * list (option N) :=
  match snd s with [] => (None, []) | f :: t => (f, t) end.
Definition rd (id off n : N) (s : St) : St * res (list byte) :=
  let '(f, t) := next s in
  match f with
  | None => ((fst s, t), Ok (takeN n (dropN off (fst s))))
  | Some _ => ((fst s, t), Err EOther)
  end.
Definition wr (id off : N) (buf : list byte) (s : St) : St * res unit :=
  let '(f, t) := next s in
  match f with
  | None => ((spliceN (fst s) off buf, t), Ok tt)
  | Some j => ((spliceN (fst s) off (takeN j buf), t), Err EOther)
  end.
Definition rs (id n : N) (s : St) : St * res unit :=
  let '(f, t) := next s in
  match f with
  | None => ((takeN n (fst s) ++ repeatN 0 (n - lenN (fst s)), t), Ok tt)
  | Some _ => ((fst s, t), Err EOther)
  end.
Definition sl (id : N) (s : St) : St * res N := (s, Ok (lenN (fst s))).
Definition content (s : St) (id : N) (V : list byte) : Prop := fst s = V.

Lemma torn_prefix (V : list byte) off W : off <= lenN V -> takeN off (spliceN V off W) = takeN off V.
Proof. intro H. list_ext. Qed.

Lemma torn_suffix (V : list byte) off buf j :
  off <= lenN V ->
  dropN (off + lenN buf) (spliceN V off (takeN j buf)) = dropN (off + lenN buf) V.
Proof. intro H. list_ext. Qed.

Example fault_store_contract : store_contract St rd wr rs sl content.
Proof.
  constructor.
  - intros s id V <-. reflexivity.
  - intros [v sch] id V off n HC Ho Hn. unfold content in *. cbn [fst] in HC. subst V.
    unfold rd, next. cbn [fst snd].
    destruct sch as [|[j|] t]; eexists _, _; (split; [reflexivity|]); (split; [reflexivity|]).
    + left. rewrite <- (lenN_dropN off v), takeN_min_len. reflexivity.
    + right. eexists. reflexivity.
    + left. rewrite <- (lenN_dropN off v), takeN_min_len. reflexivity.
  - intros [v sch] id V off buf HC Ho. unfold content in *. cbn [fst] in HC. subst V.
    unfold wr, next. cbn [fst snd].
    destruct sch as [|[j|] t]; eexists _, _; (split; [reflexivity|]).
    + left. split; reflexivity.
    + right. eexists _, _. split; [reflexivity|]. cbn [fst].
      split; [reflexivity|]. split; [apply torn_prefix; exact Ho|apply torn_suffix; exact Ho].
    + left. split; reflexivity.
  - intros [v sch] id V n HC. unfold content in *. cbn [fst] in HC. subst V.
    unfold rs, next. cbn [fst snd].
    destruct sch as [|[j|] t]; eexists _, _; (split; [reflexivity|]).
    + left. split; reflexivity.
    + right. eexists. split; reflexivity.
    + left. split; reflexivity.
Qed.

Definition fault_trace_refines := handle_trace_refines St rd wr rs sl content fault_store_contract.
End FaultStore.

(* 7.3 two concrete runs (evaluated): the observable outcomes are those of a
   Vec + cursor; in the second the first write-back is torn after one byte and
   the first refill fails, and neither is observable afterwards *)
Definition demo_run {St} rd wr rs sl (s0 : St) (ops : list hop) : option (St * list hout) :=
  match handle_new St sl 0 0 s0 with
  | (s, Ok h) => let '(s', (_, outs)) := run_ops St rd wr rs sl h ops s in Some (s', outs)
  | _ => None
  end.

Example vec_demo :
  demo_run VecStore.rd VecStore.wr VecStore.rs VecStore.sl []
    [HWrite [1;2;3]; HSeek WStart 1; HRead 5; HSetLen 5; HSeek WEnd (-5)%Z;
     HRead 10; HFlush; HLen; HSeek WCur 7%Z]
  = Some ([1;2;3;0;0],
          [ONum 3; ONum 1; OBytes [2;3]; OUnit; ONum 0;
           OBytes [1;2;3;0;0]; OUnit; ONum 5; OErr EInvalidInput]).
Proof. vm_compute. reflexivity. Qed.

Example fault_demo :
  demo_run FaultStore.rd FaultStore.wr FaultStore.rs FaultStore.sl
    ([9;9;9;9], [Some 1; None; Some 0; None])
    [HSeek WStart 1; HWrite [1;2]; HFlush; HFlush; HSeek WStart 0; HRead 10; HRead 10]
  = Some (([9;1;2;9], []),
          [ONum 1; ONum 2; OErr EOther; OUnit; ONum 0; OErr EOther; OBytes [9;1;2;9]]).
Proof. vm_compute. reflexivity. Qed.

(* a failing resize inside set_len: length, cursor and content are what they were *)
Example fault_demo_resize :
  demo_run FaultStore.rd FaultStore.wr FaultStore.rs FaultStore.sl
    ([1;2;3], [Some 0; None])
    [HSeek WStart 2; HSetLen 1; HLen; HPos; HSetLen 1; HPos; HRead 5]
  = Some (([1], []),
          [ONum 2; OErr EOther; ONum 3; ONum 2; OUnit; ONum 1; OBytes []]).
Proof. vm_compute. reflexivity. Qed.

(* ========================================================================= *)
(* 8. Assumptions                                                             *)
(* ========================================================================= *)
Print Assumptions hinv_new.
Print Assumptions flush_changes_refines.
Print Assumptions h_fill_buf_refines.
Print Assumptions h_read_refines.
Print Assumptions h_consume_refines.
Print Assumptions h_write_refines.
Print Assumptions h_seek_refines.
Print Assumptions h_seek_invalid.
Print Assumptions h_set_len_refines.
Print Assumptions h_flush_refines.
Print Assumptions flush_ok_durable.
Print Assumptions len_is_abs_len.
Print Assumptions h_read_progress.
Print Assumptions h_write_progress.
Print Assumptions handle_trace_refines.
Print Assumptions read_exact_refines.
Print Assumptions read_to_end_refines.
Print Assumptions write_all_refines.
Print Assumptions buffer_size_irrelevant_read_exact.
Print Assumptions buffer_size_irrelevant_read_to_end.
Print Assumptions buffer_size_irrelevant_write_all.
Print Assumptions VecStore.vec_store_contract.
Print Assumptions FaultStore.fault_store_contract.
