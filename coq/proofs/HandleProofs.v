(* HandleProofs.v — the buffered stream handle of model/Handle.v refines the
   Vec + cursor contract of spec/VecSpec.v, over every store that satisfies
   store_contract, for every buffer size and every operation sequence. *)
From Coq Require Import List NArith ZArith Bool Lia ZifyBool ZifyN.
From Cfb.model Require Import Base Handle.
From Cfb.gen Require Import Consts.
From Cfb.spec Require Import VecSpec.
Import ListNotations.
Open Scope N_scope.

(* ========================================================================= *)
(* 1. Lists measured by N                                                     *)
(* ========================================================================= *)
Section ListN.
Context {A : Type}.
Implicit Types (l : list A) (n i : N).

Lemma lenN_nil : lenN (@nil A) = 0.
Proof. reflexivity. Qed.

Lemma lenN_cons x l : lenN (x :: l) = lenN l + 1.
Proof. cbn [lenN]. lia. Qed.

Lemma lenN_app l1 l2 : lenN (l1 ++ l2) = lenN l1 + lenN l2.
Proof.
  induction l1 as [|x t IH]; cbn [app lenN]; [lia|]. rewrite IH. lia.
Qed.

Lemma lenN_takeN n l : lenN (takeN n l) = N.min n (lenN l).
Proof.
  revert n. induction l as [|x t IH]; intro n; cbn [takeN lenN]; [lia|].
  destruct (n =? 0) eqn:E; cbn [lenN]; [lia|]. rewrite IH. lia.
Qed.

Lemma lenN_dropN n l : lenN (dropN n l) = lenN l - n.
Proof.
  revert n. induction l as [|x t IH]; intro n; cbn [dropN lenN]; [lia|].
  destruct (n =? 0) eqn:E; cbn [lenN]; [lia|]. rewrite IH. lia.
Qed.

Lemma repeatN_succ (x : A) n : repeatN x (N.succ n) = x :: repeatN x n.
Proof. unfold repeatN. rewrite N.iter_succ. reflexivity. Qed.

Lemma lenN_repeatN (x : A) n : lenN (repeatN x n) = n.
Proof.
  induction n as [|n IH] using N.peano_ind; [reflexivity|].
  rewrite repeatN_succ. cbn [lenN]. rewrite IH. reflexivity.
Qed.

Lemma lenN_0_nil l : lenN l = 0 -> l = [].
Proof. destruct l; [reflexivity|]. cbn [lenN]. lia. Qed.

Lemma nthN_nil i : nthN (@nil A) i = None.
Proof. reflexivity. Qed.

Lemma nthN_ge l i : lenN l <= i -> nthN l i = None.
Proof.
  revert i. induction l as [|x t IH]; intros i H; cbn [nthN]; [reflexivity|].
  cbn [lenN] in H. destruct (i =? 0) eqn:E; [lia|]. apply IH. lia.
Qed.

Lemma nthN_app l1 l2 i :
  nthN (l1 ++ l2) i = if i <? lenN l1 then nthN l1 i else nthN l2 (i - lenN l1).
Proof.
  revert i. induction l1 as [|x t IH]; intro i; cbn [app lenN nthN].
  - destruct (i <? 0) eqn:E; [lia|]. f_equal. lia.
  - destruct (i =? 0) eqn:E0.
    + destruct (i <? N.succ (lenN t)) eqn:E; [reflexivity|lia].
    + rewrite IH.
      replace (N.pred i <? lenN t) with (i <? N.succ (lenN t)) by lia.
      destruct (i <? N.succ (lenN t)); [reflexivity|]. f_equal. lia.
Qed.

Lemma nthN_takeN n l i : nthN (takeN n l) i = if i <? n then nthN l i else None.
Proof.
  revert n i. induction l as [|x t IH]; intros n i; cbn [takeN nthN].
  - destruct (i <? n); reflexivity.
  - destruct (n =? 0) eqn:En.
    + cbn [nthN]. destruct (i <? n) eqn:E; [lia|reflexivity].
    + cbn [nthN]. destruct (i =? 0) eqn:Ei.
      * destruct (i <? n) eqn:E; [reflexivity|lia].
      * rewrite IH. replace (N.pred i <? N.pred n) with (i <? n) by lia. reflexivity.
Qed.

Lemma nthN_dropN n l i : nthN (dropN n l) i = nthN l (n + i).
Proof.
  revert n i. induction l as [|x t IH]; intros n i; cbn [dropN nthN]; [reflexivity|].
  destruct (n =? 0) eqn:En.
  - cbn [nthN]. replace (n + i) with i by lia. reflexivity.
  - rewrite IH. destruct (n + i =? 0) eqn:E; [lia|]. f_equal. lia.
Qed.

Lemma nthN_repeatN (x : A) n i : nthN (repeatN x n) i = if i <? n then Some x else None.
Proof.
  revert i. induction n as [|n IH] using N.peano_ind; intro i.
  - cbn. destruct (i <? 0) eqn:E; [lia|reflexivity].
  - rewrite repeatN_succ. cbn [nthN]. destruct (i =? 0) eqn:Ei.
    + destruct (i <? N.succ n) eqn:E; [reflexivity|lia].
    + rewrite IH. replace (N.pred i <? n) with (i <? N.succ n) by lia. reflexivity.
Qed.

Lemma nthN_ext l1 l2 : (forall i, nthN l1 i = nthN l2 i) -> l1 = l2.
Proof.
  revert l2. induction l1 as [|x t IH]; intros [|y u] H.
  - reflexivity.
  - specialize (H 0). cbn in H. discriminate.
  - specialize (H 0). cbn in H. discriminate.
  - f_equal.
    + specialize (H 0). cbn in H. congruence.
    + apply IH. intro i. specialize (H (N.succ i)). cbn [nthN] in H.
      destruct (N.succ i =? 0) eqn:E; [lia|]. rewrite N.pred_succ in H. exact H.
Qed.

End ListN.

(* Extensional equality of list expressions built from ++, takeN, dropN,
   repeatN, spliceN: compare the i-th elements, split on every comparison. *)
Ltac nth_rw :=
  repeat first
    [ rewrite nthN_app | rewrite nthN_takeN | rewrite nthN_dropN | rewrite nthN_repeatN
    | rewrite nthN_nil
    | rewrite lenN_app | rewrite lenN_takeN | rewrite lenN_dropN | rewrite lenN_repeatN
    | progress cbn [lenN] ].
Ltac nth_close :=
  first [ reflexivity
        | (f_equal; lia)
        | (symmetry; apply nthN_ge; nth_rw; lia)
        | (apply nthN_ge; nth_rw; lia)
        | (exfalso; lia) ].
Ltac case_ltb :=
  repeat match goal with
         | |- context [if ?a <? ?b then _ else _] =>
           destruct (a <? b) eqn:?; cbv iota
         end.
Ltac list_ext :=
  apply nthN_ext; intro; unfold spliceN; nth_rw; case_ltb; nth_close.

Section ListFacts.

Lemma takeN_0 {A} (l : list A) : takeN 0 l = [].
Proof. destruct l; reflexivity. Qed.

Lemma dropN_0 {A} (l : list A) : dropN 0 l = l.
Proof. destruct l; reflexivity. Qed.

Lemma takeN_all {A} n (l : list A) : lenN l <= n -> takeN n l = l.
Proof. intro H. list_ext. Qed.

Lemma dropN_all {A} n (l : list A) : lenN l <= n -> dropN n l = [].
Proof. intro H. list_ext. Qed.

Lemma takeN_min_len {A} n (l : list A) : takeN (N.min n (lenN l)) l = takeN n l.
Proof. list_ext. Qed.

Lemma takeN_app_exact {A} (l1 l2 : list A) n : lenN l1 = n -> takeN n (l1 ++ l2) = l1.
Proof. intro H. list_ext. Qed.

Lemma takeN_takeN {A} a b (l : list A) : takeN a (takeN b l) = takeN (N.min a b) l.
Proof. list_ext. Qed.

Lemma dropN_dropN {A} a b (l : list A) : dropN a (dropN b l) = dropN (b + a) l.
Proof. list_ext. Qed.

Lemma dropN_takeN {A} a b (l : list A) : dropN a (takeN b l) = takeN (b - a) (dropN a l).
Proof. list_ext. Qed.

Lemma lenN_spliceN l off bs : lenN (spliceN l off bs) = N.max (lenN l) (off + lenN bs).
Proof. unfold spliceN. nth_rw. lia. Qed.

Lemma spliceN_nil_r l off : off <= lenN l -> spliceN l off [] = l.
Proof. intro H. list_ext. Qed.

Lemma spliceN_nil_l bs : spliceN [] 0 bs = bs.
Proof. list_ext. Qed.

(* writing back what is already there *)
Lemma spliceN_same l off n : off + n <= lenN l -> spliceN l off (takeN n (dropN off l)) = l.
Proof. intro H. list_ext. Qed.

(* the window of a spliced vector *)
Lemma spliceN_window l off bs :
  off <= lenN l -> takeN (lenN bs) (dropN off (spliceN l off bs)) = bs.
Proof. intro H. list_ext. Qed.

(* a write inside / adjacent to a pending window can be merged into the window *)
Lemma spliceN_spliceN l off F pos W :
  off <= lenN l -> pos <= lenN F ->
  spliceN (spliceN l off F) (off + pos) W = spliceN l off (spliceN F pos W).
Proof. intros H1 H2. list_ext. Qed.

Lemma dropN_spliceN l off F pos :
  off <= lenN l -> pos <= lenN F ->
  dropN pos F = takeN (lenN F - pos) (dropN (off + pos) (spliceN l off F)).
Proof. intros H1 H2. list_ext. Qed.

(* a torn write is invisible under the pending window *)
Lemma spliceN_agree l l' off bs :
  takeN off l' = takeN off l ->
  dropN (off + lenN bs) l' = dropN (off + lenN bs) l ->
  spliceN l' off bs = spliceN l off bs.
Proof. intros H1 H2. unfold spliceN. rewrite H1, H2. reflexivity. Qed.

Lemma agree_len l l' off n :
  takeN off l' = takeN off l -> dropN (off + n) l' = dropN (off + n) l ->
  off <= lenN l ->
  off <= lenN l' /\ N.max (lenN l') (off + n) = N.max (lenN l) (off + n).
Proof.
  intros H1 H2 H.
  apply (f_equal lenN) in H1. apply (f_equal lenN) in H2.
  rewrite !lenN_takeN in H1. rewrite !lenN_dropN in H2. lia.
Qed.

End ListFacts.
